(* Executable checkers of the C09 correspondence run.  One case = the input of one modelled
   function, what the oracles (libraries) answered where the harness can know it, and what the
   implementation did (through the real JSON-RPC method table); [bad09] returns the ids of the
   cases on which Model/Requests.v predicts something else. *)
From Brc.Model Require Import Base Base64 Nada Payload Logs ReadSlot Requests.

(* outcome classes of a request: 0 = Ok, 1 = Err, 2 = Panic *)
Definition cls {A} (r : res A) : N := match r with Ok _ => 0 | Err => 1 | Panic => 2 end.

Definition mode_of (k : N) : ovf := if k =? 0 then Checked else Wrapping.

(* what the EVM-level observation of a precompile call can tell apart *)
Inductive pcobs : Type :=
| OOut (w : list N)      (* success; the decoded return words (empty = not compared) *)
| OErr                   (* Halt PrecompileError (the message does not reach the caller) *)
| OOog                   (* Halt OutOfGas *)
| OPanic.

Definition words_eqb (a b : list N) : bool := list_eqb N.eqb a b.

Definition pc_agrees (m : res pc_out) (o : pcobs) (compare_words : bool) : bool :=
  match m, o with
  | Ok (PcOut w), OOut w' => if compare_words then words_eqb w w' else true
  | Ok (PcErr _), OErr => true
  | Ok PcOog, OOog => true
  | Panic, OPanic => true
  | _, _ => false
  end.

Fixpoint lookup_tx (l : list (N * btx)) (k : N) : option btx :=
  match l with
  | [] => None
  | (k', t) :: r => if k' =? k then Some t else lookup_tx r k
  end.

Inductive case09 :=
(* std::str::from_utf8(bytes).is_ok() *)
| CUtf8 (id : N) (s : list N) (valid : bool)
(* u64::from_str_radix(s, radix) *)
| CRadix (id : N) (radix : N) (s : list N) (out : option N)
(* eth_getBlockByNumber(s) on an engine of height [latest]:
   0 = block [val] returned, 1 = "Block not found", 2 = "Invalid block number", 3 = panic *)
| CParse (id : N) (latest next : N) (s : list N) (out val : N)
(* eth_getLogs {fromBlock, toBlock}: class *)
| CLogs (id : N) (mode latest next : N) (from to : option (list N)) (c : N)
(* eth_getBlockTransactionCountByNumber(s): class *)
| CTxCount (id : N) (mode latest next : N) (s : list N) (c : N)
(* brc20_mine(count): class and number of finalise_block write sections *)
| CMine (id : N) (mode : N) (genesis_missing open : bool) (next count : N) (c calls : N)
(* brc20_initialise(hash, ts, height) on an empty database: panicked? *)
| CInit (id : N) (mode : N) (hash_zero : bool) (height : N) (panicked : bool)
(* eth_estimateGas answered [g] after [reads] executions *)
| CBisect (id : N) (limit gpb g reads : N)
(* the precompiles, through eth_call / eth_callMany *)
| CLocked (id : N) (mode gas : N) (dec : option (list N * N)) (o : pcobs)
| CDetails (id : N) (mode gas blockh : N) (dec : option N) (txs : list (N * btx)) (o : pcobs)
| CLastSat (id : N) (mode gas blockh : N) (dec : option (N * N * N)) (txs : list (N * btx)) (o : pcobs)
| CBip (id : N) (gas input_len : N) (dec_ok : bool) (addr : option addr_kind)
       (wit : option (list (list N))) (second_uncompressed : bool) (o : pcobs)
| COpReturn (id : N) (gas : N) (o : pcobs)
(* select_bytes(raw, base64): class *)
| CSelect (id : N) (raw b64 : option (option (list N))) (c : N).

Definition case_id (c : case09) : N :=
  match c with
  | CUtf8 i _ _ | CRadix i _ _ _ | CParse i _ _ _ _ _ | CLogs i _ _ _ _ _ _ | CTxCount i _ _ _ _ _
  | CMine i _ _ _ _ _ _ _ | CInit i _ _ _ _ | CBisect i _ _ _ _ | CLocked i _ _ _ _
  | CDetails i _ _ _ _ _ _ | CLastSat i _ _ _ _ _ _ | CBip i _ _ _ _ _ _ _ | COpReturn i _ _
  | CSelect i _ _ _ => i
  end.

Section Check.
  Variable fx : fixes.
  Variables G_BTC G_LOCKED G_BIP G_OPRET LIMIT : N.

  Definition check09 (c : case09) : bool :=
    match c with
    | CUtf8 _ s v => Bool.eqb (utf8_valid s) v
    | CRadix _ radix s out => opt_eqb N.eqb (from_str_radix radix s) out
    | CParse _ latest next s out val =>
        match parse_block_number (Ok latest) (Ok next) s with
        | Ok n => if n <=? latest then (out =? 0) && (val =? n) else (out =? 1)
        | Err => out =? 2
        | Panic => out =? 3
        end
    | CLogs _ mode latest next from to c =>
        cls (eth_get_logs_front fx (mode_of mode) (Ok latest) (Ok next) from to) =? c
    | CTxCount _ mode latest next s c =>
        cls (do n <- parse_block_number (Ok latest) (Ok next) s; block_tx_count_range fx (mode_of mode) n) =? c
    | CMine _ mode gm open next count c calls =>
        let r := mine_blocks (fun (st : unit) (_ : N) => (st, Ok tt)) fx (mode_of mode) tt open (Ok next) (Ok gm) count in
        (cls (ms_res r) =? c) && (ms_calls r =? calls)
    | CInit _ mode hz height p =>
        Bool.eqb (is_panic (initialise_front fx (mode_of mode) hz height (@Err unit))) p
    | CBisect _ limit gpb g reads =>
        match bisect (fun (st : unit) mid => (st, Ok (Some (g <=? mid)))) 65 fx Checked gpb tt 21000 limit 0 with
        | Some (_, Ok (g', it)) => (g' =? g) && (it + 2 =? reads)
        | _ => false
        end
    | CLocked _ mode gas dec o =>
        pc_agrees (get_locked_pkscript fx (mode_of mode) G_LOCKED gas dec (fun _ => Some [])) o false
    | CDetails _ mode gas blockh dec txs o =>
        pc_agrees (btc_tx_details (fun k => match lookup_tx txs k with Some t => Some (t, Some 0) | None => None end)
                                  (lookup_tx txs) (fun _ => Some 0) G_BTC (mode_of mode) gas blockh dec) o true
    | CLastSat _ mode gas blockh dec txs o =>
        pc_agrees (last_sat_location (fun k => match lookup_tx txs k with Some t => Some (t, Some 0) | None => None end)
                                     (lookup_tx txs) (fun _ => Some 0) G_BTC fx (mode_of mode) gas blockh dec) o true
    | CBip _ gas input_len dec_ok addr wit unc o =>
        let ku := fun (_ : list N) => unc in
        (* no case carries a valid signature: the library answers Err unless it panics *)
        let lib := fun a (_ : N) w => if lib_panic_shape ku a w then @Panic unit else Err in
        pc_agrees (bip322_verify fx G_BIP gas input_len (if dec_ok then Some (0, 0, 0) else None)
                                 (fun _ => addr) (fun _ => wit) ku lib) o false
    | COpReturn _ gas o => pc_agrees (op_return_tx_id G_OPRET gas 0) o false
    | CSelect _ raw b64 c =>
        cls (select_bytes (fun _ _ => None) (fun _ => None) LIMIT Payload.CURRENT raw b64) =? c
    end.
End Check.

Definition bad09 (G_BTC G_LOCKED G_BIP G_OPRET LIMIT : N) (cs : list case09) : list N :=
  map case_id (filter (fun c => negb (check09 CURRENT09 G_BTC G_LOCKED G_BIP G_OPRET LIMIT c)) cs).
