(* The `nada` crate 0.2.2 (zero-run compression): transcription of encoder.rs, decoder.rs and
   lib.rs.  Vec::push is [out ++ [b]].  u8 fields are N; the places where the Rust code would
   panic (the explicit panic! in flush_ff, `+= 1` on a u8 holding 255) are [Panic].
   Executable definitions only. *)
From Brc.Model Require Import Base Base64.

(* ---- encoder.rs ---- *)
Record enc := { e_zero : N; e_ff : N; e_out : list N }.

Definition enc_new : enc := {| e_zero := 0; e_ff := 0; e_out := [] |}.

Definition flush_zeroes (e : enc) : enc :=
  let z := e_zero e in
  if z =? 0 then e
  else if z =? 1 then {| e_zero := 0; e_ff := e_ff e; e_out := e_out e ++ [0] |}
  else if z =? 2 then {| e_zero := 0; e_ff := e_ff e; e_out := e_out e ++ [0; 0] |}
  else (* 3..=255 *) {| e_zero := 0; e_ff := e_ff e; e_out := e_out e ++ [255; z] |}.

Definition flush_ff (e : enc) : res enc :=
  let f := e_ff e in
  if f =? 0 then Ok e
  else if f =? 1 then Ok {| e_zero := e_zero e; e_ff := 0; e_out := e_out e ++ [255; 1] |}
  else if f =? 2 then Ok {| e_zero := e_zero e; e_ff := 0; e_out := e_out e ++ [255; 2] |}
  else Panic (* panic!("ff_run should never be greater than 2") *).

Definition enc_flush (e : enc) : res enc := flush_ff (flush_zeroes e).

Definition feed_zero (e : enc) : res enc :=
  do e1 <- flush_ff e;
  if 255 <=? e_zero e1 then Panic (* u8 overflow of zero_run += 1 *) else
  let e2 := {| e_zero := e_zero e1 + 1; e_ff := e_ff e1; e_out := e_out e1 |} in
  if e_zero e2 =? 255 then Ok (flush_zeroes e2) else Ok e2.

Definition feed_ff (e : enc) : res enc :=
  let e1 := flush_zeroes e in
  if 255 <=? e_ff e1 then Panic (* u8 overflow of ff_run += 1 *) else
  let e2 := {| e_zero := e_zero e1; e_ff := e_ff e1 + 1; e_out := e_out e1 |} in
  if e_ff e2 =? 2 then flush_ff e2 else Ok e2.

Definition enc_feed (e : enc) (b : N) : res enc :=
  if b =? 0 then feed_zero e
  else if b =? 255 then feed_ff e
  else do e1 <- enc_flush e;
       Ok {| e_zero := e_zero e1; e_ff := e_ff e1; e_out := e_out e1 ++ [b] |}.

Fixpoint enc_run (e : enc) (l : list N) : res enc :=
  match l with
  | [] => Ok e
  | b :: r => do e' <- enc_feed e b; enc_run e' r
  end.

(* lib.rs: encode *)
Definition nada_encode (l : list N) : res (list N) :=
  do e <- enc_run enc_new l;
  do e' <- enc_flush e;
  Ok (e_out e').

(* ---- decoder.rs ---- *)
Record dec := { d_out : list N; d_wait : bool }.

Definition dec_new : dec := {| d_out := []; d_wait := false |}.

Definition zeros (n : N) : list N := repeat 0 (N.to_nat n).

(* feed: Err is any DecodeError *)
Definition dec_feed (d : dec) (b : N) : res dec :=
  if d_wait d then
    if b =? 0 then Err (* ReservedSequence *)
    else if b =? 1 then Ok {| d_out := d_out d ++ [255]; d_wait := false |}
    else if b =? 2 then Ok {| d_out := d_out d ++ [255; 255]; d_wait := false |}
    else Ok {| d_out := d_out d ++ zeros b; d_wait := false |}
  else
    if b =? 255 then Ok {| d_out := d_out d; d_wait := true |}
    else Ok {| d_out := d_out d ++ [b]; d_wait := false |}.

Definition dec_output (d : dec) : res (list N) :=
  if d_wait d then Err (* UnexpectedEOF *) else Ok (d_out d).

Fixpoint dec_run (d : dec) (l : list N) : res dec :=
  match l with
  | [] => Ok d
  | b :: r => do d' <- dec_feed d b; dec_run d' r
  end.

(* lib.rs: decode *)
Definition nada_decode (l : list N) : res (list N) :=
  do d <- dec_run dec_new l; dec_output d.

(* lib.rs: decode_with_limit -- after every fed byte, `if decoder.len() >= limit` is an error *)
Fixpoint dec_run_lim (limit : N) (d : dec) (l : list N) : res dec :=
  match l with
  | [] => Ok d
  | b :: r =>
      do d' <- dec_feed d b;
      if limit <=? len (d_out d') then Err (* LimitExceeded *) else dec_run_lim limit d' r
  end.

Definition nada_decode_with_limit (l : list N) (limit : N) : res (list N) :=
  do d <- dec_run_lim limit dec_new l; dec_output d.
