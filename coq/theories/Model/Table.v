(* L3: the versioned write-back table, mirroring
   src/db/cached_database/block_cached_database.rs (BlockCachedDatabase<K, V, C>).

   Keys are numbers: the tie drives the implementation with fixed-width big-endian keys,
   whose byte order is the numeric order (C14, order_u64).  RocksDB is an ordered total
   map with atomic put/delete ([kv], kept in key order).  The in-memory HashMap cache is an
   association list in *arbitrary* order: its order is part of the state, and results that
   must not depend on it are proved not to. *)
From Brc.Model Require Import Base History.

Section KV.
  Context {A : Type}.
  Definition kv : Type := list (N * A).

  Fixpoint kv_get (m : kv) (k : N) : option A :=
    match m with
    | [] => None
    | (k', a) :: t => if k' =? k then Some a else kv_get t k
    end.

  (* ordered insert-or-replace (RocksDB put) *)
  Fixpoint kv_put (m : kv) (k : N) (a : A) : kv :=
    match m with
    | [] => [(k, a)]
    | (k', a') :: t =>
        if k <? k' then (k, a) :: m
        else if k =? k' then (k, a) :: t
        else (k', a') :: kv_put t k a
    end.

  Fixpoint kv_del (m : kv) (k : N) : kv :=
    match m with
    | [] => []
    | (k', a') :: t => if k' =? k then kv_del t k else (k', a') :: kv_del t k
    end.

  (* HashMap insert: replace in place if present, otherwise the new entry lands at an
     unspecified position; the model puts it in front. *)
  Fixpoint hm_mem (m : kv) (k : N) : bool :=
    match m with
    | [] => false
    | (k', _) :: t => (k' =? k) || hm_mem t k
    end.
  Fixpoint hm_replace (m : kv) (k : N) (a : A) : kv :=
    match m with
    | [] => []
    | (k', a') :: t => if k' =? k then (k', a) :: t else (k', a') :: hm_replace t k a
    end.
  Definition hm_insert (m : kv) (k : N) (a : A) : kv :=
    if hm_mem m k then hm_replace m k a else (k, a) :: m.
End KV.
Arguments kv A : clear implicits.

Section Table.
  Context {V : Type}.
  Variable veq : V -> V -> bool.
  Variable W : N.

  Notation hist := (list (N * option V)).

  Record table : Type := mkTable {
    t_db : kv V;        (* RocksDB "name": latest values *)
    t_cdb : kv hist;    (* RocksDB "name_cache": persisted histories *)
    t_cache : kv hist;  (* HashMap<K, C> *)
  }.

  Definition t_empty : table := mkTable [] [] [].

  (* latest(key) *)
  Definition t_latest (t : table) (k : N) : res (option V) :=
    match kv_get (t_cache t) k with
    | Some h => h_latest h
    | None => Ok (kv_get (t_db t) k)
    end.

  (* retrieve_cache(key): the history the next write will extend *)
  Definition t_retrieve (t : table) (k : N) : hist :=
    match kv_get (t_cache t) k with
    | Some h => h
    | None =>
        match kv_get (t_cdb t) k with
        | Some h => h
        | None => h_new (kv_get (t_db t) k)
        end
    end.

  Definition t_with_cache (t : table) (k : N) (h : hist) : table :=
    mkTable (t_db t) (t_cdb t) (hm_insert (t_cache t) k h).

  (* Rust evaluates retrieve_cache (which inserts the entry into the HashMap) before the
     history operation can panic; a panic unwinds with the entry inserted, but the model
     only needs the outcome. *)
  Definition t_set (t : table) (b k : N) (v : V) : res table :=
    do h <- h_set veq W (t_retrieve t k) b v; Ok (t_with_cache t k h).

  Definition t_unset (t : table) (b k : N) : res table :=
    do h <- h_unset W (t_retrieve t k) b; Ok (t_with_cache t k h).

  (* commit(block_number): per cache entry two separate writes: a history that is kept is
     written before the latest row, a history that is dropped (is_old) is deleted after it;
     afterwards the cache is dropped.  (The order only matters for crashes: Proofs/TableP,
     crash_in_commit_recovers.) *)
  Definition commit_entry (b : N) (dc : kv V * kv hist) (e : N * hist) : res (kv V * kv hist) :=
    let '(d, c) := dc in
    let '(k, h) := e in
    let c' := if h_is_old W h b then kv_del c k else kv_put c k h in
    do l <- h_latest h;
    match l with
    | Some v => Ok (kv_put d k v, c')
    | None => Ok (kv_del d k, c')
    end.

  Fixpoint commit_entries (b : N) (dc : kv V * kv hist) (es : kv hist) : res (kv V * kv hist) :=
    match es with
    | [] => Ok dc
    | e :: t => do dc' <- commit_entry b dc e; commit_entries b dc' t
    end.

  Definition t_commit (t : table) (b : N) : res table :=
    do dc <- commit_entries b (t_db t, t_cdb t) (t_cache t);
    Ok (mkTable (fst dc) (snd dc) []).

  Definition t_clear (t : table) : table := mkTable (t_db t) (t_cdb t) [].

  (* reorg(n): every key with a persisted or cached history is loaded and rolled back, then
     commit(n) and clear. *)
  Fixpoint reorg_keys (t : table) (n : N) (ks : list N) : res table :=
    match ks with
    | [] => Ok t
    | k :: r =>
        do h <- h_reorg (t_retrieve t k) n;
        reorg_keys (t_with_cache t k h) n r
    end.

  Definition t_reorg (t : table) (n : N) : res table :=
    let ks := map fst (t_cdb t) ++ map fst (t_cache t) in
    do t1 <- reorg_keys t n ks;
    do t2 <- t_commit t1 n;
    Ok (t_clear t2).

  (* get_range(lo, hi): database rows in [lo, hi) overlaid with the cache entries in
     [lo, hi); the result is sorted by key. *)
  Definition in_range (lo hi k : N) : bool := (lo <=? k) && (k <? hi).

  Fixpoint overlay (acc : kv V) (es : kv hist) (lo hi : N) : res (kv V) :=
    match es with
    | [] => Ok acc
    | (k, h) :: r =>
        if in_range lo hi k then
          do l <- h_latest h;
          match l with
          | Some v => overlay (kv_put acc k v) r lo hi
          | None => overlay (kv_del acc k) r lo hi
          end
        else overlay acc r lo hi
    end.

  Definition t_get_range (t : table) (lo hi : N) : res (kv V) :=
    overlay (filter (fun e => in_range lo hi (fst e)) (t_db t)) (t_cache t) lo hi.

  (* all(): every row, overlaid with every cache entry (order unspecified; the model's is by key) *)
  Fixpoint overlay_all (acc : kv V) (es : kv hist) : res (kv V) :=
    match es with
    | [] => Ok acc
    | (k, h) :: r =>
        do l <- h_latest h;
        match l with
        | Some v => overlay_all (kv_put acc k v) r
        | None => overlay_all (kv_del acc k) r
        end
    end.
  Definition t_all (t : table) : res (kv V) := overlay_all (t_db t) (t_cache t).

  (* Operations as the component tie drives them.  Reopen = drop the process state. *)
  Inductive top : Type :=
  | TSet (b k : N) (v : V)
  | TUnset (b k : N)
  | TCommit (b : N)
  | TClear
  | TReorg (n : N).

  Definition t_step (t : table) (o : top) : res table :=
    match o with
    | TSet b k v => t_set t b k v
    | TUnset b k => t_unset t b k
    | TCommit b => t_commit t b
    | TClear => Ok (t_clear t)
    | TReorg n => t_reorg t n
    end.

  Fixpoint t_run (t : table) (ops : list top) : res table :=
    match ops with
    | [] => Ok t
    | o :: r => do t' <- t_step t o; t_run t' r
    end.
End Table.
