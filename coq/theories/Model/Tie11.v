(* Executable checkers used by the C11 correspondence run.  The harness extracts one lock
   program per (RPC method, path) from the running code and gives, for each, the verdict of
   its own independent checker and the first re-entrant acquisition it found (position in
   the program restricted to the written locks, lock id) - the pair of call sites it then
   replays on the real code.  [bad_lcases] returns the ids of the programs that are not
   disciplined, or on which the model's checker / witness generator and the harness differ,
   or whose re-entrant acquisition the model does not turn into a deadlock. *)
From Brc.Model Require Import Base Locks.

Definition lock_of (i : instr) : N := match i with Acq l _ => l | Rel l => l end.

(* a lock that no program takes in write mode never makes anybody wait: drop it *)
Definition project (written : list N) (p : prog) : prog :=
  filter (fun i => memN (lock_of i) written) p.

Record lcase := { lc_id : N; lc_prog : prog; lc_ok : bool; lc_reentry : option (N * N) }.

Definition reentry_of (written : list N) (p : prog) : option (N * N) :=
  match first_reentry [] (project written p) 0 with
  | Some (k, l) => Some (N.of_nat k, l)
  | None => None
  end.

Definition lcase_bad (written : list N) (order : N -> N) (c : lcase) : bool :=
  let ok := disciplinedb written order (lc_prog c) in
  negb ok
  || negb (Bool.eqb ok (lc_ok c))
  || negb (opt_eqb (pair_eqb N.eqb N.eqb) (reentry_of written (lc_prog c)) (lc_reentry c))
  || match reentry_of written (lc_prog c) with
     | Some _ => negb (witness_deadlocks (project written (lc_prog c)))
     | None => false
     end.

(* the known-bad shape [Acq l R; Acq l R; Rel l; Rel l]: the model must produce the
   three-step schedule and end in a deadlock; a disciplined nesting must not *)
Definition witness_selfcheck : bool :=
  witness_deadlocks [Acq 1 R; Acq 1 R; Rel 1; Rel 1]
  && match witness [Acq 1 R; Acq 1 R; Rel 1; Rel 1] with
     | Some (_, s) => list_eqb Nat.eqb s [0%nat; 1%nat; 0%nat]
     | None => false
     end
  && negb (witness_deadlocks [Acq 0 W; Acq 1 R; Rel 1; Acq 1 W; Rel 1; Rel 0]).

Definition bad_lcases (written : list N) (order : N -> N) (cs : list lcase) : list N :=
  map lc_id (filter (lcase_bad written order) cs)
  ++ (if witness_selfcheck then [] else [4000000000]).
