(* Executable checker for C06: per finalised block of a real run, the transactions in block
   order with what revm reported for each (gas used, number of logs) and what the
   implementation recorded in the receipts (index, cumulative gas, first log index) and in the
   block (gas used); the bookkeeping model must produce the same numbers. *)
From Brc.Model Require Import Base Chain.

Record case06 := { c6_id : N; c6_number : N; c6_hash : N;
                   c6_txs : list (N * N * N);                 (* hash, gas used, number of logs *)
                   c6_exp : list (N * N * option N);          (* index, cumulative gas, first log index if any *)
                   c6_gas : N }.

Definition exp_eqb (r : txrec) (e : N * N * option N) : bool :=
  (x_idx r =? fst (fst e)) && (x_cum r =? snd (fst e))
  && match snd e with Some l => x_logstart r =? l | None => true end.

Fixpoint all2 {A B} (f : A -> B -> bool) (a : list A) (b : list B) : bool :=
  match a, b with
  | [], [] => true
  | x :: a', y :: b' => f x y && all2 f a' b'
  | _, _ => false
  end.

Definition check06 (c : case06) : bool :=
  match c_blocks (run_block chain_init (c6_number c) (c6_hash c) (c6_txs c)) with
  | b :: _ => all2 exp_eqb (b_txs b) (c6_exp c) && (b_gas b =? c6_gas c) && block_coherent b
  | [] => false
  end.

Definition bad_cases06 (cs : list case06) : list N := map c6_id (filter (fun c => negb (check06 c)) cs).
