(* Executable checker for C06: per finalised block of a real run, the transactions in block
   order with what revm reported for each (gas used, number of logs) and what the
   implementation recorded in the receipts (index, cumulative gas, first log index) and in the
   block (gas used); the bookkeeping model must produce the same numbers. *)
From Brc.Model Require Import Base Chain.

Record case06 := { c6_id : N; c6_number : N; c6_hash : N;
                   c6_txs : list (N * N * N);                 (* hash, gas used, number of logs *)
                   c6_exp : list (N * N * option N);          (* index, cumulative gas, first log index if any *)
                   c6_gas : N }.

Definition exp_eqb (r : txrec) (e : N * N * option N) : bool :=
  (x_idx r =? fst (fst e)) && (x_cum r =? snd (fst e))
  && match snd e with Some l => x_logstart r =? l | None => true end.

Fixpoint all2 {A B} (f : A -> B -> bool) (a : list A) (b : list B) : bool :=
  match a, b with
  | [], [] => true
  | x :: a', y :: b' => f x y && all2 f a' b'
  | _, _ => false
  end.

Definition check06 (c : case06) : bool :=
  match c_blocks (run_block chain_init (c6_number c) (c6_hash c) (c6_txs c)) with
  | b :: _ => all2 exp_eqb (b_txs b) (c6_exp c) && (b_gas b =? c6_gas c) && block_coherent b
  | [] => false
  end.

Definition bad_cases06 (cs : list case06) : list N := map c6_id (filter (fun c => negb (check06 c)) cs).

(* Chain-level cases: the final chain of one real history (blocks 0 .. height after all reorgs), each
   block with its transactions and what the implementation recorded as its parent hash and for its
   receipts; the model builds the whole chain (Model/ChainRun.v run_blocks) and must reproduce, block
   by block, parent hash, gas used and the receipts' positions; the hypotheses of
   C06_chain_coherent_run / C06_chain_linked_run (fresh hashes, contiguous heights) are evaluated too
   (id + 500000000 when they do not hold of the recorded chain). *)
From Brc.Model Require Import ChainRun.
Record chain06 := { h6_id : N; h6_blocks : list (case06 * N) (* block as in case06, recorded parent hash *) }.

Definition h6_in (c : chain06) : list blockin := map (fun x => (c6_number (fst x), c6_hash (fst x), c6_txs (fst x))) (h6_blocks c).

Definition check_chain06 (c : chain06) : bool :=
  let ch := run_blocks chain_init (h6_in c) in
  all2 (fun (b : blockrec) (x : case06 * N) =>
          (b_number b =? c6_number (fst x)) && (b_hash b =? c6_hash (fst x)) && (b_parent b =? snd x)
          && (b_gas b =? c6_gas (fst x)) && all2 exp_eqb (b_txs b) (c6_exp (fst x)) && block_coherent b)
       (rev (c_blocks ch)) (h6_blocks c).

Definition bad_chains06 (cs : list chain06) : list N :=
  flat_map (fun c => (if check_chain06 c then [] else [h6_id c]) ++
                     (if fresh_blocks chain_init (h6_in c) && contiguous 0 (h6_in c) then [] else [h6_id c + 500000000])) cs.
