(* Base definitions shared by every model file.  Executable definitions only. *)
From Coq Require Export List NArith Bool Lia.
Export ListNotations.
Open Scope N_scope.

(* Outcome of a fallible implementation function.  [Panic] is a Rust panic (aborts the
   shipped binary); it is never a normal-looking value. *)
Inductive res (A : Type) : Type :=
| Ok (a : A)
| Err
| Panic.
Arguments Ok {A} a.
Arguments Err {A}.
Arguments Panic {A}.

Definition rbind {A B} (r : res A) (f : A -> res B) : res B :=
  match r with Ok a => f a | Err => Err | Panic => Panic end.
Notation "'do' x <- r ; k" := (rbind r (fun x => k))
  (at level 200, x name, r at level 100, k at level 200).

Definition is_ok {A} (r : res A) : bool := match r with Ok _ => true | _ => false end.
Definition is_panic {A} (r : res A) : bool := match r with Panic => true | _ => false end.

Definition opt_eqb {A} (eqb : A -> A -> bool) (a b : option A) : bool :=
  match a, b with
  | Some x, Some y => eqb x y
  | None, None => true
  | _, _ => false
  end.

Fixpoint list_eqb {A} (eqb : A -> A -> bool) (a b : list A) : bool :=
  match a, b with
  | [], [] => true
  | x :: a', y :: b' => eqb x y && list_eqb eqb a' b'
  | _, _ => false
  end.

Definition pair_eqb {A B} (ea : A -> A -> bool) (eb : B -> B -> bool) (p q : A * B) : bool :=
  ea (fst p) (fst q) && eb (snd p) (snd q).
