(* L4: the store, mirroring src/db/brc20_prog_database.rs (Brc20ProgDatabase).

   The twelve versioned tables are always committed with the same block number, cleared
   together and rolled back to the same block, and no operation relates keys of different
   tables; they are modelled as ONE versioned table whose keys are (table, key) pairs packed
   into a number by the harness (table index in the high bits, the key's big-endian value in
   the low bits, so range scans stay inside a table).  Which tables take part in commit /
   reorg / clear, and in which order, is reflected from the running code (gen/TableOrder.v)
   and checked there (reorg_covers_all_tables).  The three block-keyed tables, the
   write-through "max_block_number" row and the cached latest block number are explicit. *)
From Brc.Model Require Import Base History Table BlockTable.

Section Store.
  Variable W : N.

  Notation vtable := (@table N).

  Record store : Type := mkStore {
    st_t : vtable;            (* the versioned tables *)
    st_hash : btable N;       (* block number -> block hash *)
    st_blk : btable N;        (* block number -> block *)
    st_raw : btable N;        (* block number -> raw block *)
    st_max : option N;        (* config row "max_block_number" (written through at once) *)
    st_lbn : option N;        (* latest_block_number: Some while cached *)
  }.

  Definition st_empty : store := mkStore t_empty b_empty b_empty b_empty None None.

  (* get_latest_block_height / get_next_block_height *)
  Definition latest_height (s : store) : N :=
    match st_lbn s with
    | Some h => h
    | None => match b_last_key (st_hash s) with Some k => k | None => 0 end
    end.
  Definition next_height (s : store) : N :=
    match st_lbn s with
    | Some h => h + 1
    | None => match b_last_key (st_hash s) with Some k => k + 1 | None => 0 end
    end.

  (* Store-level operations as the engine issues them (the recorded events of a run are
     exactly these):
     SV   a cache-level set / unset of one versioned row with its block stamp
     SB   a block-table row (0 = hash, 1 = block, 2 = raw block)
     SHash the bookkeeping of set_block_hash: latest_block_number and max_block_number
     SCommit / SClear / SReorg  commit_changes / clear_caches / reorg *)
  Inductive sop : Type :=
  | SV (stamp k : N) (v : option N)
  | SB (which n v : N)
  | SHash (n : N)
  | SCommit
  | SClear
  | SReorg (n : N).

  Definition omaxN (a : option N) (n : N) : option N :=
    match a with Some x => Some (N.max x n) | None => Some n end.

  Definition sto_clear (s : store) : store :=
    mkStore (t_clear (st_t s)) (b_clear (st_hash s)) (b_clear (st_blk s)) (b_clear (st_raw s))
            (st_max s) None.

  (* commit_changes: next = get_next_block_height(); block tables first, then the versioned
     tables with [next]; then clear_caches *)
  Definition sto_commit (s : store) : res store :=
    let next := next_height s in
    do t' <- t_commit W (st_t s) next;
    Ok (sto_clear (mkStore t' (b_commit (st_hash s)) (b_commit (st_blk s)) (b_commit (st_raw s))
                         (st_max s) (st_lbn s))).

  (* reorg(n): refuse when max_block_number > W + n; roll every table back; commit_changes *)
  Definition sto_reorg (s : store) (n : N) : res store :=
    let maxb := match st_max s with Some m => m | None => 0 end in
    if W + n <? maxb then Err
    else
      do t' <- t_reorg W (st_t s) n;
      sto_commit (mkStore t' (b_reorg (st_hash s) n) (b_reorg (st_blk s) n) (b_reorg (st_raw s) n)
                        (st_max s) (st_lbn s)).

  Definition sto_step (s : store) (o : sop) : res store :=
    match o with
    | SV stamp k (Some v) =>
        do t' <- t_set N.eqb W (st_t s) stamp k v;
        Ok (mkStore t' (st_hash s) (st_blk s) (st_raw s) (st_max s) (st_lbn s))
    | SV stamp k None =>
        do t' <- t_unset W (st_t s) stamp k;
        Ok (mkStore t' (st_hash s) (st_blk s) (st_raw s) (st_max s) (st_lbn s))
    | SB which n v =>
        Ok (match which with
            | 0 => mkStore (st_t s) (b_set (st_hash s) n v) (st_blk s) (st_raw s) (st_max s) (st_lbn s)
            | 1 => mkStore (st_t s) (st_hash s) (b_set (st_blk s) n v) (st_raw s) (st_max s) (st_lbn s)
            | _ => mkStore (st_t s) (st_hash s) (st_blk s) (b_set (st_raw s) n v) (st_max s) (st_lbn s)
            end)
    | SHash n =>
        (* latest_block_number is raised, never lowered; max_block_number likewise *)
        let lbn' := match st_lbn s with
                    | Some h => if h <? n then Some n else Some h
                    | None => Some n
                    end in
        Ok (mkStore (st_t s) (st_hash s) (st_blk s) (st_raw s) (omaxN (st_max s) n) lbn')
    | SCommit => sto_commit s
    | SClear => Ok (sto_clear s)
    | SReorg n => sto_reorg s n
    end.

  Fixpoint sto_run (s : store) (ops : list sop) : res store :=
    match ops with
    | [] => Ok s
    | o :: r => do s' <- sto_step s o; sto_run s' r
    end.

  (* ---------- the engine's guard in front of the store's reorg (engine.rs reorg) ---------- *)
  Inductive reorg_verdict : Type := RvNoop | RvRefused | RvDo.

  Definition engine_reorg_guard (waiting : N) (s : store) (n : N) : reorg_verdict :=
    if negb (waiting =? 0) then RvRefused
    else
      let h := latest_height s in
      if h <? n then RvRefused
      else if W <? h - n then RvRefused
      else if n =? h then RvNoop
      else RvDo.

  (* ---------- well-formed traces ----------
     The protocol the engine is meant to enforce around the store, as a decidable predicate
     on the sequence of store operations of a run.  [wf] tracks: the height [h] (None before
     the first block), the highest block ever finalised [m], the height at the last commit
     [hc], and whether the block under construction already has writes ([dirty]).

     - a versioned write made while block b = h+1 is being built is stamped b (on an empty
       database: stamped 0, whatever the number of the first block);
     - block rows and the SHash of block b come with b = h+1 (any number for the first block);
       the harness lists the SHash of a set_block_hash call after the two rows that call writes
       (they do not read what SHash changes);
     - commit and reorg happen only on a clean boundary; a reorg target is at most h and at
       most W below m. *)
  Record wfst : Type := mkWf { w_h : option N; w_m : N; w_hc : option N; w_dirty : bool;
                               w_open : option N (* number of the block under construction, once known *) }.
  Definition wf_init : wfst := mkWf None 0 None false None.

  Definition stamp_ok_for (st : wfst) (stamp : N) : bool :=
    match w_h st with
    | Some h => stamp =? h + 1
    | None => stamp =? 0   (* empty database: get_next_block_height() is 0 *)
    end.

  Definition row_ok_for (st : wfst) (n : N) : bool :=
    match w_h st with
    | Some h => n =? h + 1
    | None => match w_open st with Some b => n =? b | None => true end
    end.

  Definition wf_step (st : wfst) (o : sop) : option wfst :=
    match o with
    | SV stamp _ _ =>
        if stamp_ok_for st stamp then Some (mkWf (w_h st) (w_m st) (w_hc st) true (w_open st)) else None
    | SB _ n _ =>
        if row_ok_for st n then Some (mkWf (w_h st) (w_m st) (w_hc st) true (Some n)) else None
    | SHash n =>
        if row_ok_for st n then Some (mkWf (Some n) (N.max (w_m st) n) (w_hc st) false None) else None
    | SCommit =>
        if w_dirty st then None else Some (mkWf (w_h st) (w_m st) (w_h st) false None)
    | SClear => Some (mkWf (w_hc st) (w_m st) (w_hc st) false None)
    | SReorg n =>
        match w_h st with
        | Some h =>
            if negb (w_dirty st) && (n <=? h) && (w_m st <=? n + W)
            then Some (mkWf (Some n) (w_m st) (Some n) false None)
            else None
        | None => None
        end
    end.

  Fixpoint wf_run (st : wfst) (ops : list sop) : option wfst :=
    match ops with
    | [] => Some st
    | o :: r => match wf_step st o with Some st' => wf_run st' r | None => None end
    end.
End Store.
