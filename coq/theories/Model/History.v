(* L2: the per-key block history, mirroring
   src/db/cached_database/block_history_cache.rs (BlockHistoryCacheData<V>).

   A history is the BTreeMap<u64, Option<V>> of the implementation, kept as the list of
   its entries in key order.  [W] is MAX_REORG_HISTORY_SIZE. *)
From Brc.Model Require Import Base.

Section History.
  Context {V : Type}.
  Variable veq : V -> V -> bool.
  Variable W : N.

  Notation entry := (N * option V)%type.
  Notation hist := (list (N * option V)).

  (* BTreeMap::insert on the ordered entry list. *)
  Fixpoint bt_insert (b : N) (v : option V) (h : hist) : hist :=
    match h with
    | [] => [(b, v)]
    | (k, x) :: t =>
        if b <? k then (b, v) :: h
        else if b =? k then (b, v) :: t
        else (k, x) :: bt_insert b v t
    end.

  Definition h_new (init : option V) : hist := [(0, init)].

  Definition last_entry (h : hist) : option entry := last (map Some h) None.

  (* latest(): values().last().expect("Cache is never empty") *)
  Definition h_latest (h : hist) : res (option V) :=
    match last_entry h with
    | Some (_, v) => Ok v
    | None => Panic
    end.

  Definition last_key (h : hist) : option N := option_map fst (last_entry h).

  (* remove_old_values: collect the keys with key + W <= b, remove all but the last one. *)
  Definition old_keys (b : N) (h : hist) : list N :=
    map fst (filter (fun e => fst e + W <=? b) h).
  Definition prune (b : N) (h : hist) : hist :=
    let rm := removelast (old_keys b h) in
    filter (fun e => negb (existsb (N.eqb (fst e)) rm)) h.

  Definition stamp_ok (b : N) (h : hist) : bool :=
    match last_key h with
    | Some k => negb (b <? k)
    | None => true
    end.

  (* set(block_number, value) *)
  Definition h_set (h : hist) (b : N) (v : V) : res hist :=
    if negb (stamp_ok b h) then Panic
    else
      do l <- h_latest h;
      if opt_eqb veq l (Some v) then Ok h
      else Ok (prune b (bt_insert b (Some v) h)).

  (* unset(block_number) *)
  Definition h_unset (h : hist) (b : N) : res hist :=
    if negb (stamp_ok b h) then Panic
    else
      do l <- h_latest h;
      match l with
      | None => Ok h
      | Some _ => Ok (prune b (bt_insert b None h))
      end.

  (* reorg(latest_valid): retain keys <= latest_valid, panic if nothing is left *)
  Definition h_reorg (h : hist) (n : N) : res hist :=
    let h' := filter (fun e => fst e <=? n) h in
    match h' with
    | [] => Panic
    | _ => Ok h'
    end.

  (* is_old(b): last key + W < b; an empty map is old *)
  Definition h_is_old (h : hist) (b : N) : bool :=
    match last_key h with
    | Some k => k + W <? b
    | None => true
    end.

  (* The value the history records for "as of the end of block m": the entry with the
     greatest key <= m, if any. *)
  Fixpoint lookup (h : hist) (m : N) : option (option V) :=
    match h with
    | [] => None
    | (k, v) :: t =>
        if k <=? m then
          match lookup t m with
          | Some r => Some r
          | None => Some v
          end
        else None
    end.

  Definition head_key (h : hist) : option N :=
    match h with
    | [] => None
    | (k, _) :: _ => Some k
    end.

  (* Operations on one history object, as the component tie drives them. *)
  Inductive hop : Type :=
  | HSet (b : N) (v : V)
  | HUnset (b : N)
  | HReorg (n : N).

  Definition h_step (h : hist) (o : hop) : res hist :=
    match o with
    | HSet b v => h_set h b v
    | HUnset b => h_unset h b
    | HReorg n => h_reorg h n
    end.

  Fixpoint h_run (h : hist) (ops : list hop) : res hist :=
    match ops with
    | [] => Ok h
    | o :: t => do h' <- h_step h o; h_run h' t
    end.
End History.
