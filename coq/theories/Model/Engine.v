(* L5: the block-building protocol of the engine, mirroring src/engine/engine.rs
   (validate_next_tx, add_tx_to_block, add_raw_tx_to_block with the pending pool and its
   drain loop, finalise_block, mine_blocks, initialise, commit_to_db, clear_caches, reorg) at
   the level of what the indexer can observe: accepted / rejected, how many receipts, which
   (account, nonce) executed at which index, heights, the pool.

   revm is an oracle: for every execution the harness reports whether the transaction passed
   revm's validation (and so consumed its sender's nonce); theorems quantify over all such
   answers.  Hashes are the 256-bit values themselves; accounts are packed addresses. *)
From Brc.Model Require Import Base Table.

Section Engine.
  Variable W : N.        (* MAX_REORG_HISTORY_SIZE *)
  Variable FN : N.       (* MAX_FUTURE_TRANSACTION_NONCES *)
  Variable FB : N.       (* MAX_FUTURE_TRANSACTION_BLOCKS *)
  Variable IDX : N.      (* INDEXER_ADDRESS as a number *)

  (* a parked transaction: (nonce, block it was parked in) under its account *)
  Record eng : Type := mkEng {
    g_h : option N;              (* latest block; None while the database is empty *)
    g_maxb : N;                  (* max_block_number row (0 when absent) *)
    g_wait : N;                  (* waiting_tx_count *)
    g_ts : N;                    (* timestamp of the block under construction *)
    g_hash : N;                  (* its hash *)
    g_blocks : list (N * N);     (* existing blocks: (number, hash) *)
    g_nonce : kv N;              (* account -> nonce *)
    g_pool : list (N * N * N);   (* parked: (account, nonce, parked-in block) *)
    g_dirty : bool;              (* the open block holds parked-pool writes *)
    g_log : list (N * N * N * N * bool);  (* ghost: executions, newest first:
                                             (block, tx_idx, account, tx nonce, passed revm validation) *)
  }.

  Definition g_init : eng := mkEng None 0 0 0 0 [] [] [] false [].

  Definition height (g : eng) : N := match g_h g with Some h => h | None => 0 end.
  (* engine.get_next_block_height: 0 on an empty database (block 0 absent), height + 1 otherwise *)
  Definition block_exists (g : eng) (n : N) : bool := existsb (fun b => fst b =? n) (g_blocks g).
  Definition hash_exists (g : eng) (h : N) : bool := existsb (fun b => snd b =? h) (g_blocks g).
  Definition next_h (g : eng) : N :=
    let h := height g in
    if h =? 0 then (if block_exists g 0 then 1 else 0) else h + 1.

  (* generate_block_hash(number): number + 1 as a 256-bit value *)
  Definition gen_hash (n : N) : N := n + 1.
  Definition resolve_hash (h n : N) : N := if h =? 0 then gen_hash n else h.

  Definition nonce_of (g : eng) (a : N) : N := match kv_get (g_nonce g) a with Some n => n | None => 0 end.

  (* validate_next_tx + require_block_does_not_exist *)
  Definition validate_next (g : eng) (tx_idx hash number ts : N) : bool :=
    (g_wait g =? tx_idx)
    && (if g_wait g =? 0 then true else (g_ts g =? ts) && (g_hash g =? hash))
    && negb (block_exists g number) && negb (hash_exists g hash).

  (* one execution through add_tx_to_block; [valid]: revm accepted the transaction (the
     sender's nonce is consumed). Returns None when rejected. *)
  Definition exec_tx (g : eng) (acct txnonce tx_idx ts hash number : N) (valid : bool) : option eng :=
    if validate_next g tx_idx hash number ts then
      Some (mkEng (g_h g) (g_maxb g) (g_wait g + 1) ts hash (g_blocks g)
                  (if valid then kv_put (g_nonce g) acct (nonce_of g acct + 1) else g_nonce g)
                  (g_pool g) (g_dirty g) ((number, tx_idx, acct, txnonce, valid) :: g_log g))
    else None.

  Definition pool_find (g : eng) (a n : N) : option N :=
    match find (fun p => (fst (fst p) =? a) && (snd (fst p) =? n)) (g_pool g) with
    | Some p => Some (snd p)
    | None => None
    end.
  Definition pool_remove (pool : list (N * N * N)) (a n : N) : list (N * N * N) :=
    filter (fun p => negb ((fst (fst p) =? a) && (snd (fst p) =? n))) pool.
  Definition pool_put (pool : list (N * N * N)) (a n b : N) : list (N * N * N) :=
    (a, n, b) :: pool_remove pool a n.

  (* The drain loop after a signed transaction executed: follow the parked nonces of the
     account. [valids]: the oracle's answers for the executions, in order. Fuel = pool size + 1
     (each iteration removes one parked entry). Returns (engine, receipts appended) or None =
     the call fails with an error after partial execution. *)
  Fixpoint drain (fuel : nat) (g : eng) (a next_nonce next_idx ts hash number : N)
           (valids : list bool) (done : N) : option (eng * N) :=
    match fuel with
    | O => Some (g, done)
    | S fuel' =>
        match pool_find g a next_nonce with
        | None => Some (g, done)
        | Some parked_in =>
            if number <? FB + parked_in then
              (* still fresh: execute it at the next index *)
              match exec_tx g a next_nonce next_idx ts hash number (hd true valids) with
              | None => None
              | Some g1 =>
                  let g2 := mkEng (g_h g1) (g_maxb g1) (g_wait g1) (g_ts g1) (g_hash g1) (g_blocks g1)
                                  (g_nonce g1) (pool_remove (g_pool g1) a next_nonce) true (g_log g1) in
                  drain fuel' g2 a (next_nonce + 1) (next_idx + 1) ts hash number (tl valids) (done + 1)
              end
            else
              (* expired: dropped, the drain stops here *)
              let g2 := mkEng (g_h g) (g_maxb g) (g_wait g) (g_ts g) (g_hash g) (g_blocks g)
                              (g_nonce g) (pool_remove (g_pool g) a next_nonce) true (g_log g) in
              Some (g2, done)
        end
    end.

  (* what the RLP / signature layer makes of the raw bytes *)
  Inductive decoded : Type :=
  | DUndecodable
  | DWrongChain
  | DSigned (acct nonce : N).

  Inductive call : Type :=
  | CTx (acct tx_idx ts hash : N) (valid : bool)                 (* deploy / call / deposit / withdraw *)
  | CRaw (d : decoded) (tx_idx ts hash : N) (valids : list bool) (* transact *)
  | CFinalise (ts hash count : N)
  | CMine (count ts : N)
  | CInit (hash ts height : N)
  | CCommit
  | CClear (hc : option N) (committed_blocks : list (N * N))     (* what the last commit made durable *)
           (nonces : kv N) (pool : list (N * N * N))             (* EVM state / pool re-read by the harness *)
  | CReorg (n : N) (nonces : kv N) (pool : list (N * N * N))
  | CBadParams.   (* refused by the RPC glue before the engine is reached: both or neither of the two data encodings (select_bytes, C15) *)

  Inductive outcome : Type :=
  | ORejected
  | OOk (receipts : N)
  | OPanic.

  Definition finalise (g : eng) (ts hash number count : N) : option eng :=
    if validate_next g count hash number ts then
      (* clear_txpool(number): parked entries with parked_in + FB <= number are dropped *)
      Some (mkEng (Some number) (N.max (g_maxb g) number) 0 0 0 ((number, hash) :: g_blocks g) (g_nonce g)
                  (filter (fun p => number <? snd p + FB) (g_pool g)) false (g_log g))
    else None.

  Fixpoint mine (fuel : nat) (g : eng) (number ts : N) : option eng :=
    match fuel with
    | O => Some g
    | S f => match finalise g ts (gen_hash number) number 0 with
             | Some g' => mine f g' (number + 1) ts
             | None => None
             end
    end.

  Definition e_step (g : eng) (c : call) : eng * outcome :=
    match c with
    | CTx acct tx_idx ts hash valid =>
        let number := next_h g in
        match exec_tx g acct (nonce_of g acct) tx_idx ts (resolve_hash hash number) number valid with
        | Some g' => (g', OOk 1)
        | None => (g, ORejected)
        end
    | CRaw d tx_idx ts hash valids =>
        let number := next_h g in
        let hash := resolve_hash hash number in
        match d with
        | DUndecodable => (g, ORejected)
        | DWrongChain => (g, OOk 0)
        | DSigned a n =>
            let an := nonce_of g a in
            if n =? an then
              match exec_tx g a n tx_idx ts hash number (hd true valids) with
              | None => (g, ORejected)
              | Some g1 =>
                  match drain (S (length (g_pool g1))) g1 a (an + 1) (tx_idx + 1) ts hash number (tl valids) 1 with
                  | Some (g2, k) => (g2, OOk k)
                  | None => (g1, ORejected)   (* cannot happen: see drain_never_fails *)
                  end
              end
            else if (an <? n) && (n <? an + FN) then
              (mkEng (g_h g) (g_maxb g) (g_wait g) (g_ts g) (g_hash g) (g_blocks g) (g_nonce g)
                     (pool_put (g_pool g) a n number) true (g_log g), OOk 0)
            else (g, OOk 0)
        end
    | CFinalise ts hash count =>
        let number := next_h g in
        match finalise g ts (resolve_hash hash number) number count with
        | Some g' => (g', OOk 0)
        | None => (g, ORejected)
        end
    | CMine count ts =>
        if negb (g_wait g =? 0) || g_dirty g then (g, ORejected)
        else
          match mine (N.to_nat count) g (next_h g) ts with
          | Some g' => (g', OOk 0)
          | None => (g, ORejected)
          end
    | CInit hash ts hgt =>
        let hash := resolve_hash hash hgt in
        match find (fun b => fst b =? hgt) (g_blocks g) with
        | Some b => if snd b =? hash then (g, OOk 0) else (g, ORejected)
        | None =>
            (* genesis can only be the next block, and the controller is deployed once *)
            if negb (hgt =? next_h g) || negb (nonce_of g IDX =? 0) then (g, ORejected)
            else
            match exec_tx g IDX (nonce_of g IDX) 0 ts hash hgt true with
            | None => (g, ORejected)
            | Some g1 =>
                match finalise g1 ts hash hgt 1 with
                | Some g2 => (g2, OOk 0)
                | None => (g1, ORejected)
                end
            end
        end
    | CBadParams => (g, ORejected)
    | CCommit =>
        if negb (g_wait g =? 0) || g_dirty g then (g, ORejected) else (g, OOk 0)
    | CClear hc blocks nonces pool =>
        (* everything uncommitted is dropped; nonces and pool of the committed state are
           re-read by the harness (they live in the store) *)
        (mkEng hc (g_maxb g) 0 0 0 blocks nonces pool false
               (match hc with
                | Some c => filter (fun e => fst (fst (fst (fst e))) <=? c) (g_log g)
                | None => []
                end), OOk 0)
    | CReorg n nonces pool =>
        if negb (g_wait g =? 0) || g_dirty g then (g, ORejected)
        else
          let h := height g in
          if h <? n then (g, ORejected)
          else if W <? h - n then (g, ORejected)
          else if n =? h then (g, OOk 0)
          else if W + n <? g_maxb g then (g, ORejected)
          else (mkEng (Some n) (g_maxb g) 0 0 0 (filter (fun b => fst b <=? n) (g_blocks g))
                      nonces pool false (filter (fun e => fst (fst (fst (fst e))) <=? n) (g_log g)), OOk 0)
    end.
End Engine.
