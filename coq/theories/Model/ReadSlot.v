(* C10: the read paths of the engine (read_contract, read_contract_multi in
   src/engine/engine.rs).  The store sits in a slot behind the write lock; a read takes it
   out (core::mem::take leaves an empty default store in the slot), builds the EVM around it,
   runs without committing, and swaps it back.  revm is an oracle with a two-level state:
   the store it was given (read through the Database trait only) and a journal; [transact_one]
   and [replay] touch only the journal, nothing calls DatabaseCommit::commit.  That last fact is
   established by the correspondence run (no store mutation event during any read request),
   not by proof. *)
From Brc.Model Require Import Base.

Section ReadSlot.
  Context {S J Out : Type}.       (* store, journal, result of one execution *)
  Variable empty_journal : J.
  (* one execution: sees the store and the journal so far; may fail (validation / db error) *)
  Variable exec : S -> J -> N (*which call*) -> res (Out * J).

  Inductive slot : Type := Present (s : S) | Taken.

  (* read_contract: take, replay once, swap back, then propagate the result *)
  Definition read_contract (sl : slot) (i : N) : slot * res Out :=
    match sl with
    | Taken => (Taken, Panic)           (* expect(DB_MUTEX_ERROR): the slot was left empty *)
    | Present s =>
        match exec s empty_journal i with
        | Ok (o, _) => (Present s, Ok o)
        | Err => (Present s, Err)       (* swap happens before the error is returned *)
        | Panic => (Taken, Panic)       (* unwinding inside revm: the slot stays empty *)
        end
    end.

  (* read_contract_multi: the journal is carried from call to call; on an error the store is
     swapped back before returning *)
  Fixpoint multi (s : S) (j : J) (calls : list N) (acc : list Out) : slot * res (list Out) :=
    match calls with
    | [] => (Present s, Ok (rev acc))
    | i :: r =>
        match exec s j i with
        | Ok (o, j') => multi s j' r (o :: acc)
        | Err => (Present s, Err)
        | Panic => (Taken, Panic)
        end
    end.

  Definition read_contract_multi (sl : slot) (calls : list N) : slot * res (list Out) :=
    match sl with
    | Taken => (Taken, Panic)
    | Present s => multi s empty_journal calls []
    end.

  (* eth_estimateGas: a first run, a bisection of further runs, a confirmation run; every run
     is a read_contract.  [runs] = the gas figures tried, any number of them. *)
  Fixpoint many_reads (sl : slot) (runs : list N) : slot :=
    match runs with
    | [] => sl
    | i :: r => many_reads (fst (read_contract sl i)) r
    end.

  (* ---- whole histories: write calls and read requests through the same slot ----
     A write call (deposit, transact, finalise, commit, ...) is any function of the store
     ([wr]: new store and answer; C02 says it is a function); it takes the store through the
     same lock and finds the slot as the last request left it. *)
  Context {WOut : Type}.
  Variable wr : S -> N -> S * WOut.

  Inductive req : Type :=
  | RWrite (w : N)                 (* any indexer call *)
  | RRead (i : N)                  (* eth_call / brc20_balance / ... : one read_contract *)
  | RReadMulti (calls : list N)    (* eth_callMany / estimateGasMany *)
  | REstimate (runs : list N).     (* eth_estimateGas: any number of runs *)

  Inductive ans : Type :=
  | AWrite (o : res WOut)
  | ARead (o : res Out)
  | AMulti (o : res (list Out))
  | AEstimate.

  Definition is_write (r : req) : bool := match r with RWrite _ => true | _ => false end.
  Definition is_write_ans (a : ans) : bool := match a with AWrite _ => true | _ => false end.

  Definition serve (sl : slot) (r : req) : slot * ans :=
    match r with
    | RWrite w =>
        match sl with
        | Taken => (Taken, AWrite Panic)
        | Present s => let '(s', o) := wr s w in (Present s', AWrite (Ok o))
        end
    | RRead i => let '(sl', o) := read_contract sl i in (sl', ARead o)
    | RReadMulti calls => let '(sl', o) := read_contract_multi sl calls in (sl', AMulti o)
    | REstimate runs => (many_reads sl runs, AEstimate)
    end.

  Fixpoint history (sl : slot) (rs : list req) : slot * list ans :=
    match rs with
    | [] => (sl, [])
    | r :: rest =>
        let '(sl1, a) := serve sl r in
        let '(sl2, az) := history sl1 rest in (sl2, a :: az)
    end.
End ReadSlot.
