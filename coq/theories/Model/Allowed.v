(* Decidable version of the engine-protocol hypothesis [allowed] (Proofs/EngineStoreP.v): for a
   history of engine calls, each with the store operations the real engine issued while
   serving it, check that a rejected call issued none and an accepted call issued a trace of
   the shape [emits] allows.  Evaluated by Coq on recorded histories (Model/TieAllowed.v);
   sound w.r.t. [allowed] (Proofs/AllowedP.v), so a checked history satisfies the hypothesis
   of C01_engine_protocol_implies_wf and hence of every store theorem. *)
From Brc.Model Require Import Base Table Store Engine EngineStore.

Definition is_sv_at (n : N) (o : sop) : bool :=
  match o with SV s _ _ => s =? n | _ => false end.

Definition all_sv_at_b (n : N) (tr : list sop) : bool := forallb (is_sv_at n) tr.

Definition is_sb (w n : N) (o : sop) : bool :=
  match o with SB w' n' _ => (w' =? w) && (n' =? n) | _ => false end.
Definition is_shash (n : N) (o : sop) : bool :=
  match o with SHash n' => n' =? n | _ => false end.

Definition fin_trace_b (n : N) (tr : list sop) : bool :=
  match tr with
  | o1 :: o2 :: rest =>
      is_sb 1 n o1 && is_sb 2 n o2 &&
      match rev rest with
      | o5 :: o4 :: o3 :: us' => is_shash n o5 && is_sv_at n o4 && is_sb 0 n o3 && forallb (is_sv_at n) us'
      | _ => false
      end
  | _ => false
  end.

(* the prefix up to and including the first SHash *)
Fixpoint split_shash (tr : list sop) : option (list sop * list sop) :=
  match tr with
  | [] => None
  | SHash n :: r => Some ([SHash n], r)
  | o :: r => match split_shash r with Some (a, b) => Some (o :: a, b) | None => None end
  end.

Fixpoint mine_trace_b (f : nat) (n : N) (tr : list sop) : bool :=
  match f with
  | O => match tr with [] => true | _ => false end
  | S f' =>
      match split_shash tr with
      | Some (t1, t2) => fin_trace_b n t1 && mine_trace_b f' (n + 1) t2
      | None => false
      end
  end.

Definition is_nil {A} (l : list A) : bool := match l with [] => true | _ => false end.
Definition is_single (p : sop -> bool) (l : list sop) : bool :=
  match l with [o] => p o | _ => false end.

(* the versioned writes of initialise come before the first block row *)
Fixpoint span_sv (n : N) (tr : list sop) : list sop * list sop :=
  match tr with
  | o :: r => if is_sv_at n o then let '(a, b) := span_sv n r in (o :: a, b) else ([], tr)
  | [] => ([], [])
  end.

Definition emits_b (W FN : N) (g : eng) (c : call) (tr : list sop) : bool :=
  match c with
  | CTx _ _ _ _ _ => all_sv_at_b (next_h g) tr
  | CRaw DUndecodable _ _ _ _ | CRaw DWrongChain _ _ _ _ => is_nil tr
  | CRaw (DSigned a n) _ _ _ _ =>
      if (n =? nonce_of g a) || ((nonce_of g a <? n) && (n <? nonce_of g a + FN))
      then all_sv_at_b (next_h g) tr else is_nil tr
  | CFinalise _ _ _ => fin_trace_b (next_h g) tr
  | CMine count _ => mine_trace_b (N.to_nat count) (next_h g) tr
  | CInit _ _ hgt =>
      if block_exists g hgt then is_nil tr
      else fin_trace_b hgt (snd (span_sv hgt tr))
  | CCommit => is_single (fun o => match o with SCommit => true | _ => false end) tr
  | CClear _ _ _ _ => is_single (fun o => match o with SClear => true | _ => false end) tr
  | CReorg n _ _ =>
      if n =? height g then is_nil tr
      else is_single (fun o => match o with SReorg n' => n' =? n | _ => false end) tr
  | CBadParams => is_nil tr
  end.

Definition optN_eqb (a b : option N) : bool :=
  match a, b with Some x, Some y => x =? y | None, None => true | _, _ => false end.

Definition upto (h : N) : list N := map N.of_nat (seq 0 (S (N.to_nat h))).

Definition clear_params_ok_b (st : wfst) (c : call) : bool :=
  match c with
  | CClear hc blocks _ _ =>
      optN_eqb hc (w_hc st) &&
      match hc with
      | Some h => forallb (fun k => existsb (fun b => fst b =? k) blocks) (upto h) && (h <=? w_m st)
      | None => is_nil blocks
      end
  | _ => true
  end.

Definition is_rejected (o : outcome) : bool := match o with ORejected => true | _ => false end.

Fixpoint allowed_b (W FN FB IDX : N) (g : eng) (st : wfst) (h : list (call * list sop)) : bool :=
  match h with
  | [] => true
  | (c, tr) :: r =>
      let '(g', o) := e_step W FN FB IDX g c in
      clear_params_ok_b st c &&
      (if is_rejected o then is_nil tr else emits_b W FN g c tr) &&
      allowed_b W FN FB IDX g' (match wf_run W st tr with Some s => s | None => st end) r
  end.
