(* C09: the module's own request decoding, arithmetic and loops, each as a total function with
   [Panic] as an explicit outcome.

     src/server/rpc_server.rs      parse_block_number, resolve_block_hash_or_number, the
                                   eth_getLogs front, the eth_estimateGas bisection
     src/db/brc20_prog_database.rs get_logs range arithmetic, get_block_tx_count
     src/engine/engine.rs          mine_blocks, generate_block_hash (brc20_initialise),
                                   the write sections (slot protocol + lock poisoning)
     src/engine/precompiles/*.rs   the front ends of the custom precompiles after an arbitrary
                                   ABI-decode result

   Machine arithmetic comes in the two modes the crate is built in: [Checked] (dev profile:
   overflow-checks on, an overflow is a panic) and [Wrapping] (release profile: overflow-checks
   off).  Library code (revm, alloy, bitcoin, bip322, serde, the key-value store) enters as
   oracles: function arguments.

   The places where the tree as found was defective are switched by the record [fixes]:
   [AS_FOUND] = the tree before the C09/C18 repairs, [REPAIRED] = the tree with them;
   [CURRENT09] is what the correspondence run (Tie09.v) compares the implementation with.
   Strings are lists of their UTF-8 bytes.  Executable definitions only. *)
From Brc.Model Require Import Base Base64 Payload Logs ReadSlot.

(* ------------------------------------------------------------------------------------- *)
(* machine integers                                                                      *)
(* ------------------------------------------------------------------------------------- *)

Inductive ovf : Type := Checked | Wrapping.

Definition TWO64 : N := 18446744073709551616.

Definition u64_add (m : ovf) (a b : N) : res N :=
  if a + b <=? U64MAX then Ok (a + b)
  else match m with Checked => Panic | Wrapping => Ok ((a + b) mod TWO64) end.

Definition u64_sub (m : ovf) (a b : N) : res N :=
  if b <=? a then Ok (a - b)
  else match m with Checked => Panic | Wrapping => Ok ((a + TWO64 - b) mod TWO64) end.

Definition u64_mul (m : ovf) (a b : N) : res N :=
  if a * b <=? U64MAX then Ok (a * b)
  else match m with Checked => Panic | Wrapping => Ok ((a * b) mod TWO64) end.

Definition u8_add (m : ovf) (a b : N) : res N :=
  if a + b <=? 255 then Ok (a + b)
  else match m with Checked => Panic | Wrapping => Ok ((a + b) mod 256) end.

Record fixes := {
  (* get_logs: `to.saturating_sub(from)` / `to.checked_add(1)` (true), `to - from` / `to + 1` (false) *)
  fx_logs : bool;
  (* get_block_tx_count: `block_number.checked_add(1)` (true), `block_number + 1` (false) *)
  fx_txcount : bool;
  (* mine_blocks: `if block_count == 0 { return Ok(()) }` present (true) *)
  fx_mine_zero : bool;
  (* build_lock_script: `if pkscript.len() < 2 { return Err }` in front of `pkscript.slice(2..)` (true) *)
  fx_pk_len : bool;
  (* last_sat_location: checked_add -> "Sat count overflow" (true), `+=` (false) *)
  fx_sat_checked : bool;
  (* generate_block_hash: `block_number.wrapping_add(1)` (true), `block_number + 1` (false) *)
  fx_hash_wrap : bool;
  (* bip322_verify: the two witness shapes the library panics on are refused first (true) *)
  fx_witness_guard : bool;
  (* eth_estimateGas bisection: `upper.saturating_sub(lower) > GAS_PER_BYTE`,
     `lower + (upper - lower) / 2` (true); `lower + GAS_PER_BYTE < upper`,
     `(lower + upper) / 2` (false) *)
  fx_bisect_sub : bool
}.

Definition AS_FOUND : fixes :=
  {| fx_logs := false; fx_txcount := false; fx_mine_zero := false; fx_pk_len := false;
     fx_sat_checked := false; fx_hash_wrap := false; fx_witness_guard := false; fx_bisect_sub := false |}.
Definition REPAIRED : fixes :=
  {| fx_logs := true; fx_txcount := true; fx_mine_zero := true; fx_pk_len := true;
     fx_sat_checked := true; fx_hash_wrap := true; fx_witness_guard := true; fx_bisect_sub := true |}.

(* >>> the one line to flip <<< *)
Definition CURRENT09 : fixes := REPAIRED.

(* ------------------------------------------------------------------------------------- *)
(* strings                                                                               *)
(* ------------------------------------------------------------------------------------- *)

Definition beqb (a b : list N) : bool := list_eqb N.eqb a b.

Definition is_cont (b : N) : bool := (128 <=? b) && (b <=? 191).

(* core::str::from_utf8: well-formed UTF-8 (no overlong forms, no surrogates, <= U+10FFFF).
   Every Rust [String] satisfies it. *)
Fixpoint utf8_valid (s : list N) : bool :=
  match s with
  | [] => true
  | b :: r =>
      if b <? 128 then utf8_valid r
      else if (194 <=? b) && (b <=? 223) then
        match r with c1 :: r1 => is_cont c1 && utf8_valid r1 | _ => false end
      else if (224 <=? b) && (b <=? 239) then
        match r with
        | c1 :: c2 :: r2 =>
            (if b =? 224 then (160 <=? c1) && (c1 <=? 191)
             else if b =? 237 then (128 <=? c1) && (c1 <=? 159)
             else is_cont c1) && is_cont c2 && utf8_valid r2
        | _ => false
        end
      else if (240 <=? b) && (b <=? 244) then
        match r with
        | c1 :: c2 :: c3 :: r3 =>
            (if b =? 240 then (144 <=? c1) && (c1 <=? 191)
             else if b =? 244 then (128 <=? c1) && (c1 <=? 143)
             else is_cont c1) && is_cont c2 && is_cont c3 && utf8_valid r3
        | _ => false
        end
      else false
  end.

(* `&s[k..]`: panics if k is beyond the end or inside a character *)
Definition str_from (s : list N) (k : nat) : res (list N) :=
  if Nat.ltb (length s) k then Panic
  else match nth_error s k with
       | None => Ok []
       | Some b => if is_cont b then Panic else Ok (skipn k s)
       end.

Fixpoint starts_with (s p : list N) : bool :=
  match p, s with
  | [], _ => true
  | x :: p', y :: s' => (x =? y) && starts_with s' p'
  | _ :: _, [] => false
  end.

(* char::to_digit(radix) on a byte read as a char *)
Definition to_digit (radix c : N) : option N :=
  let d := if (48 <=? c) && (c <=? 57) then Some (c - 48)
           else if (97 <=? c) && (c <=? 122) then Some (c - 87)
           else if (65 <=? c) && (c <=? 90) then Some (c - 55)
           else None in
  match d with Some v => if v <? radix then Some v else None | None => None end.

Fixpoint digits_acc (radix : N) (s : list N) (acc : N) : option N :=
  match s with
  | [] => Some acc
  | c :: r =>
      match to_digit radix c with
      | None => None
      | Some d => let a := acc * radix + d in if U64MAX <? a then None else digits_acc radix r a
      end
  end.

(* u64::from_str_radix / str::parse::<u64> (radix 10); None = Err(ParseIntError) *)
Definition from_str_radix (radix : N) (s : list N) : option N :=
  match s with
  | [] => None
  | [c] => if (c =? 43) || (c =? 45) then None else digits_acc radix s 0
  | c :: r => if c =? 43 then digits_acc radix r 0 else digits_acc radix s 0
  end.

Definition S_latest : list N := [108; 97; 116; 101; 115; 116].
Definition S_safe : list N := [115; 97; 102; 101].
Definition S_finalized : list N := [102; 105; 110; 97; 108; 105; 122; 101; 100].
Definition S_pending : list N := [112; 101; 110; 100; 105; 110; 103].
Definition S_earliest : list N := [101; 97; 114; 108; 105; 101; 115; 116].
Definition S_0x : list N := [48; 120].

(* RpcServer::parse_block_number; [latest] / [next] = what get_latest_block_height /
   get_next_block_height answer *)
Definition parse_block_number (latest next : res N) (s : list N) : res N :=
  if beqb s S_latest || beqb s S_safe || beqb s S_finalized then latest
  else if beqb s S_pending then next
  else if beqb s S_earliest then Ok 0
  else if starts_with s S_0x then
    do t <- str_from s 2;
    match from_str_radix 16 t with Some n => Ok n | None => Err end
  else match from_str_radix 10 s with Some n => Ok n | None => Err end.

(* resolve_block_hash_or_number: [json_b256] = serde_json::from_str::<B256ED> on the raw
   string, [by_hash] = engine.get_block_by_hash (Ok None, Err are both "Block not found") *)
Definition resolve_block_hash_or_number (latest next : res N) (json_b256 : list N -> option N)
           (by_hash : N -> res (option N)) (s : list N) : res N :=
  match parse_block_number latest next s with
  | Ok n => Ok n
  | Panic => Panic
  | Err =>
      match json_b256 s with
      | None => Err
      | Some h => match by_hash h with Ok (Some n) => Ok n | Panic => Panic | _ => Err end
      end
  end.

(* ------------------------------------------------------------------------------------- *)
(* eth_getLogs, eth_getBlockTransactionCountByNumber, brc20_initialise                    *)
(* ------------------------------------------------------------------------------------- *)

(* the block range [lo, hi) of the key scan of Brc20ProgDatabase::get_logs *)
Definition get_logs_range (fx : fixes) (m : ovf) (latest : N) (from to : option N) : res (N * N) :=
  let f := match from with Some x => x | None => latest end in
  let t := match to with Some x => x | None => f end in
  if fx_logs fx then
    if 5 <? t - f then Err else if t =? U64MAX then Err else Ok (f, t + 1)
  else
    do d <- u64_sub m t f;
    if 5 <? d then Err else do e <- u64_add m t 1; Ok (f, e).

(* `filter.from_block.and_then(|s| self.parse_block_number(&s).ok())` *)
Definition opt_parse (latest next : res N) (o : option (list N)) : res (option N) :=
  match o with
  | None => Ok None
  | Some s => match parse_block_number latest next s with
              | Ok n => Ok (Some n) | Err => Ok None | Panic => Panic end
  end.

(* the eth_getLogs handler up to the key scan *)
Definition eth_get_logs_front (fx : fixes) (m : ovf) (latest next : res N)
           (from_s to_s : option (list N)) : res (N * N) :=
  do f <- opt_parse latest next from_s;
  do t <- opt_parse latest next to_s;
  do l <- latest;
  get_logs_range fx m l f t.

(* get_block_tx_count: the scan range, None = "no such block, 0 transactions" *)
Definition block_tx_count_range (fx : fixes) (m : ovf) (n : N) : res (option (N * N)) :=
  if fx_txcount fx then (if n =? U64MAX then Ok None else Ok (Some (n, n + 1)))
  else do e <- u64_add m n 1; Ok (Some (n, e)).

(* generate_block_hash: the number the hash is made of *)
Definition generate_block_hash (fx : fixes) (m : ovf) (n : N) : res N :=
  if fx_hash_wrap fx then Ok ((n + 1) mod TWO64) else u64_add m n 1.

(* BRC20ProgEngine::initialise up to the first store access: a zero hash is replaced by a
   generated one; [rest] is everything after it *)
Definition initialise_front {A} (fx : fixes) (m : ovf) (hash_zero : bool) (height : N) (rest : res A) : res A :=
  do _ <- (if hash_zero then generate_block_hash fx m height else Ok 0);
  rest.

(* ------------------------------------------------------------------------------------- *)
(* brc20_mine                                                                            *)
(* ------------------------------------------------------------------------------------- *)

Section Mine.
  Context {St : Type}.
  (* finalise_block(timestamp, number, B256::ZERO, 0) on a state: new state, Ok / Err / Panic *)
  Variable fin : St -> N -> St * res unit.

  Record mstate := { ms_st : St; ms_bn : N; ms_calls : N; ms_res : res unit }.

  (* one round of `for _ in 0..block_count { self.finalise_block(..)?; block_number += 1; }` *)
  Definition mine_step (m : ovf) (s : mstate) : mstate :=
    match ms_res s with
    | Ok _ =>
        let '(st', r) := fin (ms_st s) (ms_bn s) in
        match r with
        | Ok _ =>
            match u64_add m (ms_bn s) 1 with
            | Ok b => {| ms_st := st'; ms_bn := b; ms_calls := ms_calls s + 1; ms_res := Ok tt |}
            | Err => {| ms_st := st'; ms_bn := ms_bn s; ms_calls := ms_calls s + 1; ms_res := Err |}
            | Panic => {| ms_st := st'; ms_bn := ms_bn s; ms_calls := ms_calls s + 1; ms_res := Panic |}
            end
        | Err => {| ms_st := st'; ms_bn := ms_bn s; ms_calls := ms_calls s + 1; ms_res := Err |}
        | Panic => {| ms_st := st'; ms_bn := ms_bn s; ms_calls := ms_calls s + 1; ms_res := Panic |}
        end
    | _ => s
    end.

  Definition mine_loop (m : ovf) (count : N) (s : mstate) : mstate := N.iter count (mine_step m) s.

  Definition stop (st : St) (calls : N) (r : res unit) : mstate :=
    {| ms_st := st; ms_bn := 0; ms_calls := calls; ms_res := r |}.

  (* mine_blocks(block_count, timestamp): [open] = require_no_open_block fails, [next] =
     get_next_block_height, [genesis_missing] = get_block_by_number(0).is_none().
     ms_calls of the result = number of finalise_block calls made. *)
  Definition mine_blocks (fx : fixes) (m : ovf) (st : St) (open : bool) (next : res N)
             (genesis_missing : res bool) (count : N) : mstate :=
    if open then stop st 0 Err
    else if fx_mine_zero fx && (count =? 0) then stop st 0 (Ok tt)
    else match next with
    | Panic => stop st 0 Panic
    | Err => stop st 0 Err
    | Ok bn =>
      match genesis_missing with
      | Panic => stop st 0 Panic
      | Err => stop st 0 Err
      | Ok false => mine_loop m count {| ms_st := st; ms_bn := bn; ms_calls := 0; ms_res := Ok tt |}
      | Ok true =>
          let '(st', r) := fin st 0 in
          match r with
          | Ok _ =>
              match u64_sub m count 1 with
              | Ok c =>
                  match u64_add m bn 1 with
                  | Ok b => mine_loop m c {| ms_st := st'; ms_bn := b; ms_calls := 1; ms_res := Ok tt |}
                  | Err => stop st' 1 Err
                  | Panic => stop st' 1 Panic
                  end
              | Err => stop st' 1 Err
              | Panic => stop st' 1 Panic
              end
          | Err => stop st' 1 Err
          | Panic => stop st' 1 Panic
          end
      end
    end.
End Mine.

(* ------------------------------------------------------------------------------------- *)
(* eth_estimateGas: the bisection                                                        *)
(* ------------------------------------------------------------------------------------- *)

Section Bisect.
  Context {St : Type}.
  (* one read_contract with the given gas limit: None = Err(..), Some status *)
  Variable probe : St -> N -> St * res (option bool).

  (* the loop guard and the midpoint, in the two forms *)
  Definition bisect_guard (fx : fixes) (m : ovf) (gpb lo hi : N) : res bool :=
    if fx_bisect_sub fx then Ok (gpb <? hi - lo)                   (* saturating_sub *)
    else do x <- u64_add m lo gpb; Ok (x <? hi).
  Definition bisect_mid (fx : fixes) (m : ovf) (lo hi : N) : res N :=
    if fx_bisect_sub fx then do d <- u64_sub m hi lo; u64_add m lo (d / 2)
    else do sum <- u64_add m lo hi; Ok (sum / 2).

  (* `while <guard> { estimated = <mid>; .. }`; None = the fuel ran out.
     Result: the state, the final upper limit, the number of iterations. *)
  Fixpoint bisect (fuel : nat) (fx : fixes) (m : ovf) (gpb : N) (st : St) (lo hi iters : N) : option (St * res (N * N)) :=
    match fuel with
    | O => None
    | S f =>
        match bisect_guard fx m gpb lo hi with
        | Panic => Some (st, Panic)
        | Err => Some (st, Err)
        | Ok false => Some (st, Ok (hi, iters))
        | Ok true =>
            match bisect_mid fx m lo hi with
            | Panic => Some (st, Panic)
            | Err => Some (st, Err)
            | Ok mid =>
                let '(st', r) := probe st mid in
                match r with
                | Panic => Some (st', Panic)
                | Err => Some (st', Err)
                | Ok (Some true) => bisect f fx m gpb st' lo mid (iters + 1)
                | Ok _ =>
                    match u64_add m mid 1 with
                    | Ok l' => bisect f fx m gpb st' l' hi (iters + 1)
                    | Err => Some (st', Err)
                    | Panic => Some (st', Panic)
                    end
                end
            end
        end
    end.
End Bisect.

(* ------------------------------------------------------------------------------------- *)
(* the custom precompiles                                                                *)
(* ------------------------------------------------------------------------------------- *)

(* what the EVM gets back: output bytes / words, a precompile error (numbered by its
   message), out of gas *)
Inductive pc_out : Type := PcOut (w : list N) | PcErr (code : N) | PcOog.

Definition E_DECODE : N := 1.          (* "Failed to decode parameters" *)
Definition E_LOCK_COUNT : N := 2.      (* "Invalid lock block count" *)
Definition E_LOCK_ADDR : N := 3.       (* "Failed to get lock address" *)
Definition E_TX : N := 10.             (* "Failed to get transaction details" *)
Definition E_UNCONFIRMED : N := 11.    (* "Transaction is not confirmed" / "Failed to get block height" *)
Definition E_BLOCK_INFO : N := 12.     (* "Failed to get block info" *)
Definition E_FUTURE : N := 13.         (* "Transaction is in the future" *)
Definition E_VIN_TXID : N := 14.       (* "Failed to get vin txid" *)
Definition E_VIN_TX : N := 15.         (* "Failed to get vin transaction details" *)
Definition E_VIN_VOUT : N := 16.       (* "Failed to get vin vout" *)
Definition E_COINBASE : N := 17.       (* "Coinbase transactions are not supported" *)
Definition E_NO_VIN : N := 18.         (* "No vin found" *)
Definition E_VOUT_OOB : N := 19.       (* "Vout index out of bounds" *)
Definition E_SAT_OOB : N := 20.        (* "Sat value out of bounds" *)
Definition E_INVALID : N := 21.        (* "Invalid response" *)
Definition E_INSUFFICIENT : N := 22.   (* "Insufficient satoshis in vin" *)
Definition E_SAT_OVERFLOW : N := 23.   (* "Sat count overflow" *)
Definition E_TOO_LONG : N := 30.       (* "Input bytes length exceeds maximum limit of 32 KB" *)
Definition E_ADDRESS : N := 31.        (* "Failed to decode address" *)
Definition E_SIGNATURE : N := 32.      (* "Failed to decode signature" *)
Definition E_VERIFY : N := 33.         (* "Failed to verify signature" *)

(* ---- getLockedPkscript ---- *)

Fixpoint be_digits (fuel : nat) (n : N) (acc : list N) : list N :=
  match fuel with
  | O => acc
  | S f => if n =? 0 then acc else be_digits f (n / 256) (n mod 256 :: acc)
  end.
(* u64::to_be_bytes with the leading zero bytes removed, at least one byte left *)
Definition be_stripped (n : N) : list N := match be_digits 8 n [] with [] => [0] | l => l end.

(* the number push in front of OP_CSV: the script bytes *)
Definition lock_script_head (m : ovf) (n : N) : res (list N) :=
  if n <=? 16 then
    (* OP_PUSHNUM_1.to_u8() - 1 + lock_block_count as u8 *)
    do op <- u8_add m 80 (n mod 256); Ok [op]
  else
    let h := be_stripped n in
    match h with
    | [] => Panic                               (* lock_block_count_hex[0] *)
    | b :: _ =>
        let h := if 128 <=? b then 0 :: h else h in
        match h with
        | [] => Panic
        | [a] => Ok [1; a]
        | [a; b] => Ok [2; b; a]
        | [a; b; c] => Ok [3; c; b; a]
        | a :: b :: c :: d :: _ => Ok [4; d; c; b; a]
        end
    end.

(* build_lock_script: (number push, the pkscript without its first two bytes); Err = its Err *)
Definition build_lock_script (fx : fixes) (m : ovf) (pk : list N) (n : N) : res (list N * list N) :=
  do head <- lock_script_head m n;
  do tail <- (if len pk <? 2 then (if fx_pk_len fx then Err else Panic)   (* pkscript.slice(2..) *)
              else Ok (skipn 2 pk));
  if 4294967296 <=? len tail then Err else Ok (head, tail).

(* [dec] = getLockedPkscriptCall::abi_decode: None = Err, Some (pkscript, lock_block_count : U256);
   [taproot] = the bitcoin crate building the P2TR script around the leaf: None = an error *)
Definition get_locked_pkscript (fx : fixes) (m : ovf) (G : N) (gas : N) (dec : option (list N * N))
           (taproot : list N * list N -> option (list N)) : res pc_out :=
  if gas <? G then Ok PcOog else
  match dec with
  | None => Ok (PcErr E_DECODE)
  | Some (pk, n) =>
      if (n =? 0) || (65535 <? n) then Ok (PcErr E_LOCK_COUNT) else
      match build_lock_script fx m pk (n mod TWO64) with
      | Panic => Panic
      | Err => Ok (PcErr E_LOCK_ADDR)
      | Ok sc => match taproot sc with Some o => Ok (PcOut o) | None => Ok (PcErr E_LOCK_ADDR) end
      end
  end.

(* ---- Bitcoin transactions as the precompiles see them ---- *)

Record btx := {
  (* (key the previous transaction is looked up under, vout, previous_output.is_null()) *)
  tx_ins : list (N * N * bool);
  (* (value in sats, script id) *)
  tx_outs : list (N * N)
}.

(* `list.get(n as usize)`; the index is never turned into a unary number unless it is in range *)
Definition nth_N {A} (l : list A) (n : N) : option A :=
  if len l <=? n then None else nth_error l (N.to_nat n).

Definition is_coinbase (t : btx) : bool :=
  match tx_ins t with [(_, _, true)] => true | _ => false end.

Section Btc.
  (* get_transaction_and_block_hash_with_overrides: None = Err; block hash None = unconfirmed *)
  Variable get_tx_bh : N -> option (btx * option N).
  (* get_transaction_with_overrides: None = Err *)
  Variable get_tx : N -> option btx.
  (* get_block_height: None = Err *)
  Variable height_of : N -> option N.
  Variable G : N.   (* GAS_PER_BITCOIN_RPC_CALL *)

  (* the vin loop of getTxDetails: (vouts, values) collected, or the error *)
  Fixpoint details_vins (ins : list (N * N * bool)) (vouts vals : list N) : pc_out + (list N * list N) :=
    match ins with
    | [] => inr (rev vouts, rev vals)
    | (ptx, pvout, isnull) :: rest =>
        if isnull then inl (PcErr E_VIN_TXID) else
        match get_tx ptx with
        | None => inl (PcErr E_VIN_TX)
        | Some p =>
            match nth_N (tx_outs p) pvout with
            | None => inl (PcErr E_VIN_VOUT)
            | Some (v, _) => details_vins rest (pvout :: vouts) (v :: vals)
            end
        end
    end.

  (* btc_tx_details_precompile; [blockh] = the EVM block number.
     PcOut [block height; #vin] ++ vin vouts ++ vin values ++ vout values *)
  Definition btc_tx_details (m : ovf) (gas blockh : N) (dec : option N) : res pc_out :=
    if gas <? G then Ok PcOog else
    match dec with
    | None => Ok (PcErr E_DECODE)
    | Some txid =>
        match get_tx_bh txid with
        | None => Ok (PcErr E_TX)
        | Some (t, bh) =>
            do cost <- u64_mul m (len (tx_ins t)) G;
            if gas - G <? cost then Ok PcOog else
            match bh with
            | None => Ok (PcErr E_UNCONFIRMED)
            | Some h =>
                match height_of h with
                | None => Ok (PcErr E_BLOCK_INFO)
                | Some bhgt =>
                    if blockh <? bhgt then Ok (PcErr E_FUTURE) else
                    match details_vins (tx_ins t) [] [] with
                    | inl e => Ok e
                    | inr (vouts, vals) =>
                        Ok (PcOut ([bhgt; len (tx_ins t)] ++ vouts ++ vals ++ map fst (tx_outs t)))
                    end
                end
            end
        end
    end.

  (* `total += value`: Ok None = the repaired code's "Sat count overflow" *)
  Definition sat_add (fx : fixes) (m : ovf) (a b : N) : res (option N) :=
    if fx_sat_checked fx then (if a + b <=? U64MAX then Ok (Some (a + b)) else Ok None)
    else do s <- u64_add m a b; Ok (Some s).

  (* `while current_vout_index < vout { total += output[i].value }` *)
  Fixpoint sum_first (fx : fixes) (m : ovf) (k : nat) (outs : list (N * N)) (acc : N) : res (option N) :=
    match k with
    | O => Ok (Some acc)
    | S k' =>
        match outs with
        | [] => Panic                      (* raw_tx_info.output[current_vout_index] *)
        | (v, _) :: r =>
            match sat_add fx m acc v with
            | Ok (Some a) => sum_first fx m k' r a
            | Ok None => Ok None
            | Err => Err
            | Panic => Panic
            end
        end
    end.

  (* the `loop { .. }` over the inputs; [gas_left] after the first use_gas *)
  Fixpoint sat_vins (fx : fixes) (m : ovf) (ins : list (N * N * bool)) (gas_left tv tvin : N) : res pc_out :=
    match ins with
    | [] => Panic                          (* raw_tx_info.input[current_vin_index] *)
    | (ptx, pvout, isnull) :: rest =>
        if isnull then Ok (PcErr E_VIN_TXID) else
        if gas_left <? G then Ok PcOog else
        match get_tx ptx with
        | None => Ok (PcErr E_VIN_TX)
        | Some p =>
            match nth_N (tx_outs p) pvout with
            | None => Ok (PcErr E_VIN_VOUT)
            | Some (cv, _) =>
                match sat_add fx m tvin cv with
                | Panic => Panic
                | Err => Err
                | Ok None => Ok (PcErr E_SAT_OVERFLOW)
                | Ok (Some tvin') =>
                    if (tv <=? tvin') || (match rest with [] => true | _ => false end) then
                      if tvin' <? tv then Ok (PcErr E_INSUFFICIENT)
                      else
                        do a <- u64_sub m tvin' cv;
                        do r <- u64_sub m tv a;
                        Ok (PcOut [ptx; pvout; r])
                    else sat_vins fx m rest (gas_left - G) tv tvin'
                end
            end
        end
    end.

  (* last_sat_location_precompile; [dec] = (txid, vout : U256, sat : U256).
     PcOut [lookup key of the input's transaction; its vout; sat offset inside it] *)
  Definition last_sat_location (fx : fixes) (m : ovf) (gas blockh : N) (dec : option (N * N * N)) : res pc_out :=
    match dec with
    | None => Ok (PcErr E_DECODE)
    | Some (txid, vout_u, sat_u) =>
        let vout := vout_u mod TWO64 in        (* as_limbs()[0] as usize *)
        let sat := sat_u mod TWO64 in
        if gas <? G then Ok PcOog else
        match get_tx_bh txid with
        | None => Ok (PcErr E_TX)
        | Some (t, bh) =>
            match bh with
            | None => Ok (PcErr E_UNCONFIRMED)
            | Some h =>
                match height_of h with
                | None => Ok (PcErr E_BLOCK_INFO)
                | Some bhgt =>
                    if blockh <? bhgt then Ok (PcErr E_FUTURE) else
                    if is_coinbase t then Ok (PcErr E_COINBASE) else
                    if len (tx_ins t) =? 0 then Ok (PcErr E_NO_VIN) else
                    if len (tx_outs t) <? vout then Ok (PcErr E_VOUT_OOB) else
                    match nth_N (tx_outs t) vout with
                    | None => Ok (PcErr E_INVALID)
                    | Some (value, _) =>
                        if value <? sat then Ok (PcErr E_SAT_OOB) else
                        match sum_first fx m (N.to_nat vout) (tx_outs t) 0 with
                        | Panic => Panic
                        | Err => Err
                        | Ok None => Ok (PcErr E_SAT_OVERFLOW)
                        | Ok (Some s) =>
                            match sat_add fx m s sat with
                            | Panic => Panic
                            | Err => Err
                            | Ok None => Ok (PcErr E_SAT_OVERFLOW)
                            | Ok (Some tv) => sat_vins fx m (tx_ins t) (gas - G) tv 0
                            end
                        end
                    end
                end
            end
        end
    end.
End Btc.

(* ---- BIP322_Verify ---- *)

(* bitcoin::Address::from_script: what the library dispatches on *)
Inductive addr_kind : Type := AkP2tr | AkP2wpkh | AkP2sh | AkOther.

(* the two witness shapes bip322 0.0.10 panics on (verify.rs:212, verify.rs:168) *)
Definition lib_panic_shape (key_uncompressed : list N -> bool) (a : addr_kind) (w : list (list N)) : bool :=
  match a, w with
  | AkP2tr, [] => true
  | AkP2sh, _ :: k :: _ => key_uncompressed k
  | _, _ => false
  end.

(* what the repaired front end refuses before calling the library *)
Definition witness_guard (key_uncompressed : list N -> bool) (a : addr_kind) (w : list (list N)) : bool :=
  match w with
  | [] => true
  | _ =>
      match a, w with
      | AkP2sh, _ :: k :: _ => key_uncompressed k
      | _, _ => false
      end
  end.

(* [dec] = verifyCall::abi_decode; [addr_of] = Address::from_script; [wit_of] =
   Witness::consensus_decode; [lib_verify] = bip322::verify_simple (Ok / Err / Panic);
   [key_uncompressed] = PublicKey::from_slice(..) is Ok and not compressed *)
Definition bip322_verify (fx : fixes) (G gas input_len : N) (dec : option (N * N * N))
           (addr_of : N -> option addr_kind) (wit_of : N -> option (list (list N)))
           (key_uncompressed : list N -> bool)
           (lib_verify : addr_kind -> N -> list (list N) -> res unit) : res pc_out :=
  if gas <? G then Ok PcOog else
  if 32768 <? input_len then Ok (PcErr E_TOO_LONG) else
  match dec with
  | None => Ok (PcErr E_DECODE)
  | Some (pk, msg, sig) =>
      match addr_of pk with
      | None => Ok (PcErr E_ADDRESS)
      | Some a =>
          match wit_of sig with
          | None => Ok (PcErr E_SIGNATURE)
          | Some w =>
              if fx_witness_guard fx && witness_guard key_uncompressed a w then Ok (PcErr E_VERIFY) else
              match lib_verify a msg w with
              | Ok _ => Ok (PcOut [1])
              | Err => Ok (PcErr E_VERIFY)
              | Panic => Panic
              end
          end
      end
  end.

(* ---- getTxId (op return) ---- *)
Definition op_return_tx_id (G gas : N) (id : N) : res pc_out :=
  if gas <? G then Ok PcOog else Ok (PcOut [id]).

(* ------------------------------------------------------------------------------------- *)
(* the engine behind its locks                                                           *)
(* ------------------------------------------------------------------------------------- *)

(* The store sits in a slot (Model/ReadSlot.v) behind an RwLock.  A panic while the write
   guard is held poisons the lock: every later write section panics at
   `.expect("Failed to acquire write lock")`; read sections enter a poisoned lock anyway, and
   panic at `.expect(DB_MUTEX_ERROR)` if the slot was left empty. *)
Record estate (S : Type) := { es_slot : @slot S; es_poisoned : bool }.
Arguments es_slot {S} _.
Arguments es_poisoned {S} _.

Definition alive {S} (e : estate S) : bool :=
  match es_slot e with Present _ => negb (es_poisoned e) | Taken => false end.

Definition write_section {S A} (e : estate S) (body : @slot S -> @slot S * res A) : estate S * res A :=
  if es_poisoned e then (e, Panic)
  else let '(sl, r) := body (es_slot e) in
       ({| es_slot := sl; es_poisoned := is_panic r |}, r).

Definition db_read {S A} (f : S -> res A) (sl : @slot S) : res A :=
  match sl with Present s => f s | Taken => Panic end.

Definition read_section {S A} (e : estate S) (f : S -> res A) : res A := db_read f (es_slot e).

Section Handlers.
  Context {S J Out : Type}.
  Variable ej : J.
  (* revm around the store: one execution (with the custom precompiles inside) *)
  Variable exec : S -> J -> N -> res (Out * J).
  Variable status : Out -> bool.
  (* the gas limit an execution is given is part of the call index: [with_gas i g] *)
  Variable with_gas : N -> N -> N.
  (* store queries *)
  Variable latest_of next_of : S -> res N.
  Variable genesis_missing : S -> res bool.
  Variable open_block : S -> bool.
  (* any read keyed by a block number (get_block, raw block, trace string, ...) *)
  Variable read_by_number : S -> N -> res unit.
  Variable by_hash : S -> N -> res (option N).
  Variable json_b256 : list N -> option N.
  (* finalise_block on the store (no take: the store stays in its slot) *)
  Variable finalise : S -> N -> res S.
  (* add_tx_to_block: inspect_tx_commit inside the take window, then the bookkeeping writes *)
  Variable commit_exec : S -> N -> res S.
  Variable bookkeeping : S -> N -> res S.
  Variable LIMIT GPB : N.    (* evm_call_gas_limit, GAS_PER_BYTE *)

  Inductive request : Type :=
  | RByNumber (tag : list N)                         (* eth_getBlockByNumber and its like *)
  | RTxCount (tag : list N)                          (* eth_getBlockTransactionCountByNumber *)
  | RGetLogs (from to : option (list N))
  | RByHashOrNumber (s : list N)                     (* debug_getRaw* *)
  | RMine (count : N)
  | RInitialise (hash_zero : bool) (height : N)
  | RCall (i : N) (block : option (list N))          (* eth_call *)
  | RCallMany (calls : list N) (block : option (list N))
  | REstimateGas (i : N) (block : option (list N))
  | RTx (i : N).                                     (* deploy / call / deposit / withdraw *)

  Definition h_latest (e : estate S) : res N := read_section e latest_of.
  Definition h_next (e : estate S) : res N := read_section e next_of.
  Definition h_parse (e : estate S) (s : list N) : res N := parse_block_number (h_latest e) (h_next e) s.

  Definition h_opt_block (e : estate S) (b : option (list N)) : res unit :=
    match b with None => Ok tt | Some s => do _ <- h_parse e s; Ok tt end.

  (* one read_contract: the write lock, the take / swap protocol of ReadSlot *)
  Definition h_read (e : estate S) (i : N) : estate S * res Out :=
    write_section e (fun sl => read_contract ej exec sl i).

  Definition h_finalise (e : estate S) (n : N) : estate S * res unit :=
    write_section e (fun sl =>
      match sl with
      | Taken => (Taken, Panic)
      | Present s => match finalise s n with
                     | Ok s' => (Present s', Ok tt)
                     | Err => (Present s, Err)
                     | Panic => (Present s, Panic)
                     end
      end).

  Definition h_probe (e : estate S) (i g : N) : estate S * res (option bool) :=
    let '(e', r) := h_read e (with_gas i g) in
    (e', match r with Ok o => Ok (Some (status o)) | Err => Ok None | Panic => Panic end).

  Definition handle (fx : fixes) (m : ovf) (e : estate S) (r : request) : estate S * res unit :=
    match r with
    | RByNumber tag =>
        (e, do n <- h_parse e tag; read_section e (fun s => read_by_number s n))
    | RTxCount tag =>
        (e, do n <- h_parse e tag;
            do rg <- block_tx_count_range fx m n;
            match rg with None => Ok tt | Some (lo, _) => read_section e (fun s => read_by_number s lo) end)
    | RGetLogs from to =>
        (e, do rg <- eth_get_logs_front fx m (h_latest e) (h_next e) from to;
            read_section e (fun s => read_by_number s (fst rg)))
    | RByHashOrNumber s =>
        (e, do n <- resolve_block_hash_or_number (h_latest e) (h_next e) json_b256
                      (fun h => read_section e (fun st => by_hash st h)) s;
            read_section e (fun st => read_by_number st n))
    | RMine count =>
        let opn := match es_slot e with Present s => open_block s | Taken => false end in
        let r := mine_blocks h_finalise fx m e opn (h_next e) (read_section e genesis_missing) count in
        (ms_st r, ms_res r)
    | RInitialise hz height =>
        (e, initialise_front fx m hz height (read_section e (fun s => read_by_number s height)))
    | RCall i block =>
        match h_opt_block e block with
        | Ok _ => let '(e', o) := h_read e (with_gas i LIMIT) in (e', do _ <- o; Ok tt)
        | Err => (e, Err)
        | Panic => (e, Panic)
        end
    | RCallMany calls block =>
        match h_opt_block e block with
        | Ok _ => let '(e', o) := write_section e (fun sl => read_contract_multi ej exec sl calls) in
                  (e', do _ <- o; Ok tt)
        | Err => (e, Err)
        | Panic => (e, Panic)
        end
    | REstimateGas i block =>
        match h_opt_block e block with
        | Ok _ =>
            let '(e1, o) := h_read e (with_gas i LIMIT) in
            match o with
            | Panic => (e1, Panic)
            | Err => (e1, Err)
            | Ok out =>
                if negb (status out) then (e1, Err) else
                match bisect (fun st g => h_probe st i g) 65 fx m GPB e1 21000 LIMIT 0 with
                | None => (e1, Err)           (* cannot happen: see estimate_gas_terminates *)
                | Some (e2, Panic) => (e2, Panic)
                | Some (e2, Err) => (e2, Err)
                | Some (e2, Ok (g, _)) =>
                    let '(e3, o3) := h_read e2 (with_gas i g) in
                    (e3, do _ <- o3; do _ <- h_opt_block e3 block; Ok tt)
                end
            end
        | Err => (e, Err)
        | Panic => (e, Panic)
        end
    | RTx i =>
        write_section e (fun sl =>
          match sl with
          | Taken => (Taken, Panic)
          | Present s =>
              match commit_exec s i with           (* between core::mem::take and swap *)
              | Panic => (Taken, Panic)
              | Err => (Present s, Err)
              | Ok s' =>
                  match bookkeeping s' i with      (* after the swap *)
                  | Ok s'' => (Present s'', Ok tt)
                  | Err => (Present s', Err)
                  | Panic => (Present s', Panic)
                  end
              end
          end)
    end.

  (* requests whose strings are Rust Strings *)
  Definition opt_valid (o : option (list N)) : bool :=
    match o with Some s => utf8_valid s | None => true end.
  Definition request_wf (r : request) : bool :=
    match r with
    | RByNumber s | RTxCount s | RByHashOrNumber s => utf8_valid s
    | RGetLogs a b => opt_valid a && opt_valid b
    | RCall _ b | RCallMany _ b | REstimateGas _ b => opt_valid b
    | RMine _ | RInitialise _ _ | RTx _ => true
    end.
End Handlers.
