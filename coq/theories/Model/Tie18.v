(* Executable checker for C18: the rows (block, index, logs) of a real chain, a filter, and the
   tags of the logs eth_getLogs returned (None = the request was refused). *)
From Brc.Model Require Import Base Logs.

Record case18 := { c18_id : N; c18_latest : N; c18_from : option N; c18_to : option N;
                   c18_addr : option N; c18_topics : option (list tfilter);
                   c18_rows : list entry; c18_got : option (list N) }.

Definition check18 (c : case18) : bool :=
  match get_logs (c18_latest c) (c18_from c) (c18_to c) (c18_addr c) (c18_topics c) (c18_rows c), c18_got c with
  | Ok ls, Some tags => list_eqb N.eqb (map l_tag ls) tags
  | Err, None => true
  | _, _ => false
  end.

Definition bad_cases18 (cs : list case18) : list N := map c18_id (filter (fun c => negb (check18 c)) cs).
