(* Executable checkers used by the C14 correspondence run.  The harness drives the real
   Encode/Decode implementations and writes, per persisted type, the values it encoded with
   the bytes the implementation produced, the malformed buffers it fed to the decoders with
   the outcome the implementation gave, and the key pairs it compared; these functions redo
   the same on the model and return the ids of the cases that differ. *)
From Brc.Model Require Import Base History Codec.

(* ---- equality of model values ---- *)
Definition obytes_eqb := opt_eqb bytes_eqb.
Definition account_eqb (a b : account) : bool :=
  (a_balance a =? a_balance b) && (a_nonce a =? a_nonce b) && bytes_eqb (a_code_hash a) (a_code_hash b).
Definition log_eqb (a b : log) : bool :=
  bytes_eqb (l_address a) (l_address b) && list_eqb bytes_eqb (l_topics a) (l_topics b)
  && bytes_eqb (l_data a) (l_data b) && (l_tx_index a =? l_tx_index b)
  && bytes_eqb (l_tx_hash a) (l_tx_hash b) && bytes_eqb (l_block_hash a) (l_block_hash b)
  && (l_block_number a =? l_block_number b) && (l_log_index a =? l_log_index b).
Definition tx_eqb (a b : tx) : bool :=
  bytes_eqb (x_hash a) (x_hash b) && (x_nonce a =? x_nonce b)
  && bytes_eqb (x_block_hash a) (x_block_hash b)
  && opt_eqb N.eqb (x_block_number a) (x_block_number b)
  && opt_eqb N.eqb (x_tx_index a) (x_tx_index b)
  && bytes_eqb (x_from a) (x_from b) && obytes_eqb (x_to a) (x_to b)
  && (x_value a =? x_value b) && (x_gas a =? x_gas b) && (x_gas_price a =? x_gas_price b)
  && bytes_eqb (x_input a) (x_input b) && (x_v a =? x_v b) && (x_r a =? x_r b) && (x_s a =? x_s b)
  && (x_chain_id a =? x_chain_id b) && (x_type a =? x_type b)
  && obytes_eqb (x_inscription_id a) (x_inscription_id b).
Definition receipt_eqb (a b : receipt) : bool :=
  (r_status a =? r_status b) && list_eqb log_eqb (r_logs a) (r_logs b)
  && (r_gas_used a =? r_gas_used b) && bytes_eqb (r_from a) (r_from b)
  && obytes_eqb (r_to a) (r_to b) && obytes_eqb (r_contract_address a) (r_contract_address b)
  && bytes_eqb (r_logs_bloom a) (r_logs_bloom b) && bytes_eqb (r_block_hash a) (r_block_hash b)
  && (r_block_number a =? r_block_number b) && bytes_eqb (r_tx_hash a) (r_tx_hash b)
  && (r_tx_index a =? r_tx_index b) && (r_cumulative_gas_used a =? r_cumulative_gas_used b)
  && (r_effective_gas_price a =? r_effective_gas_price b) && (r_type a =? r_type b).
Definition block_eqb (a b : block) : bool :=
  (b_difficulty a =? b_difficulty b) && (b_gas_limit a =? b_gas_limit b)
  && (b_gas_used a =? b_gas_used b) && bytes_eqb (b_hash a) (b_hash b)
  && bytes_eqb (b_logs_bloom a) (b_logs_bloom b) && (b_nonce a =? b_nonce b)
  && (b_number a =? b_number b) && (b_timestamp a =? b_timestamp b)
  && (b_mine_timestamp a =? b_mine_timestamp b)
  && opt_eqb (list_eqb bytes_eqb) (b_transactions a) (b_transactions b)
  && bytes_eqb (b_transactions_root a) (b_transactions_root b)
  && (b_total_difficulty a =? b_total_difficulty b) && bytes_eqb (b_parent_hash a) (b_parent_hash b)
  && bytes_eqb (b_receipts_root a) (b_receipts_root b) && (b_size a =? b_size b)
  && Bool.eqb (b_rest_default a) (b_rest_default b).
Fixpoint trace_eqb (a b : trace) : bool :=
  match a, b with
  | Trace ty fr to cs g gu i o v e rr, Trace ty' fr' to' cs' g' gu' i' o' v' e' rr' =>
      bytes_eqb ty ty' && bytes_eqb fr fr' && obytes_eqb to to'
      && (fix go (l l' : list trace) : bool :=
            match l, l' with
            | [], [] => true
            | x :: t, x' :: t' => trace_eqb x x' && go t t'
            | _, _ => false
            end) cs cs'
      && (g =? g') && (gu =? gu') && bytes_eqb i i' && bytes_eqb o o' && (v =? v')
      && obytes_eqb e e' && obytes_eqb rr rr'
  end.
Definition hist_eqb {V} (veqb : V -> V -> bool) : list (N * option V) -> list (N * option V) -> bool :=
  list_eqb (pair_eqb N.eqb (opt_eqb veqb)).

(* ---- a value the implementation encoded ---- *)
Record vcase (A : Type) := {
  vc_id : N; vc_val : A;
  vc_bytes : bytes;            (* encode_vec() of the implementation *)
  vc_pre : bytes; vc_rest : bytes   (* the implementation also decoded pre ++ bytes ++ rest at |pre| *)
}.
Arguments vc_id {A}. Arguments vc_val {A}. Arguments vc_bytes {A}. Arguments vc_pre {A}. Arguments vc_rest {A}.

Definition res_is {A} (eqb : A -> A -> bool) (r : res (A * nat)) (v : A) (o : nat) : bool :=
  match r with Ok (v', o') => eqb v' v && Nat.eqb o' o | _ => false end.

Definition vcheck {A} (c : codec A) (eqb : A -> A -> bool) (k : vcase A) : bool :=
  let v := vc_val k in let b := vc_bytes k in
  wf c v && bytes_ok b && bytes_eqb (enc c v) b
  && res_is eqb (dec c b 0) v (length b)
  && res_is eqb (dec c (vc_pre k ++ b ++ vc_rest k) (length (vc_pre k))) v
            (length (vc_pre k) + length b)%nat.

Definition bad_vcases {A} (c : codec A) (eqb : A -> A -> bool) (cs : list (vcase A)) : list N :=
  map vc_id (filter (fun k => negb (vcheck c eqb k)) cs).

(* ---- an arbitrary buffer fed to the implementation's decoder ---- *)
Record mcase := {
  mc_id : N; mc_bytes : bytes; mc_off : N;
  mc_out : N;                  (* 0 = Ok, 1 = Err, 2 = panic *)
  mc_end : N;                  (* offset returned (Ok only) *)
  mc_reenc : bytes             (* encode_vec() of the decoded value (Ok only) *)
}.

Definition mcheck {A} (c : codec A) (k : mcase) : bool :=
  match dec c (mc_bytes k) (N.to_nat (mc_off k)) with
  | Ok (v, o) => (mc_out k =? 0) && (N.of_nat o =? mc_end k) && bytes_eqb (enc c v) (mc_reenc k)
  | Err => mc_out k =? 1
  | Panic => mc_out k =? 2
  end.

Definition bad_mcases {A} (c : codec A) (cs : list mcase) : list N :=
  map mc_id (filter (fun k => negb (mcheck c k)) cs).

(* ---- a pair of keys ---- *)
Definition cmp_code (c : comparison) : N := match c with Lt => 0 | Eq => 1 | Gt => 2 end.
Record ocase (A : Type) := {
  oc_id : N; oc_a : A; oc_b : A;
  oc_bytes_cmp : N;            (* encode_vec(a).cmp(encode_vec(b)) in the implementation *)
  oc_val_cmp : N               (* a.cmp(b) of the Rust values *)
}.
Arguments oc_id {A}. Arguments oc_a {A}. Arguments oc_b {A}. Arguments oc_bytes_cmp {A}. Arguments oc_val_cmp {A}.

Definition ocheck {A} (c : codec A) (vcmp : A -> A -> comparison) (k : ocase A) : bool :=
  wf c (oc_a k) && wf c (oc_b k)
  && (cmp_code (lcmp (enc c (oc_a k)) (enc c (oc_b k))) =? oc_bytes_cmp k)
  && (cmp_code (vcmp (oc_a k) (oc_b k)) =? oc_val_cmp k).

Definition bad_ocases {A} (c : codec A) (vcmp : A -> A -> comparison) (cs : list (ocase A)) : list N :=
  map oc_id (filter (fun k => negb (ocheck c vcmp k)) cs).

Definition pair_cmp (p q : bytes * N) : comparison :=
  match lcmp (fst p) (fst q) with Eq => snd p ?= snd q | c => c end.

(* number-and-index keys: the implementation's get_number_and_index_key(block, idx) *)
Record kcase := { kc_id : N; kc_block : N; kc_idx : N; kc_key : N; kc_bytes : bytes }.
Definition kcheck (k : kcase) : bool :=
  (ni_key (kc_block k) (kc_idx k) =? kc_key k) && bytes_eqb (enc c_U128 (kc_key k)) (kc_bytes k).
Definition bad_kcases (cs : list kcase) : list N :=
  map kc_id (filter (fun k => negb (kcheck k)) cs).

(* (address, slot) keys: U512ED::from_addr_u256 *)
Record scase := { sc_id : N; sc_addr : bytes; sc_slot : N; sc_bytes : bytes }.
Definition scheck (k : scase) : bool :=
  bytes_eqb (enc c_U512 (slot_key (sc_addr k) (sc_slot k))) (sc_bytes k).
Definition bad_scases (cs : list scase) : list N :=
  map sc_id (filter (fun k => negb (scheck k)) cs).

(* ---- raw blocks: the RLP layer (alloy_rlp) is taken from the implementation ---- *)
Definition rb_codec : codec (bytes * list bytes) :=
  c_rawblock bytes bytes (fun b => b) (fun b => Some b) (fun r => r) (fun r => Some r).
Definition rb_eqb (a b : bytes * list bytes) : bool :=
  bytes_eqb (fst a) (fst b) && list_eqb bytes_eqb (snd a) (snd b).
