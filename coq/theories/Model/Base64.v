(* base64, standard alphabet, engine BASE64_STANDARD_NO_PAD of the `base64` crate 0.22.1
   (GeneralPurpose, encode_padding = false, decode_padding_mode = RequireNone,
   decode_allow_trailing_bits = false).  Strings are lists of their UTF-8 bytes, byte strings
   are lists of N below 256.  Only accept/reject and the produced bytes are modelled, not the
   kind of DecodeError.  Executable definitions only. *)
From Brc.Model Require Import Base.

Definition len {A} (l : list A) : N := N.of_nat (length l).

(* alphabet::STANDARD: A-Z a-z 0-9 + / *)
Definition b64_chr (v : N) : N :=
  if v <? 26 then v + 65
  else if v <? 52 then v + 71
  else if v <? 62 then v - 4
  else if v =? 62 then 43
  else 47.

(* the decode table: every other byte (including '=' = 61, see below) is INVALID_VALUE *)
Definition b64_val (c : N) : option N :=
  if (65 <=? c) && (c <=? 90) then Some (c - 65)
  else if (97 <=? c) && (c <=? 122) then Some (c - 71)
  else if (48 <=? c) && (c <=? 57) then Some (c + 4)
  else if c =? 43 then Some 62
  else if c =? 47 then Some 63
  else None.

(* Engine::encode without padding: 3 bytes -> 4 symbols; 2 -> 3; 1 -> 2. *)
Fixpoint b64_encode (l : list N) : list N :=
  match l with
  | [] => []
  | [a] => [b64_chr (a / 4); b64_chr ((a mod 4) * 16)]
  | [a; b] => [b64_chr (a / 4); b64_chr ((a mod 4) * 16 + b / 16); b64_chr ((b mod 16) * 4)]
  | a :: b :: c :: r =>
      b64_chr (a / 4) :: b64_chr ((a mod 4) * 16 + b / 16)
      :: b64_chr ((b mod 16) * 4 + c / 64) :: b64_chr (c mod 64) :: b64_encode r
  end.

(* Engine::decode.  decode_helper handles complete quads, decode_suffix the last 1..4 symbols:
   - a symbol outside the alphabet anywhere is an error; with RequireNone every '=' is an error
     too (InvalidByte or InvalidPadding), so '=' simply is not a symbol;
   - one left-over symbol: InvalidLength;
   - two / three left-over symbols give one / two bytes, and the bits of the last symbol that
     do not reach an output byte must be zero (InvalidLastSymbol): decode_allow_trailing_bits
     is false;
   - the empty string decodes to the empty vector. *)
Fixpoint b64_decode (s : list N) : option (list N) :=
  match s with
  | [] => Some []
  | [_] => None
  | [c1; c2] =>
      match b64_val c1, b64_val c2 with
      | Some v1, Some v2 => if v2 mod 16 =? 0 then Some [v1 * 4 + v2 / 16] else None
      | _, _ => None
      end
  | [c1; c2; c3] =>
      match b64_val c1, b64_val c2, b64_val c3 with
      | Some v1, Some v2, Some v3 =>
          if v3 mod 4 =? 0 then Some [v1 * 4 + v2 / 16; (v2 mod 16) * 16 + v3 / 4] else None
      | _, _, _ => None
      end
  | c1 :: c2 :: c3 :: c4 :: r =>
      match b64_val c1, b64_val c2, b64_val c3, b64_val c4 with
      | Some v1, Some v2, Some v3, Some v4 =>
          match b64_decode r with
          | Some t => Some (v1 * 4 + v2 / 16 :: (v2 mod 16) * 16 + v3 / 4 :: (v3 mod 4) * 64 + v4 :: t)
          | None => None
          end
      | _, _, _, _ => None
      end
  end.
