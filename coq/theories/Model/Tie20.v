(* Executable checker of the C20 correspondence run.  The harness prepares a database
   directory (by real start-ups under a creating configuration, by writing / deleting rows
   of the `config` database directly, by dropping foreign files), reads back what is there
   ([dc_dir]), calls the public start() with [dc_cfg] and records whether it succeeded,
   what the directory holds afterwards and -- where a server came up on a directory that had
   served before -- whether the served state is the one observed before the restart. *)
From Brc.Model Require Import Base Config ConfigDb.

Record dcase := {
  dc_id : N;
  dc_dir : dirstate;          (* before start() *)
  dc_cfg : config;
  dc_start_ok : bool;         (* start(cfg).is_ok() *)
  dc_after : dirstate;        (* after start() (and stop) *)
  dc_state_kept : bool        (* observation after reopen = observation before (true where not applicable) *)
}.

Definition rows_sub (a b : rows) : bool :=
  forallb (fun p => opt_eqb String.eqb (r_get b (fst p)) (r_get a (fst p))) a.
Definition rows_eqb (a b : rows) : bool := rows_sub a b && rows_sub b a.

Definition dir_eqb (a b : dirstate) : bool :=
  match a, b with
  | DAbsent, DAbsent => true
  | DNotDir, DNotDir => true
  | DDir o1 c1, DDir o2 c2 =>
      Bool.eqb o1 o2 && match c1, c2 with
                        | Some r1, Some r2 => rows_eqb r1 r2
                        | None, None => true
                        | _, _ => false
                        end
  | _, _ => false
  end.

Definition check_dcase (dbv pv : N) (c : dcase) : bool :=
  let r := start_model dbv pv (dc_cfg c) (dc_dir c) in
  Bool.eqb (fst r) (dc_start_ok c) && dir_eqb (snd r) (dc_after c) && dc_state_kept c.

Definition bad_dcases (dbv pv : N) (cs : list dcase) : list N :=
  map dc_id (filter (fun c => negb (check_dcase dbv pv c)) cs).
