(* Executable checker for store traces recorded from the real engine (C01, C03, C04, C05...):
   the harness lists, per case, the store operations the engine performed (from the hook's
   event log, keys packed as table-index * 2^600 + big-endian key, values interned), the
   operations the store refused, and probes = what the implementation answered at that point
   for point reads, range scans, block rows, heights and the max_block_number row.  The model
   replays the operations and must (a) never panic or refuse where the implementation
   succeeded, (b) agree with every probe, and (c) the trace must be well-formed ([wf_run]),
   which is the hypothesis of the C01/C03 theorems. *)
From Brc.Model Require Import Base History Table BlockTable Store.

Inductive titem : Type :=
| IOp (o : sop)
| IRefused (o : sop)
| IProbe (keys : list N) (vals : list (option N))
         (rngs : list (N * N)) (rvals : list (list (N * N)))
         (bkeys : list N) (hs bs rs : list (option N))
         (height next maxb : N).

Record scase := { sc_id : N; sc_items : list titem }.

Definition res_or {A} (r : res A) (d : A) : A := match r with Ok a => a | _ => d end.

Definition probe_ok (s : store) (it : titem) : bool :=
  match it with
  | IProbe keys vals rngs rvals bkeys hs bs rs height next maxb =>
      let ls := map (t_latest (st_t s)) keys in
      forallb is_ok ls
      && list_eqb (opt_eqb N.eqb) (map (fun r => res_or r None) ls) vals
      && list_eqb (list_eqb (pair_eqb N.eqb N.eqb))
                  (map (fun r => res_or (t_get_range (st_t s) (fst r) (snd r)) []) rngs) rvals
      && list_eqb (opt_eqb N.eqb) (map (b_get (st_hash s)) bkeys) hs
      && list_eqb (opt_eqb N.eqb) (map (b_get (st_blk s)) bkeys) bs
      && list_eqb (opt_eqb N.eqb) (map (b_get (st_raw s)) bkeys) rs
      && (latest_height s =? height) && (next_height s =? next)
      && ((match st_max s with Some m => m | None => 0 end) =? maxb)
  | _ => true
  end.

(* 0 = fine; 1 = model/implementation disagree; 2 = trace not well-formed *)
Fixpoint s_check (W : N) (s : store) (w : option wfst) (items : list titem) : N :=
  match items with
  | [] => match w with Some _ => 0 | None => 2 end
  | IOp o :: r =>
      match sto_step W s o with
      | Ok s' => s_check W s' (match w with Some st => wf_step W st o | None => None end) r
      | _ => 1
      end
  | IRefused o :: r =>
      match sto_step W s o with
      | Err => s_check W s w r
      | _ => 1
      end
  | (IProbe _ _ _ _ _ _ _ _ _ _ _ as p) :: r =>
      if probe_ok s p then s_check W s w r else 1
  end.

(* ids of the failing cases; a case whose only fault is well-formedness is reported as
   id + 500000000 *)
Definition bad_scases (W : N) (cs : list scase) : list N :=
  flat_map (fun c => match s_check W st_empty (Some wf_init) (sc_items c) with
                     | 0 => []
                     | 1 => [sc_id c]
                     | _ => [sc_id c + 500000000]
                     end) cs.
