(* Lock programs of the RPC handlers and the writer-preferring read-write lock (C11).
   Executable definitions only.

   Locks are numbers.  What a handler does with the process-wide [SharedData] locks is a
   finite list of [Acq l R | Acq l W | Rel l].  A configuration is a list of threads, each
   with its remaining program, the multiset of (lock, mode) pairs it holds, and a flag
   saying that it has announced its next request and is queued on that lock.  The lock
   table ([ltab]) is a view computed from the threads: per lock, the number of read holders,
   the number of write holders and the numbers of queued readers and writers.

   Semantics = std::sync::RwLock on this platform (futex implementation, writer-preferring):
     - a read request is granted iff no writer holds the lock and no writer is queued on it;
     - a write request is granted iff nobody (the requester included) holds the lock;
     - a request that is not granted queues (one step: the thread sets its flag), after which
       the thread cannot step until the request becomes grantable;
     - a release always succeeds.
   [step_gen true] is the liberal variant in which a queued writer does not stop readers
   (reader-preferring / barging implementations); the deadlock-freedom theorem is proved for
   every mixture of the two, the deadlock witness for the strict one. *)
From Brc.Model Require Import Base.

Inductive mode := R | W.
Inductive instr := Acq (l : N) (m : mode) | Rel (l : N).
Definition prog := list instr.

Definition mode_eqb (a b : mode) : bool :=
  match a, b with R, R => true | W, W => true | _, _ => false end.
Definition is_W (m : mode) : bool := match m with W => true | R => false end.

Definition instr_eqb (a b : instr) : bool :=
  match a, b with
  | Acq l m, Acq l' m' => (l =? l') && mode_eqb m m'
  | Rel l, Rel l' => l =? l'
  | _, _ => false
  end.

Record thread := mkT { t_prog : prog; t_held : list (N * mode); t_wait : bool }.
Definition config := list thread.

Definition init_thread (p : prog) : thread := mkT p [] false.
Definition init (ps : list prog) : config := map init_thread ps.

(* --- the lock table, as a view of the configuration --- *)

Definition memN (l : N) (ls : list N) : bool := existsb (N.eqb l) ls.
Definition holdsb (held : list (N * mode)) (l : N) : bool :=
  existsb (fun h => fst h =? l) held.
Definition holds_wb (held : list (N * mode)) (l : N) : bool :=
  existsb (fun h => (fst h =? l) && is_W (snd h)) held.

Definition held_any (c : config) (l : N) : bool := existsb (fun t => holdsb (t_held t) l) c.
Definition held_w (c : config) (l : N) : bool := existsb (fun t => holds_wb (t_held t) l) c.

Definition requests (t : thread) : option (N * mode) :=
  match t_prog t with Acq l m :: _ => Some (l, m) | _ => None end.

Definition queued_w (t : thread) (l : N) : bool :=
  t_wait t && match requests t with Some (l', W) => l' =? l | _ => false end.
Definition queued_r (t : thread) (l : N) : bool :=
  t_wait t && match requests t with Some (l', R) => l' =? l | _ => false end.
Definition writer_queued (c : config) (l : N) : bool := existsb (fun t => queued_w t l) c.

Definition count {A} (f : A -> bool) (xs : list A) : N := N.of_nat (length (filter f xs)).

Record lock_state := { ls_readers : N; ls_writers : N; ls_queued_r : N; ls_queued_w : N }.
Definition ltab (c : config) (l : N) : lock_state :=
  {| ls_readers := fold_right N.add 0
       (map (fun t => count (fun h => (fst h =? l) && negb (is_W (snd h))) (t_held t)) c);
     ls_writers := fold_right N.add 0
       (map (fun t => count (fun h => (fst h =? l) && is_W (snd h)) (t_held t)) c);
     ls_queued_r := count (fun t => queued_r t l) c;
     ls_queued_w := count (fun t => queued_w t l) c |}.

(* --- steps --- *)

Definition grantable (liberal : bool) (c : config) (l : N) (m : mode) : bool :=
  match m with
  | W => negb (held_any c l)
  | R => negb (held_w c l) && (liberal || negb (writer_queued c l))
  end.

Fixpoint remove_one (l : N) (held : list (N * mode)) : list (N * mode) :=
  match held with
  | [] => []
  | h :: hs => if fst h =? l then hs else h :: remove_one l hs
  end.

Fixpoint set_nth {A} (i : nat) (x : A) (xs : list A) {struct xs} : list A :=
  match xs, i with
  | [], _ => []
  | _ :: r, O => x :: r
  | y :: r, S j => y :: set_nth j x r
  end.

(* what thread [t] becomes when it takes a step in [c]; None: it cannot step (finished, or
   queued on a request that is still not grantable) *)
Definition thread_step (liberal : bool) (c : config) (t : thread) : option thread :=
  match t_prog t with
  | [] => None
  | Rel l :: p => Some (mkT p (remove_one l (t_held t)) false)
  | Acq l m :: p =>
      if grantable liberal c l m then Some (mkT p ((l, m) :: t_held t) false)
      else if t_wait t then None
      else Some (mkT (t_prog t) (t_held t) true)
  end.

Definition step_gen (liberal : bool) (c : config) (i : nat) : option config :=
  match nth_error c i with
  | None => None
  | Some t =>
      match thread_step liberal c t with
      | None => None
      | Some t' => Some (set_nth i t' c)
      end
  end.

Definition step : config -> nat -> option config := step_gen false.

Definition enabled (c : config) (i : nat) : bool :=
  match step c i with Some _ => true | None => false end.

Definition finished (c : config) : bool :=
  forallb (fun t => match t_prog t with [] => true | _ => false end) c.

Definition all_blocked (c : config) : bool :=
  forallb (fun i => negb (enabled c i)) (seq 0 (length c)).

(* a deadlock: somebody still has work to do and nobody can step *)
Definition deadlocked (c : config) : bool := negb (finished c) && all_blocked c.

(* run a schedule (thread indices); None if it asks a thread to step that cannot *)
Fixpoint run (c : config) (sched : list nat) : option config :=
  match sched with
  | [] => Some c
  | i :: s => match step c i with Some c' => run c' s | None => None end
  end.

(* --- the discipline --- *)

(* The checker walks the program with the multiset of locks held so far.
   [written]: the locks some handler takes in write mode.  [order]: rank of a lock.
   - an acquisition in write mode must be of a lock listed in [written];
   - a lock listed in [written] is never requested while already held (in any mode), and
     every lock of [written] held at that moment has a strictly smaller rank;
   - a lock that no handler ever takes in write mode is exempt: reading it never waits and
     holding it never makes anybody wait (re-entrant reads of it are allowed, and it does
     not take part in the order);
   - a release is of a lock that is held; at the end nothing is held. *)
Definition acq_ok (written : list N) (order : N -> N) (held : list (N * mode)) (l : N) (m : mode) : bool :=
  if memN l written then
    negb (holdsb held l)
    && forallb (fun h => negb (memN (fst h) written) || (order (fst h) <? order l)) held
  else negb (is_W m).

Fixpoint disc_from (written : list N) (order : N -> N) (held : list (N * mode)) (p : prog) : bool :=
  match p with
  | [] => match held with [] => true | _ => false end
  | Acq l m :: q => acq_ok written order held l m && disc_from written order ((l, m) :: held) q
  | Rel l :: q => holdsb held l && disc_from written order (remove_one l held) q
  end.

Definition disciplinedb (written : list N) (order : N -> N) (p : prog) : bool :=
  disc_from written order [] p.

(* the locks a set of programs takes in write mode *)
Definition writes_of (p : prog) : list N :=
  flat_map (fun i => match i with Acq l W => [l] | _ => [] end) p.
Definition written_of (ps : list prog) : list N := flat_map writes_of ps.

(* --- the deadlock witness for a re-entrant acquisition --- *)

(* position and lock of the first acquisition of a lock that is already held *)
Fixpoint first_reentry (held : list (N * mode)) (p : prog) (k : nat) : option (nat * N) :=
  match p with
  | [] => None
  | Acq l m :: q => if holdsb held l then Some (k, l) else first_reentry ((l, m) :: held) q (S k)
  | Rel l :: q => first_reentry (remove_one l held) q (S k)
  end.

Definition writer_of (l : N) : prog := [Acq l W; Rel l].

(* Thread 0 runs [p], thread 1 is a writer of the lock.  The schedule: thread 0 runs up to
   its re-entrant request, thread 1 requests the write lock (queues), thread 0 makes its
   re-entrant request (queues).  For [Acq l R; Acq l R; ...] this is the three-step schedule
   A reads l; B requests write l; A re-reads l. *)
Definition witness (p : prog) : option (config * list nat) :=
  match first_reentry [] p 0 with
  | None => None
  | Some (k, l) => Some (init [p; writer_of l], repeat 0%nat k ++ [1%nat; 0%nat])
  end.

Definition witness_deadlocks (p : prog) : bool :=
  match witness p with
  | None => false
  | Some (c, s) => match run c s with Some c' => deadlocked c' | None => false end
  end.

(* --- bounded exhaustive exploration (used for examples and by the tie) --- *)

(* all configurations reachable in at most [fuel] steps contain no deadlock *)
Fixpoint no_deadlock_within (fuel : nat) (c : config) : bool :=
  negb (deadlocked c) &&
  match fuel with
  | O => true
  | S f => forallb (fun i => match step c i with
                             | Some c' => no_deadlock_within f c'
                             | None => true end) (seq 0 (length c))
  end.
