(* L3: the block-keyed table, mirroring src/db/database/block_database.rs (BlockDatabase<V>):
   a BTreeMap cache in front of RocksDB, commit = put every cache entry then flush (the cache
   is kept), reorg deletes immediately from both, last_key = max of both. *)
From Brc.Model Require Import Base Table.

Section BlockTable.
  Context {V : Type}.

  Record btable : Type := mkBTable {
    b_db : kv V;
    b_cache : kv V;   (* BTreeMap: kept in key order by kv_put *)
  }.
  Definition b_empty : btable := mkBTable [] [].

  Definition b_get (t : btable) (k : N) : option V :=
    match kv_get (b_cache t) k with
    | Some v => Some v
    | None => kv_get (b_db t) k
    end.

  Definition b_set (t : btable) (k : N) (v : V) : btable :=
    mkBTable (b_db t) (kv_put (b_cache t) k v).

  Definition b_commit (t : btable) : btable :=
    mkBTable (fold_left (fun d e => kv_put d (fst e) (snd e)) (b_cache t) (b_db t)) (b_cache t).

  Definition b_clear (t : btable) : btable := mkBTable (b_db t) [].

  Definition kv_last_key {A} (m : kv A) : option N := option_map fst (last (map Some m) None).

  Definition omax (a b : option N) : option N :=
    match a, b with
    | Some x, Some y => Some (N.max x y)
    | Some x, None => Some x
    | None, y => y
    end.

  Definition b_last_key (t : btable) : option N := omax (kv_last_key (b_db t)) (kv_last_key (b_cache t)).

  (* reorg(n): delete n+1 ..= last_key from both *)
  Definition b_reorg (t : btable) (n : N) : btable :=
    mkBTable (filter (fun e => fst e <=? n) (b_db t)) (filter (fun e => fst e <=? n) (b_cache t)).

  Inductive bop : Type :=
  | BSet (k : N) (v : V)
  | BCommit
  | BClear
  | BReorg (n : N).

  Definition b_step (t : btable) (o : bop) : btable :=
    match o with
    | BSet k v => b_set t k v
    | BCommit => b_commit t
    | BClear => b_clear t
    | BReorg n => b_reorg t n
    end.
End BlockTable.
Arguments btable V : clear implicits.
