(* The part of Brc20ProgConfig that start-up looks at (src/global/config.rs), and
   validate_config as written.  Executable definitions only. *)
From Coq Require Export String.
From Brc.Model Require Import Base.

Record config := {
  cfg_server_url : string;            (* brc20_prog_rpc_server_url *)
  cfg_enable_auth : bool;             (* brc20_prog_rpc_server_enable_auth *)
  cfg_user : option string;           (* brc20_prog_rpc_server_user *)
  cfg_password : option string;       (* brc20_prog_rpc_server_password *)
  cfg_record_traces : bool;           (* evm_record_traces *)
  cfg_bitcoin_url : string;           (* bitcoin_rpc_url *)
  cfg_network : string;               (* bitcoin_rpc_network *)
  cfg_fail_on_btc_error : bool        (* fail_on_bitcoin_rpc_error *)
}.

Definition is_none {A} (o : option A) : bool := match o with None => true | Some _ => false end.
Definition str_empty (s : string) : bool := match s with EmptyString => true | _ => false end.

(* pub fn validate_config(config) -> Result<(), _> : four guarded early returns, in order *)
Definition validate_config (c : config) : res unit :=
  if cfg_enable_auth c && (is_none (cfg_user c) || is_none (cfg_password c)) then Err
  else if str_empty (cfg_server_url c) then Err
  else if str_empty (cfg_bitcoin_url c) && cfg_fail_on_btc_error c then Err
  else if str_empty (cfg_network c) && cfg_fail_on_btc_error c then Err
  else Ok tt.
