(* Executable checker for the oracle hypotheses of the global C08 theorems
   (C08_on_chain_nonces_consecutive, C08_pool_invariants, C08_pool_never_holds_expired): on the
   calls of a recorded history (the same record as Model/Tie05.v: every indexer call with what
   the RLP / signature layer and revm's validation answered, and the nonces and the pool re-read
   from the implementation after clear_caches / reorg) evaluate, call by call along the run of the
   protocol model,
     H1  revm_nonce_rule        the verdicts one transact consumed read true ... true false ... false
     H2  resync_nonces_agree    nonces re-read after clear / reorg = effective transactions kept
     H3  resync_pool_wf         pool re-read: one entry per (account, nonce), parked <= next block
     H3' resync_pool_unexpired  pool re-read: nothing already expired at the new height
   and report the histories in which one of them fails. *)
From Brc.Model Require Import Base Table Engine EngineRun Tie05.

Definition nonce_hyps_hold (W FN FB IDX : N) (c : ecase) : bool :=
  run_all W FN FB IDX (oracle_ok W FN FB IDX) g_init (map fst (ec_calls c)).

Definition bad_nonce_cases (W FN FB IDX : N) (cs : list ecase) : list N :=
  map ec_id (filter (fun c => negb (nonce_hyps_hold W FN FB IDX c)) cs).

(* which hypothesis fails first, and at which call (for replaying a disagreement by hand):
   (position, 1 | 2 | 3 | 4 for H1 | H2 | H3 | H3') *)
Fixpoint first_failure (W FN FB IDX : N) (g : eng) (cs : list call) (pos : N) : option (N * N) :=
  match cs with
  | [] => None
  | c :: r =>
      if negb (revm_nonce_rule W FN FB IDX g c) then Some (pos, 1)
      else if negb (resync_nonces_agree W FN FB IDX g c) then Some (pos, 2)
      else if negb (resync_pool_wf W FN FB IDX g c) then Some (pos, 3)
      else if negb (resync_pool_unexpired W FN FB IDX g c) then Some (pos, 4)
      else first_failure W FN FB IDX (fst (e_step W FN FB IDX g c)) r (pos + 1)
  end.
