(* Executable checker for the engine protocol model (C05, C08): the harness lists the indexer
   calls of a history (with what the RLP/signature layer and revm's validation answered) and,
   per call, what the implementation returned: rejected / ok with k receipts, and after the
   call the height, the next height, the number of transactions in the open block and the
   pending pool as (account, nonce, parked-in block) triples. *)
From Brc.Model Require Import Base Table Engine.

Record eprobe := { ep_out : outcome; ep_next : N; ep_wait : N; ep_pool : list (N * N * N) (* account, nonce, block it was (last) parked in *) }.
Record ecase := { ec_id : N; ec_calls : list (call * eprobe) }.

Definition outcome_eqb (a b : outcome) : bool :=
  match a, b with
  | ORejected, ORejected => true
  | OOk x, OOk y => x =? y
  | OPanic, OPanic => true
  | _, _ => false
  end.

Definition pool_keys (g : eng) : list (N * N * N) := g_pool g.
Definition pair_mem (p : N * N * N) (l : list (N * N * N)) : bool := existsb (pair_eqb (pair_eqb N.eqb N.eqb) N.eqb p) l.
Definition same_set (a b : list (N * N * N)) : bool :=
  Nat.eqb (length a) (length b) && forallb (fun p => pair_mem p b) a && forallb (fun p => pair_mem p a) b.

Fixpoint e_check (W FN FB IDX : N) (g : eng) (cs : list (call * eprobe)) : bool :=
  match cs with
  | [] => true
  | (c, p) :: r =>
      let '(g', o) := e_step W FN FB IDX g c in
      outcome_eqb o (ep_out p) && (next_h g' =? ep_next p) && (g_wait g' =? ep_wait p)
      && same_set (pool_keys g') (ep_pool p) && e_check W FN FB IDX g' r
  end.

Definition bad_ecases (W FN FB IDX : N) (cs : list ecase) : list N :=
  map ec_id (filter (fun c => negb (e_check W FN FB IDX g_init (ec_calls c))) cs).
