(* Which store operations an accepted engine call may issue (src/engine/engine.rs over
   src/db/brc20_prog_database.rs): their SHAPE and block stamps; keys and values are
   arbitrary (they come from revm and the hash functions).  A rejected call issues none. *)
From Brc.Model Require Import Base Table Store Engine.

Definition all_sv_at (b : N) (tr : list sop) : Prop :=
  Forall (fun o => exists k v, o = SV b k v) tr.

(* finalise_block(number n): block row, raw block row, the pool clean-up (unsets stamped with
   the block), then set_block_hash: hash row, hash->number row, the height bookkeeping *)
Definition fin_trace (n : N) (tr : list sop) : Prop :=
  exists b1 b2 us b0 k v,
    all_sv_at n us /\ tr = [SB 1 n b1; SB 2 n b2] ++ us ++ [SB 0 n b0; SV n k v; SHash n].

Inductive mine_trace : nat -> N -> list sop -> Prop :=
| mine_nil n : mine_trace O n []
| mine_cons f n t1 t2 : fin_trace n t1 -> mine_trace f (n + 1) t2 -> mine_trace (S f) n (t1 ++ t2).

Definition emits (W FN : N) (g : eng) (c : call) (tr : list sop) : Prop :=
  match c with
  | CTx _ _ _ _ _ => all_sv_at (next_h g) tr
  | CRaw DUndecodable _ _ _ _ | CRaw DWrongChain _ _ _ _ => tr = []
  | CRaw (DSigned a n) _ _ _ _ =>
      (* executed (with whatever it drains) or parked: writes of the block under construction;
         stale / far-future: nothing *)
      if (n =? nonce_of g a) || ((nonce_of g a <? n) && (n <? nonce_of g a + FN))
      then all_sv_at (next_h g) tr else tr = []
  | CFinalise _ _ _ => fin_trace (next_h g) tr
  | CMine count _ => mine_trace (N.to_nat count) (next_h g) tr
  | CInit _ _ hgt =>
      if block_exists g hgt then tr = []
      else exists t1 t2, all_sv_at hgt t1 /\ fin_trace hgt t2 /\ tr = t1 ++ t2
  | CCommit => tr = [SCommit]
  | CClear _ _ _ _ => tr = [SClear]
  | CReorg n _ _ => if n =? height g then tr = [] else tr = [SReorg n]
  | CBadParams => tr = []
  end.
