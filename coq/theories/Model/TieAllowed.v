(* Correspondence run for the engine-protocol hypothesis: the harness lists, for a history run
   on the real engine, every indexer call (with the oracles' answers, as in Tie05) together
   with the store operations recorded while that call was served. *)
From Brc.Model Require Import Base Table Store Engine EngineStore Allowed.

Record acase := { ac_id : N; ac_hist : list (call * list sop) }.

(* id: the history is not [allowed]; id + 500000000: its concatenated trace is not wf_run
   (cannot happen when the first is silent: C01_checked_history_wf) *)
Definition bad_acases (W FN FB IDX : N) (cs : list acase) : list N :=
  flat_map (fun c =>
    (if allowed_b W FN FB IDX g_init wf_init (ac_hist c) then [] else [ac_id c]) ++
    (match wf_run W wf_init (concat (map snd (ac_hist c))) with Some _ => [] | None => [ac_id c + 500000000] end)) cs.
