(* C04 at store level: the persistent part of a [store], the ATOMIC persistent writes, and the
   WRITE SCRIPTS of Brc20ProgDatabase::commit_changes and ::reorg -- the persistent writes in the
   order the code issues them (src/db/brc20_prog_database.rs, block_cached_database.rs,
   block_database.rs after the repairs f2fb7c0 (F17) and 9dd2642 (F18)).  A crash keeps a prefix
   of the script; reopening drops every in-memory part.  Executable definitions only; the
   theorems are in Proofs/CrashP.v, the statements in Props/C04.v. *)
From Brc.Model Require Import Base History Table BlockTable Store.

Notation vhist := (list (N * option N)).

(* what survives a crash: the RocksDB instances.  [p_db]/[p_cdb] are the "name" / "name_cache"
   databases of the (merged) versioned table, then the three block tables, then the
   max_block_number row of the config database (written through by set_block_hash). *)
Record pstate : Type := mkP {
  p_db : kv N;
  p_cdb : kv vhist;
  p_hash : kv N;
  p_blk : kv N;
  p_raw : kv N;
  p_max : option N;
}.

Definition persistent (s : store) : pstate :=
  mkP (t_db (st_t s)) (t_cdb (st_t s)) (b_db (st_hash s)) (b_db (st_blk s)) (b_db (st_raw s)) (st_max s).

(* a process started on the files [d]: every cache empty, latest_block_number not cached *)
Definition reopen (d : pstate) : store :=
  mkStore (mkTable (p_db d) (p_cdb d) []) (mkBTable (p_hash d) []) (mkBTable (p_blk d) [])
          (mkBTable (p_raw d) []) (p_max d) None.

(* One atomic persistent write (one call of put / delete / flush on one RocksDB instance; the
   fail-point of the verification hooks sits in front of exactly these).  [which]: 0 =
   block_number_to_hash, 1 = block_number_to_block, 2 = block_number_to_raw_block; a flush
   changes nothing in the model (3 = the config database). *)
Inductive pwrite : Type :=
| PLatestPut (k v : N)
| PLatestDel (k : N)
| PHistPut (k : N) (h : vhist)
| PHistDel (k : N)
| PBlockPut (which k v : N)
| PBlockDel (which k : N)
| PFlush (which : N)
| PMax (n : N).      (* only set_block_hash writes it (write-through), never commit / reorg *)

Definition apply_pwrite (d : pstate) (w : pwrite) : pstate :=
  match w with
  | PLatestPut k v => mkP (kv_put (p_db d) k v) (p_cdb d) (p_hash d) (p_blk d) (p_raw d) (p_max d)
  | PLatestDel k => mkP (kv_del (p_db d) k) (p_cdb d) (p_hash d) (p_blk d) (p_raw d) (p_max d)
  | PHistPut k h => mkP (p_db d) (kv_put (p_cdb d) k h) (p_hash d) (p_blk d) (p_raw d) (p_max d)
  | PHistDel k => mkP (p_db d) (kv_del (p_cdb d) k) (p_hash d) (p_blk d) (p_raw d) (p_max d)
  | PBlockPut 0 k v => mkP (p_db d) (p_cdb d) (kv_put (p_hash d) k v) (p_blk d) (p_raw d) (p_max d)
  | PBlockPut 1 k v => mkP (p_db d) (p_cdb d) (p_hash d) (kv_put (p_blk d) k v) (p_raw d) (p_max d)
  | PBlockPut _ k v => mkP (p_db d) (p_cdb d) (p_hash d) (p_blk d) (kv_put (p_raw d) k v) (p_max d)
  | PBlockDel 0 k => mkP (p_db d) (p_cdb d) (kv_del (p_hash d) k) (p_blk d) (p_raw d) (p_max d)
  | PBlockDel 1 k => mkP (p_db d) (p_cdb d) (p_hash d) (kv_del (p_blk d) k) (p_raw d) (p_max d)
  | PBlockDel _ k => mkP (p_db d) (p_cdb d) (p_hash d) (p_blk d) (kv_del (p_raw d) k) (p_max d)
  | PFlush _ => d
  | PMax n => mkP (p_db d) (p_cdb d) (p_hash d) (p_blk d) (p_raw d) (omaxN (p_max d) n)
  end.

Definition apply_pwrites (d : pstate) (ws : list pwrite) : pstate := fold_left apply_pwrite ws d.

Section Crash.
  Variable W : N.

  (* ---------- BlockCachedDatabase::commit(b), one cache entry ----------
     is_old is evaluated first; a history that is kept is written BEFORE the latest row; the
     latest row is put (Some) or deleted (None); a dropped history is deleted AFTER it. *)
  Definition latest_write (k : N) (l : option N) : pwrite :=
    match l with Some v => PLatestPut k v | None => PLatestDel k end.

  Definition entry_writes (b : N) (e : N * vhist) : res (list pwrite) :=
    let '(k, h) := e in
    do l <- h_latest h;
    Ok (if h_is_old W h b then [latest_write k l; PHistDel k] else [PHistPut k h; latest_write k l]).

  (* the cache entries in HashMap order (arbitrary: it is part of the state) *)
  Fixpoint vscript (b : N) (es : kv vhist) : res (list pwrite) :=
    match es with
    | [] => Ok []
    | e :: t => do w <- entry_writes b e; do r <- vscript b t; Ok (w ++ r)
    end.

  (* ---------- BlockDatabase::commit: every cache entry in key order (BTreeMap), then flush ---------- *)
  Definition bputs (which : N) (c : kv N) : list pwrite :=
    map (fun e => PBlockPut which (fst e) (snd e)) c ++ [PFlush which].

  (* ---------- BlockDatabase::reorg(n): delete n+1 ..= last_key, one by one, at once ---------- *)
  Fixpoint seqN (start : N) (len : nat) : list N :=
    match len with
    | O => []
    | S l => start :: seqN (start + 1) l
    end.

  Definition bdels (which : N) (t : btable N) (n : N) : list pwrite :=
    match b_last_key t with
    | Some e => map (PBlockDel which) (seqN (n + 1) (N.to_nat (e - n)))
    | None => []
    end.

  (* ---------- commit_changes ----------
     next = get_next_block_height(); flush of the config database; block_number_to_hash,
     block_number_to_block, block_number_to_raw_block; then the versioned tables with [next]
     (their table order is reflected in gen/TableOrder.v; inside the merged table it is the
     order of the cache list); clear_caches writes nothing. *)
  Definition commit_script_ord (s : store) (es : kv vhist) : res (list pwrite) :=
    do v <- vscript (next_height s) es;
    Ok (PFlush 3 :: bputs 0 (b_cache (st_hash s)) ++ bputs 1 (b_cache (st_blk s))
                 ++ bputs 2 (b_cache (st_raw s)) ++ v).

  (* [es]: the cache entries in the order the HashMaps iterate (any permutation of the model's
     cache list; the theorems hold for every one of them) *)
  Definition commit_script (s : store) : res (list pwrite) := commit_script_ord s (t_cache (st_t s)).

  (* ---------- reorg(n) ----------
     guard on max_block_number; block_number_to_hash.commit() FIRST (F18: the recorded height
     must cover every row that is about to reach the disk); every versioned table: roll every
     persisted or cached history back, commit(n), clear; then trim block_number_to_block,
     block_number_to_raw_block and LAST block_number_to_hash; then commit_changes (which finds the
     versioned caches empty and re-puts the surviving cached block rows). *)
  Definition reorg_script_ord (s : store) (n : N) (es1 : kv vhist) : res (list pwrite) :=
    let maxb := match st_max s with Some m => m | None => 0 end in
    if W + n <? maxb then Err
    else
      do v <- vscript n es1;
      let hash1 := b_commit (st_hash s) in
      Ok (bputs 0 (b_cache (st_hash s))
          ++ v
          ++ bdels 1 (st_blk s) n ++ bdels 2 (st_raw s) n ++ bdels 0 hash1 n
          ++ PFlush 3 :: bputs 0 (b_cache (b_reorg hash1 n)) ++ bputs 1 (b_cache (b_reorg (st_blk s) n))
                      ++ bputs 2 (b_cache (b_reorg (st_raw s) n))).

  (* the rolled-back histories (the cache after [reorg_keys]) *)
  Definition reorg_cache (s : store) (n : N) : res (kv vhist) :=
    let t := st_t s in
    do t1 <- reorg_keys t n (map fst (t_cdb t) ++ map fst (t_cache t)); Ok (t_cache t1).

  Definition reorg_script (s : store) (n : N) : res (list pwrite) :=
    do es1 <- reorg_cache s n; reorg_script_ord s n es1.

  (* ---------- the engine's reorg: its guard, then the store's reorg (engine.rs) ---------- *)
  Definition engine_reorg (s : store) (n : N) : res store :=
    match engine_reorg_guard W 0 s n with
    | RvRefused => Err
    | RvNoop => Ok s
    | RvDo => sto_reorg W s n
    end.

  (* ---------- the traces the crash theorems are about ----------
     [wf_run] (Store.v) plus two facts about the rows of block_number_to_hash that the trace
     predicate of Store.v does not need: set_block_hash records the height bookkeeping of block n
     (SHash n) after it has put the row of block n into block_number_to_hash; a reorg goes to a
     block that exists.  Evaluated by Coq on the recorded traces, like [wf_run]. *)
  Definition crash_step_ok (s : store) (o : sop) : bool :=
    match o with
    | SHash n => match kv_get (b_cache (st_hash s)) n with Some _ => true | None => false end
    | SReorg n => match b_get (st_hash s) n with Some _ => true | None => false end
    | _ => true
    end.

  Fixpoint crun (st : wfst) (s : store) (ops : list sop) : option (wfst * store) :=
    match ops with
    | [] => Some (st, s)
    | o :: r =>
        if crash_step_ok s o then
          match wf_step W st o, sto_step W s o with
          | Some st', Ok s' => crun st' s' r
          | _, _ => None
          end
        else None
    end.

  (* is [p] a prefix of [l]?  (used by the executable examples; the theorems say l = p ++ q) *)
  Definition take_writes (j : nat) (l : list pwrite) : list pwrite := firstn j l.
End Crash.
