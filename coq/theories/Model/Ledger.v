(* The BRC20 bridge ledger (C07): a Gallina transcription, at SOURCE level, of
   src/brc20_controller/contract/src/BRC20_Controller.sol (contracts [BRC20] and
   [BRC20_Controller], with access/Ownable.sol and utils/Context.sol), plus the Rust glue of
   src/server/rpc_server.rs (brc20_deposit / brc20_withdraw / brc20_balance) and
   src/brc20_controller/brc20_controller.rs (load_brc20_{mint,burn,balance}_tx,
   decode_brc20_balance_result).  Executable definitions only.

   Conventions.
   - [addr] is a 160-bit number, [0] is address(0); uint256 values are [N]s below 2^256.
     Solidity 0.8 arithmetic is written out: checked operations revert on overflow
     ([checked_add]); what the source puts in an [unchecked] block wraps ([wrap_add],
     [wrap_sub]).
   - A revert is [Err].  A reverted transaction changes nothing: [l_apply] keeps the old
     state (this is the EVM's transaction atomicity; the correspondence run checks it).
   - Events are ignored.  [name()] and [symbol()] are the ticker the token is stored under.
   - msg.sender is threaded explicitly: inside a token function called by the controller,
     msg.sender is the controller's own address [CTL] (the tokens' Ownable owner). *)
From Brc.Model Require Import Base.

Definition addr := N.
Definition ticker := list N.          (* the [bytes] key of [_brc20s] *)

Definition U256_MOD : N := 2 ^ 256.
Definition MAX_U256 : N := U256_MOD - 1.   (* type(uint256).max *)

Definition checked_add (a b : N) : res N := if a + b <? U256_MOD then Ok (a + b) else Err.
Definition wrap_add (a b : N) : N := (a + b) mod U256_MOD.
Definition wrap_sub (a b : N) : N := (a + U256_MOD - b mod U256_MOD) mod U256_MOD.

(* mapping(address => uint256): first binding wins, absent = 0; [aset] overwrites in place or
   appends, so the keys stay distinct. *)
Definition amap := list (N * N).
Fixpoint aget (m : amap) (k : N) : N :=
  match m with
  | [] => 0
  | (k', v) :: r => if k' =? k then v else aget r k
  end.
Fixpoint aset (m : amap) (k v : N) : amap :=
  match m with
  | [] => [(k, v)]
  | (k', v') :: r => if k' =? k then (k, v) :: r else (k', v') :: aset r k v
  end.
Fixpoint asum (m : amap) : N :=
  match m with
  | [] => 0
  | (_, v) :: r => v + asum r
  end.

(* mapping(address => mapping(address => uint256)) *)
Definition almap := list (N * N * N).
Fixpoint alget (m : almap) (o s : N) : N :=
  match m with
  | [] => 0
  | (o', s', v) :: r => if (o' =? o) && (s' =? s) then v else alget r o s
  end.
Fixpoint alset (m : almap) (o s v : N) : almap :=
  match m with
  | [] => [(o, s, v)]
  | (o', s', v') :: r => if (o' =? o) && (s' =? s) then (o, s, v) :: r else (o', s', v') :: alset r o s v
  end.

(* ------------------------------------------------------------------------------------- *)
(* contract BRC20 is Ownable, IERC20Metadata, IERC20Errors                                  *)
(* ------------------------------------------------------------------------------------- *)

Record token := {
  t_owner : addr;            (* Ownable._owner *)
  t_supply : N;              (* _totalSupply *)
  t_bal : amap;              (* _balances *)
  t_allow : almap            (* _allowances *)
}.

Definition tk_set_owner (k : token) (o : addr) : token :=
  {| t_owner := o; t_supply := t_supply k; t_bal := t_bal k; t_allow := t_allow k |}.
Definition tk_set_supply (k : token) (s : N) : token :=
  {| t_owner := t_owner k; t_supply := s; t_bal := t_bal k; t_allow := t_allow k |}.
Definition tk_set_bal (k : token) (b : amap) : token :=
  {| t_owner := t_owner k; t_supply := t_supply k; t_bal := b; t_allow := t_allow k |}.
Definition tk_set_allow (k : token) (a : almap) : token :=
  {| t_owner := t_owner k; t_supply := t_supply k; t_bal := t_bal k; t_allow := a |}.

(* constructor(name_, symbol_) Ownable(_msgSender()): Ownable reverts for a zero owner *)
Definition tk_new (deployer : addr) : res token :=
  if deployer =? 0 then Err
  else Ok {| t_owner := deployer; t_supply := 0; t_bal := []; t_allow := [] |}.

(* function _update(address from, address to, uint256 value) internal *)
Definition tk_update (k : token) (from to value : N) : res token :=
  do k1 <- (if from =? 0 then
              (* _totalSupply += value;  (checked) *)
              do s <- checked_add (t_supply k) value; Ok (tk_set_supply k s)
            else
              let fromBalance := aget (t_bal k) from in
              if fromBalance <? value then Err      (* ERC20InsufficientBalance *)
              else (* unchecked { _balances[from] = fromBalance - value; } *)
                Ok (tk_set_bal k (aset (t_bal k) from (wrap_sub fromBalance value))));
  if to =? 0 then
    (* unchecked { _totalSupply -= value; } *)
    Ok (tk_set_supply k1 (wrap_sub (t_supply k1) value))
  else
    (* unchecked { _balances[to] += value; } *)
    Ok (tk_set_bal k1 (aset (t_bal k1) to (wrap_add (aget (t_bal k1) to) value))).

(* function _transfer(address from, address to, uint256 value) internal *)
Definition tk_transfer (k : token) (from to value : N) : res token :=
  if from =? 0 then Err          (* ERC20InvalidSender *)
  else if to =? 0 then Err       (* ERC20InvalidReceiver *)
  else tk_update k from to value.

(* function _mint(address account, uint256 value) internal *)
Definition tk_mint (k : token) (account value : N) : res token :=
  if account =? 0 then Err else tk_update k 0 account value.

(* function _burn(address account, uint256 value) internal *)
Definition tk_burn (k : token) (account value : N) : res token :=
  if account =? 0 then Err else tk_update k account 0 value.

(* function _approve(address owner, address spender, uint256 value[, bool emitEvent]) internal *)
Definition tk_approve (k : token) (owner spender value : N) : res token :=
  if owner =? 0 then Err         (* ERC20InvalidApprover *)
  else if spender =? 0 then Err  (* ERC20InvalidSpender *)
  else Ok (tk_set_allow k (alset (t_allow k) owner spender value)).

(* function allowance(address owner, address spender) public view *)
Definition tk_allowance (k : token) (owner spender : N) : N :=
  if spender =? owner then MAX_U256 else alget (t_allow k) owner spender.

(* function _spendAllowance(address owner, address spender, uint256 value) internal *)
Definition tk_spend_allowance (k : token) (owner spender value : N) : res token :=
  let currentAllowance := tk_allowance k owner spender in
  if currentAllowance <? MAX_U256 then
    if currentAllowance <? value then Err     (* ERC20InsufficientAllowance *)
    else (* unchecked { _approve(owner, spender, currentAllowance - value, false); } *)
      tk_approve k owner spender (wrap_sub currentAllowance value)
  else Ok k.

(* modifier onlyOwner: _checkOwner() reverts unless owner() == _msgSender() *)
Definition tk_only_owner (sender : addr) (k : token) : res unit :=
  if t_owner k =? sender then Ok tt else Err.   (* OwnableUnauthorizedAccount *)

(* the state-changing external functions of BRC20 *)
Inductive tfn :=
| TTransfer (to value : N)                         (* transfer(address,uint256) *)
| TApprove (spender value : N)                     (* approve(address,uint256) *)
| TTransferFrom (from to value : N)                (* transferFrom(address,address,uint256) *)
| TApproveO (owner spender value : N)              (* approve(address,address,uint256) onlyOwner *)
| TTransferFromO (spender from to value : N)       (* transferFrom(address,address,address,uint256) onlyOwner *)
| TMint (account value : N)                        (* mint(address,uint256) onlyOwner *)
| TBurn (account value : N)                        (* burn(address,uint256) onlyOwner *)
| TRenounce                                        (* renounceOwnership() onlyOwner *)
| TTransferOwnership (newOwner : N)                (* transferOwnership(address) onlyOwner *)
| TUnknown.                                        (* any other selector / bad calldata: no fallback *)

Definition tk_call (sender : addr) (k : token) (f : tfn) : res token :=
  match f with
  | TTransfer to value => tk_transfer k sender to value
  | TApprove spender value => tk_approve k sender spender value
  | TTransferFrom from to value =>
      do k1 <- tk_spend_allowance k from sender value; tk_transfer k1 from to value
  | TApproveO owner spender value =>
      do _ <- tk_only_owner sender k; tk_approve k owner spender value
  | TTransferFromO spender from to value =>
      do _ <- tk_only_owner sender k;
      do k1 <- tk_spend_allowance k from spender value; tk_transfer k1 from to value
  | TMint account value => do _ <- tk_only_owner sender k; tk_mint k account value
  | TBurn account value => do _ <- tk_only_owner sender k; tk_burn k account value
  | TRenounce => do _ <- tk_only_owner sender k; Ok (tk_set_owner k 0)
  | TTransferOwnership newOwner =>
      do _ <- tk_only_owner sender k;
      if newOwner =? 0 then Err else Ok (tk_set_owner k newOwner)   (* OwnableInvalidOwner *)
  | TUnknown => Err
  end.

(* ------------------------------------------------------------------------------------- *)
(* contract BRC20_Controller is Context, Ownable, IBRC20_Controller                         *)
(* ------------------------------------------------------------------------------------- *)

Definition ticker_eqb (a b : ticker) : bool := list_eqb N.eqb a b.

(* mapping(bytes => BRC20) _brc20s, in creation order (the i-th entry is the contract the
   controller created with its nonce 1 + i) *)
Definition tmap := list (ticker * token).
Fixpoint tget (m : tmap) (t : ticker) : option token :=
  match m with
  | [] => None
  | (t', k) :: r => if ticker_eqb t' t then Some k else tget r t
  end.
Fixpoint tset (m : tmap) (t : ticker) (k : token) : tmap :=
  match m with
  | [] => [(t, k)]
  | (t', k') :: r => if ticker_eqb t' t then (t, k) :: r else (t', k') :: tset r t k
  end.
Fixpoint tindex (m : tmap) (t : ticker) : option N :=
  match m with
  | [] => None
  | (t', _) :: r => if ticker_eqb t' t then Some 0
                    else match tindex r t with Some i => Some (i + 1) | None => None end
  end.

Record ledger := {
  l_owner : addr;            (* the controller's Ownable._owner *)
  l_toks : tmap              (* _brc20s *)
}.

(* state right after the deployment transaction sent by [deployer] *)
Definition l_init (deployer : addr) : ledger := {| l_owner := deployer; l_toks := [] |}.

Definition l_set_toks (st : ledger) (m : tmap) : ledger := {| l_owner := l_owner st; l_toks := m |}.
Definition l_set_owner (st : ledger) (o : addr) : ledger := {| l_owner := o; l_toks := l_toks st |}.

Definition l_only_owner (sender : addr) (st : ledger) : res unit :=
  if l_owner st =? sender then Ok tt else Err.

Inductive cfn :=
| CTransfer (t : ticker) (to value : N)            (* transfer(bytes,address,uint256) *)
| CApprove (t : ticker) (spender value : N)        (* approve(bytes,address,uint256) *)
| CTransferFrom (t : ticker) (from to value : N)   (* transferFrom(bytes,address,address,uint256) *)
| CMint (t : ticker) (to value : N)                (* mint(bytes,address,uint256) onlyOwner *)
| CBurn (t : ticker) (from value : N)              (* burn(bytes,address,uint256) onlyOwner *)
| CRenounce                                        (* renounceOwnership() onlyOwner *)
| CTransferOwnership (newOwner : N)                (* transferOwnership(address) onlyOwner *)
| CUnknown.                                        (* any other selector / bad calldata *)

Section Controller.
  (* address(this) of the controller: msg.sender of every call it makes *)
  Variable CTL : addr.

  (* _brc20s[ticker].f(...): a high-level call.  For a ticker never minted the target is
     address(0), which has no code: the call returns nothing and decoding the bool reverts. *)
  Definition l_tok_call (st : ledger) (t : ticker) (f : tfn) : res ledger :=
    match tget (l_toks st) t with
    | None => Err
    | Some k => do k' <- tk_call CTL k f; Ok (l_set_toks st (tset (l_toks st) t k'))
    end.

  Definition l_ctl_call (sender : addr) (st : ledger) (f : cfn) : res ledger :=
    match f with
    | CTransfer t to value =>
        (* return _brc20s[ticker].transferFrom(owner, to, value);   -- the 3-argument overload:
           inside the token msg.sender (the spender) is the controller *)
        l_tok_call st t (TTransferFrom sender to value)
    | CApprove t spender value =>
        l_tok_call st t (TApproveO sender spender value)
    | CTransferFrom t from to value =>
        l_tok_call st t (TTransferFromO sender from to value)
    | CMint t to value =>
        do _ <- l_only_owner sender st;
        do st1 <- (match tget (l_toks st) t with
                   | Some _ => Ok st
                   | None => do k <- tk_new CTL; Ok (l_set_toks st (tset (l_toks st) t k))
                   end);
        l_tok_call st1 t (TMint to value)
    | CBurn t from value =>
        do _ <- l_only_owner sender st;
        l_tok_call st t (TBurn from value)
    | CRenounce => do _ <- l_only_owner sender st; Ok (l_set_owner st 0)
    | CTransferOwnership newOwner =>
        do _ <- l_only_owner sender st;
        if newOwner =? 0 then Err else Ok (l_set_owner st newOwner)
    | CUnknown => Err
    end.

  (* One message call arriving from outside the two contracts: a transaction, or a call made
     by any other contract.  [CallTok] addresses the token contract of a ticker directly; if
     no such contract exists there is nothing to address (defined as a revert; never produced
     by the harness). *)
  Inductive call :=
  | CallCtl (sender : addr) (f : cfn)
  | CallTok (sender : addr) (t : ticker) (f : tfn).

  Definition c_sender (c : call) : addr :=
    match c with CallCtl s _ => s | CallTok s _ _ => s end.

  Definition l_call (st : ledger) (c : call) : res ledger :=
    match c with
    | CallCtl s f => l_ctl_call s st f
    | CallTok s t f =>
        match tget (l_toks st) t with
        | None => Err
        | Some k => do k' <- tk_call s k f; Ok (l_set_toks st (tset (l_toks st) t k'))
        end
    end.

  Definition l_apply (st : ledger) (c : call) : ledger :=
    match l_call st c with Ok st' => st' | _ => st end.

  Definition l_run (st : ledger) (cs : list call) : ledger := fold_left l_apply cs st.

  (* view functions *)
  Inductive query :=
  | QCtlBalanceOf (t : ticker) (a : addr)          (* controller.balanceOf(bytes,address) *)
  | QCtlAllowance (t : ticker) (o s : addr)        (* controller.allowance(bytes,address,address) *)
  | QCtlOwner                                      (* controller.owner() *)
  | QTokTotalSupply (t : ticker)
  | QTokBalanceOf (t : ticker) (a : addr)
  | QTokAllowance (t : ticker) (o s : addr)
  | QTokOwner (t : ticker)
  | QTokDecimals (t : ticker).

  Definition l_query (st : ledger) (q : query) : res N :=
    match q with
    | QCtlBalanceOf t a => match tget (l_toks st) t with Some k => Ok (aget (t_bal k) a) | None => Err end
    | QCtlAllowance t o s => match tget (l_toks st) t with Some k => Ok (tk_allowance k o s) | None => Err end
    | QCtlOwner => Ok (l_owner st)
    | QTokTotalSupply t => match tget (l_toks st) t with Some k => Ok (t_supply k) | None => Err end
    | QTokBalanceOf t a => match tget (l_toks st) t with Some k => Ok (aget (t_bal k) a) | None => Err end
    | QTokAllowance t o s => match tget (l_toks st) t with Some k => Ok (tk_allowance k o s) | None => Err end
    | QTokOwner t => match tget (l_toks st) t with Some k => Ok (t_owner k) | None => Err end
    | QTokDecimals t => match tget (l_toks st) t with Some _ => Ok 18 | None => Err end
    end.

  (* what the properties talk about *)
  Definition balance (st : ledger) (t : ticker) (a : addr) : N :=
    match tget (l_toks st) t with Some k => aget (t_bal k) a | None => 0 end.
  Definition supply (st : ledger) (t : ticker) : option N :=
    match tget (l_toks st) t with Some k => Some (t_supply k) | None => None end.
  Definition holders (st : ledger) (t : ticker) : list addr :=
    match tget (l_toks st) t with Some k => map fst (t_bal k) | None => [] end.

  (* The token movement a call performs when it succeeds: (ticker, from, to, value);
     from = 0 is a mint, to = 0 a burn. *)
  Definition call_move (c : call) : option (ticker * addr * addr * N) :=
    match c with
    | CallCtl s (CTransfer t to v) => Some (t, s, to, v)
    | CallCtl _ (CTransferFrom t from to v) => Some (t, from, to, v)
    | CallCtl _ (CMint t to v) => Some (t, 0, to, v)
    | CallCtl _ (CBurn t from v) => Some (t, from, 0, v)
    | CallTok s t (TTransfer to v) => Some (t, s, to, v)
    | CallTok _ t (TTransferFrom from to v) => Some (t, from, to, v)
    | CallTok _ t (TTransferFromO _ from to v) => Some (t, from, to, v)
    | CallTok _ t (TMint a v) => Some (t, 0, a, v)
    | CallTok _ t (TBurn a v) => Some (t, a, 0, v)
    | _ => None
    end.

  (* the successful calls of a history, in order, with the state each met *)
  Fixpoint l_trace (st : ledger) (cs : list call) : list call :=
    match cs with
    | [] => []
    | c :: r => match l_call st c with
                | Ok st' => c :: l_trace st' r
                | _ => l_trace st r
                end
    end.

  (* sums over the successful calls: what entered / left account [a] of ticker [t] *)
  Definition mv_in (t : ticker) (a : addr) (mint : bool) (c : call) : N :=
    match call_move c with
    | Some (t', from, to, v) =>
        if ticker_eqb t' t && (to =? a) && Bool.eqb (from =? 0) mint then v else 0
    | None => 0
    end.
  Definition mv_out (t : ticker) (a : addr) (burn : bool) (c : call) : N :=
    match call_move c with
    | Some (t', from, to, v) =>
        if ticker_eqb t' t && (from =? a) && Bool.eqb (to =? 0) burn then v else 0
    | None => 0
    end.
  Definition nsum (l : list N) : N := fold_right N.add 0 l.
  Definition deposited (t : ticker) (a : addr) (tr : list call) : N := nsum (map (mv_in t a true) tr).
  Definition received (t : ticker) (a : addr) (tr : list call) : N := nsum (map (mv_in t a false) tr).
  Definition withdrawn (t : ticker) (a : addr) (tr : list call) : N := nsum (map (mv_out t a true) tr).
  Definition sent (t : ticker) (a : addr) (tr : list call) : N := nsum (map (mv_out t a false) tr).
  (* minted / burnt per ticker, whoever the account *)
  Definition mv_minted (t : ticker) (c : call) : N :=
    match call_move c with
    | Some (t', from, _, v) => if ticker_eqb t' t && (from =? 0) then v else 0
    | None => 0
    end.
  Definition mv_burnt (t : ticker) (c : call) : N :=
    match call_move c with
    | Some (t', from, to, v) => if ticker_eqb t' t && negb (from =? 0) && (to =? 0) then v else 0
    | None => 0
    end.
End Controller.

(* ------------------------------------------------------------------------------------- *)
(* The Rust glue: brc20_deposit / brc20_withdraw / brc20_balance                            *)
(* ------------------------------------------------------------------------------------- *)

Section Glue.
  (* get_evm_address_from_pkscript: keccak256(pkscript bytes)[12..32]; opaque *)
  Variable H_addr : list N -> addr.
  (* ticker_as_bytes: str::to_lowercase of the ticker string, as UTF-8 bytes; opaque *)
  Variable lower : list N -> ticker.
  Variable INDEXER : addr.     (* global::INDEXER_ADDRESS: sender of the three glue transactions
                                  and of the controller's deployment (hence its owner) *)
  Variable CTL : addr.         (* BRC20_CONTROLLER_ADDRESS *)

  (* load_brc20_mint_tx(ticker_as_bytes(ticker), get_evm_address_from_pkscript(p), amount) *)
  Definition deposit_call (p : list N) (t : list N) (amount : N) : call :=
    CallCtl INDEXER (CMint (lower t) (H_addr p) amount).
  (* load_brc20_burn_tx(...) *)
  Definition withdraw_call (p : list N) (t : list N) (amount : N) : call :=
    CallCtl INDEXER (CBurn (lower t) (H_addr p) amount).
  (* brc20_balance: read_contract(load_brc20_balance_tx(..)) then decode_brc20_balance_result:
     whatever does not decode as one uint256 (a revert has empty data) is 0 *)
  Definition glue_balance (st : ledger) (p : list N) (t : list N) : N :=
    match l_query st (QCtlBalanceOf (lower t) (H_addr p)) with Ok v => v | _ => 0 end.

  (* what reaches the two contracts: the indexer's deposits and withdrawals, and message calls
     of users (brc20_call from a pkscript, brc20_transact of a signed transaction, calls made
     by contracts users deployed) *)
  Inductive op :=
  | ODeposit (p t : list N) (amount : N)
  | OWithdraw (p t : list N) (amount : N)
  | OUser (c : call).

  Definition op_call (o : op) : call :=
    match o with
    | ODeposit p t v => deposit_call p t v
    | OWithdraw p t v => withdraw_call p t v
    | OUser c => c
    end.

  Definition is_user (o : op) : bool := match o with OUser _ => true | _ => false end.

  Definition g_init : ledger := l_init INDEXER.
  Definition g_run (st : ledger) (os : list op) : ledger := l_run CTL st (map op_call os).

  (* the ops of a history whose transaction succeeded (receipt status 1), in order *)
  Fixpoint g_trace (st : ledger) (os : list op) : list op :=
    match os with
    | [] => []
    | o :: r => match l_call CTL st (op_call o) with
                | Ok st' => o :: g_trace st' r
                | _ => g_trace st r
                end
    end.

  (* amounts of the deposits / withdrawals of a lower-cased ticker [t], and of those that
     concern the account of pkscript-address [a] *)
  Definition op_dep (t : ticker) (o : op) : N :=
    match o with ODeposit _ t' v => if ticker_eqb (lower t') t then v else 0 | _ => 0 end.
  Definition op_wd (t : ticker) (o : op) : N :=
    match o with OWithdraw _ t' v => if ticker_eqb (lower t') t then v else 0 | _ => 0 end.
  Definition op_dep_to (t : ticker) (a : addr) (o : op) : N :=
    match o with
    | ODeposit p t' v => if ticker_eqb (lower t') t && (H_addr p =? a) then v else 0
    | _ => 0
    end.
  Definition op_wd_from (t : ticker) (a : addr) (o : op) : N :=
    match o with
    | OWithdraw p t' v => if ticker_eqb (lower t') t && (H_addr p =? a) then v else 0
    | _ => 0
    end.
  (* transfers of users (controller or token, transfer or transferFrom) into / out of [a] *)
  Definition op_recv (t : ticker) (a : addr) (o : op) : N :=
    match o with OUser c => mv_in t a false c | _ => 0 end.
  Definition op_sent (t : ticker) (a : addr) (o : op) : N :=
    match o with OUser c => mv_out t a false c | _ => 0 end.
End Glue.

(* A concrete lower-casing for the examples and the correspondence run: ASCII letters, and the
   two-byte UTF-8 sequences of U+00C0..U+00DE except U+00D7 (Latin-1 capitals); every other
   byte is kept.  (str::to_lowercase agrees with it on strings over ASCII, Latin-1 and
   caseless characters; the harness only draws tickers from those.) *)
Fixpoint lower_bytes (l : list N) : list N :=
  match l with
  | [] => []
  | 195 :: b :: r =>
      195 :: (if (128 <=? b) && (b <=? 158) && negb (b =? 151) then b + 32 else b) :: lower_bytes r
  | b :: r => (if (65 <=? b) && (b <=? 90) then b + 32 else b) :: lower_bytes r
  end.
