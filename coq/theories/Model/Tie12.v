(* Executable checker of the C12 correspondence run.  The harness starts the real server
   (public start()), sends raw HTTP requests and records per request: the server's auth
   setting, the Authorization bytes it sent, the JSON-RPC request shape, what came back
   (per response object: id and class), whether the store changed across the request
   (mutation events of the hook recorder / state digest) and which handler spans were
   created.  [bad_ocases] replays each request on Model/Auth.v ([serve] with trivial
   handlers) and reports the cases where the implementation answered differently, changed
   state although no mutating handler was reached in the model, or ran a handler the model
   does not reach. *)
From Coq Require Import Ascii.
From Brc.Model Require Import Base Config Auth.

Inductive oclass := OResult | O401 | OErrOther.
Inductive obody :=
| ONone                                      (* empty HTTP body *)
| OSingle (id : option N) (c : oclass)       (* one response object *)
| OMany (rs : list (option N * oclass)).     (* a JSON array of response objects *)

Record ocase := {
  oc_id : N;
  oc_enabled : bool;              (* brc20_prog_rpc_server_enable_auth of the running server *)
  oc_expected : string;           (* "Basic " ++ base64(user:password), computed by the harness *)
  oc_header : option (list N);    (* first Authorization value as sent (OWS-trimmed), None = no header *)
  oc_req : request;
  oc_status : N;                  (* HTTP status *)
  oc_body : obody;
  oc_changed : bool;              (* a store mutation event was recorded or the digest changed *)
  oc_spans : list string          (* names of the handler spans created (Rust fn names or name= overrides) *)
}.

(* lower-case, underscores removed: brc20_finalise_block ~ brc20_finaliseBlock *)
Definition norm_char (c : ascii) : option ascii :=
  let n := N_of_ascii c in
  if n =? 95 then None
  else if (65 <=? n) && (n <=? 90) then Some (ascii_of_N (n + 32)) else Some c.
Fixpoint norm_name (s : string) : string :=
  match s with
  | EmptyString => EmptyString
  | String c t => match norm_char c with Some c' => String c' (norm_name t) | None => norm_name t end
  end.

Definition triv_handler (m : method) (s : unit) : unit * unit := (s, tt).

Definition resp_matches (p : resp unit) (o : option N * oclass) : bool :=
  match p, o with
  | RServed id _ _, (Some id', OResult) => id =? id'
  | RServed id _ _, (Some id', OErrOther) => id =? id'        (* the handler's own error, never 401 *)
  | RErr id E401, (id', O401) => opt_eqb N.eqb id id'
  | RErr id EInvalidRequest, (id', OErrOther) => opt_eqb N.eqb id id'
  | _, _ => false
  end.

(* list_eqb over two different element types *)
Fixpoint list_match {A B} (f : A -> B -> bool) (a : list A) (b : list B) : bool :=
  match a, b with
  | [], [] => true
  | x :: a', y :: b' => f x y && list_match f a' b'
  | _, _ => false
  end.

Definition body_matches (p : body unit) (o : obody) : bool :=
  match p, o with
  | NoBody, ONone => true
  | Single r, OSingle id c => resp_matches r (id, c)
  | Many rs, OMany os => list_match resp_matches rs os
  | EmptyBatch, OSingle None OErrOther => true
  | _, _ => false
  end.

Definition case_auth (c : ocase) : http_auth :=
  if oc_enabled c then {| ha_header := Some (oc_expected c); ha_allow_all := false |} else auth_allow.

Definition check_ocase (t : mtable) (deny : list method) (c : ocase) : bool :=
  let authd := authorized (case_auth c) (header_str (oc_header c)) in
  let r := serve triv_handler deny authd (oc_req c) tt in
  (oc_status c =? 200)
  && body_matches (o_body r) (oc_body c)
  (* state may change only if a handler measured as mutating is reached *)
  && (existsb (tbl_mutates t) (o_trace r) || negb (oc_changed c))
  (* every handler that ran is one the model reaches *)
  && forallb (fun sp => existsb (fun m => String.eqb (norm_name m) (norm_name sp)) (o_trace r)) (oc_spans c).

Definition bad_ocases (t : mtable) (deny : list method) (cs : list ocase) : list N :=
  map oc_id (filter (fun c => negb (check_ocase t deny c)) cs).

(* configuration cases: validate_config called directly, and the public start() on a fresh
   directory and a free port (so the only thing that can refuse is the configuration) *)
Record ccase := {
  cc_id : N;
  cc_cfg : config;
  cc_validate_ok : bool;            (* validate_config(&cfg).is_ok() *)
  cc_start : option bool            (* Some (start(cfg).is_ok()) where start() was tried *)
}.

Definition check_ccase (c : ccase) : bool :=
  Bool.eqb (is_ok (validate_config (cc_cfg c))) (cc_validate_ok c)
  && match cc_start c with
     | None => true
     | Some ok => Bool.eqb ok (is_ok (validate_config (cc_cfg c)) && is_ok (make_auth (fun s => s) (cc_cfg c)))
     end.

Definition bad_ccases (cs : list ccase) : list N :=
  map cc_id (filter (fun c => negb (check_ccase c)) cs).
