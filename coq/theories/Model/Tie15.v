(* Executable checkers used by the C15 correspondence run.  The harness writes, per case, the
   input, what zstd answered for the queries the implementation made (the oracle graph of the
   case) and what the implementation returned; these functions evaluate the model on the same
   input with the graph as oracle and report the ids of the cases that differ. *)
From Brc.Model Require Import Base Base64 Nada Payload.

Definition bytes_eqb (a b : list N) : bool := list_eqb N.eqb a b.

(* oracle graphs: (source, capacity, answer) *)
Definition zgraph := list (list N * N * option (list N)).
Definition fgraph := list (list N * option (option N)).

Fixpoint zlookup (g : zgraph) (x : list N) (cap : N) : option (list N) :=
  match g with
  | [] => None
  | (src, c, r) :: g' => if bytes_eqb src x && (c =? cap) then r else zlookup g' x cap
  end.
Fixpoint flookup (g : fgraph) (x : list N) : option (option N) :=
  match g with
  | [] => None
  | (src, r) :: g' => if bytes_eqb src x then r else flookup g' x
  end.

(* implementation outcomes: None = panic *)
Definition out_val := option (option (list N)).          (* decode: Some None = None, Some (Some y) *)
Definition out_res := option (option (option (list N))). (* Result<Option<_>>: Some None = Err *)

Inductive case15 :=
| CB64Enc (id : N) (x s : list N)
| CB64Dec (id : N) (s : list N) (out : option (list N))
| CNadaEnc (id : N) (x : list N) (out : option (list N))        (* None = panic *)
| CNadaDec (id : N) (l : list N) (out : option (list N))        (* None = Err *)
| CNadaDecLim (id : N) (l : list N) (limit : N) (out : option (list N))
| CHexEnc (id : N) (x s : list N)
| CHexDec (id : N) (s : list N) (out : option (list N))
| CDecode (id : N) (s : list N) (zd : zgraph) (zf : fgraph) (out : out_val)
| CEncode (id : N) (x : list N) (zc : zgraph) (out : out_val)    (* Some None = Err, Some (Some s) = Ok s *)
| CSelect (id : N) (raw b64 : option (option (list N))) (zd : zgraph) (zf : fgraph) (out : out_res).

Definition case_id (c : case15) : N :=
  match c with
  | CB64Enc i _ _ | CB64Dec i _ _ | CNadaEnc i _ _ | CNadaDec i _ _ | CNadaDecLim i _ _ _
  | CHexEnc i _ _ | CHexDec i _ _ | CDecode i _ _ _ _ | CEncode i _ _ _ | CSelect i _ _ _ _ _ => i
  end.

Definition obytes_eqb := opt_eqb bytes_eqb.

Definition res_bytes_eqb (m : res (list N)) (o : option (list N)) : bool :=
  match m, o with
  | Ok a, Some b => bytes_eqb a b
  | Err, None => true
  | _, _ => false
  end.

Definition val_eqb (m : res (option (list N))) (o : out_val) : bool :=
  match m, o with
  | Ok a, Some b => obytes_eqb a b
  | Panic, None => true
  | _, _ => false
  end.

Definition check15 (LIMIT : N) (v : variant) (c : case15) : bool :=
  match c with
  | CB64Enc _ x s => bytes_eqb (b64_encode x) s
  | CB64Dec _ s out => obytes_eqb (b64_decode s) out
  | CNadaEnc _ x out =>
      match nada_encode x, out with
      | Ok a, Some b => bytes_eqb a b
      | Panic, None => true
      | _, _ => false
      end
  | CNadaDec _ l out => res_bytes_eqb (nada_decode l) out
  | CNadaDecLim _ l limit out => res_bytes_eqb (nada_decode_with_limit l limit) out
  | CHexEnc _ x s => obytes_eqb (raw_from_bytes x) (Some s)
  | CHexDec _ s out => obytes_eqb (hex_decode s) out
  | CDecode _ s zd zf out => val_eqb (decode_payload (zlookup zd) (flookup zf) LIMIT v s) out
  | CEncode _ x zc out =>
      match from_bytes (zlookup zc) LIMIT v x, out with
      | Ok a, Some (Some b) => bytes_eqb a b
      | Err, Some None => true
      | Panic, None => true
      | _, _ => false
      end
  | CSelect _ raw b64 zd zf out =>
      match select_bytes (zlookup zd) (flookup zf) LIMIT v raw b64, out with
      | Ok a, Some (Some b) => obytes_eqb a b
      | Err, Some None => true
      | Panic, None => true
      | _, _ => false
      end
  end.

Definition bad15 (LIMIT : N) (cs : list case15) : list N :=
  map case_id (filter (fun c => negb (check15 LIMIT CURRENT c)) cs).
