(* Whole chains of the bookkeeping model (Model/Chain.v): any number of finalised blocks followed
   by the transactions of a block under construction, and the decidable side conditions of the
   global C06 theorems.  Executable definitions only. *)
From Brc.Model Require Import Base Chain.

(* a block as the indexer sends it: number, hash, transactions (hash, gas used, number of logs) *)
Definition blockin : Type := N * N * list (N * N * N).
Definition bi_number (b : blockin) : N := fst (fst b).
Definition bi_hash (b : blockin) : N := snd (fst b).
Definition bi_txs (b : blockin) : list (N * N * N) := snd b.
Definition t_hash (t : N * N * N) : N := fst (fst t).

Definition add_txs (c : chain) (number bhash : N) (txs : list (N * N * N)) : chain :=
  fold_left (fun c t => add_tx c number bhash (fst (fst t)) (snd (fst t)) (snd t)) txs c.

Definition run_blocks (c : chain) (bs : list blockin) : chain :=
  fold_left (fun c b => run_block c (bi_number b) (bi_hash b) (bi_txs b)) bs c.

(* every accepted transaction has a hash that is not yet on the chain when it is accepted *)
Definition hash_known (c : chain) (h : N) : bool :=
  match lookup_hash c h with Some _ => true | None => false end.

Fixpoint fresh_txs (c : chain) (number bhash : N) (txs : list (N * N * N)) : bool :=
  match txs with
  | [] => true
  | t :: r => negb (hash_known c (t_hash t))
              && fresh_txs (add_tx c number bhash (fst (fst t)) (snd (fst t)) (snd t)) number bhash r
  end.

Fixpoint fresh_blocks (c : chain) (bs : list blockin) : bool :=
  match bs with
  | [] => true
  | b :: r => fresh_txs c (bi_number b) (bi_hash b) (bi_txs b)
              && fresh_blocks (run_block c (bi_number b) (bi_hash b) (bi_txs b)) r
  end.

(* the blocks carry the heights start, start+1, ... *)
Fixpoint contiguous (start : N) (bs : list blockin) : bool :=
  match bs with
  | [] => true
  | b :: r => (bi_number b =? start) && contiguous (start + 1) r
  end.

(* newest first: every block sits on the one below it (height + 1, parent hash = its hash); the
   oldest one has parent hash 0 *)
Fixpoint linked (bs : list blockrec) : bool :=
  match bs with
  | [] => true
  | b :: t =>
      match t with
      | [] => b_parent b =? 0
      | b' :: _ => (b_number b =? b_number b' + 1) && (b_parent b =? b_hash b')
      end && linked t
  end.
