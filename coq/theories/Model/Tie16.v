(* Executable checker for the C16 correspondence run:
   - get_gas_limit / get_inscription_byte_len of the crate on chosen and random arguments;
   - every eth_estimateGas / eth_estimateGasMany request of the run: the gas limits of the
     simulated executions the implementation made, in order, with their outcomes (from the EVM
     recorder of the hook module), and the answer.  The model's loop, fed those outcomes as
     its oracle, must make exactly the same sequence of runs and return the same answer. *)
From Brc.Model Require Import Base Gas.

Inductive gcase : Type :=
| GLimit (id len got : N)
| GByteLen (id g got : N)
(* runs: (gas limit, None = refused by revm / Some success-flag); got: None = error answer *)
| GEstimate (id cap : N) (runs : list (N * option bool)) (got : option N)
| GEstimateMany (id cap n : N) (runs : list (list N * option (list bool))) (got : option (list N)).

Definition gcase_id (c : gcase) : N :=
  match c with GLimit id _ _ => id | GByteLen id _ _ => id | GEstimate id _ _ _ => id | GEstimateMany id _ _ _ _ => id end.

Section Tie16.
  Variable GPB : N.
  Variable SAFE : bool.   (* which loop arithmetic the compiled crate has (reflected) *)

  Definition run_of (runs : list (N * option bool)) (g : N) : option (bool * unit) :=
    match find (fun p => fst p =? g) runs with
    | Some (_, Some b) => Some (b, tt)
    | _ => None
    end.

  (* the gas limits the loop asks about, in order (exact arithmetic: the caps of the run are small) *)
  Fixpoint bisect_q (run : N -> option (bool * unit)) (fuel : nat) (lo hi : N) : list N :=
    match fuel with
    | O => []
    | S f =>
        if lo + GPB <? hi then
          let mid := (lo + hi) / 2 in
          mid :: (if succ run mid then bisect_q run f lo mid else bisect_q run f (mid + 1) hi)
        else []
    end.

  Definition est_queries (cap : N) (run : N -> option (bool * unit)) : list N :=
    cap :: (if succ run cap then
              bisect_q run 64 21000 cap
              ++ match bisect GPB SAFE true run 64 21000 cap with Some (Ok e) => [e] | _ => [] end
            else []).

  Definition lN_eqb := list_eqb N.eqb.

  Definition runm_of (runs : list (list N * option (list bool))) (gs : list N) : option (list bool) :=
    match find (fun p => lN_eqb (fst p) gs) runs with
    | Some (_, r) => r
    | None => None
    end.

  Fixpoint bisect_mq (runm : list N -> option (list bool)) (fuel : nat) (i : nat) (gs : list N) (lo hi : N)
    : list (list N) * list N :=
    match fuel with
    | O => ([], gs)
    | S f =>
        if lo + GPB <? hi then
          let mid := (lo + hi) / 2 in
          let gs' := set_nth gs i mid in
          let '(q, r) := if succm runm i gs' then bisect_mq runm f i gs' lo mid else bisect_mq runm f i gs' (mid + 1) hi in
          (gs' :: q, r)
        else ([], set_nth gs i hi)
    end.

  Fixpoint each_q (runm : list N -> option (list bool)) (cap : N) (n : nat) (i : nat) (gs : list N) : list (list N) * list N :=
    match n with
    | O => ([], gs)
    | S n' =>
        let '(q, gs') := bisect_mq runm 64 i gs 21000 cap in
        let '(q2, r) := each_q runm cap n' (S i) gs' in
        (q ++ q2, r)
    end.

  Definition estm_queries (cap : N) (n : nat) (runm : list N -> option (list bool)) : list (list N) :=
    let caps := repeat cap n in
    caps :: (if all_true (runm caps) then
               let '(q, gs) := each_q runm cap n 0 caps in q ++ [gs]
             else []).

  Definition gcase_ok (c : gcase) : bool :=
    match c with
    | GLimit _ len got => gas_limit GPB len =? got
    | GByteLen _ g got => byte_len GPB g =? got
    | GEstimate _ cap runs got =>
        let run := run_of runs in
        lN_eqb (est_queries cap run) (map fst runs)
        && match estimate GPB SAFE true cap run 64, got with
           | Some (Ok e), Some g => e =? g
           | Some Err, None => true
           | _, _ => false
           end
    | GEstimateMany _ cap n runs got =>
        let runm := runm_of runs in
        list_eqb lN_eqb (estm_queries cap (N.to_nat n) runm) (map fst runs)
        && match estimate_many GPB SAFE true cap runm 64 (N.to_nat n), got with
           | Some (Ok gs), Some g => lN_eqb gs g
           | Some Err, None => true
           | _, _ => false
           end
    end.

  Definition bad_gas_cases (cs : list gcase) : list N :=
    map gcase_id (filter (fun c => negb (gcase_ok c)) cs).
End Tie16.
