(* L5 Env: what the engine hands to revm.  BlockEnv / CfgEnv / TxEnv as built by
   src/engine/evm.rs (get_evm) and the modify_tx closures of src/engine/engine.rs at the three
   call sites (add_tx_to_block, read_contract, read_contract_multi), the glue of
   src/server/rpc_server.rs that derives their arguments per indexer call, the spec selection of
   src/engine/hardforks.rs, the precompile provider's current-txid helper registration
   (src/engine/precompiles/precompiles.rs) and the Database::block_hash the EVM sees.

   Addresses, hashes and transaction ids are the numbers themselves (big-endian).  Call data is
   identified by (length, keccak).  revm is an oracle: nothing here says what an opcode returns. *)
From Brc.Model Require Import Base Table BlockTable Engine Gas.

Inductive network : Type := NetBitcoin | NetSignet | NetOther.
(* get_bitcoin_network as far as get_evm_spec distinguishes: "bitcoin"/"mainnet", "signet",
   everything else (testnet, testnet4, regtest, unknown strings) *)

Inductive spec : Type := CANCUN | PRAGUE.
Definition spec_eqb (a b : spec) : bool :=
  match a, b with CANCUN, CANCUN | PRAGUE, PRAGUE => true | _, _ => false end.
(* PrecompileSpecId >= PRAGUE *)
Definition prague_or_later (s : spec) : bool := match s with PRAGUE => true | CANCUN => false end.

Record config : Type := mkConfig {
  cf_chain_id : N;       (* CONFIG.chain_id *)
  cf_net : network;      (* CONFIG.bitcoin_rpc_network through get_bitcoin_network *)
  cf_call_gas : N;       (* CONFIG.evm_call_gas_limit *)
}.

Record bytes_id : Type := mkBytes { d_len : N; d_hash : N }.
Definition bytes_eqb (a b : bytes_id) : bool := (d_len a =? d_len b) && (d_hash a =? d_hash b).

Inductive tx_kind : Type := KCreate | KCall (a : N).
Definition kind_eqb (a b : tx_kind) : bool :=
  match a, b with
  | KCreate, KCreate => true
  | KCall x, KCall y => x =? y
  | _, _ => false
  end.

Record block_env : Type := mkBlock {
  be_number : N;
  be_beneficiary : N;
  be_timestamp : N;
  be_gas_limit : N;
  be_basefee : N;
  be_difficulty : N;
  be_prevrandao : option N;
  be_blob : option (N * N);       (* excess blob gas, blob gas price *)
}.

Record cfg_env : Type := mkCfg {
  ce_chain_id : N;
  ce_spec : spec;
  ce_code_limit : option N;       (* limit_contract_code_size *)
}.

Record tx_env : Type := mkTx {
  te_caller : N;
  te_kind : tx_kind;
  te_data : bytes_id;
  te_nonce : N;
  te_gas_limit : N;
  te_gas_price : N;
  te_value : N;
  te_chain_id : option N;
}.

Record env : Type := mkEnv {
  e_block : block_env;
  e_cfg : cfg_env;
  e_tx : tx_env;
  e_txid : N;          (* BRC20Precompiles.op_return_tx_id *)
  e_helper : bool;     (* the current-txid helper (0x..fa) is in the dispatch table *)
}.

(* TxInfo: from, to, data, nonce (None for inscriptions) *)
Record txinfo : Type := mkTi { ti_from : N; ti_to : tx_kind; ti_data : bytes_id; ti_nonce : option N }.

Section Env.
  Variable GPB : N.                              (* GAS_PER_BYTE *)
  Variables PRAGUE_MAINNET PRAGUE_SIGNET : N.    (* activation heights (hardforks.rs) *)
  Variables INDEXER INVALID CONTROLLER : N.      (* addresses *)

  (* get_evm_spec *)
  Definition get_evm_spec (net : network) (number : N) : spec :=
    match net with
    | NetBitcoin => if PRAGUE_MAINNET <=? number then PRAGUE else CANCUN
    | NetSignet => if PRAGUE_SIGNET <=? number then PRAGUE else CANCUN
    | NetOther => PRAGUE
    end.

  (* get_evm(block_number, block_hash, timestamp, db, None, current_op_return_tx_id, _):
     everything it sets; the TxEnv fields caller / kind / data / nonce are revm's defaults here
     and are overwritten by every modify_tx below (modelled as zero / call to zero / empty). *)
  Definition get_evm (cf : config) (number hash ts txid : N) : env :=
    let s := get_evm_spec (cf_net cf) number in
    mkEnv (mkBlock number 0 ts u64max 0 0 (Some hash) (Some (0, 1)))
          (mkCfg (cf_chain_id cf) s (Some u64max))
          (mkTx 0 (KCall 0) (mkBytes 0 0) 0 u64max 0 0 (Some (cf_chain_id cf)))
          txid (prague_or_later s).

  (* evm.ctx().modify_tx(|tx| { caller, kind, data, nonce, gas_limit }) *)
  Definition modify_tx (e : env) (ti : txinfo) (nonce gas : N) : env :=
    mkEnv (e_block e) (e_cfg e)
          (mkTx (ti_from ti) (ti_to ti) (ti_data ti) nonce gas
                (te_gas_price (e_tx e)) (te_value (e_tx e)) (te_chain_id (e_tx e)))
          (e_txid e) (e_helper e).

  (* add_tx_to_block(timestamp, tx_info, _, block_number, block_hash, _, inscription_byte_len,
     op_return_tx_id); acct_nonce = get_account_nonce(tx_info.from) *)
  Definition add_tx_env (cf : config) (ti : txinfo) (number hash ts len txid acct_nonce : N) : env :=
    let hash' := resolve_hash hash number in
    let tx_nonce := match ti_nonce ti with Some n => n | None => acct_nonce end in
    modify_tx (get_evm cf number hash' ts txid) ti tx_nonce (gas_limit GPB len).

  (* read_contract(tx_info, block_height, gas_limit): number = the given height or the next
     height; hash = zero (not resolved); timestamp = wall clock; txid = zero *)
  Definition read_env (cf : config) (ti : txinfo) (block_height : option N) (next now : N)
             (gas : option N) (acct_nonce : N) : env :=
    let number := match block_height with Some h => h | None => next end in
    modify_tx (get_evm cf number 0 now 0) ti acct_nonce
              (match gas with Some g => g | None => cf_call_gas cf end).

  (* read_contract_multi: the nonces map is filled with the account nonce of every sender,
     then per index: nonce = map[from] (0 if absent), map[from] = nonce + 1 *)
  Definition init_nonces (acct : N -> N) (tis : list txinfo) : kv N :=
    fold_left (fun m ti => kv_put m (ti_from ti) (acct (ti_from ti))) tis [].

  Fixpoint multi_envs (cf : config) (e0 : env) (tis : list txinfo) (idx : nat) (nonces : kv N)
           (txids : option (list N)) (gases : option (list N)) : list env :=
    match tis with
    | [] => []
    | ti :: r =>
        let nonce := match kv_get nonces (ti_from ti) with Some n => n | None => 0 end in
        let nonces' := kv_put nonces (ti_from ti) (nonce + 1) in
        let txid := match txids with
                    | Some l => match nth_error l idx with Some t => t | None => 0 end
                    | None => 0
                    end in
        let gas := match gases with
                   | Some l => match nth_error l idx with Some g => g | None => cf_call_gas cf end
                   | None => cf_call_gas cf
                   end in
        let e := modify_tx (mkEnv (e_block e0) (e_cfg e0) (e_tx e0) txid (e_helper e0)) ti nonce gas in
        (* the TxEnv of the previous iteration stays in the context: only the five fields change *)
        e :: multi_envs cf e r (S idx) nonces' txids gases
    end.

  Definition read_multi_envs (cf : config) (tis : list txinfo) (block_height : option N) (next now : N)
             (txids gases : option (list N)) (acct : N -> N) : list env :=
    let number := match block_height with Some h => h | None => next end in
    multi_envs cf (get_evm cf number 0 now 0) tis 0 (init_nonces acct tis) txids gases.

  (* -------------------------------------------------------------------------------------- *)
  (* rpc_server.rs / engine.rs glue: what each indexer call passes down                      *)
  (* -------------------------------------------------------------------------------------- *)

  (* brc20_deploy: empty data is a call to the invalid address, anything else a creation *)
  Definition deploy_ti (from : N) (data : bytes_id) : txinfo :=
    mkTi from (if d_len data =? 0 then KCall INVALID else KCreate) data None.
  (* brc20_call: no data at all -> invalid address; otherwise the address resolved from the
     inscription id or given directly, invalid address when neither resolves *)
  Definition call_ti (from : N) (has_data : bool) (target : option N) (data : bytes_id) : txinfo :=
    mkTi from (KCall (if has_data then match target with Some a => a | None => INVALID end else INVALID))
         data None.
  (* eth_call / eth_estimateGas: from defaults to the invalid address, no `to` is a creation *)
  Definition ethcall_ti (from to : option N) (data : bytes_id) : txinfo :=
    mkTi (match from with Some a => a | None => INVALID end)
         (match to with Some a => KCall a | None => KCreate end) data None.
  (* TxInfo::from_raw_transaction: `to` absent or the zero address is a creation *)
  Definition raw_kind (to : option N) : tx_kind :=
    match to with Some a => if a =? 0 then KCreate else KCall a | None => KCreate end.

  (* a parked signed transaction as stored by add_raw_tx_to_block (TxED + the txid row) *)
  Record parked : Type := mkParked {
    pk_from : N; pk_to : option N; pk_data : bytes_id; pk_nonce : N;
    pk_gas : N;                 (* TxED.gas = get_gas_limit(inscription_byte_len) at parking time *)
    pk_txid : option N;         (* pending_txes_op_return_tx_ids row under the transaction's hash *)
  }.
  Definition kind_to (k : tx_kind) : option N := match k with KCall a => Some a | KCreate => None end.
  Definition to_kind (o : option N) : tx_kind := match o with Some a => KCall a | None => KCreate end.
  Definition park (ti : txinfo) (nonce len txid : N) : parked :=
    mkParked (ti_from ti) (kind_to (ti_to ti)) (ti_data ti) nonce (gas_limit GPB len) (Some txid).

  Inductive op : Type :=
  | OInscr (ti : txinfo) (len txid : N)        (* brc20_deploy / brc20_call after deploy_ti / call_ti *)
  | OSigned (from nonce : N) (to : option N) (data : bytes_id) (len txid : N)
                                               (* brc20_transact whose nonce is the account nonce *)
  | ODrained (p : parked)                      (* a parked transaction executed by the drain loop *)
  | OIndexer (data : bytes_id)                 (* brc20_deposit / brc20_withdraw *)
  | OGenesis (data : bytes_id).                (* brc20_initialise: the controller deployment *)

  Definition op_ti (o : op) : txinfo :=
    match o with
    | OInscr ti _ _ => ti
    | OSigned from nonce to data _ _ => mkTi from (raw_kind to) data (Some nonce)
    | ODrained p => mkTi (pk_from p) (to_kind (pk_to p)) (pk_data p) (Some (pk_nonce p))
    | OIndexer data => mkTi INDEXER (KCall CONTROLLER) data None
    | OGenesis data => mkTi INDEXER KCreate data None
    end.
  (* inscription_byte_len as passed to add_tx_to_block *)
  Definition op_len (o : op) : N :=
    match o with
    | OInscr _ len _ => len
    | OSigned _ _ _ _ len _ => len
    | ODrained p => byte_len GPB (pk_gas p)
    | OIndexer _ | OGenesis _ => u64max
    end.
  Definition op_txid (o : op) : N :=
    match o with
    | OInscr _ _ txid => txid
    | OSigned _ _ _ _ _ txid => txid
    | ODrained p => match pk_txid p with Some t => t | None => 0 end
    | OIndexer _ | OGenesis _ => 0
    end.

  Definition op_env (cf : config) (o : op) (number hash ts acct_nonce : N) : env :=
    add_tx_env cf (op_ti o) number hash ts (op_len o) (op_txid o) acct_nonce.

  (* through the RPC layer: the block number is the height being built (get_next_block_height),
     the account nonce is the store's; genesis passes its own height *)
  Definition rpc_tx_env (cf : config) (g : eng) (o : op) (hash ts : N) : env :=
    op_env cf o (next_h g) hash ts (nonce_of g (ti_from (op_ti o))).
  Definition rpc_read_env (cf : config) (g : eng) (ti : txinfo) (block_height : option N) (now : N)
             (gas : option N) : env :=
    read_env cf ti block_height (next_h g) now gas (nonce_of g (ti_from ti)).
  Definition rpc_read_multi_envs (cf : config) (g : eng) (tis : list txinfo) (block_height : option N)
             (now : N) (txids gases : option (list N)) : list env :=
    read_multi_envs cf tis block_height (next_h g) now txids gases (nonce_of g).

  (* The fields in which a simulation and the transaction it predicts may differ. *)
  Definition env_mask (e : env) : env :=
    mkEnv (mkBlock (be_number (e_block e)) (be_beneficiary (e_block e)) 0 (be_gas_limit (e_block e))
                   (be_basefee (e_block e)) (be_difficulty (e_block e)) None (be_blob (e_block e)))
          (e_cfg e)
          (mkTx (te_caller (e_tx e)) (te_kind (e_tx e)) (te_data (e_tx e)) (te_nonce (e_tx e)) 0
                (te_gas_price (e_tx e)) (te_value (e_tx e)) (te_chain_id (e_tx e)))
          0 (e_helper e).

  (* Database::block_hash as the EVM sees it: the block-hash table's current value (cache, i.e.
     uncommitted rows, first), zero when the table has no row *)
  Definition block_hash_view (t : btable N) (n : N) : N :=
    match b_get t n with Some h => h | None => 0 end.
End Env.

(* decidable equality of environments, for the correspondence checker *)
Definition optN_eqb := opt_eqb N.eqb.
Definition block_eqb (a b : block_env) : bool :=
  (be_number a =? be_number b) && (be_beneficiary a =? be_beneficiary b)
  && (be_timestamp a =? be_timestamp b) && (be_gas_limit a =? be_gas_limit b)
  && (be_basefee a =? be_basefee b) && (be_difficulty a =? be_difficulty b)
  && optN_eqb (be_prevrandao a) (be_prevrandao b)
  && opt_eqb (pair_eqb N.eqb N.eqb) (be_blob a) (be_blob b).
Definition cfg_eqb (a b : cfg_env) : bool :=
  (ce_chain_id a =? ce_chain_id b) && spec_eqb (ce_spec a) (ce_spec b)
  && optN_eqb (ce_code_limit a) (ce_code_limit b).
Definition tx_eqb (a b : tx_env) : bool :=
  (te_caller a =? te_caller b) && kind_eqb (te_kind a) (te_kind b) && bytes_eqb (te_data a) (te_data b)
  && (te_nonce a =? te_nonce b) && (te_gas_limit a =? te_gas_limit b)
  && (te_gas_price a =? te_gas_price b) && (te_value a =? te_value b)
  && optN_eqb (te_chain_id a) (te_chain_id b).
Definition env_eqb (a b : env) : bool :=
  block_eqb (e_block a) (e_block b) && cfg_eqb (e_cfg a) (e_cfg b) && tx_eqb (e_tx a) (e_tx b)
  && (e_txid a =? e_txid b) && Bool.eqb (e_helper a) (e_helper b).
