(* src/server/auth.rs and the wiring in src/server/rpc_server.rs::start_rpc_server, as written.
   Executable definitions only.

   HttpNonBlockingAuth (HTTP layer) marks a request `Authorized`; it never rejects.
   RpcAuthMiddleware (JSON-RPC layer) answers 401 for a method of the denylist unless the
   request is marked; a batch is rewritten entry by entry and handed to the inner service.
   The inner service is jsonrpsee's RpcService: it looks the method up and runs its handler
   (abstracted: [handler]); it never runs anything for a notification. *)
From Coq Require Import Ascii.
From Brc.Model Require Import Base Config.

Definition method := string.

(* ---- HTTP layer: HttpNonBlockingAuth ------------------------------------------------- *)

Record http_auth := { ha_header : option string; ha_allow_all : bool }.

(* HttpNonBlockingAuth::allow() *)
Definition auth_allow : http_auth := {| ha_header := None; ha_allow_all := true |}.

(* HttpNonBlockingAuth::new(user, password); [b64] is BASE64_STANDARD.encode, opaque *)
Definition basic_header (b64 : string -> string) (user password : string) : string :=
  String.append "Basic "%string (b64 (String.append user (String.append ":"%string password))).
Definition auth_new (b64 : string -> string) (user password : string) : http_auth :=
  {| ha_header := Some (basic_header b64 user password); ha_allow_all := false |}.

(* http::HeaderValue::to_str: Ok iff every byte is visible ASCII (32..=126) or TAB *)
Definition visible_ascii (b : N) : bool := ((32 <=? b) && (b <? 127)) || (b =? 9).
Definition string_of_bytes (bs : list N) : string :=
  fold_right (fun b s => String (ascii_of_N b) s) EmptyString bs.
Definition to_str (raw : list N) : option string :=
  if forallb visible_ascii raw then Some (string_of_bytes raw) else None.

(* request.headers().get("Authorization").and_then(|h| h.to_str().ok());
   [raw] = value of the first Authorization header as hyper delivers it, None = no such header *)
Definition header_str (raw : option (list N)) : option string :=
  match raw with None => None | Some r => to_str r end.

(* validate(): allow_all || header == self.header.as_deref() *)
Definition authorized (a : http_auth) (hdr : option string) : bool :=
  ha_allow_all a || opt_eqb String.eqb hdr (ha_header a).

(* start_rpc_server: which HttpNonBlockingAuth is installed *)
Definition make_auth (b64 : string -> string) (c : config) : res http_auth :=
  if negb (cfg_enable_auth c) then Ok auth_allow
  else match cfg_user c with
       | None => Err
       | Some u => match cfg_password c with
                   | None => Err
                   | Some p => Ok (auth_new b64 u p)
                   end
       end.

(* ---- JSON-RPC layer: RpcAuthMiddleware ------------------------------------------------ *)

(* what the HTTP body parses to (jsonrpsee handle_rpc_call): a call has an id, a
   notification has none, a batch element that is neither is an invalid request *)
Inductive entry := ECall (id : N) (m : method) | ENotif (m : method) | EBad (id : option N).
Inductive request := Call (id : N) (m : method) | Notif (m : method) | Batch (es : list entry).

Inductive ecode := E401 | EInvalidRequest.
(* a batch entry as handed to the inner service *)
Inductive bentry := BCall (id : N) (m : method) | BNotif (m : method) | BErr (id : option N) (c : ecode).

Definition in_deny (deny : list method) (m : method) : bool := existsb (String.eqb m) deny.

(* extensions().get::<Authorized>().is_some() || !denylist.contains(method_name) *)
Definition validate_call (deny : list method) (authd : bool) (m : method) : bool :=
  authd || negb (in_deny deny m).
Definition validate_notification (deny : list method) (authd : bool) (m : method) : bool :=
  authd || negb (in_deny deny m).

(* the loop body of batch(): an unauthorised protected call becomes an error entry with the
   call's id, an unauthorised protected notification an error entry with Id::Number(0),
   Err(_) entries are left alone *)
Definition rewrite_entry (deny : list method) (authd : bool) (e : entry) : bentry :=
  match e with
  | ECall id m => if validate_call deny authd m then BCall id m else BErr (Some id) E401
  | ENotif m => if validate_notification deny authd m then BNotif m else BErr (Some 0) E401
  | EBad id => BErr id EInvalidRequest
  end.

Inductive action :=
| FwdCall (id : N) (m : method)        (* self.service.call(req) *)
| FwdNotif (m : method)                (* self.service.notification(n) *)
| FwdBatch (es : list bentry)          (* self.service.batch(rewritten) *)
| Reply401 (id : N)                    (* ready(MethodResponse::error(req.id(), 401 "Unauthorized")) *)
| ReplyNothing.                        (* ready(MethodResponse::notification()) *)

Definition mw (deny : list method) (authd : bool) (r : request) : action :=
  match r with
  | Call id m => if validate_call deny authd m then FwdCall id m else Reply401 id
  | Notif m => if validate_notification deny authd m then FwdNotif m else ReplyNothing
  | Batch es => FwdBatch (map (rewrite_entry deny authd) es)
  end.

(* the methods handed to the inner service by an action *)
Definition bentry_methods (b : bentry) : list method :=
  match b with BCall _ m => [m] | BNotif m => [m] | BErr _ _ => [] end.
Definition forwarded (a : action) : list method :=
  match a with
  | FwdCall _ m => [m]
  | FwdNotif m => [m]
  | FwdBatch es => flat_map bentry_methods es
  | Reply401 _ | ReplyNothing => []
  end.

Definition entry_methods (e : entry) : list method :=
  match e with ECall _ m => [m] | ENotif m => [m] | EBad _ => [] end.
Definition req_methods (r : request) : list method :=
  match r with Call _ m => [m] | Notif m => [m] | Batch es => flat_map entry_methods es end.

Definition entry_protected (deny : list method) (e : entry) : bool :=
  match e with ECall _ m => in_deny deny m | ENotif m => in_deny deny m | EBad _ => false end.
(* the id the 401 entry carries *)
Definition entry_id0 (e : entry) : N := match e with ECall id _ => id | _ => 0 end.
(* an entry forwarded unchanged *)
Definition keep (e : entry) : bentry :=
  match e with ECall id m => BCall id m | ENotif m => BNotif m | EBad id => BErr id EInvalidRequest end.

(* the calls (not notifications) whose method is not on the denylist, in order *)
Definition entry_permitted_call (deny : list method) (e : entry) : list method :=
  match e with ECall _ m => if in_deny deny m then [] else [m] | _ => [] end.
Definition permitted_calls (deny : list method) (r : request) : list method :=
  match r with
  | Call _ m => if in_deny deny m then [] else [m]
  | Notif _ => []
  | Batch es => flat_map (entry_permitted_call deny) es
  end.

(* ---- inner service (jsonrpsee RpcService) over abstract handlers ------------------------ *)

Section Inner.
  Variables S O : Type.
  (* running the registered handler of a method (or answering "method not found") *)
  Variable handler : method -> S -> S * O.

  Inductive resp := RServed (id : N) (m : method) (o : O) | RErr (id : option N) (c : ecode).
  Inductive body :=
  | NoBody                      (* empty HTTP body: notification, or batch of notifications only *)
  | Single (r : resp)
  | Many (rs : list resp)
  | EmptyBatch.                 (* "[]": invalid request *)

  Record outcome := { o_state : S; o_body : body; o_trace : list method }.
  Record bres := { b_state : S; b_resps : list resp; b_trace : list method; b_gotn : bool }.

  (* RpcService::batch: entries in order; a call runs its handler and appends the answer, a
     notification runs nothing, an error entry appends its error *)
  Fixpoint inner_batch (es : list bentry) (s : S) : bres :=
    match es with
    | [] => {| b_state := s; b_resps := []; b_trace := []; b_gotn := false |}
    | BCall id m :: t =>
        let r := inner_batch t (fst (handler m s)) in
        {| b_state := b_state r; b_resps := RServed id m (snd (handler m s)) :: b_resps r;
           b_trace := m :: b_trace r; b_gotn := b_gotn r |}
    | BNotif _ :: t =>
        let r := inner_batch t s in
        {| b_state := b_state r; b_resps := b_resps r; b_trace := b_trace r; b_gotn := true |}
    | BErr id c :: t =>
        let r := inner_batch t s in
        {| b_state := b_state r; b_resps := RErr id c :: b_resps r; b_trace := b_trace r; b_gotn := b_gotn r |}
    end.

  Definition run_action (a : action) (s : S) : outcome :=
    match a with
    | FwdCall id m =>
        {| o_state := fst (handler m s); o_body := Single (RServed id m (snd (handler m s))); o_trace := [m] |}
    | FwdNotif _ => {| o_state := s; o_body := NoBody; o_trace := [] |}
    | FwdBatch es =>
        let r := inner_batch es s in
        {| o_state := b_state r;
           o_body := match b_resps r with
                     | [] => if b_gotn r then NoBody else EmptyBatch
                     | rs => Many rs
                     end;
           o_trace := b_trace r |}
    | Reply401 id => {| o_state := s; o_body := Single (RErr (Some id) E401); o_trace := [] |}
    | ReplyNothing => {| o_state := s; o_body := NoBody; o_trace := [] |}
    end.

  (* one HTTP request through both layers; [authd] is the HTTP layer's verdict *)
  Definition serve (deny : list method) (authd : bool) (r : request) (s : S) : outcome :=
    run_action (mw deny authd r) s.

  Definition run_handlers (ms : list method) (s : S) : S :=
    fold_left (fun s m => fst (handler m s)) ms s.
End Inner.

Arguments RServed {O} id m o.
Arguments RErr {O} id c.
Arguments NoBody {O}.
Arguments Single {O} r.
Arguments Many {O} rs.
Arguments EmptyBatch {O}.
Arguments o_state {S O} o.
Arguments o_body {S O} o.
Arguments o_trace {S O} o.
Arguments serve {S O} handler deny authd r s.
Arguments run_action {S O} handler a s.
Arguments inner_batch {S O} handler es s.
Arguments run_handlers {S} {O} handler ms s.

(* the server as started by start_rpc_server with denylist [deny] (= INDEXER_METHODS) *)
Definition server {S O} (handler : method -> S -> S * O) (b64 : string -> string) (deny : list method)
           (c : config) (raw_header : option (list N)) (r : request) (s : S) : res (outcome S O) :=
  match make_auth b64 c with
  | Ok a => Ok (serve handler deny (authorized a (header_str raw_header)) r s)
  | Err => Err
  | Panic => Panic
  end.

(* ---- the reflected method table (gen/Methods.v): name -> (mutates, classified) ---------- *)

Definition mtable := list (string * (bool * bool)).
Definition tbl_find (t : mtable) (m : method) : option (string * (bool * bool)) :=
  find (fun p => String.eqb (fst p) m) t.
(* unknown or unclassified methods are never assumed read-only *)
Definition tbl_mutates (t : mtable) (m : method) : bool :=
  match tbl_find t m with Some (_, (b, _)) => b | None => true end.
Definition tbl_classified (t : mtable) (m : method) : bool :=
  match tbl_find t m with Some (_, (_, c)) => c | None => false end.
Definition tbl_methods (t : mtable) : list method := map fst t.
Definition mem_str (m : string) (l : list string) : bool := existsb (String.eqb m) l.
