(* eth_getLogs: the filter of Brc20ProgDatabase::get_logs (src/db/brc20_prog_database.rs) and
   the range defaults / width guard, over u64 block numbers. *)
From Brc.Model Require Import Base.

Definition U64MAX : N := 18446744073709551615.

Record log : Type := mkLog { l_addr : N; l_topics : list N; l_tag : N (* identifies the log: data etc. *) }.

(* SingleOrVec<Option<B256>> *)
Inductive tfilter : Type :=
| TSingle (t : option N)
| TVec (ts : list (option N)).

(* position idx of the filter against a log *)
Definition topic_pos_ok (f : tfilter) (idx : nat) (l : log) : bool :=
  match f with
  | TSingle None => true
  | TSingle (Some t) => match nth_error (l_topics l) idx with Some x => x =? t | None => false end
  | TVec ts =>
      match nth_error (l_topics l) idx with
      | None => false
      | Some x => existsb (fun o => match o with Some t => x =? t | None => false end) ts
      end
  end.

Fixpoint topics_ok (fs : list tfilter) (idx : nat) (l : log) : bool :=
  match fs with
  | [] => true
  | f :: r => topic_pos_ok f idx l && topics_ok r (S idx) l
  end.

Definition log_matches (addr : option N) (topics : option (list tfilter)) (l : log) : bool :=
  (match addr with Some a => l_addr l =? a | None => true end)
  && (match topics with Some fs => topics_ok fs 0 l | None => true end).

(* one row of number_and_index_to_tx_hash joined with its receipt: (block, tx index, logs);
   a missing receipt contributes nothing *)
Definition entry : Type := (N * N * list log)%type.
Definition e_blk (e : entry) : N := fst (fst e).
Definition e_idx (e : entry) : N := snd (fst e).
Definition e_key (e : entry) : N := e_blk e * 2 ^ 64 + e_idx e.

(* get_logs(from, to, address, topics) given the latest height and the rows in key order.
   The range scan is [key(from,0), key(to+1,0)). *)
Definition get_logs (latest : N) (from to : option N) (addr : option N)
           (topics : option (list tfilter)) (rows : list entry) : res (list log) :=
  let f := match from with Some x => x | None => latest end in
  let t := match to with Some x => x | None => f end in
  if 5 <? t - f then Err                      (* saturating: t < f gives 0 *)
  else if t =? U64MAX then Err                (* to + 1 does not fit *)
  else
    let lo := f * 2 ^ 64 in
    let hi := (t + 1) * 2 ^ 64 in
    Ok (flat_map (fun e => filter (log_matches addr topics) (snd e))
                 (filter (fun e => (lo <=? e_key e) && (e_key e <? hi)) rows)).

(* the specification: the logs of the blocks f..t in chain order (block, tx index, log index) *)
Definition chain_logs (f t : N) (rows : list entry) : list log :=
  flat_map (fun e => snd e) (filter (fun e => (f <=? e_blk e) && (e_blk e <=? t)) rows).
