(* Executable checker for the environment samples (C17, C19; "EnvSamples" of DESIGN 4.1):
   every BlockEnv/CfgEnv/TxEnv the hook captured at one of the three EVM call sites, with the
   inputs of the indexer call or read that produced it; the checker recomputes the environment
   with Model/Env.v and compares field by field.  The wall clock of a read is an input given as
   the interval in which the request was made. *)
From Brc.Model Require Import Base Table Engine Gas Env.

Inductive ecase : Type :=
| ETx (id : N) (cf : config) (o : op) (number hash ts acct_nonce : N) (got : env)
| ERead (id : N) (cf : config) (ti : txinfo) (height : option N) (next now_lo now_hi : N)
        (gas : option N) (acct_nonce : N) (got : env)
| EMulti (id : N) (cf : config) (tis : list txinfo) (height : option N) (next now_lo now_hi : N)
         (txids gases : option (list N)) (accts : list (N * N)) (got : list env)
(* C17: the environment recorded for a simulation and the one recorded for the transaction that
   followed it with the same sender / target / data: equal under the mask *)
| EPair (id : N) (sim tx : env).

Definition ecase_id (c : ecase) : N :=
  match c with ETx id _ _ _ _ _ _ _ => id | ERead id _ _ _ _ _ _ _ _ _ => id | EMulti id _ _ _ _ _ _ _ _ _ _ => id
  | EPair id _ _ => id end.

Section TieEnv.
  Variable GPB PM PS INDEXER INVALID CONTROLLER : N.

  Definition acct_of (accts : list (N * N)) (a : N) : N :=
    match kv_get accts a with Some n => n | None => 0 end.

  Definition ecase_ok (c : ecase) : bool :=
    match c with
    | ETx _ cf o number hash ts an got =>
        env_eqb (op_env GPB PM PS INDEXER CONTROLLER cf o number hash ts an) got
    | ERead _ cf ti height next lo hi gas an got =>
        let now := be_timestamp (e_block got) in
        (lo <=? now) && (now <=? hi) && env_eqb (read_env PM PS cf ti height next now gas an) got
    | EMulti _ cf tis height next lo hi txids gases accts got =>
        match got with
        | [] => false
        | g0 :: _ =>
            let now := be_timestamp (e_block g0) in
            (lo <=? now) && (now <=? hi)
            && list_eqb env_eqb (firstn (length got) (read_multi_envs PM PS cf tis height next now txids gases (acct_of accts))) got
        end
    | EPair _ a b => env_eqb (env_mask a) (env_mask b)
    end.

  Definition bad_env_cases (cs : list ecase) : list N :=
    map ecase_id (filter (fun c => negb (ecase_ok c)) cs).
End TieEnv.
