(* Executable checker for the C07 correspondence run.  The harness drives the real engine
   (brc20_deposit / brc20_withdraw / brc20_call / brc20_transact, reorgs, mined blocks) and
   lists, per history, what it sent (decoded: the model never sees calldata) and what the
   implementation answered: every receipt status, brc20_balance answers, eth_call answers
   of the controller's and the tokens' view functions, getTickerAddress.  [l_check] replays
   the history on Model/Ledger.v and returns the index of the first item on which model and
   implementation differ. *)
From Brc.Model Require Import Base Ledger.

Inductive item :=
| ICall (c : call) (ok : bool)                          (* a user's message call; receipt status *)
| IDeposit (a : addr) (t : list N) (v : N) (ok : bool)  (* brc20_deposit(pkscript with address a, ticker string t (UTF-8), amount) *)
| IWithdraw (a : addr) (t : list N) (v : N) (ok : bool) (* brc20_withdraw *)
| IBalance (a : addr) (t : list N) (ans : N)            (* brc20_balance(pkscript, ticker string) *)
| IQuery (q : query) (ans : option N)                   (* eth_call of a view function; None = reverted *)
| ITickerAddr (t : ticker) (ans : N)                    (* controller.getTickerAddress(bytes) *)
| IBlock                                                (* a block was finalised or mined *)
| IReorg (drop : N).                                    (* brc20_reorg: the newest [drop] blocks are gone *)

(* lc_addrs: the addresses the controller's CREATEs give (nonce 1, 2, ...), computed by the
   harness from the controller's address alone *)
Record lcase := { lc_id : N; lc_indexer : addr; lc_ctl : addr; lc_addrs : list N; lc_items : list item }.

(* the harness hashes the pkscript itself; the model's pkscript is the one-element list
   holding the resulting address *)
Definition H_tie (p : list N) : addr := match p with [a] => a | _ => 0 end.

Definition ADDR_MOD : N := 2 ^ 160.
Definition u256_ok (v : N) : bool := v <? U256_MOD.
Definition addr_ok (a : N) : bool := a <? ADDR_MOD.
Definition bytes_ok (l : list N) : bool := forallb (fun b => b <? 256) l.

Definition tfn_ok (f : tfn) : bool :=
  match f with
  | TTransfer to v => addr_ok to && u256_ok v
  | TApprove s v => addr_ok s && u256_ok v
  | TTransferFrom a b v => addr_ok a && addr_ok b && u256_ok v
  | TApproveO a b v => addr_ok a && addr_ok b && u256_ok v
  | TTransferFromO a b c v => addr_ok a && addr_ok b && addr_ok c && u256_ok v
  | TMint a v | TBurn a v => addr_ok a && u256_ok v
  | TRenounce | TUnknown => true
  | TTransferOwnership a => addr_ok a
  end.
Definition cfn_ok (f : cfn) : bool :=
  match f with
  | CTransfer t a v | CApprove t a v | CMint t a v | CBurn t a v => bytes_ok t && addr_ok a && u256_ok v
  | CTransferFrom t a b v => bytes_ok t && addr_ok a && addr_ok b && u256_ok v
  | CRenounce | CUnknown => true
  | CTransferOwnership a => addr_ok a
  end.
Definition call_ok (c : call) : bool :=
  match c with
  | CallCtl s f => addr_ok s && cfn_ok f
  | CallTok s t f => addr_ok s && bytes_ok t && tfn_ok f
  end.

Definition res_opt_eqb (r : res N) (o : option N) : bool :=
  match r, o with
  | Ok v, Some w => v =? w
  | Err, None => true
  | _, _ => false
  end.

Section Check.
  Variable INDEXER CTL : addr.
  Variable addrs : list N.

  Definition dep_call (a : addr) (t : list N) (v : N) : call := deposit_call H_tie lower_bytes INDEXER [a] t v.
  Definition wd_call (a : addr) (t : list N) (v : N) : call := withdraw_call H_tie lower_bytes INDEXER [a] t v.

  Definition ticker_addr (st : ledger) (t : ticker) : N :=
    match tindex (l_toks st) t with
    | Some i => nth (N.to_nat i) addrs 0
    | None => 0
    end.

  (* one transaction: the receipt status must be the model's, and the state moves on *)
  Definition tx_step (st : ledger) (c : call) (ok : bool) : option ledger :=
    if call_ok c && Bool.eqb (is_ok (l_call CTL st c)) ok then Some (l_apply CTL st c) else None.

  (* [snaps]: the state at the end of every block, newest first *)
  Fixpoint l_check (cur : ledger) (snaps : list ledger) (its : list item) (i : N) : option N :=
    match its with
    | [] => None
    | it :: r =>
        match it with
        | ICall c ok =>
            match tx_step cur c ok with Some st' => l_check st' snaps r (i + 1) | None => Some i end
        | IDeposit a t v ok =>
            if bytes_ok t then
              match tx_step cur (dep_call a t v) ok with Some st' => l_check st' snaps r (i + 1) | None => Some i end
            else Some i
        | IWithdraw a t v ok =>
            if bytes_ok t then
              match tx_step cur (wd_call a t v) ok with Some st' => l_check st' snaps r (i + 1) | None => Some i end
            else Some i
        | IBalance a t ans =>
            if glue_balance H_tie lower_bytes cur [a] t =? ans then l_check cur snaps r (i + 1) else Some i
        | IQuery q ans =>
            if res_opt_eqb (l_query cur q) ans then l_check cur snaps r (i + 1) else Some i
        | ITickerAddr t ans =>
            if ticker_addr cur t =? ans then l_check cur snaps r (i + 1) else Some i
        | IBlock => l_check cur (cur :: snaps) r (i + 1)
        | IReorg drop =>
            match skipn (N.to_nat drop) snaps with
            | st :: rest => l_check st (st :: rest) r (i + 1)
            | [] => Some i
            end
        end
    end.
End Check.

(* the case starts right after brc20_initialise: block 0 holds the controller's deployment *)
Definition lcase_first_bad (c : lcase) : option N :=
  let st := g_init (lc_indexer c) in
  l_check (lc_indexer c) (lc_ctl c) (lc_addrs c) st [st] (lc_items c) 0.

Definition bad_lcases (cs : list lcase) : list N :=
  map lc_id (filter (fun c => match lcase_first_bad c with Some _ => true | None => false end) cs).

(* for replaying one case by hand: (case id, index of the first differing item) *)
Definition bad_lcases_where (cs : list lcase) : list (N * N) :=
  flat_map (fun c => match lcase_first_bad c with Some i => [(lc_id c, i)] | None => [] end) cs.
