(* C16: gas allowance from the inscription length (src/engine/utils.rs: get_gas_limit,
   get_inscription_byte_len) and the bisection of eth_estimateGas / eth_estimateGasMany
   (src/server/rpc_server.rs), statement by statement, over u64 arithmetic.

   revm is an oracle: [run g] is what one read_contract call with gas limit [g] answered. *)
From Brc.Model Require Import Base.

Definition u64max : N := 18446744073709551615.

(* u64 addition as compiled: exact when it fits; otherwise a panic (overflow-checks on: the dev
   and test profiles) or the wrapped value (release profile of the crate: checks off). *)
Definition add64 (checks : bool) (a b : N) : res N :=
  if a + b <=? u64max then Ok (a + b)
  else if checks then Panic else Ok ((a + b) mod 2 ^ 64).

Section Gas.
  Variable GPB : N.   (* GAS_PER_BYTE *)

  (* get_gas_limit: inscription_byte_len.saturating_mul(GAS_PER_BYTE) *)
  Definition gas_limit (len : N) : N := N.min (len * GPB) u64max.
  (* get_inscription_byte_len: gas_limit.saturating_div(GAS_PER_BYTE) (unsigned: plain division) *)
  Definition byte_len (g : N) : N := g / GPB.

  (* the inscription length the harness (and any client) derives from an estimate: round up *)
  Definition ceil_div (e : N) : N := (e + GPB - 1) / GPB.

  (* what a parked signed transaction is re-executed with: the gas stored at parking time goes
     through get_inscription_byte_len and get_gas_limit again *)
  Definition regas (stored : N) : N := gas_limit (byte_len stored).

  (* ------------------------------------------------------------------------------------ *)
  (* eth_estimateGas                                                                        *)
  (* ------------------------------------------------------------------------------------ *)
  Section Estimate.
    Context {Out : Type}.                       (* return data *)
    Variable safe : bool.                     (* which arithmetic: see loop_guard *)
    Variable checks : bool.                   (* overflow-checks of the build *)
    Variable cap : N.                         (* CONFIG.evm_call_gas_limit *)
    (* one read_contract(tx, height, Some gas): None = Err (revm refused the transaction),
       Some (status, output) otherwise *)
    Variable run : N -> option (bool * Out).

    Definition succ (g : N) : bool :=
      match run g with Some (true, _) => true | _ => false end.

    (* The loop guard and the midpoint, in the two arithmetics the code has had:
       safe = false:  while lower + GAS_PER_BYTE < upper { mid = (lower + upper) / 2; ... }
       safe = true :  while upper.saturating_sub(lower) > GAS_PER_BYTE { mid = lower + (upper - lower) / 2; ... }
       (the second after "fix: ... bisection overflowed u64"; which one the compiled crate has is
       reflected into BrcGen.Consts.ESTIMATE_ARITH_SAFE by `hx reflect`). *)
    Definition loop_guard (lo hi : N) : res bool :=
      if safe then Ok (GPB <? hi - lo)
      else match add64 checks lo GPB with Ok s => Ok (s <? hi) | Err => Err | Panic => Panic end.
    Definition midpoint (lo hi : N) : res N :=
      if safe then Ok (lo + (hi - lo) / 2)
      else match add64 checks lo hi with Ok t => Ok (t / 2) | Err => Err | Panic => Panic end.

    (* the loop; returns upper.  None = out of fuel (never with fuel 64: bisection_terminates). *)
    Fixpoint bisect (fuel : nat) (lo hi : N) : option (res N) :=
      match fuel with
      | O => None
      | S f =>
          match loop_guard lo hi with
          | Ok true =>
              match midpoint lo hi with
              | Ok mid =>
                  if succ mid then bisect f lo mid
                  else
                    match add64 checks mid 1 with
                    | Ok l => bisect f l hi
                    | Err => Some Err
                    | Panic => Some Panic
                    end
              | Err => Some Err
              | Panic => Some Panic
              end
          | Ok false => Some (Ok hi)
          | Err => Some Err
          | Panic => Some Panic
          end
      end.

    (* The whole method (the block-height bookkeeping aside): a first run with the configured
       cap, the loop from (21000, cap), the confirmation run.  Err = the JSON-RPC error
       answers ("Call failed" / "Execution reverted"). *)
    Definition estimate (fuel : nat) : option (res N) :=
      if succ cap then
        match bisect fuel 21000 cap with
        | Some (Ok e) => if succ e then Some (Ok e) else Some Err
        | r => r
        end
      else Some Err.
  End Estimate.

  (* ------------------------------------------------------------------------------------ *)
  (* eth_estimateGasMany: one bisection per position; every run is a read_contract_multi of
     the whole batch with the current vector of limits; position i is looked at.            *)
  (* ------------------------------------------------------------------------------------ *)
  Section EstimateMany.
    Variable safe : bool.
    Variable checks : bool.
    Variable cap : N.
    (* one read_contract_multi(batch, limits): None = Err, Some statuses otherwise *)
    Variable runm : list N -> option (list bool).

    Fixpoint set_nth (l : list N) (i : nat) (v : N) : list N :=
      match l, i with
      | [], _ => []
      | _ :: r, O => v :: r
      | x :: r, S j => x :: set_nth r j v
      end.

    Definition succm (i : nat) (gs : list N) : bool :=
      match runm gs with Some sts => nth i sts false | None => false end.

    (* the loop for position i; gs carries the estimates of the positions already done and
       the cap for the others; returns the vector with position i set to the final upper *)
    Fixpoint bisect_m (fuel : nat) (i : nat) (gs : list N) (lo hi : N) : option (res (list N)) :=
      match fuel with
      | O => None
      | S f =>
          match loop_guard safe checks lo hi with
          | Ok true =>
              match midpoint safe checks lo hi with
              | Ok mid =>
                  let gs' := set_nth gs i mid in
                  if succm i gs' then bisect_m f i gs' lo mid
                  else
                    match add64 checks mid 1 with
                    | Ok l => bisect_m f i gs' l hi
                    | Err => Some Err
                    | Panic => Some Panic
                    end
              | Err => Some Err
              | Panic => Some Panic
              end
          | Ok false => Some (Ok (set_nth gs i hi))
          | Err => Some Err
          | Panic => Some Panic
          end
      end.

    Fixpoint each_pos (fuel : nat) (n : nat) (i : nat) (gs : list N) : option (res (list N)) :=
      match n with
      | O => Some (Ok gs)
      | S n' =>
          match bisect_m fuel i gs 21000 cap with
          | Some (Ok gs') => each_pos fuel n' (S i) gs'
          | r => r
          end
      end.

    Definition all_true (o : option (list bool)) : bool :=
      match o with Some sts => forallb (fun b => b) sts | None => false end.

    Definition estimate_many (fuel : nat) (n : nat) : option (res (list N)) :=
      let caps := repeat cap n in
      (* first run: gas_limit = None, every position gets the cap *)
      if all_true (runm caps) then
        match each_pos fuel n 0 caps with
        | Some (Ok gs) => if all_true (runm gs) then Some (Ok gs) else Some Err
        | r => r
        end
      else Some Err.
  End EstimateMany.
End Gas.
