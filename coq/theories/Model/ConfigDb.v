(* src/global/database.rs: ConfigDatabase and validate_config_database, as written, over an
   abstract view of the database directory; and the first two steps of start()
   (src/server/start.rs).  Executable definitions only. *)
From Coq Require Import DecimalString.
From Brc.Model Require Import Base Config.

(* the `config` RocksDB: string keys to string values *)
Definition rows := list (string * string).

Fixpoint r_get (r : rows) (k : string) : option string :=
  match r with
  | [] => None
  | (k', v) :: t => if String.eqb k' k then Some v else r_get t k
  end.

(* put: replace or append *)
Fixpoint r_set (r : rows) (k v : string) : rows :=
  match r with
  | [] => [(k, v)]
  | (k', v') :: t => if String.eqb k' k then (k, v) :: t else (k', v') :: r_set t k v
  end.

Definition KEY_DB_VERSION : string := "DB_VERSION"%string.
Definition KEY_PROTOCOL_VERSION : string := "PROTOCOL_VERSION"%string.
Definition KEY_NETWORK : string := "BITCOIN_RPC_NETWORK"%string.
Definition KEY_TRACES : string := "EVM_RECORD_TRACES"%string.

(* u32::to_string, bool::to_string *)
Definition N_str (n : N) : string := NilEmpty.string_of_uint (N.to_uint n).
Definition bool_str (b : bool) : string := if b then "true"%string else "false"%string.

(* what start-up sees at db_path *)
Inductive dirstate :=
| DAbsent                                       (* the path does not exist *)
| DNotDir                                       (* the path exists and is not a directory *)
| DDir (other : bool) (cfg : option rows).      (* a directory: does it have entries other than
                                                   `config`; the `config` database, if present *)

(* db_path.read_dir()?.next().is_some() *)
Definition dir_nonempty (other : bool) (cfg : option rows) : bool := other || negb (is_none cfg).

(* ConfigDatabase::validate *)
Definition cfg_validate (r : rows) (k v : string) : res unit :=
  match r_get r k with
  | Some db_value => if String.eqb db_value v then Ok tt else Err
  | None => Err
  end.

(* the four rows a fresh run records *)
Definition recorded (dbv pv : N) (c : config) (r0 : rows) : rows :=
  r_set (r_set (r_set (r_set r0 KEY_DB_VERSION (N_str dbv)) KEY_PROTOCOL_VERSION (N_str pv))
               KEY_NETWORK (cfg_network c)) KEY_TRACES (bool_str (cfg_record_traces c)).

(* validate_config_database(config): result and the directory afterwards.  [dbv], [pv] are
   the compile-time DB_VERSION and PROTOCOL_VERSION of the running binary. *)
Definition validate_config_database (dbv pv : N) (c : config) (d : dirstate) : res unit * dirstate :=
  match d with
  | DNotDir => (Err, DNotDir)                                  (* "... is not a directory" *)
  | DAbsent | DDir _ _ =>
      let '(other, cfg) := match d with DDir o g => (o, g) | _ => (false, None) end in   (* create_dir_all *)
      let fresh_run := negb (dir_nonempty other cfg) in        (* before the config db is opened *)
      let r0 := match cfg with Some r => r | None => [] end in (* ConfigDatabase::new: create_if_missing *)
      if fresh_run then (Ok tt, DDir other (Some (recorded dbv pv c r0)))
      else
        (do _ <- cfg_validate r0 KEY_DB_VERSION (N_str dbv);
         do _ <- cfg_validate r0 KEY_PROTOCOL_VERSION (N_str pv);
         do _ <- cfg_validate r0 KEY_NETWORK (cfg_network c);
         cfg_validate r0 KEY_TRACES (bool_str (cfg_record_traces c)),
         DDir other (Some r0))
  end.

(* the engine creates its table directories next to `config` *)
Definition populate (d : dirstate) : dirstate :=
  match d with DDir _ cfg => DDir true cfg | x => x end.

(* start(config): validate_config_database; validate_config; open the engine; start the
   server.  Opening the engine and binding the socket are assumed to succeed here (the tie
   uses fresh ports and directories no other process holds). *)
Definition start_model (dbv pv : N) (c : config) (d : dirstate) : bool * dirstate :=
  match validate_config_database dbv pv c d with
  | (Ok _, d') =>
      match validate_config c with
      | Ok _ => (true, populate d')
      | _ => (false, d')
      end
  | (_, d') => (false, d')
  end.

Definition dir_rows (d : dirstate) : rows :=
  match d with DDir _ (Some r) => r | _ => [] end.
