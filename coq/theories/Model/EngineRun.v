(* Runs of the engine protocol model (Model/Engine.v) over whole call lists, and the oracle
   hypotheses of the global C08 theorems as decidable predicates evaluated along a run.
   Executable definitions only; the theorems are in Proofs/EngineGlobalP.v, Props/C08.v, and
   Model/TieNonce.v evaluates the predicates on the recorded histories. *)
From Brc.Model Require Import Base Table Engine.

(* fields of an entry of the ghost execution log *)
Definition l_block (e : N * N * N * N * bool) : N := fst (fst (fst (fst e))).
Definition l_idx (e : N * N * N * N * bool) : N := snd (fst (fst (fst e))).
Definition l_acct (e : N * N * N * N * bool) : N := snd (fst (fst e)).
Definition l_nonce (e : N * N * N * N * bool) : N := snd (fst e).
Definition l_valid (e : N * N * N * N * bool) : bool := snd e.

(* the tx nonces of the executions of account [a] that passed revm's validation (and so are the
   transactions of [a] that took effect), newest first *)
Definition valid_nonces (a : N) (log : list (N * N * N * N * bool)) : list N :=
  map l_nonce (filter (fun e => l_valid e && (l_acct e =? a)) log).

(* true ... true false ... false *)
Fixpoint mono_bools (l : list bool) : bool :=
  match l with
  | [] => true
  | true :: t => mono_bools t
  | false :: t => forallb negb t
  end.

(* the oracle answers a call really consumed: one per execution (a missing answer reads true) *)
Definition answers_used (m : nat) (valids : list bool) : list bool :=
  map (fun i => nth i valids true) (seq 0 m).

Definition receipts_of (o : outcome) : N := match o with OOk k => k | _ => 0 end.

(* pool keys pairwise different *)
Definition same_key (p q : N * N * N) : bool :=
  (fst (fst p) =? fst (fst q)) && (snd (fst p) =? snd (fst q)).
Fixpoint keys_distinct (l : list (N * N * N)) : bool :=
  match l with
  | [] => true
  | p :: t => negb (existsb (same_key p) t) && keys_distinct t
  end.

(* the entries one transact appends to the log, oldest first: [m] executions of account [a] from
   index [idx] and nonce [n] in block [number] *)
Definition drained_entries (number idx a n : N) (valids : list bool) (m : nat) : list (N * N * N * N * bool) :=
  map (fun i => (number, idx + N.of_nat i, a, n + N.of_nat i, nth i valids true)) (seq 0 m).

Section EngineRun.
  Variable W : N.
  Variable FN : N.
  Variable FB : N.
  Variable IDX : N.

  Notation step := (e_step W FN FB IDX).

  Definition run (g : eng) (cs : list call) : eng := fold_left (fun g c => fst (step g c)) cs g.

  (* [P] holds of every call of the list, each evaluated in the state the run has reached *)
  Fixpoint run_all (P : eng -> call -> bool) (g : eng) (cs : list call) : bool :=
    match cs with
    | [] => true
    | c :: r => P g c && run_all P (fst (step g c)) r
    end.

  (* H1, revm's nonce rule.  The executions of one transact carry the consecutive nonces
     n, n+1, ...; the account's nonce follows them only while every one is accepted, so after the
     first refusal the following ones are ahead of the account and revm refuses them too: the
     answers consumed by the call read true ... true false ... false. *)
  Definition revm_nonce_rule (g : eng) (c : call) : bool :=
    match c with
    | CRaw (DSigned _ _) _ _ _ valids =>
        mono_bools (answers_used (N.to_nat (receipts_of (snd (step g c)))) valids)
    | _ => true
    end.

  (* H2, resynchronisation.  After clear_caches / reorg the harness re-reads the account nonces
     from the EVM state; they are the numbers of effective transactions the truncated log keeps.
     (A refused or empty reorg leaves the state as it was.) *)
  Definition nonces_agree (g : eng) : bool :=
    forallb (fun a => nonce_of g a =? N.of_nat (length (valid_nonces a (g_log g))))
            (map fst (g_nonce g) ++ map l_acct (g_log g)).
  Definition resync_nonces_agree (g : eng) (c : call) : bool :=
    match c with
    | CClear _ _ _ _ | CReorg _ _ _ => nonces_agree (fst (step g c))
    | _ => true
    end.

  (* H3, the pool re-read after clear_caches / reorg: one entry per (account, nonce), none parked
     in a block above the next one; H3', none of them already expired at the new height. *)
  Definition pool_wf (g : eng) : bool :=
    keys_distinct (g_pool g) && forallb (fun p => snd p <=? next_h g) (g_pool g).
  Definition resync_pool_wf (g : eng) (c : call) : bool :=
    match c with
    | CClear _ _ _ _ | CReorg _ _ _ => pool_wf (fst (step g c))
    | _ => true
    end.
  Definition pool_unexpired (g : eng) : bool :=
    match g_h g with
    | Some h => forallb (fun p => h <? snd p + FB) (g_pool g)
    | None => true
    end.
  Definition resync_pool_unexpired (g : eng) (c : call) : bool :=
    match c with
    | CClear _ _ _ _ | CReorg _ _ _ => pool_unexpired (fst (step g c))
    | _ => true
    end.

  (* all of them, for the correspondence run *)
  Definition oracle_ok (g : eng) (c : call) : bool :=
    revm_nonce_rule g c && resync_nonces_agree g c && resync_pool_wf g c && resync_pool_unexpired g c.
End EngineRun.
