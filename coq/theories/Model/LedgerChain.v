(* The bridge ledger ACROSS REORGS (C07).  The ledger lives in the versioned tables, so after
   brc20_reorg it is the ledger as of the end of the block rolled back to (C01).  This file
   writes that down as the snapshot stack the correspondence checker of Model/Tie07.v already
   runs against the real engine ([l_check]: IBlock pushes the current ledger, IReorg drop
   resumes from [skipn drop snaps]) and, beside it, the purely syntactic notion of the
   operations of a history that SURVIVE its reorgs.  Executable definitions only. *)
From Brc.Model Require Import Base Ledger.

Section LedgerChain.
  Variable H_addr : list N -> addr.
  Variable lower : list N -> ticker.
  Variable INDEXER CTL : addr.

  Inductive item :=
  | KOp (o : op)            (* a deposit, a withdrawal or a user call, in the open block *)
  | KBlock                  (* the open block is finalised *)
  | KReorg (drop : nat).    (* the newest [drop] blocks, and whatever was pending, are gone;
                               refused (nothing changes) if the chain is not that long *)

  (* current ledger; ledger at the end of each finalised block, newest first, genesis last *)
  Definition cstate : Type := (ledger * list ledger)%type.
  Definition c_init : cstate := (g_init INDEXER, [g_init INDEXER]).

  Definition c_step (c : cstate) (i : item) : cstate :=
    match i with
    | KOp o => (l_apply CTL (fst c) (op_call H_addr lower INDEXER o), snd c)
    | KBlock => (fst c, fst c :: snd c)
    | KReorg d => match skipn d (snd c) with
                  | st :: rest => (st, st :: rest)
                  | [] => c
                  end
    end.
  Definition c_run (is : list item) : cstate := fold_left c_step is c_init.

  (* the operations that survive: pending ones (oldest first) and finalised blocks (newest
     first) *)
  Definition sstate : Type := (list op * list (list op))%type.
  Definition s_step (s : sstate) (i : item) : sstate :=
    match i with
    | KOp o => (fst s ++ [o], snd s)
    | KBlock => ([], fst s :: snd s)
    | KReorg d => if Nat.leb d (length (snd s)) then ([], skipn d (snd s)) else s
    end.
  Definition surviving_of (s : sstate) : list op := concat (rev (snd s)) ++ fst s.
  Definition surviving (is : list item) : list op := surviving_of (fold_left s_step is ([], [])).
End LedgerChain.
