(* Executable checkers used by the C13 correspondence run: the harness writes the operation
   sequences it executed on the implementation together with what the implementation
   answered; these functions replay them on the model and report the cases that differ. *)
From Brc.Model Require Import Base History Table BlockTable.

Definition ohist := list (N * option N).

Definition entry_eqb (a b : N * option N) : bool :=
  (fst a =? fst b) && opt_eqb N.eqb (snd a) (snd b).

(* one history object: after every op the implementation reports Some entries, or None = panic *)
Record hcase := { hc_id : N; hc_init : option N; hc_ops : list (@hop N); hc_obs : list (option ohist) }.

Fixpoint h_check (W : N) (h : ohist) (ops : list (@hop N)) (obs : list (option ohist)) : bool :=
  match ops, obs with
  | [], [] => true
  | o :: ops', ob :: obs' =>
      match h_step N.eqb W h o, ob with
      | Ok h', Some e => list_eqb entry_eqb h' e && h_check W h' ops' obs'
      | Panic, None => match ops' with [] => true | _ => false end
      | _, _ => false
      end
  | _, _ => false
  end.

Definition bad_hcases (W : N) (cs : list hcase) : list N :=
  map hc_id (filter (fun c => negb (h_check W (h_new (hc_init c)) (hc_ops c) (hc_obs c))) cs).

(* versioned table: after every op the implementation reports, for the key universe of the
   case, latest(k); for each probe range get_range; and all() (sorted by the harness, the
   property does not order full scans).  None = panic. *)
Definition okv := list (N * N).
Record tobs := { to_latest : list (option N); to_ranges : list okv; to_all : okv }.
Record tcase := { tc_id : N; tc_keys : list N; tc_ranges : list (N * N);
                  tc_ops : list (@top N); tc_obs : list (option tobs) }.

Definition kvn_eqb (a b : okv) : bool := list_eqb (pair_eqb N.eqb N.eqb) a b.

Definition res_get {A} (r : res A) (d : A) : A := match r with Ok a => a | _ => d end.

Definition t_observe (t : @table N) (keys : list N) (ranges : list (N * N)) : option tobs :=
  let ls := map (t_latest t) keys in
  let rs := map (fun r => t_get_range t (fst r) (snd r)) ranges in
  let al := t_all t in
  if forallb is_ok ls && forallb is_ok rs && is_ok al then
    Some {| to_latest := map (fun r => res_get r None) ls;
            to_ranges := map (fun r => res_get r []) rs;
            to_all := res_get al [] |}
  else None.

Definition tobs_eqb (a b : tobs) : bool :=
  list_eqb (opt_eqb N.eqb) (to_latest a) (to_latest b)
  && list_eqb kvn_eqb (to_ranges a) (to_ranges b)
  && kvn_eqb (to_all a) (to_all b).

Fixpoint t_check (W : N) (t : @table N) (keys : list N) (ranges : list (N * N))
         (ops : list (@top N)) (obs : list (option tobs)) : bool :=
  match ops, obs with
  | [], [] => true
  | o :: ops', ob :: obs' =>
      match t_step N.eqb W t o, ob with
      | Ok t', Some e =>
          match t_observe t' keys ranges with
          | Some m => tobs_eqb m e && t_check W t' keys ranges ops' obs'
          | None => false
          end
      | Panic, None => match ops' with [] => true | _ => false end
      | _, _ => false
      end
  | _, _ => false
  end.

Definition bad_tcases (W : N) (cs : list tcase) : list N :=
  map tc_id (filter (fun c => negb (t_check W t_empty (tc_keys c) (tc_ranges c) (tc_ops c) (tc_obs c))) cs).

(* block table: after every op, get(k) for the key universe and last_key *)
Record bobs := { bo_get : list (option N); bo_last : option N }.
Record bcase := { bc_id : N; bc_keys : list N; bc_ops : list (@bop N); bc_obs : list bobs }.

Definition bobs_eqb (a b : bobs) : bool :=
  list_eqb (opt_eqb N.eqb) (bo_get a) (bo_get b) && opt_eqb N.eqb (bo_last a) (bo_last b).

Fixpoint b_check (t : btable N) (keys : list N) (ops : list (@bop N)) (obs : list bobs) : bool :=
  match ops, obs with
  | [], [] => true
  | o :: ops', e :: obs' =>
      let t' := b_step t o in
      bobs_eqb {| bo_get := map (b_get t') keys; bo_last := b_last_key t' |} e
      && b_check t' keys ops' obs'
  | _, _ => false
  end.

Definition bad_bcases (cs : list bcase) : list N :=
  map bc_id (filter (fun c => negb (b_check b_empty (bc_keys c) (bc_ops c) (bc_obs c))) cs).
