(* Executable checker for the C04 crash enumeration at table level.  A case = a history run
   to completion, then a commit / reorg that crashed after the implementation had performed
   exactly the persistent writes listed in [kc_done] (history row / latest row, by key), then
   reopen (cache dropped) and a recovery reorg to [kc_n]; [kc_got] is what the implementation
   read back for [kc_keys].  The model performs the same subset of the writes of its own
   commit script — key by key this is one of the three crash states of
   Proofs/TableP.crash_in_commit_recovers — and must read back the same values. *)
From Brc.Model Require Import Base History Table.

Record kcase := { kc_id : N; kc_keys : list N; kc_ops : list (@top N); kc_crash_op : @top N;
                  kc_done : list (bool * N); kc_n : N; kc_got : list (option N) }.

Definition done_mem (hist : bool) (k : N) (done : list (bool * N)) : bool :=
  existsb (fun p => Bool.eqb (fst p) hist && (snd p =? k)) done.

(* the writes of commit(b) restricted to those the implementation performed *)
Definition partial_commit (W b : N) (t : @table N) (done : list (bool * N)) : @table N :=
  let step (dc : kv N * kv (list (N * option N))) (e : N * list (N * option N)) :=
    let '(d, c) := dc in
    let '(k, h) := e in
    let c' := if done_mem true k done
              then (if h_is_old W h b then kv_del c k else kv_put c k h) else c in
    let d' := if done_mem false k done
              then (match h_latest h with Ok (Some v) => kv_put d k v | _ => kv_del d k end) else d in
    (d', c') in
  let dc := fold_left step (t_cache t) (t_db t, t_cdb t) in
  mkTable (fst dc) (snd dc) [].

Definition crash_state (W : N) (t : @table N) (o : @top N) (done : list (bool * N)) : res (@table N) :=
  match o with
  | TCommit b => Ok (partial_commit W b t done)
  | TReorg n =>
      do t1 <- reorg_keys t n (map fst (t_cdb t) ++ map fst (t_cache t));
      Ok (partial_commit W n t1 done)
  | _ => Err
  end.

Definition k_check (W : N) (c : kcase) : bool :=
  match t_run N.eqb W t_empty (kc_ops c) with
  | Ok t =>
      match crash_state W t (kc_crash_op c) (kc_done c) with
      | Ok tc =>
          match t_reorg W tc (kc_n c) with
          | Ok tr =>
              list_eqb (opt_eqb N.eqb)
                       (map (fun k => match t_latest tr k with Ok v => v | _ => None end) (kc_keys c))
                       (kc_got c)
          | _ => false
          end
      | _ => false
      end
  | _ => false
  end.

Definition bad_kcases (W : N) (cs : list kcase) : list N :=
  map kc_id (filter (fun c => negb (k_check W c)) cs).
