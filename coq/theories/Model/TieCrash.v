(* Executable checker for the store-level C04 tie: on real engine runs, the persistent writes
   the recorder saw during every brc20_commitToDatabase and every brc20_reorg are compared with
   the write script the model computes (Model/Crash.v) from the same store-operation trace up to
   that point.

   - the block-table part and everything outside the versioned tables must agree EXACTLY (order,
     table, key, put/delete, value);
   - inside the versioned part the writes come in pairs per key; the order of the two writes of a
     pair must agree exactly; the set of pairs must agree exactly; pairs are compared as lists
     sorted by (table, key) because HashMap iteration order is arbitrary; the tables must come
     in the order of [commit_vorder] / [reorg_vorder] (which Props/C04.v ties to the reflected
     gen/TableOrder.v);
   - the trace must be in the domain of the crash theorems ([crun], clean boundary, the engine's
     guard said "do"). *)
From Brc.Model Require Import Base History Table BlockTable Store Crash Tie01.
From Coq Require Import String.

(* a recorded persistent write.  [RV hist k v]: versioned table, history row (hist = true; v =
   Some 0 for a put, the bytes of a history are not compared) or latest row (v = Some value id);
   None = delete.  [RB which k v]: block table row; [RF which]: flush (3 = config database). *)
Inductive rw : Type :=
| RV (hist : bool) (k : N) (v : option N)
| RB (which k : N) (v : option N)
| RF (which : N).

Definition rw_of (w : pwrite) : rw :=
  match w with
  | PLatestPut k v => RV false k (Some v)
  | PLatestDel k => RV false k None
  | PHistPut k _ => RV true k (Some 0)
  | PHistDel k => RV true k None
  | PBlockPut wh k v => RB wh k (Some v)
  | PBlockDel wh k => RB wh k None
  | PFlush wh => RF wh
  | PMax _ => RF 99
  end.

Definition rw_eqb (a b : rw) : bool :=
  match a, b with
  | RV h1 k1 v1, RV h2 k2 v2 => Bool.eqb h1 h2 && (k1 =? k2) && opt_eqb N.eqb v1 v2
  | RB w1 k1 v1, RB w2 k2 v2 => (w1 =? w2) && (k1 =? k2) && opt_eqb N.eqb v1 v2
  | RF w1, RF w2 => w1 =? w2
  | _, _ => false
  end.

Definition rw_isv (w : rw) : bool := match w with RV _ _ _ => true | _ => false end.
Definition rw_key (w : rw) : N := match w with RV _ k _ => k | RB _ k _ => k | RF _ => 0 end.

Fixpoint take_while {A} (f : A -> bool) (l : list A) : list A :=
  match l with
  | [] => []
  | a :: t => if f a then a :: take_while f t else []
  end.
Fixpoint drop_while {A} (f : A -> bool) (l : list A) : list A :=
  match l with
  | [] => []
  | a :: t => if f a then drop_while f t else l
  end.

(* before the versioned part, the versioned part, after it *)
Definition split3 (l : list rw) : list rw * list rw * list rw :=
  let nv := fun w => negb (rw_isv w) in
  let rest := drop_while nv l in
  (take_while nv l, take_while rw_isv rest, drop_while rw_isv rest).

Fixpoint pairs_of (l : list rw) : option (list (rw * rw)) :=
  match l with
  | [] => Some []
  | a :: b :: t =>
      if rw_key a =? rw_key b
      then match pairs_of t with Some r => Some ((a, b) :: r) | None => None end
      else None
  | _ => None
  end.

Definition pkey (p : rw * rw) : N := rw_key (fst p).

Fixpoint merge (l1 : list (rw * rw)) : list (rw * rw) -> list (rw * rw) :=
  fix merge_aux (l2 : list (rw * rw)) : list (rw * rw) :=
    match l1, l2 with
    | [], _ => l2
    | _, [] => l1
    | a1 :: t1, a2 :: t2 =>
        if pkey a1 <=? pkey a2 then a1 :: merge t1 l2 else a2 :: merge_aux t2
    end.

Fixpoint halve (l : list (rw * rw)) : list (rw * rw) * list (rw * rw) :=
  match l with
  | [] => ([], [])
  | [a] => ([a], [])
  | a :: b :: t => let '(x, y) := halve t in (a :: x, b :: y)
  end.

Fixpoint msort (fuel : nat) (l : list (rw * rw)) : list (rw * rw) :=
  match fuel with
  | O => l
  | S f =>
      match l with
      | [] | [_] => l
      | _ => let '(a, b) := halve l in merge (msort f a) (msort f b)
      end
  end.

Definition pair_rw_eqb (p q : rw * rw) : bool := rw_eqb (fst p) (fst q) && rw_eqb (snd p) (snd q).

(* keys are packed table * 2^600 + key *)
Definition tbl_of (k : N) : N := N.shiftr k 600.

Fixpoint index_of (x : N) (l : list N) (i : N) : N :=
  match l with
  | [] => 1000
  | y :: t => if x =? y then i else index_of x t (i + 1)
  end.

Fixpoint nondecr (l : list N) : bool :=
  match l with
  | a :: (b :: _) as t => (a <=? b) && nondecr t
  | _ => true
  end.

Definition script_matches (order : list N) (model real : list rw) : bool :=
  let '(p1, m1, q1) := split3 model in
  let '(p2, m2, q2) := split3 real in
  list_eqb rw_eqb p1 p2 && list_eqb rw_eqb q1 q2
  && forallb (fun w => negb (rw_isv w)) q2
  && match pairs_of m1, pairs_of m2 with
     | Some a, Some b =>
         list_eqb pair_rw_eqb (msort (List.length a) a) (msort (List.length b) b)
         && nondecr (map (fun pr => index_of (tbl_of (pkey pr)) order 0) b)
         && forallb (fun pr => index_of (tbl_of (pkey pr)) order 0 <? 1000) b
     | _, _ => false
     end.

(* the versioned tables, numbered as the harness numbers them (harness/src/trace.rs VTABLES) *)
Definition vtable_names : list string :=
  ["account_memory"; "code"; "account"; "number_and_index_to_tx_hash"; "tx_receipt";
   "inscription_id_to_tx_hash"; "contract_address_to_inscription_id"; "tx";
   "account_and_nonce_to_tx_hash"; "pending_tx_hash_to_tx_id"; "tx_trace"; "block_hash_to_number"]%string.
Definition btable_names : list string :=
  ["block_number_to_hash"; "block_number_to_block"; "block_number_to_raw_block"]%string.
(* the order in which commit_changes / reorg go through the versioned tables *)
Definition commit_vorder : list N := [3; 5; 6; 7; 8; 9; 10; 4; 0; 1; 2; 11].
Definition reorg_vorder : list N := [0; 1; 2; 11; 3; 4; 5; 6; 7; 8; 9; 10].

(* ---------- recovery after an injected crash ----------
   The same operation (commit / reorg) is run again on the real engine with the fail-point armed
   at persistent-write index k: [cr_done] are the writes the recorder saw before the crash.
   The instance is reopened and brc20_reorg([cr_n]) is issued with the recorder on: [cr_rec] are
   ITS persistent writes, [cr_accepted] whether it answered without error, [cr_probe] a probe of
   the recovered instance (point reads, range scans, block rows of the three block tables,
   heights, max row; Tie01.probe_ok).

   The model: [cr_done] must be a prefix of the operation's script for SOME HashMap order; it is
   mapped back to the model's writes (the [p] of the crash theorems), the crashed-and-reopened
   store is [reopen (apply_pwrites (persistent s) p)], the recovery is [engine_reorg]; the
   recorded recovery writes must be the model's [reorg_script] on that store (compared as in
   [script_matches]) and the probe must agree with the model's recovered store. *)
Record crashrec := { cr_id : N; cr_done : list rw; cr_n : N; cr_accepted : bool;
                     cr_rec : list rw; cr_probe : titem }.

Fixpoint is_prefix (a b : list rw) : bool :=
  match a, b with
  | [], _ => true
  | x :: a', y :: b' => rw_eqb x y && is_prefix a' b'
  | _ :: _, [] => false
  end.

(* complete pairs, then possibly the first write of one more pair *)
Fixpoint pairs_partial (l : list rw) : option (list (rw * rw) * option rw) :=
  match l with
  | [] => Some ([], None)
  | [a] => Some ([], Some a)
  | a :: b :: t =>
      if rw_key a =? rw_key b
      then match pairs_partial t with Some (r, x) => Some ((a, b) :: r, x) | None => None end
      else None
  end.

Fixpoint nodupb (l : list N) : bool :=
  match l with
  | [] => true
  | a :: t => negb (existsb (N.eqb a) t) && nodupb t
  end.

Definition rank_of (order : list N) (k : N) : N := index_of (tbl_of k) order 0.

(* is [done] a prefix of [model] up to the order of the key pairs inside the versioned part? *)
Definition prefix_ok (order : list N) (model done : list rw) : bool :=
  let '(p1, m1, q1) := split3 model in
  let '(p2, m2, q2) := split3 done in
  match m2, q2 with
  | [], _ => is_prefix done model || (list_eqb rw_eqb p1 p2 && match m1 with [] => true | _ => false end)
  | _, [] =>
      list_eqb rw_eqb p1 p2
      && match pairs_of m1, pairs_partial m2 with
         | Some mp, Some (dp, tl) =>
             forallb (fun pr => existsb (pair_rw_eqb pr) mp) dp
             && nodupb (map pkey dp)
             && match tl with
                | None => true
                | Some w => existsb (fun pr => rw_eqb (fst pr) w) mp && negb (existsb (N.eqb (rw_key w)) (map pkey dp))
                end
             && nondecr (map (rank_of order) (map pkey dp ++ match tl with Some w => [rw_key w] | None => [] end))
         | _, _ => false
         end
  | _, _ =>
      list_eqb rw_eqb p1 p2
      && match pairs_of m1, pairs_of m2 with
         | Some a, Some b =>
             list_eqb pair_rw_eqb (msort (List.length a) a) (msort (List.length b) b)
             && nondecr (map (fun pr => rank_of order (pkey pr)) b)
         | _, _ => false
         end
      && is_prefix q2 q1
  end.

Fixpoint map_opt {A B} (f : A -> option B) (l : list A) : option (list B) :=
  match l with
  | [] => Some []
  | a :: t => match f a, map_opt f t with Some b, Some r => Some (b :: r) | _, _ => None end
  end.

Definition find_pw (ws : list pwrite) (r : rw) : option pwrite :=
  find (fun w => rw_eqb (rw_of w) r) ws.

Definition op_script (W : N) (s : store) (o : sop) : res (list pwrite) :=
  match o with
  | SCommit => commit_script W s
  | SReorg n => match engine_reorg_guard W 0 s n with
                | RvDo => reorg_script W s n
                | _ => Panic
                end
  | _ => Err
  end.
Definition op_order (o : sop) : list N := match o with SCommit => commit_vorder | _ => reorg_vorder end.

(* 0 = fine; 1 = the writes done before the crash are not a prefix of the script; 2 = the
   recovery's writes differ from the model's recovery script (or one side refused / no-op'd and
   the other did not); 3 = the probe of the recovered instance differs from the model's recovered
   store; 4 = the model could not run *)
Definition crash_code (W : N) (s : store) (o : sop) (ws : list pwrite) (model : list rw) (cr : crashrec) : N :=
  if negb (prefix_ok (op_order o) model (cr_done cr)) then 1
  else
    match map_opt (find_pw ws) (cr_done cr) with
    | Some p =>
        let crashed := reopen (apply_pwrites (persistent s) p) in
        match engine_reorg_guard W 0 crashed (cr_n cr) with
        | RvRefused => if cr_accepted cr then 2 else 0
        | RvNoop =>
            if cr_accepted cr && match cr_rec cr with [] => true | _ => false end
            then (if probe_ok crashed (cr_probe cr) then 0 else 3) else 2
        | RvDo =>
            match reorg_script W crashed (cr_n cr), sto_reorg W crashed (cr_n cr) with
            | Ok rs, Ok s2 =>
                if cr_accepted cr && script_matches reorg_vorder (map rw_of rs) (cr_rec cr)
                then (if probe_ok s2 (cr_probe cr) then 0 else 3) else 2
            | _, _ => 4
            end
        end
    | None => 1
    end.

Inductive citem : Type :=
| CIOp (o : sop)
| CICheck (o : sop) (real : list rw)
| CICrashes (o : sop) (crs : list crashrec).

Record ccase := { cc_id : N; cc_items : list citem }.

(* 0 = fine; 1 = the recorded writes differ from the script; 2 = the model could not perform
   an operation the implementation performed; 3 = the trace is outside the domain of the crash
   theorems *)
Definition c_step (W : N) (st : wfst) (s : store) (o : sop) : option (wfst * store) + N :=
  if crash_step_ok s o then
    match wf_step W st o, sto_step W s o with
    | Some st', Ok s' => inl (Some (st', s'))
    | None, Ok _ => inr 3
    | _, _ => inr 2
    end
  else inr 3.

Fixpoint c_check (W : N) (st : wfst) (s : store) (items : list citem) : N :=
  match items with
  | [] => 0
  | CICrashes _ _ :: r => c_check W st s r     (* judged by [crash_fails] *)
  | CIOp o :: r =>
      match c_step W st s o with
      | inl (Some (st', s')) => c_check W st' s' r
      | inl None => 2
      | inr e => e
      end
  | CICheck o real :: r =>
      if w_dirty st then 3
      else
        let script := match o with
                      | SCommit => commit_script W s
                      | SReorg n => match engine_reorg_guard W 0 s n with
                                    | RvDo => reorg_script W s n
                                    | _ => Panic
                                    end
                      | _ => Err
                      end in
        match script with
        | Ok ws =>
            if script_matches (match o with SCommit => commit_vorder | _ => reorg_vorder end)
                              (map rw_of ws) real
            then match c_step W st s o with
                 | inl (Some (st', s')) => c_check W st' s' r
                 | inl None => 2
                 | inr e => e
                 end
            else 1
        | Panic => 3
        | Err => 2
        end
  end.

(* the failing crash records of a case: cr_id + code * 1000000000 *)
Fixpoint crash_fails (W : N) (st : wfst) (s : store) (items : list citem) : list N :=
  match items with
  | [] => []
  | CIOp o :: r | CICheck o _ :: r =>
      match c_step W st s o with
      | inl (Some (st', s')) => crash_fails W st' s' r
      | _ => []           (* reported by [c_check] *)
      end
  | CICrashes o crs :: r =>
      (if w_dirty st then map (fun cr => cr_id cr + 5000000000) crs
       else match op_script W s o with
            | Ok ws =>
                let model := map rw_of ws in
                flat_map (fun cr => match crash_code W s o ws model cr with
                                    | 0 => []
                                    | c => [cr_id cr + c * 1000000000]
                                    end) crs
            | _ => map (fun cr => cr_id cr + 4000000000) crs
            end)
      ++ crash_fails W st s r
  end.

(* ids of the failing cases: id = scripts differ; id + 100000000 = model failed;
   id + 500000000 = trace outside the theorems' domain *)
Definition bad_ccases (W : N) (cs : list ccase) : list N :=
  flat_map (fun c => match c_check W wf_init st_empty (cc_items c) with
                     | 0 => []
                     | 1 => [cc_id c]
                     | 2 => [cc_id c + 100000000]
                     | _ => [cc_id c + 500000000]
                     end ++ crash_fails W wf_init st_empty (cc_items c)) cs.
