(* C06: the bookkeeping that makes blocks, transactions, receipts, logs and indexes cohere,
   mirroring add_tx_to_block / finalise_block (src/engine/engine.rs) and set_tx_receipt,
   generate_block (src/db/brc20_prog_database.rs).

   revm is an oracle: per transaction it supplies gas_used and the number of logs; the
   transaction hash comes from the hash oracle.  u64 arithmetic is explicit: cumulative gas
   uses checked_add(..).unwrap_or(previous); the log index is a plain u64 addition. *)
From Brc.Model Require Import Base.

Definition U64 : N := 18446744073709551616.  (* 2^64 *)

Record txrec : Type := mkTx {
  x_hash : N; x_block : N; x_bhash : N; x_idx : N;
  x_gas : N; x_cum : N; x_logstart : N; x_nlogs : N;
}.

Record openblk : Type := mkOpen {
  o_wait : N;          (* waiting_tx_count *)
  o_gas : N;           (* LastBlockInfo.gas_used *)
  o_log : N;           (* LastBlockInfo.log_index *)
  o_txs : list txrec;  (* transactions of the block under construction, newest first *)
}.
Definition open_init : openblk := mkOpen 0 0 0 [].

Record blockrec : Type := mkBlock {
  b_number : N; b_hash : N; b_parent : N; b_gas : N;
  b_txs : list txrec;  (* in index order *)
}.

Record chain : Type := mkChain {
  c_blocks : list blockrec;   (* newest first *)
  c_open : openblk;
  (* the lookup tables as the store keeps them (latest values) *)
  c_by_hash : list (N * txrec);        (* tx hash -> tx / receipt row *)
  c_by_bi : list (N * N * N);          (* (block, index) -> tx hash *)
}.
Definition chain_init : chain := mkChain [] open_init [] [].

Definition checked_add_or_old (a b : N) : N := if a + b <? U64 then a + b else a.

(* add_tx_to_block: the receipt gets cumulative gas, start log index; LastBlockInfo advances *)
Definition add_tx (c : chain) (number bhash hash gas nlogs : N) : chain :=
  let o := c_open c in
  let cum := checked_add_or_old (o_gas o) gas in
  let r := mkTx hash number bhash (o_wait o) gas cum (o_log o) nlogs in
  mkChain (c_blocks c)
          (mkOpen (o_wait o + 1) cum (o_log o + nlogs) (r :: o_txs o))
          ((hash, r) :: c_by_hash c)
          ((number, o_wait o, hash) :: c_by_bi c).

Definition parent_of (c : chain) (number : N) : N :=
  if number =? 0 then 0
  else match find (fun b => b_number b =? number - 1) (c_blocks c) with
       | Some b => b_hash b
       | None => 0
       end.

(* finalise_block: the block lists the transactions of the open block in index order; gas used
   is LastBlockInfo.gas_used *)
Definition finalise (c : chain) (number bhash : N) : chain :=
  let o := c_open c in
  mkChain (mkBlock number bhash (parent_of c number) (o_gas o) (rev (o_txs o)) :: c_blocks c)
          open_init (c_by_hash c) (c_by_bi c).

(* ---------- what "coherent" means for one block ---------- *)

Fixpoint txs_coherent (txs : list txrec) (idx gas logidx : N) (number bhash : N) : bool :=
  match txs with
  | [] => true
  | r :: t =>
      (x_idx r =? idx) && (x_block r =? number) && (x_bhash r =? bhash)
      && (x_logstart r =? logidx)
      && (x_cum r =? checked_add_or_old gas (x_gas r))
      && txs_coherent t (idx + 1) (x_cum r) (logidx + x_nlogs r) number bhash
  end.

Fixpoint last_cum (txs : list txrec) (d : N) : N :=
  match txs with [] => d | r :: t => last_cum t (x_cum r) end.

Definition block_coherent (b : blockrec) : bool :=
  txs_coherent (b_txs b) 0 0 0 (b_number b) (b_hash b) && (b_gas b =? last_cum (b_txs b) 0).

Definition lookup_hash (c : chain) (h : N) : option txrec :=
  match find (fun p => fst p =? h) (c_by_hash c) with Some p => Some (snd p) | None => None end.
Definition lookup_bi (c : chain) (b i : N) : option N :=
  match find (fun p => (fst (fst p) =? b) && (snd (fst p) =? i)) (c_by_bi c) with
  | Some p => Some (snd p) | None => None end.

Inductive cop : Type :=
| CAdd (hash gas nlogs : N)
| CFin.

(* a run of whole blocks: each block has a number, a hash and its operations *)
Definition run_block (c : chain) (number bhash : N) (txs : list (N * N * N)) : chain :=
  finalise (fold_left (fun c t => add_tx c number bhash (fst (fst t)) (snd (fst t)) (snd t)) txs c) number bhash.
