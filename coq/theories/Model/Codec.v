(* L0 Bytes and L1 Codec: the storage encoding of the module, mirroring
     src/db/types/encode_decode.rs   (traits Encode/Decode, u8/u32/u64, [T;N], Vec<T>, Option<T>, (T,U), String)
     src/db/types/uint_ed.rs         (UintED<BITS,LIMBS>: U8ED U64ED U128ED U256ED U512ED)
     src/db/types/address_ed.rs, b256_ed.rs, bytes_ed.rs, bytecode_ed.rs
     src/db/types/account_info_ed.rs, log_ed.rs, tx_ed.rs, tx_receipt_ed.rs, block_ed.rs,
     src/db/types/trace_ed.rs, raw_block_ed.rs
     src/db/cached_database/block_history_cache.rs (Encode/Decode of BlockHistoryCacheData<V>)

   Executable definitions only.  A byte is an [N] below 256, a buffer is a [list N]
   ([bytes_ok] is the boolean well-formedness predicate).  Offsets are [nat] (they index a
   list).  A decoder takes the whole buffer and an offset and returns the value and the
   offset after it, exactly like [Decode::decode(bytes, offset)].  Reading past the end of
   the buffer is the index-out-of-bounds panic of [u8::decode] ([Panic]); a [Box<dyn Error>]
   is [Err]. *)
From Brc.Model Require Import Base History.

Definition bytes := list N.
Definition byteb (x : N) : bool := x <? 256.
Definition bytes_ok (l : bytes) : bool := forallb byteb l.
Definition bytes_eqb : bytes -> bytes -> bool := list_eqb N.eqb.

(* ------------------------------------------------------------------------------------- *)
(* Big-endian digits.  [beB B w n]: the [w] low digits of [n] in base [B], most
   significant first ([to_be_bytes] for B = 256; the limbs of a [Uint], most significant
   first, for B = 2^64).  It truncates like an [as u32] cast does. *)
Fixpoint beB (B : N) (w : nat) (n : N) : list N :=
  match w with
  | O => []
  | S w' => (n / B ^ N.of_nat w') mod B :: beB B w' (n mod B ^ N.of_nat w')
  end.

Fixpoint of_beB (B : N) (l : list N) : N :=
  match l with
  | [] => 0
  | d :: t => d * B ^ N.of_nat (length t) + of_beB B t
  end.

Definition be : nat -> N -> bytes := beB 256.
Definition of_be : bytes -> N := of_beB 256.

(* Lexicographic comparison of byte strings: the order of [&[u8]] in Rust and of RocksDB's
   default comparator. *)
Fixpoint lcmp (a b : list N) : comparison :=
  match a, b with
  | [], [] => Eq
  | [], _ :: _ => Lt
  | _ :: _, [] => Gt
  | x :: a', y :: b' => match x ?= y with Eq => lcmp a' b' | c => c end
  end.

Definition lexb (a b : list N) : bool := match lcmp a b with Lt => true | _ => false end.

(* ------------------------------------------------------------------------------------- *)
(* The codec universe *)

Record codec (A : Type) : Type := {
  enc : A -> bytes;                          (* Encode::encode_vec *)
  dec : bytes -> nat -> res (A * nat);       (* Decode::decode(bytes, offset) *)
  wf  : A -> bool                            (* what the Rust type guarantees about a value *)
}.
Arguments enc {A} c x.
Arguments dec {A} c b o.
Arguments wf {A} c x.

(* impl Encode/Decode for u8:  buffer.push(self)  /  Ok((bytes[offset], offset + 1)) *)
Definition c_u8 : codec N := {|
  enc := fun x => [x];
  dec := fun b o => match nth_error b o with Some x => Ok (x, S o) | None => Panic end;
  wf := byteb |}.

(* [T; N]: N items one after the other, no length *)
Fixpoint dec_arr {A} (d : bytes -> nat -> res (A * nat)) (n : nat) (b : bytes) (o : nat)
  : res (list A * nat) :=
  match n with
  | O => Ok ([], o)
  | S n' =>
      do xo <- d b o;
      do r <- dec_arr d n' b (snd xo);
      Ok (fst xo :: fst r, snd r)
  end.

Definition c_arr {A} (n : nat) (c : codec A) : codec (list A) := {|
  enc := fun xs => flat_map (enc c) xs;
  dec := dec_arr (dec c) n;
  wf := fun xs => Nat.eqb (length xs) n && forallb (wf c) xs |}.

(* a codec seen through a pair of conversions ([from_be_bytes]/[to_be_bytes], record <-> tuple
   of its fields); [ok] is the extra well-formedness the conversion needs *)
Definition c_iso {A B} (f : A -> B) (g : B -> A) (ok : B -> bool) (c : codec A) : codec B := {|
  enc := fun y => enc c (g y);
  dec := fun b o => do r <- dec c b o; Ok (f (fst r), snd r);
  wf := fun y => ok y && wf c (g y) |}.

(* u32 / u64:  self.to_be_bytes().encode(buffer)  /  <[u8; W]>::decode(..).map(from_be_bytes) *)
Definition c_be (w : nat) : codec N :=
  c_iso of_be (be w) (fun x => x <? 256 ^ N.of_nat w) (c_arr w c_u8).
Definition c_u32 : codec N := c_be 4.
Definition c_u64 : codec N := c_be 8.

(* fixed byte arrays: AddressED ([u8;20]), FixedBytesED<N> (B256ED = 32, B2048ED = 256) *)
Definition c_fixed (n : nat) : codec bytes := c_arr n c_u8.
Definition c_addr := c_fixed 20.
Definition c_b256 := c_fixed 32.
Definition c_bloom := c_fixed 256.

(* UintED<BITS, LIMBS>.
   encode: for limb in self.uint.as_limbs().iter().rev() { limb.encode(buffer) }
   decode: LIMBS times u64::decode, limbs.reverse(), Uint::from_limbs(limbs), which asserts
           limbs[LIMBS-1] <= MASK when BITS is not a multiple of 64 (a panic otherwise). *)
Definition limb_base : N := 2 ^ 64.
Definition umask (bits : N) : N :=
  if bits mod 64 =? 0 then limb_base - 1 else 2 ^ (bits mod 64) - 1.

Definition c_uint (bits : N) (limbs : nat) : codec N := {|
  enc := fun x => flat_map (enc c_u64) (beB limb_base limbs x);
  dec := fun b o =>
    do r <- dec_arr (dec c_u64) limbs b o;
    if hd 0 (fst r) <=? umask bits then Ok (of_beB limb_base (fst r), snd r) else Panic;
  wf := fun x => x <? 2 ^ bits |}.
Definition c_U8 := c_uint 8 1.
Definition c_U64 := c_uint 64 1.
Definition c_U128 := c_uint 128 2.
Definition c_U256 := c_uint 256 4.
Definition c_U512 := c_uint 512 8.

(* Vec<T>:  (self.len() as u32).encode; each item  /  u32 length, then that many items.
   The decoding loop runs [length] times ("for _ in 0..length"); it is written over the binary
   representation of the count and stops at the first failure, so that a nonsensical length
   read from a corrupted buffer costs the model what it costs the implementation (which fails
   at the first out-of-bounds read) and not 2^32 steps. *)
Definition many_step {A} (d : bytes -> nat -> res (A * nat)) (b : bytes)
           (s : res (list A * nat)) : res (list A * nat) :=
  do ao <- s; do x <- d b (snd ao); Ok (fst x :: fst ao, snd x).

Fixpoint iter_ok {St} (p : positive) (f : res St -> res St) (s : res St) : res St :=
  if is_ok s then
    match p with
    | xH => f s
    | xO p' => iter_ok p' f (iter_ok p' f s)
    | xI p' => f (iter_ok p' f (iter_ok p' f s))
    end
  else s.

Definition dec_many {A} (d : bytes -> nat -> res (A * nat)) (n : N) (b : bytes) (o : nat)
  : res (list A * nat) :=
  do r <- match n with
          | N0 => Ok ([], o)
          | Npos p => iter_ok p (many_step d b) (Ok ([], o))
          end;
  Ok (rev (fst r), snd r).

Definition c_vec {A} (c : codec A) : codec (list A) := {|
  enc := fun xs => be 4 (N.of_nat (length xs)) ++ flat_map (enc c) xs;
  dec := fun b o => do r <- dec c_u32 b o; dec_many (dec c) (fst r) b (snd r);
  wf := fun xs => (N.of_nat (length xs) <? 2 ^ 32) && forallb (wf c) xs |}.

(* Vec<u8>, BytesED *)
Definition c_bytes : codec bytes := c_vec c_u8.

(* Option<T>: flag byte 1 then the value, or flag byte 0; on decode ANY flag other than 1
   is None *)
Definition c_opt {A} (c : codec A) : codec (option A) := {|
  enc := fun x => match x with Some v => 1 :: enc c v | None => [0] end;
  dec := fun b o =>
    do r <- dec c_u8 b o;
    if fst r =? 1 then (do v <- dec c b (snd r); Ok (Some (fst v), snd v)) else Ok (None, snd r);
  wf := fun x => match x with Some v => wf c v | None => true end |}.

(* (T, U) *)
Definition c_pair {A B} (ca : codec A) (cb : codec B) : codec (A * B) := {|
  enc := fun p => enc ca (fst p) ++ enc cb (snd p);
  dec := fun b o => do x <- dec ca b o; do y <- dec cb b (snd x); Ok ((fst x, fst y), snd y);
  wf := fun p => wf ca (fst p) && wf cb (snd p) |}.

(* String: the bytes as Vec<u8>; String::from_utf8 on the way back ("Invalid UTF-8" error).
   A string is modelled as its UTF-8 bytes; [utf8_valid] is the validity check of
   core::str::from_utf8 (well-formed sequences of Unicode Table 3-7). *)
Definition u_cont (b : N) : bool := (128 <=? b) && (b <=? 191).
Fixpoint utf8_valid (l : bytes) : bool :=
  match l with
  | [] => true
  | b0 :: t =>
      if b0 <? 128 then utf8_valid t
      else if (194 <=? b0) && (b0 <=? 223) then
        match t with
        | b1 :: t1 => u_cont b1 && utf8_valid t1
        | _ => false
        end
      else if (224 <=? b0) && (b0 <=? 239) then
        match t with
        | b1 :: b2 :: t2 =>
            (if b0 =? 224 then (160 <=? b1) && (b1 <=? 191)
             else if b0 =? 237 then (128 <=? b1) && (b1 <=? 159)
             else u_cont b1) && u_cont b2 && utf8_valid t2
        | _ => false
        end
      else if (240 <=? b0) && (b0 <=? 244) then
        match t with
        | b1 :: b2 :: b3 :: t3 =>
            (if b0 =? 240 then (144 <=? b1) && (b1 <=? 191)
             else if b0 =? 244 then (128 <=? b1) && (b1 <=? 143)
             else u_cont b1) && u_cont b2 && u_cont b3 && utf8_valid t3
        | _ => false
        end
      else false
  end.

Definition c_string : codec bytes := {|
  enc := enc c_bytes;
  dec := fun b o => do r <- dec c_bytes b o; if utf8_valid (fst r) then Ok r else Err;
  wf := fun s => wf c_bytes s && utf8_valid s |}.

(* a "legacy" filler field: the encoder writes the constant [v], the decoder reads a value
   of that type and drops it *)
Definition c_const {A} (c : codec A) (v : A) : codec unit := {|
  enc := fun _ => enc c v;
  dec := fun b o => do r <- dec c b o; Ok (tt, snd r);
  wf := fun _ => wf c v |}.

(* BytecodeED: the original bytes as Vec<u8>; decode runs Bytecode::new_raw_checked(..)
   .expect("Valid bytecode"): bytes starting with the EIP-7702 magic ef01 must be exactly
   23 bytes with version byte 0, anything else is a panic.  Every other byte string is
   legacy bytecode.  The value is modelled by its original bytes. *)
Definition bytecode_valid (b : bytes) : bool :=
  match b with
  | 239 :: 1 :: t => Nat.eqb (length b) 23 && (hd 1 t =? 0)
  | _ => true
  end.
Definition c_bytecode : codec bytes := {|
  enc := enc c_bytes;
  dec := fun b o => do r <- dec c_bytes b o; if bytecode_valid (fst r) then Ok r else Panic;
  wf := fun s => wf c_bytes s && bytecode_valid s |}.

(* BlockHistoryCacheData<V> (a BTreeMap<u64, Option<V>>, kept as its entries in key order):
   encode: (len as u32), then for each entry block_number (u64) and value (Option<V>);
   decode: u32 len, then len times: decode key, decode value, cache.insert(key, value). *)
Fixpoint strictly_sorted (l : list N) : bool :=
  match l with
  | [] => true
  | x :: t => match t with [] => true | y :: _ => (x <? y) && strictly_sorted t end
  end.

Definition c_hist {V} (c : codec V) : codec (list (N * option V)) :=
  c_iso (fun l => fold_left (fun acc kv => bt_insert (fst kv) (snd kv) acc) l [])
        (fun h => h)
        (fun h => strictly_sorted (map fst h))
        (c_vec (c_pair c_u64 (c_opt c))).

(* ------------------------------------------------------------------------------------- *)
(* Concrete persisted types.  Each record lists the fields of the Rust struct; the codec is
   the tuple of the field codecs in the order of the [encode]/[decode] bodies, with the
   legacy fillers where the source has them. *)

(* AccountInfoED *)
Record account := { a_balance : N; a_nonce : N; a_code_hash : bytes }.
Definition c_account : codec account :=
  c_iso (fun t => {| a_balance := fst t; a_nonce := fst (snd t); a_code_hash := snd (snd t) |})
        (fun a => (a_balance a, (a_nonce a, a_code_hash a)))
        (fun _ => true)
        (c_pair c_U256 (c_pair c_U64 c_b256)).

(* LogED *)
Record log := {
  l_address : bytes; l_topics : list bytes; l_data : bytes; l_tx_index : N; l_tx_hash : bytes;
  l_block_hash : bytes; l_block_number : N; l_log_index : N }.
Definition c_log : codec log :=
  c_iso (fun t => match t with (a, (tp, (d, (ti, (th, (bh, (bn, li))))))) =>
           {| l_address := a; l_topics := tp; l_data := d; l_tx_index := ti; l_tx_hash := th;
              l_block_hash := bh; l_block_number := bn; l_log_index := li |} end)
        (fun l => (l_address l, (l_topics l, (l_data l, (l_tx_index l, (l_tx_hash l,
                  (l_block_hash l, (l_block_number l, l_log_index l))))))))
        (fun _ => true)
        (c_pair c_addr (c_pair (c_vec c_b256) (c_pair c_bytes (c_pair c_U64 (c_pair c_b256
        (c_pair c_b256 (c_pair c_U64 c_U64))))))).

(* TxED.  chain_id and tx_type are not stored: decode fills in CONFIG.read().chain_id (the
   parameter [chain]) and 0. *)
Record tx := {
  x_hash : bytes; x_nonce : N; x_block_hash : bytes; x_block_number : option N;
  x_tx_index : option N; x_from : bytes; x_to : option bytes; x_value : N; x_gas : N;
  x_gas_price : N; x_input : bytes; x_v : N; x_r : N; x_s : N; x_chain_id : N; x_type : N;
  x_inscription_id : option bytes }.
Definition c_tx (chain : N) : codec tx :=
  c_iso (fun t => match t with
           (h, (n, (bh, (bn, (ti, (fr, (to, (va, (ga, (gp, (inp, (ins, (v, (r, s)))))))))))))) =>
           {| x_hash := h; x_nonce := n; x_block_hash := bh; x_block_number := bn;
              x_tx_index := ti; x_from := fr; x_to := to; x_value := va; x_gas := ga;
              x_gas_price := gp; x_input := inp; x_v := v; x_r := r; x_s := s;
              x_chain_id := chain; x_type := 0; x_inscription_id := ins |} end)
        (fun x => (x_hash x, (x_nonce x, (x_block_hash x, (x_block_number x, (x_tx_index x,
                  (x_from x, (x_to x, (x_value x, (x_gas x, (x_gas_price x, (x_input x,
                  (x_inscription_id x, (x_v x, (x_r x, x_s x)))))))))))))))
        (fun x => (x_chain_id x =? chain) && (x_type x =? 0))
        (c_pair c_b256 (c_pair c_U64 (c_pair c_b256 (c_pair (c_opt c_U64) (c_pair (c_opt c_U64)
        (c_pair c_addr (c_pair (c_opt c_addr) (c_pair c_U64 (c_pair c_U64 (c_pair c_U64
        (c_pair c_bytes (c_pair (c_opt c_string) (c_pair c_U8 (c_pair c_U256 c_U256)))))))))))))).

(* TxReceiptED.  effective_gas_price and transaction_type are not stored (decode gives 0);
   five legacy fields are written as constants and skipped by the decoder. *)
Record receipt := {
  r_status : N; r_logs : list log; r_gas_used : N; r_from : bytes; r_to : option bytes;
  r_contract_address : option bytes; r_logs_bloom : bytes; r_block_hash : bytes;
  r_block_number : N; r_tx_hash : bytes; r_tx_index : N; r_cumulative_gas_used : N;
  r_effective_gas_price : N; r_type : N }.
Definition c_receipt : codec receipt :=
  c_iso (fun t => match t with
           (st, (_, (_, (lg, (gu, (fr, (to, (ca, (bl, (bh, (bn, (_, (th, (ti, (cg, (_, _)))))))))))))))) =>
           {| r_status := st; r_logs := lg; r_gas_used := gu; r_from := fr; r_to := to;
              r_contract_address := ca; r_logs_bloom := bl; r_block_hash := bh;
              r_block_number := bn; r_tx_hash := th; r_tx_index := ti;
              r_cumulative_gas_used := cg; r_effective_gas_price := 0; r_type := 0 |} end)
        (fun r => (r_status r, (tt, (tt, (r_logs r, (r_gas_used r, (r_from r, (r_to r,
                  (r_contract_address r, (r_logs_bloom r, (r_block_hash r, (r_block_number r,
                  (tt, (r_tx_hash r, (r_tx_index r, (r_cumulative_gas_used r, (tt, tt)))))))))))))))))
        (fun r => (r_effective_gas_price r =? 0) && (r_type r =? 0))
        (c_pair c_U8
        (c_pair (c_const c_string [])           (* String::new(): legacy tx result *)
        (c_pair (c_const c_string [])           (* String::new(): legacy reason *)
        (c_pair (c_vec c_log) (c_pair c_U64 (c_pair c_addr (c_pair (c_opt c_addr)
        (c_pair (c_opt c_addr) (c_pair c_bloom (c_pair c_b256 (c_pair c_U64
        (c_pair (c_const c_U64 0)               (* U64ED::zero(): legacy block timestamp *)
        (c_pair c_b256 (c_pair c_U64 (c_pair c_U64
        (c_pair (c_const c_U64 0)               (* U64ED::zero(): legacy nonce *)
                (c_const (c_opt c_bytes) None)  (* Option::<BytesED>::None: legacy result bytes *)
        )))))))))))))))).

(* BlockResponseED.  The encoder writes difficulty, gas_limit, total_difficulty,
   receipts_root and size FROM THE VALUE, the decoder skips them and rebuilds the block
   with BlockResponseED::new, i.e. with difficulty 0, gas_limit MAX_BLOCK_SIZE*GAS_PER_BYTE
   (parameter [gas_limit]), total_difficulty 0, receipts_root zero, size 0, transactions
   Either::Left(hashes), and the twelve never-stored fields at their constants.
   [b_transactions = None] stands for Either::Right (full transactions): encode panics.
   [b_rest_default] says the never-stored fields (base_fee_per_gas, uncles, withdrawals,
   withdrawals_root, parent_beacon_block_root, sha3_uncles, state_root, miner, mix_hash,
   excess_blob_gas, extra_data, blob_gas_used) have the values [new] gives them. *)
Record block := {
  b_difficulty : N; b_gas_limit : N; b_gas_used : N; b_hash : bytes; b_logs_bloom : bytes;
  b_nonce : N; b_number : N; b_timestamp : N; b_mine_timestamp : N;
  b_transactions : option (list bytes); b_transactions_root : bytes; b_total_difficulty : N;
  b_parent_hash : bytes; b_receipts_root : bytes; b_size : N; b_rest_default : bool }.
Definition zeros (n : nat) : bytes := repeat 0 n.
Definition c_block (gas_limit : N) : codec block :=
  c_iso (fun t => match t with
           (_, (_, (gu, (h, (bl, (no, (nu, (ts, (mt, (txs, (tr, (_, (ph, (_, _)))))))))))))) =>
           {| b_difficulty := 0; b_gas_limit := gas_limit; b_gas_used := gu; b_hash := h;
              b_logs_bloom := bl; b_nonce := no; b_number := nu; b_timestamp := ts;
              b_mine_timestamp := mt; b_transactions := Some txs; b_transactions_root := tr;
              b_total_difficulty := 0; b_parent_hash := ph; b_receipts_root := zeros 32;
              b_size := 0; b_rest_default := true |} end)
        (fun b => (b_difficulty b, (b_gas_limit b, (b_gas_used b, (b_hash b, (b_logs_bloom b,
                  (b_nonce b, (b_number b, (b_timestamp b, (b_mine_timestamp b,
                  (match b_transactions b with Some l => l | None => [] end,
                  (b_transactions_root b, (b_total_difficulty b, (b_parent_hash b,
                  (b_receipts_root b, b_size b)))))))))))))))
        (fun b => (b_difficulty b =? 0) && (b_gas_limit b =? gas_limit)
                  && (b_total_difficulty b =? 0) && bytes_eqb (b_receipts_root b) (zeros 32)
                  && (b_size b =? 0) && b_rest_default b
                  && match b_transactions b with Some _ => true | None => false end)
        (c_pair c_U64 (c_pair c_U64 (c_pair c_U64 (c_pair c_b256 (c_pair c_bloom (c_pair c_U64
        (c_pair c_U64 (c_pair c_U64 (c_pair c_U128 (c_pair (c_vec c_b256) (c_pair c_b256
        (c_pair c_U64 (c_pair c_b256 (c_pair c_b256 c_U64)))))))))))))).

(* TraceED: a call frame with nested call frames. *)
Inductive trace : Type := Trace {
  t_type : bytes; t_from : bytes; t_to : option bytes; t_calls : list trace; t_gas : N;
  t_gas_used : N; t_input : bytes; t_output : bytes; t_value : N; t_error : option bytes;
  t_revert_reason : option bytes }.

(* one frame, given the codec of the nested frames *)
Definition c_trace_body (cc : codec trace) : codec trace :=
  c_iso (fun t => match t with (ty, (fr, (to, (cs, (g, (gu, (i, (o, (v, (e, rr)))))))))) =>
           Trace ty fr to cs g gu i o v e rr end)
        (fun t => (t_type t, (t_from t, (t_to t, (t_calls t, (t_gas t, (t_gas_used t,
                  (t_input t, (t_output t, (t_value t, (t_error t, t_revert_reason t)))))))))))
        (fun _ => true)
        (c_pair c_string (c_pair c_addr (c_pair (c_opt c_addr) (c_pair (c_vec cc) (c_pair c_U256
        (c_pair c_U256 (c_pair c_bytes (c_pair c_bytes (c_pair c_U256
        (c_pair (c_opt c_string) (c_opt c_string))))))))))).

Definition c_fail {A} : codec A :=
  {| enc := fun _ => []; dec := fun _ _ => Panic; wf := fun _ => false |}.

(* nesting bounded by [fuel] *)
Fixpoint c_trace_fuel (fuel : nat) : codec trace :=
  match fuel with
  | O => c_fail
  | S f => c_trace_body (c_trace_fuel f)
  end.

(* the encoder and the well-formedness, by recursion on the frame *)
Fixpoint enc_trace (t : trace) : bytes :=
  match t with
  | Trace ty fr to cs g gu i o v e rr =>
      enc c_string ty ++ enc c_addr fr ++ enc (c_opt c_addr) to
      ++ (be 4 (N.of_nat (length cs)) ++ flat_map enc_trace cs)
      ++ enc c_U256 g ++ enc c_U256 gu ++ enc c_bytes i ++ enc c_bytes o ++ enc c_U256 v
      ++ enc (c_opt c_string) e ++ enc (c_opt c_string) rr
  end.

Fixpoint wf_trace (t : trace) : bool :=
  match t with
  | Trace ty fr to cs g gu i o v e rr =>
      wf c_string ty && wf c_addr fr && wf (c_opt c_addr) to
      && ((N.of_nat (length cs) <? 2 ^ 32) && forallb wf_trace cs)
      && wf c_U256 g && wf c_U256 gu && wf c_bytes i && wf c_bytes o && wf c_U256 v
      && wf (c_opt c_string) e && wf (c_opt c_string) rr
  end.

Fixpoint depth (t : trace) : nat :=
  match t with
  | Trace _ _ _ cs _ _ _ _ _ _ _ => S (list_max (map depth cs))
  end.

(* The decoder recurses once per nested frame, and every frame reads at least one byte
   before it recurses, so a buffer of n bytes never needs more than n+1 levels. *)
Definition c_trace : codec trace := {|
  enc := enc_trace;
  dec := fun b o => dec (c_trace_fuel (S (length b))) b o;
  wf := wf_trace |}.

(* ------------------------------------------------------------------------------------- *)
(* Hex text, for RawBlock *)
Definition hex_digit (d : N) : N := if d <? 10 then 48 + d else 87 + d.   (* 0-9 a-f *)
Definition hex_val (c : N) : option N :=
  if (48 <=? c) && (c <=? 57) then Some (c - 48)
  else if (97 <=? c) && (c <=? 102) then Some (c - 87)
  else if (65 <=? c) && (c <=? 70) then Some (c - 55)
  else None.
(* hex::encode *)
Definition hex_enc (l : bytes) : bytes := flat_map (fun b => [hex_digit (b / 16); hex_digit (b mod 16)]) l.
(* hex::decode: odd length or a non-hex character is an error *)
Fixpoint hex_dec (l : bytes) : option bytes :=
  match l with
  | [] => Some []
  | h :: t =>
      match t with
      | [] => None
      | lo :: t' =>
          match hex_val h, hex_val lo, hex_dec t' with
          | Some a, Some b, Some r => Some (a * 16 + b :: r)
          | _, _, _ => None
          end
      end
  end.
(* str::trim_start_matches("0x"): removes every leading repetition of "0x" *)
Fixpoint trim0x (l : bytes) : bytes :=
  match l with
  | a :: t =>
      match t with
      | b :: t' => if (a =? 48) && (b =? 120) then trim0x t' else l
      | [] => l
      end
  | [] => l
  end.
Definition hex0x (l : bytes) : bytes := 48 :: 120 :: hex_enc l.   (* "0x" + hex::encode(..) *)

(* RawBlock { block: Block<TxEnvelope>, receipts: Vec<ReceiptWithBloom> }.
   encode: raw_block() = "0x"+hex(rlp(block)) as String, raw_receipts() as Vec<String>;
   decode: String, trim "0x", hex::decode (Err), Block::decode (Err), then Vec<String> and the
   same for each receipt.  alloy_rlp is outside the model: the RLP encoders/decoders are the
   parameters below. *)
Section RawBlock.
  Variables BL RC : Type.
  Variable rlp_block : BL -> bytes.
  Variable unrlp_block : bytes -> option BL.
  Variable rlp_receipt : RC -> bytes.
  Variable unrlp_receipt : bytes -> option RC.

  Definition parse_hex_rlp {X} (unrlp : bytes -> option X) (s : bytes) : res X :=
    match hex_dec (trim0x s) with
    | None => Err
    | Some raw => match unrlp raw with Some x => Ok x | None => Err end
    end.

  Fixpoint parse_all {X} (unrlp : bytes -> option X) (ss : list bytes) : res (list X) :=
    match ss with
    | [] => Ok []
    | s :: t => do x <- parse_hex_rlp unrlp s; do r <- parse_all unrlp t; Ok (x :: r)
    end.

  Definition c_rawblock : codec (BL * list RC) := {|
    enc := fun p => enc c_string (hex0x (rlp_block (fst p)))
                    ++ enc (c_vec c_string) (map (fun r => hex0x (rlp_receipt r)) (snd p));
    dec := fun b o =>
      do s <- dec c_string b o;
      do bl <- parse_hex_rlp unrlp_block (fst s);
      do ss <- dec (c_vec c_string) b (snd s);
      do rs <- parse_all unrlp_receipt (fst ss);
      Ok ((bl, rs), snd ss);
    wf := fun p => wf c_string (hex0x (rlp_block (fst p)))
                   && wf (c_vec c_string) (map (fun r => hex0x (rlp_receipt r)) (snd p)) |}.
End RawBlock.

(* ------------------------------------------------------------------------------------- *)
(* Keys *)

(* Brc20ProgDatabase::get_number_and_index_key: ((block_number as u128) << 64) | tx_idx as u128,
   stored as U128ED *)
Definition ni_key (block idx : N) : N := N.lor (N.shiftl block 64) idx.

(* U512ED::from_addr_u256: address (20 bytes) ++ 12 zero bytes ++ mem_loc (32 bytes, big
   endian), read as one big-endian 512-bit number *)
Definition slot_key (addr : bytes) (mem_loc : N) : N := of_be (addr ++ zeros 12 ++ be 32 mem_loc).

(* the pending-transaction key (AddressED, U64ED) *)
Definition c_addr_nonce : codec (bytes * N) := c_pair c_addr c_U64.

(* keys of a byte-ordered map in iteration order *)
Fixpoint byte_sorted (l : list bytes) : bool :=
  match l with
  | [] => true
  | x :: t => match t with [] => true | y :: _ => lexb x y && byte_sorted t end
  end.
