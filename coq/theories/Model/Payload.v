(* src/api/types.rs: Base64Bytes::from_bytes (the published encoder),
   decode_bytes_from_inscription_data (+ decode_zstd_into_bytes), RawBytes, select_bytes.
   Strings are lists of UTF-8 bytes.  zstd is an oracle (Section variables).

   The four places where the code of the unchanged tree is defective are isolated in the record
   [variant]; [AS_WRITTEN] is the tree as found, [FIXED] the tree with
   docs/proposed_fixes/*.diff applied.  [CURRENT] is what the correspondence run (Tie15.v)
   compares the implementation with.  Executable definitions only. *)
From Brc.Model Require Import Base Base64 Nada.

Record variant := {
  (* `match base64_decoded[0]`: indexing an empty vector panics (true) / `.first()?` (false) *)
  v_empty_panics : bool;
  (* raw branch guard `base64_decoded.len() > LIMIT` counts the prefix byte (true) /
     `base64_decoded.len() - 1 > LIMIT` (false) *)
  v_raw_counts_prefix : bool;
  (* nada branch: `decode_with_limit(.., LIMIT + v_nada_slack)`; the crate rejects
     `len >= limit`, so slack 0 rejects a payload of exactly LIMIT bytes *)
  v_nada_slack : N;
  (* from_bytes: zstd does not fit its LIMIT-sized buffer: `?` returns Err (true) /
     zstd is not a candidate, length usize::MAX (false) *)
  v_zstd_fail_is_err : bool
}.

Definition AS_WRITTEN : variant :=
  {| v_empty_panics := true; v_raw_counts_prefix := true; v_nada_slack := 0; v_zstd_fail_is_err := true |}.
Definition FIXED : variant :=
  {| v_empty_panics := false; v_raw_counts_prefix := false; v_nada_slack := 1; v_zstd_fail_is_err := false |}.

(* >>> the one line to flip: AS_WRITTEN = unchanged /repo, FIXED = /repo + proposed fixes <<< *)
Definition CURRENT : variant := FIXED.

Definition USIZE_MAX : N := 18446744073709551615.

(* str::split_once(c): the parts before and after the first occurrence *)
Fixpoint split_once (c : N) (s : list N) : option (list N * list N) :=
  match s with
  | [] => None
  | x :: r =>
      if x =? c then Some ([], r)
      else match split_once c r with
           | Some (a, b) => Some (x :: a, b)
           | None => None
           end
  end.

Definition EQ_SIGN : N := 61.

(* ---- hex (const-hex decode as used by Bytes::from_hex; hex::encode lower case) ---- *)
Definition hex_val (c : N) : option N :=
  if (48 <=? c) && (c <=? 57) then Some (c - 48)
  else if (97 <=? c) && (c <=? 102) then Some (c - 87)
  else if (65 <=? c) && (c <=? 70) then Some (c - 55)
  else None.
Definition hex_chr (v : N) : N := if v <? 10 then v + 48 else v + 87.

Fixpoint hex_pairs (s : list N) : option (list N) :=
  match s with
  | [] => Some []
  | [_] => None
  | h :: l :: r =>
      match hex_val h, hex_val l, hex_pairs r with
      | Some a, Some b, Some t => Some (a * 16 + b :: t)
      | _, _, _ => None
      end
  end.

(* const_hex::decode: odd length (prefix included) is an error; then "0x" is stripped *)
Definition hex_decode (s : list N) : option (list N) :=
  if N.odd (len s) then None else
  match s with
  | 48 :: 120 :: r => hex_pairs r
  | _ => hex_pairs s
  end.

Fixpoint hex_encode (l : list N) : list N :=
  match l with
  | [] => []
  | b :: r => hex_chr (b / 16) :: hex_chr (b mod 16) :: hex_encode r
  end.

(* RawBytes(Option<String>) *)
Definition raw_from_bytes (x : list N) : option (list N) := Some (48 :: 120 :: hex_encode x).
Definition raw_value (r : option (list N)) : option (list N) :=
  match r with Some s => hex_decode s | None => None end.

Section Payload.
  (* zstd_safe::compress(dst[capacity], src, 22): None = error (e.g. dst too small) *)
  Variable zstd_c : list N -> N -> option (list N).
  (* zstd_safe::decompress(dst[capacity], src): None = error *)
  Variable zstd_d : list N -> N -> option (list N).
  (* zstd_safe::get_frame_content_size: None = Err, Some None = Ok(None), Some (Some n) = Ok(Some n) *)
  Variable zstd_frame_size : list N -> option (option N).
  Variable LIMIT : N. (* CALLDATA_LIMIT *)

  (* Base64Bytes::from_bytes; Ok s = Ok(Base64Bytes(Some(s))) *)
  Definition from_bytes (v : variant) (bytes : list N) : res (list N) :=
    do nada_encoded <- nada_encode bytes;
    (* let mut zstd_compressed = vec![0; CALLDATA_LIMIT]; compress(..)? *)
    do zs <- match zstd_c bytes LIMIT with
             | Some z => Ok (z, len z)
             | None => if v_zstd_fail_is_err v then Err else Ok ([], USIZE_MAX)
             end;
    let '(zstd_compressed, zstd_length) := zs in
    let data :=
      if (len bytes <? len nada_encoded) && (len bytes <? zstd_length) then 0 :: bytes
      else if len nada_encoded <? zstd_length then 1 :: nada_encoded
      else 2 :: zstd_compressed in
    Ok (b64_encode data).

  (* decode_zstd_into_bytes *)
  Definition decode_zstd_into_bytes (data : list N) : option (list N) :=
    match zstd_d data LIMIT with
    | Some o => if LIMIT <? len o then None else Some o
    | None => None
    end.

  (* the `match base64_decoded[0]` of decode_bytes_from_inscription_data *)
  Definition dispatch (v : variant) (base64_decoded : list N) : res (option (list N)) :=
    match base64_decoded with
    | [] => if v_empty_panics v then Panic else Ok None
    | p :: body =>
        if p =? 0 then
          let guarded := if v_raw_counts_prefix v then len base64_decoded else len body in
          if LIMIT <? guarded then Ok None else Ok (Some body)
        else if p =? 1 then
          match nada_decode_with_limit body (LIMIT + v_nada_slack v) with
          | Ok o => Ok (Some o)
          | Err => Ok None
          | Panic => Panic
          end
        else if p =? 2 then
          match zstd_frame_size body with
          | Some (Some size) => if LIMIT <? size then Ok None else Ok (decode_zstd_into_bytes body)
          | Some None => Ok (decode_zstd_into_bytes body)
          | None => Ok None
          end
        else Ok None
    end.

  Definition strip_padding (s : list N) : list N :=
    match split_once EQ_SIGN s with Some (b, _) => b | None => s end.

  (* decode_bytes_from_inscription_data; Ok None = None, Ok (Some y) = Some(y) *)
  Definition decode_payload (v : variant) (inscription_data : list N) : res (option (list N)) :=
    match b64_decode (strip_padding inscription_data) with
    | None => Ok None
    | Some d => dispatch v d
    end.

  (* Base64Bytes(Option<String>)::value *)
  Definition b64_value (v : variant) (b : option (list N)) : res (option (list N)) :=
    match b with Some s => decode_payload v s | None => Ok None end.

  (* select_bytes(&Option<RawBytes>, &Option<Base64Bytes>); Err = Err(..) *)
  Definition select_bytes (v : variant) (raw : option (option (list N))) (b64 : option (option (list N)))
    : res (option (list N)) :=
    match raw, b64 with
    | Some r, None => Ok (raw_value r)
    | None, Some e => b64_value v e
    | None, None => Err
    | Some _, Some _ => Err
    end.
End Payload.
