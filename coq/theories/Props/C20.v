(* C20 — a database only reopens under the configuration it was created with.
   Statements only; every proof is [exact] of a lemma from Proofs/ConfigDbP.v.  DB_VERSION and
   PROTOCOL_VERSION are the constants reflected from the compiled crate (gen/Consts.v); the
   theorems that compare a creating and a reopening binary quantify over both pairs. *)
From Brc.Model Require Import Base Config ConfigDb.
From Brc.Proofs Require Import ConfigDbP.
From Brc.Model Require Tie20.
From Brc.Proofs Require Tie20P.
From BrcGen Require Import Consts.

(* A fresh run -- the path does not exist, or is an empty directory -- succeeds and records
   exactly: database version, protocol version, network, trace setting. *)
Theorem C20_fresh_records :
  forall (c : config) (d : dirstate), d = DAbsent \/ d = DDir false None ->
    validate_config_database DB_VERSION PROTOCOL_VERSION c d =
    (Ok tt, DDir false (Some [(KEY_DB_VERSION, N_str DB_VERSION); (KEY_PROTOCOL_VERSION, N_str PROTOCOL_VERSION);
                              (KEY_NETWORK, cfg_network c); (KEY_TRACES, bool_str (cfg_record_traces c))])).
Proof. exact (fresh_records DB_VERSION PROTOCOL_VERSION). Qed.
Print Assumptions C20_fresh_records.

(* Any non-empty directory (it has a `config` database, or any other entry): validation
   succeeds iff all four rows are present and equal to what the running binary and
   configuration say -- for every network string, both trace settings, every version;
   otherwise it is an error (not a panic); and it never writes a row. *)
Theorem C20_reopen_iff_equal :
  forall (dbv pv : N) (c : config) (other : bool) (cfg : option rows),
    dir_nonempty other cfg = true ->
    (fst (validate_config_database dbv pv c (DDir other cfg)) = Ok tt <->
       r_get (rows_of cfg) KEY_DB_VERSION = Some (N_str dbv) /\
       r_get (rows_of cfg) KEY_PROTOCOL_VERSION = Some (N_str pv) /\
       r_get (rows_of cfg) KEY_NETWORK = Some (cfg_network c) /\
       r_get (rows_of cfg) KEY_TRACES = Some (bool_str (cfg_record_traces c))) /\
    (fst (validate_config_database dbv pv c (DDir other cfg)) = Ok tt \/
     fst (validate_config_database dbv pv c (DDir other cfg)) = Err) /\
    snd (validate_config_database dbv pv c (DDir other cfg)) = DDir other (Some (rows_of cfg)).
Proof. exact reopen_iff_equal. Qed.
Print Assumptions C20_reopen_iff_equal.

(* Created under (dbv, pv, c), reopened under (dbv', pv', c'), whatever else the directory
   holds by then: succeeds iff database version, protocol version, network and trace setting
   are all equal. *)
Theorem C20_create_then_reopen :
  forall (dbv pv : N) (c : config) (dbv' pv' : N) (c' : config) (d : dirstate) (other : bool),
    (d = DAbsent \/ d = DDir false None) ->
    let d1 := snd (validate_config_database dbv pv c d) in
    fst (validate_config_database dbv' pv' c' (DDir other (Some (dir_rows d1)))) = Ok tt <->
    (dbv' = dbv /\ pv' = pv /\ cfg_network c' = cfg_network c /\ cfg_record_traces c' = cfg_record_traces c).
Proof. exact create_then_reopen. Qed.
Print Assumptions C20_create_then_reopen.

(* A non-empty directory without the recorded configuration fails. *)
Theorem C20_foreign_nonempty_fails :
  forall (dbv pv : N) (c : config),
    validate_config_database dbv pv c (DDir true None) = (Err, DDir true (Some [])).
Proof. exact foreign_nonempty_fails. Qed.
Print Assumptions C20_foreign_nonempty_fails.

(* The identical configuration always reopens, and validation leaves the directory as it was. *)
Theorem C20_same_config_reopens :
  forall (dbv pv : N) (c : config) (d : dirstate) (other : bool),
    (d = DAbsent \/ d = DDir false None) ->
    let r := dir_rows (snd (validate_config_database dbv pv c d)) in
    validate_config_database dbv pv c (DDir other (Some r)) = (Ok tt, DDir other (Some r)).
Proof. exact same_config_reopens. Qed.
Print Assumptions C20_same_config_reopens.

(* start() begins with this validation: when it fails, start-up fails (no engine, no server). *)
Theorem C20_start_fails_if_config_db_fails :
  forall (dbv pv : N) (c : config) (d : dirstate),
    fst (validate_config_database dbv pv c d) <> Ok tt -> fst (start_model dbv pv c d) = false.
Proof. exact start_fails_if_config_db_fails. Qed.
Print Assumptions C20_start_fails_if_config_db_fails.

(* Non-vacuity: created on signet without traces; reopening on mainnet fails, on signet succeeds. *)
Definition ex_cfg (net : string) (tr : bool) : config :=
  {| cfg_server_url := "127.0.0.1:18545"; cfg_enable_auth := false; cfg_user := None; cfg_password := None;
     cfg_record_traces := tr; cfg_bitcoin_url := ""; cfg_network := net; cfg_fail_on_btc_error := false |}.
Example C20_example :
  let d1 := populate (snd (validate_config_database DB_VERSION PROTOCOL_VERSION (ex_cfg "signet" false) DAbsent)) in
  fst (validate_config_database DB_VERSION PROTOCOL_VERSION (ex_cfg "mainnet" false) d1) = Err /\
  fst (validate_config_database DB_VERSION PROTOCOL_VERSION (ex_cfg "signet" true) d1) = Err /\
  fst (validate_config_database (DB_VERSION + 1) PROTOCOL_VERSION (ex_cfg "signet" false) d1) = Err /\
  fst (validate_config_database DB_VERSION PROTOCOL_VERSION (ex_cfg "signet" false) d1) = Ok tt.
Proof. vm_compute. auto. Qed.

(* ---------------------------------------------------------------------------------------
   The tie, as a theorem.  [Tie20.check_dcase] is the executable checker the correspondence
   run evaluates on every prepared directory and real start().  In an accepted case the
   model's start verdict is the implementation's, and when the REAL start() succeeded the
   model's validation accepts the directory the harness read back - so by
   [C20_reopen_iff_equal] a non-empty directory held the four rows of that configuration. *)
Theorem C20_accepted_case_start_means_validation_passes :
  forall (dbv pv : N) (c : Tie20.dcase),
    Tie20.check_dcase dbv pv c = true ->
    fst (start_model dbv pv (Tie20.dc_cfg c) (Tie20.dc_dir c)) = Tie20.dc_start_ok c /\
    (Tie20.dc_start_ok c = true ->
     fst (validate_config_database dbv pv (Tie20.dc_cfg c) (Tie20.dc_dir c)) = Ok tt).
Proof.
  exact (fun dbv pv c H => conj (Tie20P.check_dcase_start_verdict dbv pv c H)
                                (Tie20P.check_dcase_start_ok dbv pv c H)).
Qed.
Print Assumptions C20_accepted_case_start_means_validation_passes.
