(* C08 — signed transactions execute once, in nonce order, via a bounded pending pool.
   Statements only, about the engine protocol model; revm's validation verdicts and signature
   recovery are universally quantified oracles. *)
From Brc.Model Require Import Base Table Engine EngineRun.
From Brc.Proofs Require Import EngineP EngineGlobalP.
From BrcGen Require Import Consts.

Notation FN := MAX_FUTURE_TRANSACTION_NONCES.
Notation FB := MAX_FUTURE_TRANSACTION_BLOCKS.
Notation step := (e_step W FN FB INDEXER_ADDRESS).
(* whole runs (Model/EngineRun.v): [run g cs] is the state after the calls [cs]; [run_all P g cs]
   says that the decidable predicate [P] holds of every call, evaluated in the state the run has
   reached when the call is made *)
Notation run := (EngineRun.run W FN FB INDEXER_ADDRESS).
Notation run_all := (EngineRun.run_all W FN FB INDEXER_ADDRESS).
(* H1: the answers of revm's validation consumed by one transact read true ... true false ... false
   (revm accepts a transaction only with nonce = account nonce, disable_nonce_check is off: once
   an execution of the call is refused the following ones are ahead of the account) *)
Notation H1_revm_nonce_rule := (revm_nonce_rule W FN FB INDEXER_ADDRESS).
(* H2: the account nonces re-read after clear_caches / reorg are the numbers of effective
   transactions the truncated log keeps *)
Notation H2_resync_nonces_agree := (resync_nonces_agree W FN FB INDEXER_ADDRESS).
(* H3: the pool re-read after clear_caches / reorg has one entry per (account, nonce), none parked
   above the next block;  H3': none already expired at the new height *)
Notation H3_resync_pool_wf := (resync_pool_wf W FN FB INDEXER_ADDRESS).
Notation H3'_resync_pool_unexpired := (resync_pool_unexpired W FN FB INDEXER_ADDRESS).

Theorem C08_pool_bounds_pinned : FN = 10 /\ FB = 10.
Proof. split; reflexivity. Qed.

(* The number of receipts returned by a transact equals the number of transactions it
   appended to the block (consecutive indexes from tx_idx); no block is created or removed. *)
Theorem C08_transact_receipts_match_appended :
  forall g d idx ts h vs k,
    snd (step g (CRaw d idx ts h vs)) = OOk k ->
    g_wait (fst (step g (CRaw d idx ts h vs))) = g_wait g + k /\
    g_blocks (fst (step g (CRaw d idx ts h vs))) = g_blocks g /\
    g_h (fst (step g (CRaw d idx ts h vs))) = g_h g.
Proof. exact (transact_receipts_match W FN FB INDEXER_ADDRESS). Qed.
Print Assumptions C08_transact_receipts_match_appended.

(* A transact is never rejected after it has started executing (the drain cannot fail). *)
Theorem C08_transact_all_or_nothing :
  forall g d idx ts h vs, snd (step g (CRaw d idx ts h vs)) = ORejected -> fst (step g (CRaw d idx ts h vs)) = g.
Proof. exact (fun g d idx ts h vs => reject_no_effect W FN FB INDEXER_ADDRESS g (CRaw d idx ts h vs)). Qed.

(* Stale, far-future and wrong-chain transactions are ignored, undecodable ones rejected,
   all without effect. *)
Theorem C08_ignored_no_effect :
  forall g idx ts h vs,
    step g (CRaw DUndecodable idx ts h vs) = (g, ORejected) /\
    step g (CRaw DWrongChain idx ts h vs) = (g, OOk 0) /\
    (forall a n, (n < nonce_of g a \/ (nonce_of g a < n /\ nonce_of g a + FN <= n)) ->
                 step g (CRaw (DSigned a n) idx ts h vs) = (g, OOk 0)).
Proof. exact (transact_ignored_no_effect W FN FB INDEXER_ADDRESS). Qed.
Print Assumptions C08_ignored_no_effect.

(* A transaction ahead of the account by fewer than FN nonces waits in the pool. *)
Theorem C08_future_nonce_parked :
  forall g a n idx ts h vs,
    nonce_of g a < n -> n < nonce_of g a + FN ->
    snd (step g (CRaw (DSigned a n) idx ts h vs)) = OOk 0 /\
    g_wait (fst (step g (CRaw (DSigned a n) idx ts h vs))) = g_wait g /\
    pool_find (fst (step g (CRaw (DSigned a n) idx ts h vs))) a n = Some (next_h g).
Proof. exact (transact_parks W FN FB INDEXER_ADDRESS). Qed.
Print Assumptions C08_future_nonce_parked.

(* Non-vacuity: nonces 2 and 1 are parked, nonce 0 arrives: all three execute in one call at
   indexes 0, 1, 2. *)
Example C08_nonvacuous :
  let g1 := fst (step g_init (CMine 1 7)) in
  let g2 := fst (step g1 (CRaw (DSigned 42 2) 0 9 0 [])) in
  let g3 := fst (step g2 (CRaw (DSigned 42 1) 0 9 0 [])) in
  let r := step g3 (CRaw (DSigned 42 0) 0 9 0 [true; true; true]) in
  snd r = OOk 3 /\ g_wait (fst r) = 3 /\ nonce_of (fst r) 42 = 3 /\ g_pool (fst r) = [].
Proof. vm_compute. repeat split. Qed.

(* ------------------------------------------------------------------------------------------
   Global statements: every state reachable from the empty engine by ANY list of calls.
   ------------------------------------------------------------------------------------------ *)

(* A1.  For every signer, the transactions that took effect (passed revm's validation), oldest
   first, carry the nonces 0, 1, ..., nonce - 1: consecutive from 0, each exactly once, whatever
   the order of inscription; and the account's nonce is their number.  [valid_nonces a log] lists
   them newest first. *)
Theorem C08_on_chain_nonces_consecutive :
  forall cs a,
    run_all H1_revm_nonce_rule g_init cs = true ->
    run_all H2_resync_nonces_agree g_init cs = true ->
    let g := run g_init cs in
    rev (valid_nonces a (g_log g)) = map N.of_nat (seq 0 (N.to_nat (nonce_of g a))) /\
    nonce_of g a = N.of_nat (length (valid_nonces a (g_log g))).
Proof. exact (on_chain_nonces_consecutive W FN FB INDEXER_ADDRESS). Qed.
Print Assumptions C08_on_chain_nonces_consecutive.

(* H1 is needed, and in exactly this form: the j-th execution of a transact carries nonce n + j
   while the account is at n + (number of accepted ones before it).  If revm could accept the
   waiting nonce 1 after refusing nonce 0, the account would have consumed nonce 1 only. *)
Example C08_consecutive_refuted_without_revm_nonce_rule :
  let cs := [CMine 1 7; CRaw (DSigned 42 1) 0 9 0 []; CRaw (DSigned 42 0) 0 9 0 [false; true]] in
  run_all H1_revm_nonce_rule g_init cs = false /\ run_all H2_resync_nonces_agree g_init cs = true /\
  rev (valid_nonces 42 (g_log (run g_init cs))) = [1] /\ nonce_of (run g_init cs) 42 = 1.
Proof. vm_compute. repeat split. Qed.

(* H2 is needed: the nonces after clear_caches are an input of the protocol model. *)
Example C08_consecutive_refuted_without_faithful_resync :
  let cs := [CMine 1 7; CTx 42 0 9 0 true; CFinalise 9 0 1; CClear (Some 1) [(0, 1); (1, 2)] [] []] in
  run_all H1_revm_nonce_rule g_init cs = true /\ run_all H2_resync_nonces_agree g_init cs = false /\
  rev (valid_nonces 42 (g_log (run g_init cs))) = [0] /\ nonce_of (run g_init cs) 42 = 0.
Proof. vm_compute. repeat split. Qed.

(* What A1 does NOT say (known finding F14): "each nonce at most once" holds of the effective
   transactions only.  A transaction refused at revm validation is recorded (it gets a receipt)
   and keeps its nonce, so the same (account, nonce) is recorded again: *)
Example C08_refused_nonce_recorded_twice_F14 :
  let cs := [CMine 1 7; CRaw (DSigned 42 0) 0 9 0 [false]; CRaw (DSigned 42 0) 1 9 0 [true]] in
  run_all H1_revm_nonce_rule g_init cs = true /\
  map (fun e => (l_idx e, l_acct e, l_nonce e, l_valid e)) (g_log (run g_init cs)) = [(1, 42, 0, true); (0, 42, 0, false)] /\
  valid_nonces 42 (g_log (run g_init cs)) = [0].
Proof. vm_compute. repeat split. Qed.

(* ... and a refused head takes its waiting successors with it: the drain goes on after the
   refusal, each waiting transaction is executed ahead of the account's nonce, refused by revm
   (H1), recorded, and removed from the pool without ever taking effect. *)
Example C08_refused_head_burns_waiting_successors_F14 :
  let cs := [CMine 1 7; CRaw (DSigned 42 2) 0 9 0 []; CRaw (DSigned 42 1) 0 9 0 []] in
  let r := step (run g_init cs) (CRaw (DSigned 42 0) 0 9 0 [false; false; false]) in
  H1_revm_nonce_rule (run g_init cs) (CRaw (DSigned 42 0) 0 9 0 [false; false; false]) = true /\
  snd r = OOk 3 /\ g_pool (fst r) = [] /\ nonce_of (fst r) 42 = 0 /\ valid_nonces 42 (g_log (fst r)) = [].
Proof. vm_compute. repeat split. Qed.

(* A2.  One transact that returns k receipts appended exactly k entries to the log: block
   next_h, indexes tx_idx, tx_idx+1, ..., account a, nonces n, n+1, ... ([drained_entries], oldest
   first, with the oracle's verdicts).  If k >= 1: n was the account's nonce and tx_idx the next
   index; every nonce strictly between n and n+k was waiting in the pool and still fresh (next_h <
   FB + the block it was parked in); the drain stopped at n+k because that nonce was absent, or
   present but expired; the pool afterwards is the pool before without the keys (a, n+1) ...
   (a, n+k) (the expired entry is dropped as well): in particular nothing under (a, n+1..n+k)
   remains. *)
Theorem C08_executed_at_consecutive_indexes :
  forall g a n idx ts h vs k,
    snd (step g (CRaw (DSigned a n) idx ts h vs)) = OOk k ->
    let g' := fst (step g (CRaw (DSigned a n) idx ts h vs)) in
    g_log g' = rev (drained_entries (next_h g) idx a n vs (N.to_nat k)) ++ g_log g /\
    (1 <= k ->
     n = nonce_of g a /\ idx = g_wait g /\
     (forall j, n < j -> j < n + k -> exists b, pool_find g a j = Some b /\ next_h g < FB + b) /\
     (pool_find g a (n + k) = None \/
      exists b, pool_find g a (n + k) = Some b /\ FB + b <= next_h g) /\
     g_pool g' = filter (out_of_range a (n + 1) (n + k)) (g_pool g) /\
     (forall j, n < j -> j <= n + k -> pool_find g' a j = None)).
Proof. exact (transact_drain_spec W FN FB INDEXER_ADDRESS). Qed.
Print Assumptions C08_executed_at_consecutive_indexes.

(* the shape of the appended entries, spelled out *)
Theorem C08_drained_entries_shape :
  forall number idx a n vs m,
    map l_block (drained_entries number idx a n vs m) = repeat number m /\
    map l_acct (drained_entries number idx a n vs m) = repeat a m /\
    map l_idx (drained_entries number idx a n vs m) = map (fun i => idx + N.of_nat i) (seq 0 m) /\
    map l_nonce (drained_entries number idx a n vs m) = map (fun i => n + N.of_nat i) (seq 0 m).
Proof. exact drained_entries_shape. Qed.

(* A waiting successor that is still fresh runs in the same call as its predecessor. *)
Theorem C08_waiting_successor_runs_with_predecessor :
  forall g a n idx ts h vs k b,
    snd (step g (CRaw (DSigned a n) idx ts h vs)) = OOk k -> 1 <= k ->
    pool_find g a (n + 1) = Some b -> next_h g < FB + b -> 2 <= k.
Proof. exact (transact_takes_waiting_successor W FN FB INDEXER_ADDRESS). Qed.
Print Assumptions C08_waiting_successor_runs_with_predecessor.

(* A3 (i), (ii).  In every reachable state the pool holds at most one entry per (account, nonce),
   and every entry was parked in a block not above the next one. *)
Theorem C08_pool_invariants :
  forall cs,
    run_all H3_resync_pool_wf g_init cs = true ->
    let g := run g_init cs in
    NoDup (map fst (g_pool g)) /\ forall p, In p (g_pool g) -> snd p <= next_h g.
Proof. exact (run_PoolInv W FN FB INDEXER_ADDRESS). Qed.
Print Assumptions C08_pool_invariants.

(* A3 (iii), globally.  In every reachable state no entry is expired at the height of the chain. *)
Theorem C08_pool_never_holds_expired :
  forall cs,
    run_all H3'_resync_pool_unexpired g_init cs = true ->
    let g := run g_init cs in
    forall h, g_h g = Some h -> forall p, In p (g_pool g) -> h < snd p + FB.
Proof. exact (fun cs => run_PoolFresh W FN FB INDEXER_ADDRESS cs eq_refl). Qed.
Print Assumptions C08_pool_never_holds_expired.

(* A3 (iii), one step.  An accepted finalise (mine) for block b removes exactly the entries with
   parked_in + FB <= b. *)
Theorem C08_finalise_sweeps_expired :
  forall g ts h cnt,
    snd (step g (CFinalise ts h cnt)) = OOk 0 ->
    let g' := fst (step g (CFinalise ts h cnt)) in
    g_h g' = Some (next_h g) /\
    forall p, In p (g_pool g') <-> In p (g_pool g) /\ next_h g < snd p + FB.
Proof. exact (finalise_sweeps_expired W FN FB INDEXER_ADDRESS). Qed.

Theorem C08_mine_sweeps_expired :
  forall g cnt ts,
    snd (step g (CMine cnt ts)) = OOk 0 -> 0 < cnt ->
    let g' := fst (step g (CMine cnt ts)) in
    g_h g' = Some (next_h g + cnt - 1) /\
    forall p, In p (g_pool g') <-> In p (g_pool g) /\ next_h g + cnt - 1 < snd p + FB.
Proof. exact (mine_sweeps_expired W FN FB INDEXER_ADDRESS). Qed.
Print Assumptions C08_mine_sweeps_expired.

(* A3 (iv).  An entry leaves the pool only by execution in a drain (while fresh; the log holds its
   execution), by expiry found in a drain, by replacement (same account and nonce inscribed again,
   newer block), by the expiry sweep of a block being finalised, or by clear_caches / reorg. *)
Theorem C08_pool_entry_leaves_only :
  forall g c p,
    (NoDup (map fst (g_pool g)) /\ forall q, In q (g_pool g) -> snd q <= next_h g) ->
    In p (g_pool g) -> ~ In p (g_pool (fst (step g c))) ->
    (exists a n idx ts h vs k, c = CRaw (DSigned a n) idx ts h vs /\ snd (step g c) = OOk k /\
       fst (fst p) = a /\ n < snd (fst p) /\ snd (fst p) < n + k /\ next_h g < FB + snd p /\
       In (next_h g, idx + (snd (fst p) - n), a, snd (fst p), nth (N.to_nat (snd (fst p) - n)) vs true)
          (g_log (fst (step g c)))) \/
    (exists a n idx ts h vs k, c = CRaw (DSigned a n) idx ts h vs /\ snd (step g c) = OOk k /\ 1 <= k /\
       fst p = (a, n + k) /\ FB + snd p <= next_h g) \/
    (exists a n idx ts h vs, c = CRaw (DSigned a n) idx ts h vs /\ fst p = (a, n) /\ snd p < next_h g /\
       In (a, n, next_h g) (g_pool (fst (step g c)))) \/
    (((exists ts h cnt, c = CFinalise ts h cnt) \/ (exists cnt ts, c = CMine cnt ts) \/ (exists h ts hg, c = CInit h ts hg)) /\
     exists b, g_h (fst (step g c)) = Some b /\ snd p + FB <= b) \/
    (exists hc bl nn pl, c = CClear hc bl nn pl) \/
    (exists n nn pl, c = CReorg n nn pl).
Proof. exact (pool_entry_leaves_only W FN FB INDEXER_ADDRESS). Qed.
Print Assumptions C08_pool_entry_leaves_only.

(* Non-vacuity of the global statements: nonces 2, 1 and 4 inscribed before 0 (block 1); 0 arrives
   and 0, 1, 2 run at indexes 0, 1, 2; nine blocks later 3 arrives in block 11 = 1 + FB: its drain
   finds 4 expired and drops it; reorg back to block 10 (nonce 3 and the waiting 4 come back), the
   next block sweeps 4, and 3 runs again in block 12.  All hypotheses hold along the run. *)
Definition C08_example_run : list call :=
  [ CMine 1 7;
    CRaw (DSigned 42 2) 0 9 0 []; CRaw (DSigned 42 1) 0 9 0 []; CRaw (DSigned 42 4) 0 9 0 [];
    CRaw (DSigned 42 0) 0 9 0 [true; true; true];
    CFinalise 9 0 3;
    CMine 9 11;
    CRaw (DSigned 42 3) 0 12 0 [true];
    CFinalise 12 0 1;
    CReorg 10 [(42, 3)] [(42, 4, 1)];
    CMine 1 13;
    CRaw (DSigned 42 3) 0 14 0 [true] ].

Example C08_global_nonvacuous :
  run_all H1_revm_nonce_rule g_init C08_example_run = true /\
  run_all H2_resync_nonces_agree g_init C08_example_run = true /\
  run_all H3_resync_pool_wf g_init C08_example_run = true /\
  run_all H3'_resync_pool_unexpired g_init C08_example_run = true /\
  (* receipts of the four deliveries: 3 (0 with 1 and 2), 1 (3; 4 expired in the drain), reorg, 1 *)
  map (fun i => snd (step (run g_init (firstn i C08_example_run)) (nth i C08_example_run CBadParams))) [4; 7; 9; 11]%nat
    = [OOk 3; OOk 1; OOk 0; OOk 1] /\
  g_pool (run g_init (firstn 7 C08_example_run)) = [(42, 4, 1)] /\
  g_pool (run g_init (firstn 8 C08_example_run)) = [] /\
  g_pool (run g_init (firstn 10 C08_example_run)) = [(42, 4, 1)] /\
  g_pool (run g_init (firstn 11 C08_example_run)) = [] /\
  map (fun e => (l_block e, l_idx e, l_nonce e)) (g_log (run g_init C08_example_run))
    = [(12, 0, 3); (1, 2, 2); (1, 1, 1); (1, 0, 0)] /\
  nonce_of (run g_init C08_example_run) 42 = 4.
Proof. vm_compute. repeat split. Qed.

(* assumptions of the theorems above that had no report next to them *)
Print Assumptions C08_pool_bounds_pinned.
Print Assumptions C08_transact_all_or_nothing.
Print Assumptions C08_drained_entries_shape.
Print Assumptions C08_finalise_sweeps_expired.
