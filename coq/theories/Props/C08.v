(* C08 — signed transactions execute once, in nonce order, via a bounded pending pool.
   Statements only, about the engine protocol model; revm's validation verdicts and signature
   recovery are universally quantified oracles. *)
From Brc.Model Require Import Base Table Engine.
From Brc.Proofs Require Import EngineP.
From BrcGen Require Import Consts.

Notation FN := MAX_FUTURE_TRANSACTION_NONCES.
Notation FB := MAX_FUTURE_TRANSACTION_BLOCKS.
Notation step := (e_step W FN FB INDEXER_ADDRESS).

Theorem C08_pool_bounds_pinned : FN = 10 /\ FB = 10.
Proof. split; reflexivity. Qed.

(* The number of receipts returned by a transact equals the number of transactions it
   appended to the block (consecutive indexes from tx_idx); no block is created or removed. *)
Theorem C08_transact_receipts_match_appended :
  forall g d idx ts h vs k,
    snd (step g (CRaw d idx ts h vs)) = OOk k ->
    g_wait (fst (step g (CRaw d idx ts h vs))) = g_wait g + k /\
    g_blocks (fst (step g (CRaw d idx ts h vs))) = g_blocks g /\
    g_h (fst (step g (CRaw d idx ts h vs))) = g_h g.
Proof. exact (transact_receipts_match W FN FB INDEXER_ADDRESS). Qed.
Print Assumptions C08_transact_receipts_match_appended.

(* A transact is never rejected after it has started executing (the drain cannot fail). *)
Theorem C08_transact_all_or_nothing :
  forall g d idx ts h vs, snd (step g (CRaw d idx ts h vs)) = ORejected -> fst (step g (CRaw d idx ts h vs)) = g.
Proof. exact (fun g d idx ts h vs => reject_no_effect W FN FB INDEXER_ADDRESS g (CRaw d idx ts h vs)). Qed.

(* Stale, far-future and wrong-chain transactions are ignored, undecodable ones rejected,
   all without effect. *)
Theorem C08_ignored_no_effect :
  forall g idx ts h vs,
    step g (CRaw DUndecodable idx ts h vs) = (g, ORejected) /\
    step g (CRaw DWrongChain idx ts h vs) = (g, OOk 0) /\
    (forall a n, (n < nonce_of g a \/ (nonce_of g a < n /\ nonce_of g a + FN <= n)) ->
                 step g (CRaw (DSigned a n) idx ts h vs) = (g, OOk 0)).
Proof. exact (transact_ignored_no_effect W FN FB INDEXER_ADDRESS). Qed.
Print Assumptions C08_ignored_no_effect.

(* A transaction ahead of the account by fewer than FN nonces waits in the pool. *)
Theorem C08_future_nonce_parked :
  forall g a n idx ts h vs,
    nonce_of g a < n -> n < nonce_of g a + FN ->
    snd (step g (CRaw (DSigned a n) idx ts h vs)) = OOk 0 /\
    g_wait (fst (step g (CRaw (DSigned a n) idx ts h vs))) = g_wait g /\
    pool_find (fst (step g (CRaw (DSigned a n) idx ts h vs))) a n = Some (next_h g).
Proof. exact (transact_parks W FN FB INDEXER_ADDRESS). Qed.
Print Assumptions C08_future_nonce_parked.

(* Non-vacuity: nonces 2 and 1 are parked, nonce 0 arrives: all three execute in one call at
   indexes 0, 1, 2. *)
Example C08_nonvacuous :
  let g1 := fst (step g_init (CMine 1 7)) in
  let g2 := fst (step g1 (CRaw (DSigned 42 2) 0 9 0 [])) in
  let g3 := fst (step g2 (CRaw (DSigned 42 1) 0 9 0 [])) in
  let r := step g3 (CRaw (DSigned 42 0) 0 9 0 [true; true; true]) in
  snd r = OOk 3 /\ g_wait (fst r) = 3 /\ nonce_of (fst r) 42 = 3 /\ g_pool (fst r) = [].
Proof. vm_compute. repeat split. Qed.
