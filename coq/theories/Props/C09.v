(* C09 — no request can crash, hang or wedge the server.  Statements only.

   What is stated: every function of the module's OWN request decoding, arithmetic and loop
   logic (Model/Requests.v, Model/Payload.v, Model/Logs.v, Model/ReadSlot.v) is total and
   never yields [Panic], in both build modes ([Checked] = overflow checks on, the dev profile;
   [Wrapping] = overflow checks off, the shipped release profile), after ANY answer of the
   libraries it calls (ABI decoding, the bitcoin crate, the store, revm: function arguments,
   universally quantified).  Where the tree as found did panic, the theorem is stated for the
   repaired tree ([REPAIRED]) and a [.._refuted] theorem exhibits the failing input of the
   tree as found ([AS_FOUND]); [C09_current_is_repaired] pins the variant the correspondence
   run compares the implementation with.

   What is NOT stated: that revm, alloy, bitcoin, bip322, zstd, serde and the key-value store do
   not panic or loop.  They are premises ([world_ok], [no_panic], the hypothesis of
   [C09_bip322_verify_no_panic]) and are only sampled by the request stream.

   Strings are lists of their UTF-8 bytes; [utf8_valid s = true] says [s] is a Rust String. *)
From Brc.Model Require Import Base Base64 Nada Payload Logs ReadSlot Requests.
From Brc.Proofs Require Import PayloadP LogsP ReadSlotP RequestsP.
From BrcGen Require Import Consts.

Theorem C09_current_is_repaired : CURRENT09 = REPAIRED /\ Payload.CURRENT = Payload.FIXED.
Proof. split; reflexivity. Qed.

(* ---- payload decoding (F7) ---- *)
Theorem C09_payload_decode_no_panic :
  forall zstd_d zstd_frame_size s,
    decode_payload zstd_d zstd_frame_size CALLDATA_LIMIT Payload.FIXED s <> Panic.
Proof. exact (fun zd zf s => decode_no_panic zd zf CALLDATA_LIMIT Payload.FIXED s eq_refl). Qed.
Print Assumptions C09_payload_decode_no_panic.

Theorem C09_select_bytes_no_panic :
  forall zstd_d zstd_frame_size raw b64,
    select_bytes zstd_d zstd_frame_size CALLDATA_LIMIT Payload.FIXED raw b64 <> Panic.
Proof. exact (fun zd zf raw b64 => select_bytes_no_panic zd zf CALLDATA_LIMIT Payload.FIXED raw b64 eq_refl). Qed.
Print Assumptions C09_select_bytes_no_panic.

Theorem C09_select_bytes_as_written_refuted :
  forall zstd_d zstd_frame_size,
    select_bytes zstd_d zstd_frame_size CALLDATA_LIMIT AS_WRITTEN None (Some (Some [])) = Panic.
Proof. exact (fun zd zf => select_bytes_as_written_refuted zd zf CALLDATA_LIMIT). Qed.

(* ---- block numbers and tags ---- *)
(* `&number[2..]` after starts_with("0x") never splits a character of a String; [latest] and
   [next] are what the store answers for the two heights *)
Theorem C09_parse_block_number_no_panic :
  forall latest next s,
    utf8_valid s = true -> latest <> Panic -> next <> Panic ->
    parse_block_number latest next s <> Panic.
Proof. exact parse_block_number_no_panic. Qed.
Print Assumptions C09_parse_block_number_no_panic.

Theorem C09_resolve_block_hash_or_number_no_panic :
  forall latest next json_b256 by_hash s,
    utf8_valid s = true -> latest <> Panic -> next <> Panic -> (forall h, by_hash h <> Panic) ->
    resolve_block_hash_or_number latest next json_b256 by_hash s <> Panic.
Proof. exact resolve_no_panic. Qed.

(* ---- eth_getLogs (F10), eth_getBlockTransactionCountByNumber, brc20_initialise ---- *)
Theorem C09_get_logs_range_no_panic :
  forall m latest from to, get_logs_range REPAIRED m latest from to <> Panic.
Proof. exact (fun m l f t => get_logs_range_no_panic REPAIRED m l f t eq_refl). Qed.
Print Assumptions C09_get_logs_range_no_panic.

Theorem C09_get_logs_front_no_panic :
  forall m latest next from_s to_s,
    opt_valid from_s = true -> opt_valid to_s = true -> latest <> Panic -> next <> Panic ->
    eth_get_logs_front REPAIRED m latest next from_s to_s <> Panic.
Proof. exact (fun m l n f t => eth_get_logs_front_no_panic REPAIRED m l n f t (or_introl eq_refl)). Qed.

(* the tree as found: a panic with overflow checks, a bogus "range too large" without *)
Theorem C09_get_logs_range_refuted :
  get_logs_range AS_FOUND Checked 7 (Some 1) (Some 0) = Panic /\
  get_logs_range AS_FOUND Checked 7 (Some U64MAX) (Some U64MAX) = Panic /\
  get_logs_range AS_FOUND Wrapping 7 (Some 1) (Some 0) = Err.
Proof. exact get_logs_range_as_found_refuted. Qed.

Theorem C09_get_logs_range_as_found_wrapping_no_panic :
  forall latest from to, get_logs_range AS_FOUND Wrapping latest from to <> Panic.
Proof. exact (get_logs_range_wrapping_no_panic AS_FOUND). Qed.

Theorem C09_block_tx_count_no_panic : forall m n, block_tx_count_range REPAIRED m n <> Panic.
Proof. exact (fun m n => block_tx_count_range_no_panic REPAIRED m n (or_introl eq_refl)). Qed.

Theorem C09_block_tx_count_refuted : block_tx_count_range AS_FOUND Checked U64MAX = Panic.
Proof. exact block_tx_count_range_as_found_refuted. Qed.

Theorem C09_initialise_no_panic :
  forall (A : Type) m hash_zero height (rest : res A),
    rest <> Panic -> initialise_front REPAIRED m hash_zero height rest <> Panic.
Proof. exact (fun A m hz h rest => initialise_front_no_panic REPAIRED m hz h rest (or_introl eq_refl)). Qed.

Theorem C09_initialise_refuted : initialise_front AS_FOUND Checked true U64MAX (@Err unit) = Panic.
Proof. exact initialise_front_as_found_refuted. Qed.

(* ---- brc20_mine (F9, F15) ---- *)
(* [fin st n] = finalise_block for block n on state st; [Inv] any invariant of the state the
   store keeps.  The block number must not run past u64::MAX (overflow checks on). *)
Theorem C09_mine_blocks_no_panic :
  forall (St : Type) (fin : St -> N -> St * res unit) (Inv : St -> Prop) m st open next gm count,
    fin_no_panic fin Inv -> Inv st -> next <> Panic -> gm <> Panic ->
    (m = Wrapping \/ forall bn, next = Ok bn -> bn + count <= U64MAX) ->
    let r := mine_blocks fin REPAIRED m st open next gm count in
    ms_res r <> Panic /\ Inv (ms_st r).
Proof. exact (fun St fin Inv m st o n g c => mine_blocks_no_panic fin Inv REPAIRED m st o n g c eq_refl). Qed.
Print Assumptions C09_mine_blocks_no_panic.

(* the loop bound: at most block_count blocks are made, whatever the store answers, in either
   mode -- and that is the only bound: there is no cap on block_count (finding F15; the method
   is authenticated) *)
Theorem C09_mine_blocks_bounded :
  forall (St : Type) (fin : St -> N -> St * res unit) m st open next gm count,
    ms_calls (mine_blocks fin REPAIRED m st open next gm count) <= count.
Proof. exact (fun St fin m st o n g c => mine_blocks_calls_le fin (fun _ => True) REPAIRED m st o n g c eq_refl). Qed.
Print Assumptions C09_mine_blocks_bounded.

(* mine_blocks_steps = block_count when every block can be made *)
Theorem C09_mine_blocks_steps :
  forall (St : Type) (fin : St -> N -> St * res unit) (Inv : St -> Prop) m st bn genesis_missing count,
    fin_no_panic fin Inv -> fin_all_ok fin Inv -> Inv st -> (m = Wrapping \/ bn + count <= U64MAX) ->
    let r := mine_blocks fin REPAIRED m st false (Ok bn) (Ok genesis_missing) count in
    ms_res r = Ok tt /\ ms_calls r = count.
Proof. exact (fun St fin Inv m st bn g c => mine_blocks_steps fin Inv REPAIRED m st bn g c eq_refl). Qed.

(* the tree as found, brc20_mine(0) on an empty database: a panic after the genesis block with
   overflow checks; 2^64 blocks without *)
Theorem C09_mine_blocks_refuted :
  let fin := fun (st : unit) (_ : N) => (st, Ok tt) in
  (let r := mine_blocks fin AS_FOUND Checked tt false (Ok 0) (Ok true) 0 in ms_res r = Panic /\ ms_calls r = 1) /\
  (let r := mine_blocks fin AS_FOUND Wrapping tt false (Ok 0) (Ok true) 0 in ms_res r = Ok tt /\ ms_calls r = TWO64).
Proof. split; [exact mine_blocks_as_found_refuted|exact mine_blocks_as_found_wrapping_steps]. Qed.

(* ---- eth_estimateGas ---- *)
(* the bisection ends after at most 64 rounds (65 units of fuel = 64 rounds + the final test),
   whatever the executions answer, in either mode, for every configured gas limit that is a
   u64; the estimate is within the limit; it panics only if an execution does *)
Theorem C09_estimate_gas_terminates :
  forall (St : Type) (probe : St -> N -> St * res (option bool)) (Inv : St -> Prop) m limit st,
    limit <= U64MAX ->
    exists st' r, bisect probe 65 REPAIRED m GAS_PER_BYTE st 21000 limit 0 = Some (st', r)
      /\ (forall g it, r = Ok (g, it) -> it <= 64 /\ g <= N.max 21000 limit)
      /\ (probe_no_panic probe Inv -> Inv st -> r <> Panic /\ Inv st').
Proof.
  intros St probe Inv m limit st Hl.
  apply (estimate_gas_terminates probe Inv REPAIRED m GAS_PER_BYTE limit st Hl). left. reflexivity.
Qed.
Print Assumptions C09_estimate_gas_terminates.

(* the form as found (`lower + GAS_PER_BYTE < upper`, `(lower + upper) / 2`): the same for
   configured limits up to 2^62; beyond, the sums overflow (a configuration value, not a
   request: EVM_CALL_GAS_LIMIT within 21000 of u64::MAX) *)
Theorem C09_estimate_gas_as_found_terminates :
  forall (St : Type) (probe : St -> N -> St * res (option bool)) (Inv : St -> Prop) m limit st,
    limit <= 2 ^ 62 ->
    exists st' r, bisect probe 65 AS_FOUND m GAS_PER_BYTE st 21000 limit 0 = Some (st', r)
      /\ (forall g it, r = Ok (g, it) -> it <= 64 /\ g <= N.max 21000 limit)
      /\ (probe_no_panic probe Inv -> Inv st -> r <> Panic /\ Inv st').
Proof.
  intros St probe Inv m limit st Hl.
  apply (estimate_gas_terminates probe Inv AS_FOUND m GAS_PER_BYTE limit st).
  - assert (P62 : 2 ^ 62 = 4611686018427387904) by (vm_compute; reflexivity). rewrite P62 in Hl.
    rewrite U64MAX_val. lia.
  - right. split; [exact Hl|]. vm_compute. discriminate.
Qed.

Theorem C09_estimate_gas_as_found_refuted :
  bisect (fun (st : unit) (_ : N) => (st, Ok (Some true))) 65 AS_FOUND Checked 12000 tt 21000 U64MAX 0 = Some (tt, Panic).
Proof. vm_compute. reflexivity. Qed.

(* ---- the precompile front ends, after an arbitrary ABI-decode result ---- *)
(* getLockedPkscript (F8): a panic is exactly the short-pkscript slice of the tree as found *)
Theorem C09_get_locked_pkscript_panics_iff :
  forall fx m gas dec taproot,
    get_locked_pkscript fx m GAS_PER_LOCKED_PKSCRIPT gas dec taproot = Panic <->
    fx_pk_len fx = false /\ GAS_PER_LOCKED_PKSCRIPT <= gas /\
    exists pk n, dec = Some (pk, n) /\ 1 <= n <= 65535 /\ len pk < 2.
Proof. exact (fun fx m => get_locked_pkscript_panics_iff fx m GAS_PER_LOCKED_PKSCRIPT). Qed.
Print Assumptions C09_get_locked_pkscript_panics_iff.

Theorem C09_get_locked_pkscript_no_panic :
  forall m gas dec taproot, get_locked_pkscript REPAIRED m GAS_PER_LOCKED_PKSCRIPT gas dec taproot <> Panic.
Proof. exact (fun m gas dec tp => get_locked_pkscript_no_panic REPAIRED m _ gas dec tp eq_refl). Qed.

Theorem C09_get_locked_pkscript_refuted :
  forall m gas taproot, GAS_PER_LOCKED_PKSCRIPT <= gas ->
    get_locked_pkscript AS_FOUND m GAS_PER_LOCKED_PKSCRIPT gas (Some ([81], 1)) taproot = Panic /\
    get_locked_pkscript AS_FOUND m GAS_PER_LOCKED_PKSCRIPT gas (Some ([], 65535)) taproot = Panic.
Proof. exact (fun m => get_locked_pkscript_as_found_refuted m GAS_PER_LOCKED_PKSCRIPT). Qed.

(* getTxDetails: vin / vout indexing never panics; the only arithmetic is the gas of the
   inputs, input_count * 400000, which fits unless a transaction has > 4.6e13 inputs *)
Theorem C09_btc_tx_details_no_panic :
  forall get_tx_bh get_tx height_of m gas blockh dec,
    (m = Wrapping \/ forall txid t bh, get_tx_bh txid = Some (t, bh) -> len (tx_ins t) * GAS_PER_BITCOIN_RPC_CALL <= U64MAX) ->
    btc_tx_details get_tx_bh get_tx height_of GAS_PER_BITCOIN_RPC_CALL m gas blockh dec <> Panic.
Proof. exact (fun a b c => btc_tx_details_no_panic a b c GAS_PER_BITCOIN_RPC_CALL). Qed.
Print Assumptions C09_btc_tx_details_no_panic.

(* getLastSatLocation: whatever transactions the node or the override hands over (any amounts,
   any shapes), in both modes *)
Theorem C09_last_sat_location_no_panic :
  forall get_tx_bh get_tx height_of m gas blockh dec,
    last_sat_location get_tx_bh get_tx height_of GAS_PER_BITCOIN_RPC_CALL REPAIRED m gas blockh dec <> Panic.
Proof. exact (fun a b c m g bh d => last_sat_location_no_panic a b c GAS_PER_BITCOIN_RPC_CALL REPAIRED m g bh d (or_introl eq_refl)). Qed.
Print Assumptions C09_last_sat_location_no_panic.

Theorem C09_last_sat_location_as_found_wrapping_no_panic :
  forall get_tx_bh get_tx height_of gas blockh dec,
    last_sat_location get_tx_bh get_tx height_of GAS_PER_BITCOIN_RPC_CALL AS_FOUND Wrapping gas blockh dec <> Panic.
Proof. exact (fun a b c g bh d => last_sat_location_no_panic a b c GAS_PER_BITCOIN_RPC_CALL AS_FOUND Wrapping g bh d (or_intror eq_refl)). Qed.

(* the tree as found with overflow checks: outputs of u64::MAX and 5 sats, vout 1, sat 5 *)
Theorem C09_last_sat_location_refuted :
  let t := {| tx_ins := [(7, 0, false)]; tx_outs := [(U64MAX, 1); (5, 1)] |} in
  let p := {| tx_ins := [(8, 0, false)]; tx_outs := [(1000, 1)] |} in
  let get_tx_bh := fun k => if k =? 1 then Some (t, Some 0) else None in
  let get_tx := fun k => if k =? 7 then Some p else None in
  last_sat_location get_tx_bh get_tx (fun _ => Some 0) 400000 AS_FOUND Checked 20000000 100 (Some (1, 1, 5)) = Panic
  /\ last_sat_location get_tx_bh get_tx (fun _ => Some 0) 400000 REPAIRED Checked 20000000 100 (Some (1, 1, 5)) = Ok (PcErr E_SAT_OVERFLOW)
  /\ exists w, last_sat_location get_tx_bh get_tx (fun _ => Some 0) 400000 AS_FOUND Wrapping 20000000 100 (Some (1, 1, 5)) = Ok w.
Proof. exact last_sat_location_as_found_refuted. Qed.

(* BIP322_Verify: the library is an oracle; ASSUMING it panics on no other witness shape than
   the two found (a taproot address with an empty witness; a P2SH address whose second witness
   element is an uncompressed key), the repaired front end never panics *)
Theorem C09_bip322_verify_no_panic :
  forall gas n dec addr_of wit_of key_uncompressed lib_verify,
    (forall a msg w, lib_verify a msg w = Panic -> lib_panic_shape key_uncompressed a w = true) ->
    bip322_verify REPAIRED GAS_PER_BIP_322_VERIFY gas n dec addr_of wit_of key_uncompressed lib_verify <> Panic.
Proof. exact (fun gas n dec a w ku lv => bip322_verify_no_panic REPAIRED _ gas n dec a w ku lv eq_refl). Qed.
Print Assumptions C09_bip322_verify_no_panic.

Theorem C09_bip322_verify_refuted :
  forall key_uncompressed lib_verify gas, GAS_PER_BIP_322_VERIFY <= gas ->
    (forall a msg w, lib_panic_shape key_uncompressed a w = true -> lib_verify a msg w = Panic) ->
    bip322_verify AS_FOUND GAS_PER_BIP_322_VERIFY gas 100 (Some (1, 2, 3)) (fun _ => Some AkP2tr) (fun _ => Some []) key_uncompressed lib_verify = Panic
    /\ (forall k, key_uncompressed k = true ->
        bip322_verify AS_FOUND GAS_PER_BIP_322_VERIFY gas 100 (Some (1, 2, 3)) (fun _ => Some AkP2sh) (fun _ => Some [[48]; k]) key_uncompressed lib_verify = Panic).
Proof. exact (fun ku lv => bip322_verify_as_found_refuted ku lv GAS_PER_BIP_322_VERIFY). Qed.

Theorem C09_op_return_tx_id_no_panic : forall gas id, op_return_tx_id GAS_PER_OP_RETURN_TX_ID gas id <> Panic.
Proof. exact (op_return_tx_id_no_panic GAS_PER_OP_RETURN_TX_ID). Qed.

(* ---- the engine behind its locks ---- *)
(* [alive e]: the store is in its slot and the lock is not poisoned.  On a live engine, every
   modelled request (block-number reads, the transaction count, eth_getLogs, debug_getRaw*,
   brc20_mine, brc20_initialise, eth_call, eth_callMany, eth_estimateGas, the transaction-
   carrying indexer calls), in either build mode, terminates without a panic and leaves the
   engine alive -- PROVIDED the libraries behind the oracles do not panic ([world_ok]: revm with
   the precompiles inside, the store, finalise_block; the configured gas limit is a u64)
   and the request is a request ([request_ok]: its strings are Strings; brc20_mine does not run
   the block number past u64::MAX when overflow checks are on). *)
Theorem C09_engine_alive_after_any_request :
  forall (S J Out : Type) (ej : J) (exec : S -> J -> N -> res (Out * J)) (status : Out -> bool)
         (with_gas : N -> N -> N) (latest_of next_of : S -> res N) (genesis_missing : S -> res bool)
         (open_block : S -> bool) (read_by_number : S -> N -> res unit) (by_hash : S -> N -> res (option N))
         (json_b256 : list N -> option N) (finalise commit_exec bookkeeping : S -> N -> res S) (LIMIT : N)
         m e r,
    world_ok exec latest_of next_of genesis_missing read_by_number by_hash finalise commit_exec bookkeeping LIMIT ->
    live e -> request_ok next_of m e r ->
    let out := handle ej exec status with_gas latest_of next_of genesis_missing open_block read_by_number
                      by_hash json_b256 finalise commit_exec bookkeeping LIMIT GAS_PER_BYTE REPAIRED m e r in
    snd out <> Panic /\ live (fst out).
Proof.
  intros. apply engine_alive_after_any_request; try reflexivity; assumption.
Qed.
Print Assumptions C09_engine_alive_after_any_request.

(* read requests leave the engine exactly as it was (with C10: the store too) *)
Theorem C09_read_requests_leave_engine_unchanged :
  forall (S J Out : Type) (ej : J) (exec : S -> J -> N -> res (Out * J)) (status : Out -> bool)
         (with_gas : N -> N -> N) (latest_of next_of : S -> res N) (genesis_missing : S -> res bool)
         (open_block : S -> bool) (read_by_number : S -> N -> res unit) (by_hash : S -> N -> res (option N))
         (json_b256 : list N -> option N) (finalise commit_exec bookkeeping : S -> N -> res S) (LIMIT : N)
         fx m e r,
    fx_bisect_sub fx = true ->
    world_ok exec latest_of next_of genesis_missing read_by_number by_hash finalise commit_exec bookkeeping LIMIT ->
    live e -> request_wf r = true ->
    match r with
    | RMine _ | RTx _ => True
    | _ => fst (handle ej exec status with_gas latest_of next_of genesis_missing open_block read_by_number
                       by_hash json_b256 finalise commit_exec bookkeeping LIMIT GAS_PER_BYTE fx m e r) = e
    end.
Proof. intros. apply read_requests_leave_engine_unchanged; assumption. Qed.

(* the other direction: a panic between take and swap (inside revm or a precompile) leaves the
   slot empty and the lock poisoned, and then every write section and every store read panics.
   This is what the four precompile panics did to an unwinding build. *)
Theorem C09_panic_in_the_take_window_wedges_the_engine :
  forall (S J Out : Type) (ej : J) (exec : S -> J -> N -> res (Out * J)) s i,
    exec s ej i = Panic ->
    let e' := {| es_slot := Taken; es_poisoned := true |} in
    h_read ej exec {| es_slot := Present s; es_poisoned := false |} i = (e', Panic)
    /\ (forall A (body : @slot S -> @slot S * res A), write_section e' body = (e', Panic))
    /\ (forall A (f : S -> res A), read_section e' f = Panic).
Proof.
  intros S J Out ej exec s i H e'. split; [apply exec_panic_wedges; exact H|].
  split; [intros; apply wedged_write; reflexivity|intros; apply wedged_read; reflexivity].
Qed.
Print Assumptions C09_panic_in_the_take_window_wedges_the_engine.

(* ---- non-vacuity ---- *)
Example C09_nonvacuous_parse :
  utf8_valid [48; 120; 226; 130; 172] = true /\                                   (* "0x€" *)
  parse_block_number (Ok 7) (Ok 8) [48; 120; 226; 130; 172] = Err /\
  parse_block_number (Ok 7) (Ok 8) [48; 120; 43; 49; 102] = Ok 31 /\               (* "0x+1f" *)
  parse_block_number (Ok 7) (Ok 8) [112; 101; 110; 100; 105; 110; 103] = Ok 8 /\   (* "pending" *)
  parse_block_number (Ok 7) (Ok 8) [49; 56; 52; 52; 54; 55; 52; 52; 48; 55; 51; 55; 48; 57; 53; 53; 49; 54; 49; 54] = Err /\ (* 2^64 *)
  parse_block_number (Ok 7) (Ok 8) [48; 120; 128] = Panic.                         (* not a String *)
Proof. vm_compute. repeat split; reflexivity. Qed.

Example C09_nonvacuous_mine :
  let fin := fun (st : N) (n : N) => if n =? 3 then (st, Err) else (st + 1, Ok tt) in
  (let r := mine_blocks fin REPAIRED Checked 0 false (Ok 0) (Ok true) 3 in (ms_res r, ms_calls r, ms_st r)) = (Ok tt, 3, 3) /\
  (let r := mine_blocks fin REPAIRED Checked 0 false (Ok 2) (Ok false) 5 in (ms_res r, ms_calls r, ms_st r)) = (Err, 2, 1) /\
  (let r := mine_blocks fin REPAIRED Checked 0 false (Ok 0) (Ok true) 0 in (ms_res r, ms_calls r)) = (Ok tt, 0).
Proof. vm_compute. repeat split; reflexivity. Qed.

Example C09_nonvacuous_bisect :
  (* an execution that needs 53000 gas, gas limit 10^9: 17 rounds *)
  bisect (fun (st : N) g => (st + 1, Ok (Some (53000 <=? g)))) 65 REPAIRED Checked 12000 0 21000 1000000000 0
  = Some (17, Ok (59146, 17)).
Proof. vm_compute. reflexivity. Qed.

Example C09_nonvacuous_precompiles :
  get_locked_pkscript REPAIRED Checked 20000 100000 (Some ([81; 32; 1; 2], 52560)) (fun sc => Some (fst sc)) = Ok (PcOut [3; 80; 205; 0])
  /\ get_locked_pkscript REPAIRED Checked 20000 100000 (Some ([81], 6)) (fun _ => Some []) = Ok (PcErr E_LOCK_ADDR)
  /\ get_locked_pkscript REPAIRED Checked 20000 100000 (Some ([81; 32], 65536)) (fun _ => Some []) = Ok (PcErr E_LOCK_COUNT)
  /\ (let t := {| tx_ins := [(7, 0, false); (9, 1, false)]; tx_outs := [(600, 1); (900, 2)] |} in
      let p := {| tx_ins := [(8, 0, false)]; tx_outs := [(1000, 1); (2000, 2)] |} in
      let get_tx_bh := fun k => if k =? 1 then Some (t, Some 0) else None in
      let get_tx := fun k => if (k =? 7) || (k =? 9) then Some p else None in
      last_sat_location get_tx_bh get_tx (fun _ => Some 0) 400000 REPAIRED Checked 20000000 100 (Some (1, 1, 500)) = Ok (PcOut [9; 1; 100])
      /\ btc_tx_details get_tx_bh get_tx (fun _ => Some 0) 400000 Checked 20000000 100 (Some 1) = Ok (PcOut [0; 2; 0; 1; 1000; 2000; 600; 900])).
Proof. vm_compute. repeat split; reflexivity. Qed.

(* a wedge, concretely: an eth_call whose execution is the getLockedPkscript front end of the
   tree as found on a one-byte pkscript; the next request (a block-number read) panics *)
Example C09_nonvacuous_wedge :
  let exec := fun (s : N) (j : N) (i : N) =>
    match get_locked_pkscript AS_FOUND Checked 20000 (i - 21000) (Some ([81], 1)) (fun _ => Some []) with
    | Ok o => Ok (o, j) | Err => Err | Panic => Panic end in
  let h := handle 0 exec (fun _ => true) (fun _ g => g) (fun s => Ok s) (fun s => Ok (s + 1)) (fun _ => Ok false)
                  (fun _ => false) (fun _ _ => Ok tt) (fun _ _ => Ok None) (fun _ => None)
                  (fun s _ => Ok (s + 1)) (fun s _ => Ok s) (fun s _ => Ok s) 20000000 12000 AS_FOUND Checked in
  let e0 := {| es_slot := Present 5; es_poisoned := false |} in
  let '(e1, r1) := h e0 (RCall 0 None) in
  r1 = Panic /\ alive e1 = false /\ snd (h e1 (RByNumber S_latest)) = Panic /\ snd (h e1 (RMine 1)) = Panic.
Proof. vm_compute. repeat split; reflexivity. Qed.

(* assumptions of the theorems above that had no report next to them *)
Print Assumptions C09_current_is_repaired.
Print Assumptions C09_select_bytes_as_written_refuted.
Print Assumptions C09_resolve_block_hash_or_number_no_panic.
Print Assumptions C09_get_logs_front_no_panic.
Print Assumptions C09_get_logs_range_refuted.
Print Assumptions C09_get_logs_range_as_found_wrapping_no_panic.
Print Assumptions C09_block_tx_count_no_panic.
Print Assumptions C09_block_tx_count_refuted.
Print Assumptions C09_initialise_no_panic.
Print Assumptions C09_initialise_refuted.
Print Assumptions C09_mine_blocks_steps.
Print Assumptions C09_mine_blocks_refuted.
Print Assumptions C09_estimate_gas_as_found_terminates.
Print Assumptions C09_estimate_gas_as_found_refuted.
Print Assumptions C09_get_locked_pkscript_no_panic.
Print Assumptions C09_get_locked_pkscript_refuted.
Print Assumptions C09_last_sat_location_as_found_wrapping_no_panic.
Print Assumptions C09_last_sat_location_refuted.
Print Assumptions C09_bip322_verify_refuted.
Print Assumptions C09_op_return_tx_id_no_panic.
Print Assumptions C09_read_requests_leave_engine_unchanged.
