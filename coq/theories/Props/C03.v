(* C03 — commit points are unobservable; uncommitted work is what is lost.  Statements only. *)
From Brc.Model Require Import Base History Table BlockTable Store.
From Brc.Proofs Require Import HistoryP KvP TableP BlockTableP StoreP.
From BrcGen Require Import Consts.

(* A commit on a clean boundary changes no point read and no range scan of any versioned
   table (for every order of the in-memory caches) ... *)
Theorem C03_commit_unobservable :
  forall s F st st' s',
    SInv W s F st -> wf_step W st SCommit = Some st' -> sto_step W s SCommit = Ok s' ->
    (forall k, t_latest (st_t s') k = t_latest (st_t s) k) /\
    (forall lo hi, t_get_range (st_t s') lo hi = t_get_range (st_t s) lo hi).
Proof. exact (commit_unobservable W). Qed.
Print Assumptions C03_commit_unobservable.

(* ... and no block row (commit, and commit followed by dropping the caches). *)
Theorem C03_commit_block_rows :
  forall (t : btable N) k,
    b_get (b_commit t) k = b_get t k /\
    (NoDup (map fst (b_cache t)) -> b_get (b_clear (b_commit t)) k = b_get t k).
Proof. exact (fun t k => conj (b_get_commit t k) (b_get_commit_clear t k)). Qed.
Print Assumptions C03_commit_block_rows.

(* It cannot panic or fail either. *)
Theorem C03_commit_succeeds :
  forall s F st st', SInv W s F st -> wf_step W st SCommit = Some st' ->
                     exists s', sto_step W s SCommit = Ok s'.
Proof. exact (store_commit_ok W). Qed.
Print Assumptions C03_commit_succeeds.

(* Two traces that differ only in where commits are placed (and discard nothing) have the
   same current values for every key at every block. *)
Theorem C03_commit_placement_irrelevant :
  forall ops F F',
    (forall k m, fst F k m = fst F' k m) ->
    forallb (fun o => negb (is_clear o)) ops = true ->
    forall k m, fst (fs_run F ops) k m
                = fst (fs_run F' (filter (fun o => negb (is_commit o)) ops)) k m.
Proof. exact commit_placement_irrelevant. Qed.
Print Assumptions C03_commit_placement_irrelevant.

(* clearCaches (and a restart without commit, which drops the same in-memory state) puts every
   key back to its value at the last commit. *)
Theorem C03_clear_is_last_commit :
  forall s F st st' s' k m,
    SInv W s F st -> wf_step W st SClear = Some st' -> sto_step W s SClear = Ok s' ->
    w_m st <= m -> t_latest (st_t s') k = Ok (snd F k m).
Proof. exact (clear_is_last_commit W). Qed.
Print Assumptions C03_clear_is_last_commit.

(* Non-vacuity: commit mid-way, more blocks, clear: reads go back to the committed values. *)
Example C03_nonvacuous :
  let tr := [SV 0 1 (Some 5); SB 0 0 300; SHash 0; SV 1 1 (Some 6); SB 0 1 301; SHash 1; SCommit;
             SV 2 1 (Some 7); SV 2 2 (Some 9); SB 0 2 302; SHash 2; SClear] in
  wf_run W wf_init tr <> None /\
  match sto_run W st_empty tr with
  | Ok s' => t_latest (st_t s') 1 = Ok (Some 6) /\ t_latest (st_t s') 2 = Ok None /\ latest_height s' = 1
  | _ => False
  end.
Proof. split; [vm_compute; discriminate|vm_compute; repeat split]. Qed.
