(* C12 — without credentials nobody can drive the indexer interface.
   Statements only; every proof is [exact] of a lemma from Proofs/AuthP.v, or a [vm_compute]
   on the tables reflected from the compiled crate (gen/Consts.v: INDEXER_METHODS;
   gen/Methods.v: the registered methods with (mutates, classified) measured on the real
   module), regenerated on every run. *)
From Brc.Model Require Import Base Config Auth.
From Brc.Proofs Require Import AuthP.
From BrcGen Require Import Consts Methods.

Definition methods : list method := tbl_methods method_table.
Definition mutates (m : method) : bool := tbl_mutates method_table m.
Definition classified (m : method) : bool := tbl_classified method_table m.

(* The HTTP layer marks a request authorised iff the Authorization value is, byte for byte,
   "Basic " ++ base64(user:password): no header, another user, another password, a malformed
   value, another scheme spelling or extra spaces all leave it unmarked; a value that is not
   visible ASCII reads as no header. *)
Theorem C12_header_check :
  forall (b64 : string -> string) (u p : string) (hdr : option string),
    authorized (auth_new b64 u p) hdr = true <-> hdr = Some (basic_header b64 u p).
Proof. exact authorized_new_iff. Qed.
Print Assumptions C12_header_check.

Theorem C12_non_ascii_header_is_no_header :
  forall raw b, In b raw -> visible_ascii b = false -> header_str (Some raw) = None.
Proof. exact to_str_invisible. Qed.
Print Assumptions C12_non_ascii_header_is_no_header.

(* For every request and every position of every batch: without authorisation no method of
   the denylist is handed to the inner service; a protected call is answered 401 under its
   id, a protected notification is dropped, and in a batch exactly the protected entries are
   replaced by a 401 error entry (with the call's id; Id 0 for a notification) while every
   other entry is forwarded unchanged, at its position. *)
Theorem C12_unauth_never_reaches_protected :
  forall (deny : list method) (req : request),
    (forall m, In m (forwarded (mw deny false req)) -> ~ In m deny) /\
    (forall id m, In m deny -> mw deny false (Call id m) = Reply401 id) /\
    (forall m, In m deny -> mw deny false (Notif m) = ReplyNothing) /\
    (forall es, exists es',
        mw deny false (Batch es) = FwdBatch es' /\ List.length es' = List.length es /\
        forall i e, nth_error es i = Some e ->
          nth_error es' i = Some (if entry_protected deny e then BErr (Some (entry_id0 e)) E401 else keep e)).
Proof.
  exact (fun deny req =>
    conj (forwarded_unauth_not_protected deny req)
   (conj (mw_unauth_call_protected deny)
   (conj (mw_unauth_notif_protected deny) (mw_unauth_batch_positions deny)))).
Qed.
Print Assumptions C12_unauth_never_reaches_protected.

(* The same through the inner service, for arbitrary handlers and states: without
   authorisation the handlers that run are exactly the calls to unprotected methods, in
   order (none of them on the denylist), and the final state is the result of running just
   those; a protected call answers 401 and leaves the state alone, a notification never runs
   anything, and in a batch every protected call answers 401 under its id while every other
   call is answered by its handler. *)
Theorem C12_unauth_served :
  forall (S O : Type) (handler : method -> S -> S * O) (deny : list method) (req : request) (s : S),
    (o_trace (serve handler deny false req s) = permitted_calls deny req /\
     o_state (serve handler deny false req s) = run_handlers handler (permitted_calls deny req) s /\
     (forall m, In m (o_trace (serve handler deny false req s)) -> ~ In m deny)) /\
    ((forall id m, In m deny ->
        o_body (serve handler deny false (Call id m) s) = Single (RErr (Some id) E401) /\
        o_state (serve handler deny false (Call id m) s) = s) /\
     (forall m, o_body (serve handler deny false (Notif m) s) = NoBody /\
                o_state (serve handler deny false (Notif m) s) = s) /\
     (forall es id m, In (ECall id m) es ->
        exists rs, o_body (serve handler deny false (Batch es) s) = Many rs /\
                   if in_deny deny m then In (RErr (Some id) E401) rs else exists o, In (RServed id m o) rs)).
Proof.
  exact (fun S O handler deny req s =>
    conj (serve_unauth S O handler deny req s) (serve_unauth_answers S O handler deny s)).
Qed.
Print Assumptions C12_unauth_served.

(* With the correct header every request is forwarded unchanged: the denylist plays no role. *)
Theorem C12_auth_reaches_all :
  forall (b64 : string -> string) (u p : string),
    authorized (auth_new b64 u p) (Some (basic_header b64 u p)) = true /\
    forall (deny : list method) (req : request),
      mw deny true req = match req with
                         | Call id m => FwdCall id m
                         | Notif m => FwdNotif m
                         | Batch es => FwdBatch (map keep es)
                         end /\
      forall (S O : Type) (handler : method -> S -> S * O) (s : S),
        serve handler deny true req s = serve handler [] true req s.
Proof.
  exact (fun b64 u p =>
    conj (proj2 (authorized_new_iff b64 u p _) eq_refl)
         (fun deny req => conj (mw_authd_forwards deny req)
                               (fun S O handler s => serve_authd S O handler deny req s))).
Qed.
Print Assumptions C12_auth_reaches_all.

(* A request that names no protected method is treated the same with and without credentials. *)
Theorem C12_public_reads_unaffected :
  forall (deny : list method) (authd : bool) (req : request),
    (forall m, In m (req_methods req) -> ~ In m deny) ->
    mw deny authd req = mw deny true req /\
    forall (S O : Type) (handler : method -> S -> S * O) (s : S),
      serve handler deny authd req s = serve handler deny true req s.
Proof.
  exact (fun deny authd req H =>
    conj (mw_public deny authd req H) (fun S O handler s => serve_public S O handler deny authd req s H)).
Qed.
Print Assumptions C12_public_reads_unaffected.

(* Authentication disabled: every request is authorised whatever its header. *)
Theorem C12_auth_disabled_all_open :
  forall (b64 : string -> string) (c : config),
    cfg_enable_auth c = false ->
    make_auth b64 c = Ok auth_allow /\ forall hdr, authorized auth_allow hdr = true.
Proof. exact (fun b64 c H => conj (make_auth_disabled b64 c H) authorized_allow). Qed.
Print Assumptions C12_auth_disabled_all_open.

(* Authentication enabled without a user or a password: validate_config and
   start_rpc_server both refuse; a configuration validate_config accepts always yields a
   header check, and with authentication enabled it is the one for exactly that user and
   password. *)
Theorem C12_config_requires_credentials :
  forall (b64 : string -> string) (c : config),
    (cfg_enable_auth c = true -> (cfg_user c = None \/ cfg_password c = None) ->
       validate_config c = Err /\ make_auth b64 c = Err) /\
    (validate_config c = Ok tt -> exists a, make_auth b64 c = Ok a) /\
    (forall a, cfg_enable_auth c = true -> make_auth b64 c = Ok a ->
       exists u p, cfg_user c = Some u /\ cfg_password c = Some p /\ a = auth_new b64 u p).
Proof.
  exact (fun b64 c => conj (config_requires_credentials b64 c)
                     (conj (validate_config_ok_make_auth b64 c) (fun a => make_auth_enabled b64 c a))).
Qed.
Print Assumptions C12_config_requires_credentials.

(* Every registered method that was seen mutating the store is on the protected list
   (finite check on the reflected tables). *)
Theorem C12_mutators_protected :
  forall m, In m methods -> mutates m = true -> In m INDEXER_METHODS.
Proof. exact (mutators_protected_sound method_table INDEXER_METHODS (eq_refl : mutators_protected_b method_table INDEXER_METHODS = true)). Qed.
Print Assumptions C12_mutators_protected.

(* Every registered method was classified: invoked with valid parameters with a JSON-RPC
   result, or seen mutating.  A method the harness cannot invoke makes this fail. *)
Theorem C12_all_classified :
  forall m, In m methods -> classified m = true.
Proof. exact (all_classified_sound method_table (eq_refl : all_classified_b method_table = true)). Qed.
Print Assumptions C12_all_classified.

(* The registered table is the #[rpc] trait, and every entry of the protected list names a
   registered method (a misspelt entry would protect nothing). *)
Theorem C12_table_is_trait :
  (forall m, In m trait_methods -> In m methods) /\ (forall m, In m methods -> In m trait_methods) /\
  (forall m, In m INDEXER_METHODS -> In m methods).
Proof.
  exact (conj (subset_sound trait_methods methods (eq_refl : subset_b trait_methods methods = true))
        (conj (subset_sound methods trait_methods (eq_refl : subset_b methods trait_methods = true))
              (subset_sound INDEXER_METHODS methods (eq_refl : subset_b INDEXER_METHODS methods = true)))).
Qed.
Print Assumptions C12_table_is_trait.

(* Put together, for the server as wired (denylist = INDEXER_METHODS): with authentication
   enabled and any header other than the expected one, every handler that runs belongs to a
   method that is not protected and -- if registered -- was measured as not mutating; and the
   state after the request is the state after running just those handlers. *)
Theorem C12_unauth_cannot_change_state :
  forall (b64 : string -> string) (c : config) (a : http_auth) (raw : option (list N)),
    cfg_enable_auth c = true -> make_auth b64 c = Ok a -> header_str raw <> ha_header a ->
    forall (S O : Type) (handler : method -> S -> S * O) (req : request) (s : S) (r : outcome S O),
      server handler b64 INDEXER_METHODS c raw req s = Ok r ->
      o_state r = run_handlers handler (permitted_calls INDEXER_METHODS req) s /\
      forall m, In m (o_trace r) -> ~ In m INDEXER_METHODS /\ (In m methods -> mutates m = false).
Proof.
  exact (unauth_cannot_change_state method_table INDEXER_METHODS
           (eq_refl : mutators_protected_b method_table INDEXER_METHODS = true)).
Qed.
Print Assumptions C12_unauth_cannot_change_state.

(* Non-vacuity: a batch mixing permitted calls with a protected call and a protected
   notification, sent without credentials. *)
Open Scope string_scope.
Example C12_batch_example :
  mw INDEXER_METHODS false
     (Batch [ECall 11 "eth_blockNumber"; ECall 12 "brc20_mine"; ENotif "brc20_clearCaches"; ECall 13 "eth_chainId"])
  = FwdBatch [BCall 11 "eth_blockNumber"; BErr (Some 12) E401; BErr (Some 0) E401; BCall 13 "eth_chainId"].
Proof. vm_compute. reflexivity. Qed.

Example C12_mutators_nonvacuous : mutates "brc20_mine"%string = true /\ mutates "eth_call"%string = false /\ In "brc20_mine"%string methods.
Proof. vm_compute. intuition. Qed.
