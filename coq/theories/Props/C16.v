(* C16 — gas allowance follows inscription size; gas estimates are sufficient.
   Statements only.  Models: Model/Gas.v (get_gas_limit, get_inscription_byte_len, the
   bisection loops of eth_estimateGas / eth_estimateGasMany), Model/Env.v (the TxEnv handed to
   revm).  revm is an oracle: [run g] is the answer of one simulated execution with gas limit g;
   the two facts about revm that the receipt-level claims need are explicit hypotheses. *)
From Brc.Model Require Import Base Table Engine Gas Env.
From Brc.Proofs Require Import GasP EnvP.
From BrcGen Require Import Consts.

Notation GPB := GAS_PER_BYTE.
Notation gas_limit := (gas_limit GPB).
Notation byte_len := (byte_len GPB).
Notation ceil_div := (ceil_div GPB).
Notation PM := PRAGUE_ACTIVATION_HEIGHT_MAINNET.
Notation PS := PRAGUE_ACTIVATION_HEIGHT_SIGNET.
Notation op_env := (op_env GPB PM PS INDEXER_ADDRESS CONTROLLER_ADDRESS).
Notation op_len := (op_len GPB).

Lemma GPB_pos : 0 < GPB.
Proof. reflexivity. Qed.

Lemma small_fits : 21000 + GPB + 21000 + GPB <= u64max.
Proof. apply N.leb_le. reflexivity. Qed.

Theorem C16_gas_per_byte_pinned : GPB = 12000.
Proof. reflexivity. Qed.

(* u64::saturating_mul *)
Theorem C16_gas_limit_def : forall len, gas_limit len = N.min (len * 12000) (2 ^ 64 - 1).
Proof. exact (gas_limit_def GPB). Qed.
Print Assumptions C16_gas_limit_def.

(* What get_inscription_byte_len (get_gas_limit n) preserves: the length itself unless the
   product saturated; then the largest length whose allowance fits, which is smaller. *)
Theorem C16_byte_len_inverse :
  forall len,
    (len * GPB <= u64max -> byte_len (gas_limit len) = len) /\
    (u64max < len * GPB -> byte_len (gas_limit len) = u64max / GPB /\ u64max / GPB < len).
Proof. exact (byte_len_inverse GPB GPB_pos). Qed.
Print Assumptions C16_byte_len_inverse.

(* The TxEnv.gas_limit of every transaction the engine executes is get_gas_limit of the length
   passed down: the reported inscription length for deploy / call / transact, the length
   recovered from the stored allowance for a parked transaction, u64::MAX (hence an allowance
   of u64::MAX) for deposit / withdraw / genesis. *)
Theorem C16_limit_applied :
  (forall cf o number hash ts an, te_gas_limit (e_tx (op_env cf o number hash ts an)) = gas_limit (op_len o)) /\
  (forall ti len txid, op_len (OInscr ti len txid) = len) /\
  (forall f n t d len txid, op_len (OSigned f n t d len txid) = len) /\
  (forall cf d number hash ts an,
      te_gas_limit (e_tx (op_env cf (OIndexer d) number hash ts an)) = u64max /\
      te_gas_limit (e_tx (op_env cf (OGenesis d) number hash ts an)) = u64max).
Proof.
  exact (conj (limit_applied GPB PM PS INDEXER_ADDRESS CONTROLLER_ADDRESS)
        (conj (proj1 (limit_by_kind GPB))
        (conj (proj1 (proj2 (limit_by_kind GPB)))
              (limit_unmetered GPB PM PS INDEXER_ADDRESS CONTROLLER_ADDRESS GPB_pos)))).
Qed.
Print Assumptions C16_limit_applied.

(* A parked signed transaction is re-executed with the allowance it was parked with (never
   more; exactly it unless the original product saturated, and then less than one byte's
   worth below). *)
Theorem C16_parked_allowance :
  forall cf ti nonce len txid number hash ts an,
    let g := te_gas_limit (e_tx (op_env cf (ODrained (park GPB ti nonce len txid)) number hash ts an)) in
    g <= gas_limit len /\ gas_limit len < g + GPB /\ (len * GPB <= u64max -> g = gas_limit len).
Proof. exact (limit_parked GPB PM PS INDEXER_ADDRESS CONTROLLER_ADDRESS GPB_pos). Qed.
Print Assumptions C16_parked_allowance.

(* Receipt level, from the two facts about revm stated as hypotheses (exercised by the
   correspondence run on every generated transaction). *)
Section Receipts.
  Context {State : Type}.
  (* one execution: gas used, whether it succeeded, the state after *)
  Variable exec : env -> State -> N * bool * State.
  Variable nonce_bump : N -> State -> State.   (* the sender's nonce + 1, nothing else *)

  Definition gas_used (e : env) (s : State) : N := fst (fst (exec e s)).
  Definition ok (e : env) (s : State) : bool := snd (fst (exec e s)).
  Definition after (e : env) (s : State) : State := snd (exec e s).

  Hypothesis revm_gas_used_le_limit : forall e s, gas_used e s <= te_gas_limit (e_tx e).
  Hypothesis revm_failure_keeps_state :
    forall e s, ok e s = false -> after e s = s \/ after e s = nonce_bump (te_caller (e_tx e)) s.

  Theorem C16_receipt_gas_le_allowance :
    forall cf o number hash ts an s,
      gas_used (op_env cf o number hash ts an) s <= gas_limit (op_len o).
  Proof.
    exact (fun cf o number hash ts an s =>
             eq_ind _ (fun x => gas_used (op_env cf o number hash ts an) s <= x)
                    (revm_gas_used_le_limit _ s) _
                    (limit_applied GPB PM PS INDEXER_ADDRESS CONTROLLER_ADDRESS cf o number hash ts an)).
  Qed.

  Theorem C16_oog_changes_only_nonce :
    forall cf o number hash ts an s,
      ok (op_env cf o number hash ts an) s = false ->
      after (op_env cf o number hash ts an) s = s \/
      after (op_env cf o number hash ts an) s = nonce_bump (ti_from (op_ti INDEXER_ADDRESS CONTROLLER_ADDRESS o)) s.
  Proof. exact (fun cf o number hash ts an s H => revm_failure_keeps_state _ s H). Qed.
End Receipts.
Print Assumptions C16_receipt_gas_le_allowance.
Print Assumptions C16_oog_changes_only_nonce.

(* eth_estimateGas.  [cap] = CONFIG.evm_call_gas_limit; [checks] = overflow-checks of the build;
   SAFE = which arithmetic the compiled crate's loop uses (reflected by `hx reflect`: the crate
   is asked for an estimate with the cap at u64::MAX).  The arithmetic stays inside u64
   - with the subtraction form (SAFE = true) for every u64 cap,
   - with the addition form (SAFE = false) when 2*cap and cap + 12000 fit (the default cap is 10^9). *)
Notation SAFE := ESTIMATE_ARITH_SAFE.

Theorem C16_arith_ok_meaning :
  forall cap, arith_ok GPB SAFE cap <->
    (if SAFE then cap <= u64max else cap + cap <= u64max /\ cap + GPB <= u64max).
Proof. exact (fun cap => match SAFE as b return (arith_ok GPB b cap <-> (if b then cap <= u64max else cap + cap <= u64max /\ cap + GPB <= u64max)) with true => iff_refl _ | false => iff_refl _ end). Qed.

Section Estimate.
  Context {Out : Type}.
  Variable checks : bool.
  Variable cap : N.
  Variable run : N -> option (bool * Out).
  Notation estimate := (estimate GPB SAFE checks cap run).
  Notation bisect := (bisect GPB SAFE checks run).
  Notation succ := (succ run).

  Theorem C16_bisection_terminates :
    arith_ok GPB SAFE (N.max cap 21000) ->
    (forall lo hi, lo <= N.max cap 21000 -> hi <= N.max cap 21000 -> exists r, bisect 64 lo hi = Some r) /\
    exists r, estimate 64 = Some r.
  Proof.
    exact (fun H => conj (fun lo hi => bisection_terminates_from GPB GPB_pos SAFE checks run lo hi _ H)
                         (estimate_terminates GPB GPB_pos SAFE checks cap run H)).
  Qed.

  (* loop invariant: once the upper end succeeds, whatever the loop returns succeeds *)
  Theorem C16_bisection_returns_succeeding :
    forall f lo hi e, succ hi = true -> bisect f lo hi = Some (Ok e) -> succ e = true.
  Proof. exact (bisect_succeeding GPB SAFE checks run). Qed.

  (* the estimate is not minimal: it is within one byte's worth of gas above a limit that
     failed (or above 21000) *)
  Theorem C16_estimate_range :
    arith_ok GPB SAFE cap -> forall f lo hi e, lo <= hi -> hi <= cap -> bisect f lo hi = Some (Ok e) ->
      lo <= e <= hi /\
      exists l, lo <= l /\ e <= l + GPB /\ (l = lo \/ (0 < l /\ succ (l - 1) = false)).
  Proof. exact (bisect_range GPB GPB_pos SAFE checks run cap). Qed.

  (* The property: the returned estimate E succeeds; rounded up to whole inscription bytes
     it is an allowance of at least E; so for a program whose success and output do not depend
     on spare gas, the transaction with that inscription length succeeds with the same output. *)
  Theorem C16_estimate_sufficient :
    gas_monotone run -> forall f E, E <= u64max -> estimate f = Some (Ok E) ->
      exists o, run E = Some (true, o) /\ run (gas_limit (ceil_div E)) = Some (true, o) /\
                E <= gas_limit (ceil_div E).
  Proof. exact (fun Hm f E => estimate_sufficient GPB GPB_pos SAFE checks cap run f E Hm). Qed.

  (* a cap below 21000 + 12000: no bisection step, the estimate is the cap *)
  Theorem C16_estimate_small_cap :
    forall f, cap <= 21000 + GPB -> succ cap = true -> estimate (S f) = Some (Ok cap).
  Proof. exact (fun f Hc Hs => estimate_small_cap GPB GPB_pos SAFE checks cap run f Hc small_fits Hs). Qed.
End Estimate.
Print Assumptions C16_bisection_terminates.
Print Assumptions C16_bisection_returns_succeeding.
Print Assumptions C16_estimate_range.
Print Assumptions C16_estimate_sufficient.
Print Assumptions C16_estimate_small_cap.

(* eth_estimateGasMany: every per-position loop terminates within the same fuel and the vector
   returned was confirmed by a final run of the whole batch (each position succeeded). *)
Theorem C16_estimate_many_terminates_and_confirmed :
  forall checks cap (runm : list N -> option (list bool)) n,
    (arith_ok GPB SAFE (N.max cap 21000) -> exists r, estimate_many GPB SAFE checks cap runm 64 n = Some r) /\
    (forall f gs, estimate_many GPB SAFE checks cap runm f n = Some (Ok gs) ->
                  exists sts, runm gs = Some sts /\ forallb (fun b => b) sts = true).
Proof.
  exact (fun checks cap runm n =>
           conj (estimate_many_terminates GPB GPB_pos SAFE checks cap runm n)
                (fun f gs => estimate_many_confirmed GPB SAFE checks cap runm f n gs)).
Qed.
Print Assumptions C16_estimate_many_terminates_and_confirmed.

(* The addition form of the loop is not safe outside its bound: with the cap at u64::MAX the
   first midpoint overflows: a panic with overflow checks, and without them the wrapped
   midpoints walk the lower bound down to 1 where the loop never ends (fuel runs out at every
   budget tried).  The subtraction form answers. *)
Example C16_cap_overflow_refuted :
  let run := fun g : N => if 50000 <=? g then Some (true, tt) else Some (false, tt) in
  estimate GPB false true u64max run 64 = Some Panic /\
  estimate GPB false false u64max run 64 = None /\ estimate GPB false false u64max run 200 = None /\
  exists E, estimate GPB true true u64max run 64 = Some (Ok E) /\ 50000 <= E /\ E <= 50000 + GPB.
Proof.
  cbv zeta. split; [vm_compute; reflexivity|]. split; [vm_compute; reflexivity|]. split; [vm_compute; reflexivity|].
  exists 53767. vm_compute. repeat split; discriminate.
Qed.

(* Non-vacuity: a call that needs 50 000 gas, cap 10^9: the estimate succeeds, lies within
   12 000 of the need, and 5 inscription bytes cover it. *)
Example C16_nonvacuous :
  let run := fun g : N => if 50000 <=? g then Some (true, tt) else Some (false, tt) in
  exists E, estimate GPB SAFE true 1000000000 run 64 = Some (Ok E) /\ 50000 <= E /\ E <= 50000 + GPB /\
            ceil_div E = 5 /\ run (gas_limit (ceil_div E)) = Some (true, tt).
Proof. exists 51516. vm_compute. repeat split; discriminate. Qed.

Example C16_saturation_nonvacuous :
  gas_limit 1537228672809130 = u64max /\ byte_len u64max = 1537228672809129 /\
  gas_limit 1537228672809129 = 18446744073709548000 /\ gas_limit 0 = 0.
Proof. vm_compute. repeat split. Qed.

(* assumptions of the theorems above that had no report next to them *)
Print Assumptions C16_gas_per_byte_pinned.
Print Assumptions C16_arith_ok_meaning.
