(* C10 — read-only methods never change state.  Statements only, for EVERY revm behaviour
   (the oracle [exec]: any result, any journal, failing at any call index) that does not
   panic; panics inside third-party code are C09's concern. *)
From Brc.Model Require Import Base ReadSlot.
From Brc.Proofs Require Import ReadSlotP.

Theorem C10_read_contract_pure :
  forall (S J Out : Type) (ej : J) (exec : S -> J -> N -> res (Out * J)) s i,
    no_panic exec -> fst (read_contract ej exec (Present s) i) = Present s.
Proof. exact (@read_contract_pure). Qed.
Print Assumptions C10_read_contract_pure.

Theorem C10_read_contract_multi_pure :
  forall (S J Out : Type) (ej : J) (exec : S -> J -> N -> res (Out * J)) s calls,
    no_panic exec -> fst (read_contract_multi ej exec (Present s) calls) = Present s.
Proof. exact (@read_contract_multi_pure). Qed.
Print Assumptions C10_read_contract_multi_pure.

Theorem C10_estimate_gas_pure :
  forall (S J Out : Type) (ej : J) (exec : S -> J -> N -> res (Out * J)) s runs,
    no_panic exec -> many_reads ej exec (Present s) runs = Present s.
Proof. exact (@estimate_gas_pure). Qed.

Theorem C10_slot_emptied_only_by_panic :
  forall (S J Out : Type) (ej : J) (exec : S -> J -> N -> res (Out * J)) s i,
    fst (read_contract ej exec (Present s) i) = Taken -> exec s ej i = Panic.
Proof. exact (@slot_taken_only_by_panic). Qed.
Print Assumptions C10_slot_emptied_only_by_panic.

(* Non-vacuity: an oracle whose second call fails; the batch returns the error, the store is
   back. *)
Example C10_nonvacuous :
  let exec := fun (s : N) (j : N) (i : N) => if i =? 2 then Err else Ok (s + j + i, j + 1) in
  read_contract_multi 0 exec (Present 40) [1; 2; 3] = (Present 40, Err) /\
  read_contract_multi 0 exec (Present 40) [1; 3] = (Present 40, Ok [41; 44]).
Proof. vm_compute. split; reflexivity. Qed.

(* assumptions of the theorems above that had no report next to them *)
Print Assumptions C10_estimate_gas_pure.
