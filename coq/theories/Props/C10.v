(* C10 — read-only methods never change state.  Statements only, for EVERY revm behaviour
   (the oracle [exec]: any result, any journal, failing at any call index) that does not
   panic; panics inside third-party code are C09's concern. *)
From Brc.Model Require Import Base ReadSlot.
From Brc.Proofs Require Import ReadSlotP.

Theorem C10_read_contract_pure :
  forall (S J Out : Type) (ej : J) (exec : S -> J -> N -> res (Out * J)) s i,
    no_panic exec -> fst (read_contract ej exec (Present s) i) = Present s.
Proof. exact (@read_contract_pure). Qed.
Print Assumptions C10_read_contract_pure.

Theorem C10_read_contract_multi_pure :
  forall (S J Out : Type) (ej : J) (exec : S -> J -> N -> res (Out * J)) s calls,
    no_panic exec -> fst (read_contract_multi ej exec (Present s) calls) = Present s.
Proof. exact (@read_contract_multi_pure). Qed.
Print Assumptions C10_read_contract_multi_pure.

Theorem C10_estimate_gas_pure :
  forall (S J Out : Type) (ej : J) (exec : S -> J -> N -> res (Out * J)) s runs,
    no_panic exec -> many_reads ej exec (Present s) runs = Present s.
Proof. exact (@estimate_gas_pure). Qed.

Theorem C10_slot_emptied_only_by_panic :
  forall (S J Out : Type) (ej : J) (exec : S -> J -> N -> res (Out * J)) s i,
    fst (read_contract ej exec (Present s) i) = Taken -> exec s ej i = Panic.
Proof. exact (@slot_taken_only_by_panic). Qed.
Print Assumptions C10_slot_emptied_only_by_panic.

(* ---------------------------------------------------------------------------------------
   Whole histories.  Indexer calls ([RWrite]: any function [wr] of the store) and read
   requests of every kind (one execution, a multi-call with state carry-over, a gas
   estimation of any number of runs) go through the same slot.  For EVERY such history: the
   store it leaves, and the answers it gives to the indexer calls, are those of the history
   with all read requests removed. *)
Theorem C10_reads_erasable_from_any_history :
  forall (S J Out WOut : Type) (ej : J) (exec : S -> J -> N -> res (Out * J))
         (wr : S -> N -> S * WOut) (rs : list req) (s : S),
    no_panic exec ->
    fst (history ej exec wr (Present s) rs)
    = fst (history ej exec wr (Present s) (filter is_write rs)) /\
    filter is_write_ans (snd (history ej exec wr (Present s) rs))
    = snd (history ej exec wr (Present s) (filter is_write rs)).
Proof. exact (fun S J Out WOut ej exec wr rs s => @reads_erasable S J Out ej exec WOut wr rs s). Qed.
Print Assumptions C10_reads_erasable_from_any_history.

(* The answer to a read request does not depend on which other read requests were served
   before it, only on the indexer calls. *)
Theorem C10_read_answer_independent_of_other_reads :
  forall (S J Out WOut : Type) (ej : J) (exec : S -> J -> N -> res (Out * J))
         (wr : S -> N -> S * WOut) (rs : list req) (r : req) (s : S),
    no_panic exec ->
    snd (serve ej exec wr (fst (history ej exec wr (Present s) rs)) r)
    = snd (serve ej exec wr (fst (history ej exec wr (Present s) (filter is_write rs))) r).
Proof.
  exact (fun S J Out WOut ej exec wr rs r s =>
           @read_answer_independent_of_other_reads S J Out ej exec WOut wr rs r s).
Qed.
Print Assumptions C10_read_answer_independent_of_other_reads.

(* No request of any history finds the slot empty (no later call panics on the mutex
   expectation). *)
Theorem C10_history_never_wedges :
  forall (S J Out WOut : Type) (ej : J) (exec : S -> J -> N -> res (Out * J))
         (wr : S -> N -> S * WOut) (rs : list req) (s : S),
    no_panic exec -> exists s', fst (history ej exec wr (Present s) rs) = Present s'.
Proof. exact (fun S J Out WOut ej exec wr rs s => @history_slot_present S J Out ej exec WOut wr rs s). Qed.
Print Assumptions C10_history_never_wedges.

(* Non-vacuity of the history theorems: writes add to the store, reads try to (their journal
   is dropped); the interleaved and the read-free history end in the same store with the same
   write answers. *)
Example C10_nonvacuous_history :
  let exec := fun (s : N) (j : N) (i : N) => if i =? 2 then Err else Ok (s + j + i, j + 1) in
  let wr := fun (s : N) (w : N) => (s + w, s) in
  let rs := [RRead 1; RWrite 5; RReadMulti [1; 2; 3]; REstimate [7; 8; 9]; RWrite 6; RRead 3] in
  history 0 exec wr (Present 40) rs
  = (Present 51, [ARead (Ok 41); AWrite (Ok 40); AMulti Err; AEstimate; AWrite (Ok 45); ARead (Ok 54)]) /\
  history 0 exec wr (Present 40) (filter is_write rs) = (Present 51, [AWrite (Ok 40); AWrite (Ok 45)]).
Proof. vm_compute. split; reflexivity. Qed.

(* Non-vacuity: an oracle whose second call fails; the batch returns the error, the store is
   back. *)
Example C10_nonvacuous :
  let exec := fun (s : N) (j : N) (i : N) => if i =? 2 then Err else Ok (s + j + i, j + 1) in
  read_contract_multi 0 exec (Present 40) [1; 2; 3] = (Present 40, Err) /\
  read_contract_multi 0 exec (Present 40) [1; 3] = (Present 40, Ok [41; 44]).
Proof. vm_compute. split; reflexivity. Qed.

(* assumptions of the theorems above that had no report next to them *)
Print Assumptions C10_estimate_gas_pure.
