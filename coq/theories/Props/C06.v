(* C06 — blocks, transactions, receipts, logs and indexes are coherent.  Statements only,
   about the bookkeeping model (Model/Chain.v); gas used, number of logs and hashes of every
   transaction are universally quantified oracle answers. *)
From Brc.Model Require Import Base Chain.
From Brc.Proofs Require Import ChainP.

(* Every block built by any sequence of accepted transactions and then finalised is coherent:
   transaction indexes 0..n-1 in order with the block's number and hash, log indexes running
   contiguously through the block, cumulative gas the running sum (an addition that would
   overflow u64 keeps the previous value, as the code does), gas used = the last cumulative
   gas, and the block lists exactly the accepted transactions. *)
Theorem C06_block_coherent :
  forall c number bhash txs,
    c_open c = open_init ->
    match c_blocks (run_block c number bhash txs) with
    | b :: _ => block_coherent b = true /\ b_number b = number /\ b_hash b = bhash /\
                length (b_txs b) = length txs
    | [] => False
    end.
Proof. exact run_block_coherent. Qed.
Print Assumptions C06_block_coherent.

(* (block, index) -> hash -> transaction/receipt lookups point at each other, as long as every
   accepted transaction has a hash not yet on the chain. *)
Theorem C06_lookups_coherent_step :
  forall c number bhash hash gas nlogs,
    LookupInv c -> lookup_hash c hash = None -> LookupInv (add_tx c number bhash hash gas nlogs).
Proof. exact LookupInv_add. Qed.
Print Assumptions C06_lookups_coherent_step.

(* That hypothesis is needed: with the same hash accepted twice in one block the (block, 0)
   lookup leads to a transaction that says it sits at index 1.  (Transaction hashes are
   keccak(sender, nonce, target, data); they repeat exactly when revm rejects a transaction
   at validation, so that the sender's nonce is not consumed, and the same call is submitted
   again: known finding F14.) *)
Theorem C06_lookups_refuted_without_fresh_hashes :
  exists c, ~ LookupInv c /\ c = add_tx (add_tx chain_init 1 77 5 21000 0) 1 77 5 21000 0.
Proof. exact lookups_refuted_without_fresh_hashes. Qed.

Example C06_nonvacuous :
  match c_blocks (run_block chain_init 3 99 [(11, 21000, 2); (12, 50000, 0); (13, 18446744073709551000, 3)]) with
  | b :: _ => map x_cum (b_txs b) = [21000; 71000; 71000] /\ map x_logstart (b_txs b) = [0; 2; 2] /\ b_gas b = 71000
  | [] => False
  end.
Proof. vm_compute. repeat split. Qed.
