(* C06 — blocks, transactions, receipts, logs and indexes are coherent.  Statements only,
   about the bookkeeping model (Model/Chain.v); gas used, number of logs and hashes of every
   transaction are universally quantified oracle answers. *)
From Brc.Model Require Import Base Chain ChainRun.
From Brc.Proofs Require Import ChainP ChainGlobalP.

(* Every block built by any sequence of accepted transactions and then finalised is coherent:
   transaction indexes 0..n-1 in order with the block's number and hash, log indexes running
   contiguously through the block, cumulative gas the running sum (an addition that would
   overflow u64 keeps the previous value, as the code does), gas used = the last cumulative
   gas, and the block lists exactly the accepted transactions. *)
Theorem C06_block_coherent :
  forall c number bhash txs,
    c_open c = open_init ->
    match c_blocks (run_block c number bhash txs) with
    | b :: _ => block_coherent b = true /\ b_number b = number /\ b_hash b = bhash /\
                length (b_txs b) = length txs
    | [] => False
    end.
Proof. exact run_block_coherent. Qed.
Print Assumptions C06_block_coherent.

(* (block, index) -> hash -> transaction/receipt lookups point at each other, as long as every
   accepted transaction has a hash not yet on the chain. *)
Theorem C06_lookups_coherent_step :
  forall c number bhash hash gas nlogs,
    LookupInv c -> lookup_hash c hash = None -> LookupInv (add_tx c number bhash hash gas nlogs).
Proof. exact LookupInv_add. Qed.
Print Assumptions C06_lookups_coherent_step.

(* That hypothesis is needed: with the same hash accepted twice in one block the (block, 0)
   lookup leads to a transaction that says it sits at index 1.  (Transaction hashes are
   keccak(sender, nonce, target, data); they repeat exactly when revm rejects a transaction
   at validation, so that the sender's nonce is not consumed, and the same call is submitted
   again: known finding F14.) *)
Theorem C06_lookups_refuted_without_fresh_hashes :
  exists c, ~ LookupInv c /\ c = add_tx (add_tx chain_init 1 77 5 21000 0) 1 77 5 21000 0.
Proof. exact lookups_refuted_without_fresh_hashes. Qed.

Example C06_nonvacuous :
  match c_blocks (run_block chain_init 3 99 [(11, 21000, 2); (12, 50000, 0); (13, 18446744073709551000, 3)]) with
  | b :: _ => map x_cum (b_txs b) = [21000; 71000; 71000] /\ map x_logstart (b_txs b) = [0; 2; 2] /\ b_gas b = 71000
  | [] => False
  end.
Proof. vm_compute. repeat split. Qed.

(* ------------------------------------------------------------------------------------------
   Whole chains: any list of blocks [bs] (number, hash, transactions) run from the empty chain,
   followed by the accepted transactions [txs] of a block (number, bhash) still under
   construction.  [fresh_blocks] / [fresh_txs] (Model/ChainRun.v) say that every accepted
   transaction had a hash not yet on the chain at the moment it was accepted.
   ------------------------------------------------------------------------------------------ *)

(* Then: the (block, index) -> hash -> transaction/receipt lookups point at each other; EVERY
   finalised block is coherent; the chain holds exactly the blocks sent, newest first, each listing
   exactly its accepted transactions in order; every transaction of every block (finalised or
   open) is found by its hash, and what is found is the row the block lists; the open block is
   coherent as far as it goes and lists exactly the transactions accepted so far. *)
Theorem C06_chain_coherent_run :
  forall bs number bhash txs,
    fresh_blocks chain_init bs = true ->
    fresh_txs (run_blocks chain_init bs) number bhash txs = true ->
    let c := add_txs (run_blocks chain_init bs) number bhash txs in
    LookupInv c /\
    (forall b, In b (c_blocks c) -> block_coherent b = true) /\
    map (fun b => (b_number b, b_hash b, map x_hash (b_txs b))) (c_blocks c)
      = rev (map (fun b => (bi_number b, bi_hash b, map t_hash (bi_txs b))) bs) /\
    (forall r, (In r (o_txs (c_open c)) \/ exists b, In b (c_blocks c) /\ In r (b_txs b)) ->
               lookup_hash c (x_hash r) = Some r) /\
    OpenInv (c_open c) number bhash /\
    map x_hash (rev (o_txs (c_open c))) = map t_hash txs.
Proof. exact chain_coherent_run. Qed.
Print Assumptions C06_chain_coherent_run.

(* If the blocks sent carry the heights start, start+1, ... (the engine accepts no other: C05),
   the chain is linked: every block has the height of the one below it plus one and its parent
   hash is that block's hash; the oldest has parent hash 0; the heights are exactly start ... *)
Theorem C06_chain_linked_run :
  forall bs start,
    contiguous start bs = true ->
    let c := run_blocks chain_init bs in
    linked (c_blocks c) = true /\
    map b_number (c_blocks c) = rev (map N.of_nat (seq (N.to_nat start) (length bs))).
Proof. exact chain_linked_run. Qed.
Print Assumptions C06_chain_linked_run.

(* ... and the (block, index) table is complete: every transaction of every finalised block is
   found under its block's number and its index, and carries that block number. *)
Theorem C06_chain_index_complete :
  forall bs start,
    contiguous start bs = true ->
    let c := run_blocks chain_init bs in
    forall b r, In b (c_blocks c) -> In r (b_txs b) ->
      x_block r = b_number b /\ lookup_bi c (b_number b) (x_idx r) = Some (x_hash r).
Proof. exact chain_index_complete. Qed.
Print Assumptions C06_chain_index_complete.

(* Non-vacuity: three blocks at heights 5, 6, 7 (the second one empty) and an open block 8. *)
Example C06_chain_nonvacuous :
  let bs := [(5, 55, [(11, 21000, 2); (12, 50000, 0)]); (6, 66, []); (7, 77, [(13, 30000, 1)])] in
  let c := add_txs (run_blocks chain_init bs) 8 88 [(14, 21000, 0)] in
  fresh_blocks chain_init bs = true /\ fresh_txs (run_blocks chain_init bs) 8 88 [(14, 21000, 0)] = true /\
  contiguous 5 bs = true /\
  map (fun b => (b_number b, b_hash b, b_parent b, map x_hash (b_txs b))) (c_blocks c)
    = [(7, 77, 66, [13]); (6, 66, 55, []); (5, 55, 0, [11; 12])] /\
  lookup_bi c 5 1 = Some 12 /\ option_map x_cum (lookup_hash c 12) = Some 71000 /\
  lookup_bi c 8 0 = Some 14 /\
  (* a hash accepted a second time is caught by the side condition *)
  fresh_txs c 8 88 [(12, 1, 0)] = false.
Proof. vm_compute. repeat split. Qed.

(* assumptions of the theorems above that had no report next to them *)
Print Assumptions C06_lookups_refuted_without_fresh_hashes.
