(* C07 — the BRC20 bridge ledger is conserved and only the indexer can mint or burn.
   Statements only; every proof is [exact] of a lemma from Proofs/LedgerP.v.

   The model (Model/Ledger.v) is a source-level transcription of BRC20_Controller.sol (the
   controller and the per-ticker BRC20 token it deploys) and of the Rust glue
   (brc20_deposit / brc20_withdraw / brc20_balance).  [l_call CTL st c] is one message call
   ([Ok st'] = success, [Err] = revert, which leaves the state as it was: [l_apply]);
   [CTL] is the controller's address, [INDEXER] the indexer address (sender of the
   deployment, of deposits and of withdrawals).  The pkscript hash [H_addr] and the
   lower-casing [lower] are opaque functions; nothing is assumed about them. *)
From Brc.Model Require Import Base Ledger LedgerChain Tie07.
From Brc.Proofs Require Import LedgerP LedgerChainP Tie07P.

(* ---------------------------------------------------------------------------------------
   supply_is_sum.  After ANY sequence of message calls (any sender, the owners included, any
   target, any arguments) from the state the deployment leaves, every token's totalSupply is
   the sum of the balances of its (pairwise distinct) holders, nobody else holds anything,
   and the sum is below 2^256 (no wrap-around ever happened). *)
Theorem C07_supply_is_sum :
  forall (CTL deployer : addr) (cs : list call) (t : ticker) (s : N),
    let st := l_run CTL (l_init deployer) cs in
    supply st t = Some s ->
    NoDup (holders st t) /\
    s = nsum (map (balance st t) (holders st t)) /\
    s < 2 ^ 256 /\
    (forall a, ~ In a (holders st t) -> balance st t a = 0) /\
    (forall a, balance st t a <= s).
Proof.
  exact (fun CTL d cs t s =>
           supply_is_sum_wf (l_run CTL (l_init d) cs) t s (l_run_wf CTL cs _ (led_wf_init d))).
Qed.
Print Assumptions C07_supply_is_sum.

(* ---------------------------------------------------------------------------------------
   ledger_accounting, at the level of addresses.  Over any history of calls, with [tr] the
   calls that succeeded: the balance of account [a] in ticker [t] is what was minted to it
   plus what it received minus what was burnt from it minus what it sent (written without
   subtraction; in particular the right-hand side never goes negative). *)
Theorem C07_ledger_accounting :
  forall (CTL deployer : addr) (cs : list call) (t : ticker) (a : addr),
    a <> 0 ->
    let tr := l_trace CTL (l_init deployer) cs in
    balance (l_run CTL (l_init deployer) cs) t a + withdrawn t a tr + sent t a tr
    = deposited t a tr + received t a tr.
Proof.
  exact (fun CTL d cs t a Ha =>
           accounting CTL cs (l_init d) t a (led_wf_init d) Ha).
Qed.
Print Assumptions C07_ledger_accounting.

Section Bridge.
  Variable H_addr : list N -> addr.     (* keccak256(pkscript)[12..32] *)
  Variable lower : list N -> ticker.    (* str::to_lowercase, UTF-8 bytes *)
  Variable INDEXER CTL : addr.

  Notation run := (g_run H_addr lower INDEXER CTL (g_init INDEXER)).
  Notation trace := (g_trace H_addr lower INDEXER CTL (g_init INDEXER)).
  Notation brc20_balance := (glue_balance H_addr lower).

  (* user_sender_not_indexer: the sender of every message call that is not one of the
     bridge's own deposits / withdrawals (a pkscript-derived address, an address recovered
     from a signature, the address of a contract a user created) is neither INDEXER_ADDRESS
     nor the controller's address.  A 160-bit preimage / collision assumption. *)
  Definition user_sender_not_indexer (os : list op) : Prop := Forall (user_ok INDEXER CTL) os.

  (* ledger_accounting as the property states it: for every pkscript [p] and ticker [t] (in
     any case), what brc20_balance reports after any history equals the deposits to [p] minus
     the successful withdrawals from [p] plus the transfers received minus the transfers sent
     (all over the operations that succeeded), tickers compared after lower-casing. *)
  Theorem C07_ledger_accounting_pkscript :
    forall (os : list op) (p t : list N),
      user_sender_not_indexer os -> H_addr p <> 0 ->
      let a := H_addr p in
      let tr := trace os in
      brc20_balance (run os) p t
      + nsum (map (op_wd_from H_addr lower (lower t) a) tr) + nsum (map (op_sent (lower t) a) tr)
      = nsum (map (op_dep_to H_addr lower (lower t) a) tr) + nsum (map (op_recv (lower t) a) tr).
  Proof.
    exact (fun os p t Hu Ha =>
             eq_trans
               (f_equal (fun x => x + _ + _) (glue_balance_is_balance H_addr lower _ p t))
               (proj1 (g_accounting H_addr lower INDEXER CTL os _
                                    (g_inv_init INDEXER CTL) Hu (lower t)) (H_addr p) Ha)).
  Qed.

  (* only_owner_moves_supply, one call: in a state where the controller belongs to the
     indexer and the tokens to the controller, a call from anyone else, on the controller or
     directly on a token, whatever the function and arguments, leaves every totalSupply as it
     was, creates no token, and leaves the ownership as it was. *)
  Theorem C07_only_owner_moves_supply_call :
    forall (st st' : ledger) (c : call),
      owners_ok INDEXER CTL st ->
      c_sender c <> INDEXER -> c_sender c <> CTL ->
      l_call CTL st c = Ok st' ->
      (forall t, supply st' t = supply st t) /\ owners_ok INDEXER CTL st'.
  Proof.
    exact (fun st st' c Ho H1 H2 H =>
             conj (proj1 (user_call_keeps_supply INDEXER CTL st c st' Ho H1 H2 H))
                  (proj1 (proj2 (user_call_keeps_supply INDEXER CTL st c st' Ho H1 H2 H)))).
  Qed.

  (* only_owner_moves_supply, over histories: at any point of any history of deposits,
     withdrawals and user calls, a user call (successful or not) changes no totalSupply and
     creates no token ([supply] is [None] for a ticker without token). *)
  Theorem C07_only_owner_moves_supply :
    forall (os : list op) (o : op),
      user_sender_not_indexer (os ++ [o]) -> is_user o = true ->
      forall t, supply (run (os ++ [o])) t = supply (run os) t.
  Proof.
    exact (fun os o Hu Hi =>
             user_op_keeps_supply H_addr lower INDEXER CTL os o
               (proj1 (proj1 (Forall_app _ _ _) Hu))
               (Forall_inv (proj2 (proj1 (Forall_app _ _ _) Hu))) Hi).
  Qed.

  (* ... hence each token's total supply is exactly the successful deposits minus the
     successful withdrawals of its ticker: only brc20_deposit and brc20_withdraw create or
     destroy tokens. *)
  Theorem C07_supply_only_from_bridge :
    forall (os : list op) (t : ticker),
      user_sender_not_indexer os ->
      let tr := trace os in
      match supply (run os) t with Some s => s | None => 0 end + nsum (map (op_wd lower t) tr)
      = nsum (map (op_dep lower t) tr).
  Proof.
    exact (fun os t Hu =>
             proj2 (g_accounting H_addr lower INDEXER CTL os _ (g_inv_init INDEXER CTL) Hu t)).
  Qed.

  (* ticker_case_insensitive: two spellings with the same lower-casing are the same ticker
     for deposit, withdraw and balance; in particular a deposit under one spelling shows up
     in the balance asked under the other. *)
  Theorem C07_ticker_case_insensitive :
    forall (t1 t2 : list N), lower t1 = lower t2 ->
      (forall p v, deposit_call H_addr lower INDEXER p t1 v = deposit_call H_addr lower INDEXER p t2 v) /\
      (forall p v, withdraw_call H_addr lower INDEXER p t1 v = withdraw_call H_addr lower INDEXER p t2 v) /\
      (forall st p, brc20_balance st p t1 = brc20_balance st p t2) /\
      (forall os p v st',
          user_sender_not_indexer os ->
          l_call CTL (run os) (deposit_call H_addr lower INDEXER p t1 v) = Ok st' ->
          brc20_balance st' p t2 = brc20_balance (run os) p t2 + v).
  Proof.
    exact (fun t1 t2 E =>
             conj (proj1 (case_insensitive_calls H_addr lower INDEXER t1 t2 E))
            (conj (proj1 (proj2 (case_insensitive_calls H_addr lower INDEXER t1 t2 E)))
            (conj (proj2 (proj2 (case_insensitive_calls H_addr lower INDEXER t1 t2 E)))
                  (fun os p v st' Hu H =>
                     deposit_then_balance H_addr lower INDEXER CTL (run os) st' p t1 t2 v
                       (proj1 (g_run_inv H_addr lower INDEXER CTL os _ (g_inv_init INDEXER CTL) Hu))
                       E H)))).
  Qed.
End Bridge.
Print Assumptions C07_ledger_accounting_pkscript.
Print Assumptions C07_only_owner_moves_supply_call.
Print Assumptions C07_only_owner_moves_supply.
Print Assumptions C07_supply_only_from_bridge.
Print Assumptions C07_ticker_case_insensitive.


(* ---------------------------------------------------------------------------------------
   insufficient_fails_unchanged.  In every state reached by any calls, a call that would
   move [v] out of account [from] (withdrawal = burn, transfer, transferFrom; on the
   controller or on the token; by anyone, the owners included) with [v] above [from]'s
   balance reverts, and the state is what it was. *)
Theorem C07_insufficient_fails_unchanged :
  forall (CTL deployer : addr) (cs : list call) (c : call) (t : ticker) (from to : addr) (v : N),
    let st := l_run CTL (l_init deployer) cs in
    call_move c = Some (t, from, to, v) -> from <> 0 ->
    balance st t from < v ->
    l_call CTL st c = Err /\ l_apply CTL st c = st.
Proof.
  exact (fun CTL d cs c t from to v =>
           insufficient_fails CTL (l_run CTL (l_init d) cs) c t from to v
             (l_run_wf CTL cs _ (led_wf_init d))).
Qed.
Print Assumptions C07_insufficient_fails_unchanged.

(* ---------------------------------------------------------------------------------------
   A finding (not part of the property: nothing is created or destroyed).  The controller's
   transfer(ticker, to, value) goes through the token's 3-argument transferFrom, whose
   spender is the controller itself: unless the holder has approved the controller's own
   address for at least [value], the transfer reverts whatever the holder's balance. *)
Theorem C07_controller_transfer_needs_allowance_for_controller :
  forall (CTL : addr) (st : ledger) (t : ticker) (k : token) (s to v : N),
    tget (l_toks st) t = Some k -> s <> CTL ->
    alget (t_allow k) s CTL < v -> alget (t_allow k) s CTL < MAX_U256 ->
    l_call CTL st (CallCtl s (CTransfer t to v)) = Err.
Proof. exact controller_transfer_needs_allowance. Qed.
Print Assumptions C07_controller_transfer_needs_allowance_for_controller.

(* ---------------------------------------------------------------------------------------
   Across reorgs.  A history is now a sequence of operations, block boundaries and reorgs
   ([KReorg d]: the newest d blocks and whatever was pending are gone; the ledger resumes from
   the snapshot the versioned tables kept for that block - the snapshot stack is the one the
   correspondence checker Tie07.l_check runs against the engine).  [surviving] is computed on
   the history alone.  The ledger after ANY such history is the plain run of the surviving
   operations, so the accounting identities hold across reorgs, read over what survives. *)
Section AcrossReorgs.
  Variable H_addr : list N -> addr.
  Variable lower : list N -> ticker.
  Variable INDEXER CTL : addr.

  Theorem C07_ledger_after_reorgs_is_run_of_survivors :
    forall (is : list LedgerChain.item),
      fst (c_run H_addr lower INDEXER CTL is)
      = g_run H_addr lower INDEXER CTL (g_init INDEXER) (surviving is).
  Proof. exact (ledger_after_reorgs H_addr lower INDEXER CTL). Qed.

  Theorem C07_ledger_accounting_across_reorgs :
    forall (is : list LedgerChain.item) (p t : list N),
      user_sender_not_indexer INDEXER CTL (surviving is) -> H_addr p <> 0 ->
      let a := H_addr p in
      let tr := g_trace H_addr lower INDEXER CTL (g_init INDEXER) (surviving is) in
      glue_balance H_addr lower (fst (c_run H_addr lower INDEXER CTL is)) p t
      + nsum (map (op_wd_from H_addr lower (lower t) a) tr) + nsum (map (op_sent (lower t) a) tr)
      = nsum (map (op_dep_to H_addr lower (lower t) a) tr) + nsum (map (op_recv (lower t) a) tr).
  Proof. exact (accounting_across_reorgs H_addr lower INDEXER CTL). Qed.

  Theorem C07_supply_only_from_bridge_across_reorgs :
    forall (is : list LedgerChain.item) (t : ticker),
      user_sender_not_indexer INDEXER CTL (surviving is) ->
      let tr := g_trace H_addr lower INDEXER CTL (g_init INDEXER) (surviving is) in
      match supply (fst (c_run H_addr lower INDEXER CTL is)) t with Some s => s | None => 0 end
      + nsum (map (op_wd lower t) tr)
      = nsum (map (op_dep lower t) tr).
  Proof. exact (supply_across_reorgs H_addr lower INDEXER CTL). Qed.

  Theorem C07_supply_is_sum_across_reorgs :
    forall (is : list LedgerChain.item) (t : ticker) (s : N),
      supply (fst (c_run H_addr lower INDEXER CTL is)) t = Some s ->
      let st := fst (c_run H_addr lower INDEXER CTL is) in
      NoDup (holders st t) /\ s = nsum (map (balance st t) (holders st t)) /\ s < 2 ^ 256.
  Proof. exact (supply_is_sum_across_reorgs H_addr lower INDEXER CTL). Qed.
End AcrossReorgs.
Print Assumptions C07_ledger_after_reorgs_is_run_of_survivors.
Print Assumptions C07_ledger_accounting_across_reorgs.
Print Assumptions C07_supply_only_from_bridge_across_reorgs.
Print Assumptions C07_supply_is_sum_across_reorgs.

(* ---------------------------------------------------------------------------------------
   The tie, as a theorem.  [Tie07.l_check] is the executable checker the correspondence run
   evaluates on every recorded engine history (it answers [None] = no item disagrees).  If it
   accepts a case, then EVERY brc20_balance answer the engine gave anywhere in that case is
   the model's balance in the chain ledger [c_run] of the operations recorded before it -
   the very state the across-reorgs theorems above describe. *)
Theorem C07_accepted_case_answers_are_the_chain_ledger :
  forall (INDEXER CTL : addr) (addrs : list N) (its : list Tie07.item) (a : addr) (t : list N)
         (ans : N) (rest : list Tie07.item),
    l_check INDEXER CTL addrs (g_init INDEXER) [g_init INDEXER] (its ++ IBalance a t ans :: rest) 0 = None ->
    ans = glue_balance H_tie lower_bytes
            (fst (c_run H_tie lower_bytes INDEXER CTL (kitems its))) [a] t.
Proof. exact accepted_case_every_balance_read. Qed.
Print Assumptions C07_accepted_case_answers_are_the_chain_ledger.

(* ---------------------------------------------------------------------------------------
   Non-vacuity: concrete histories.  INDEXER = 0x3ca6, a made-up controller address, a toy
   pkscript hash, ASCII/Latin-1 lower-casing. *)
Module Ex.
  Definition INDEXER : addr := 15526.
  Definition CTL : addr := 77777.
  Definition H (p : list N) : addr := 1000 + nsum p.
  Definition alice : list N := [1].     (* address 1001 *)
  Definition bob : list N := [2].       (* address 1002 *)
  Definition ORDI : list N := [79; 82; 68; 73].
  Definition ordi : list N := [111; 114; 100; 105].
  Definition dep := ODeposit.
  Definition run := g_run H lower_bytes INDEXER CTL (g_init INDEXER).
  Definition bal := glue_balance H lower_bytes.

  (* deposit "ORDI" then balance "ordi"; a transfer through the token; a transferFrom through
     the controller; a withdrawal of exactly the balance *)
  Definition h1 : list op :=
    [ ODeposit alice ORDI 100;
      OUser (CallTok 1001 ordi (TTransfer 1002 30));
      OUser (CallCtl 1001 (CTransferFrom ordi 1001 1002 5));
      OWithdraw bob ordi 35 ].

  Example C07_nonvacuous_history :
    bal (run h1) alice ordi = 65 /\ bal (run h1) bob ORDI = 0 /\
    supply (run h1) ordi = Some 65 /\
    length (g_trace H lower_bytes INDEXER CTL (g_init INDEXER) h1) = 4%nat /\
    Forall (user_ok INDEXER CTL) h1.
  Proof. repeat split; try (vm_compute; reflexivity). repeat constructor; vm_compute; discriminate. Qed.

  (* withdrawals and transfers above the balance fail and change nothing *)
  Example C07_nonvacuous_insufficient :
    let st := run [ODeposit alice ORDI 100] in
    l_call CTL st (withdraw_call H lower_bytes INDEXER alice ordi 101) = Err /\
    l_call CTL st (CallTok 1001 ordi (TTransfer 1002 101)) = Err /\
    is_ok (l_call CTL st (withdraw_call H lower_bytes INDEXER alice ordi 100)) = true.
  Proof. vm_compute. repeat split. Qed.

  (* adversarial mint / burn by a user, on the controller and on the token: reverts *)
  Example C07_nonvacuous_user_mint_burn :
    let st := run [ODeposit alice ORDI 100] in
    l_call CTL st (CallCtl 1001 (CMint ordi 1001 5)) = Err /\
    l_call CTL st (CallCtl 1001 (CBurn ordi 1002 5)) = Err /\
    l_call CTL st (CallTok 1001 ordi (TMint 1001 5)) = Err /\
    l_call CTL st (CallTok 1001 ordi (TBurn 1001 5)) = Err /\
    l_call CTL st (CallTok 1001 ordi (TTransferOwnership 1001)) = Err.
  Proof. vm_compute. repeat split. Qed.

  (* totalSupply overflow: the second deposit reverts, nothing wraps *)
  Example C07_nonvacuous_overflow :
    let st := run [ODeposit alice ORDI MAX_U256] in
    l_call CTL st (deposit_call H lower_bytes INDEXER bob ordi 1) = Err /\
    supply st ordi = Some MAX_U256.
  Proof. vm_compute. repeat split. Qed.

  (* the finding: with 100 tokens and no allowance given to the controller, the controller's
     transfer of 10 fails; after approve(ticker, CONTROLLER, 25) it succeeds and uses up the
     allowance *)
  Example C07_controller_transfer_witness :
    let st := run [ODeposit alice ORDI 100] in
    l_call CTL st (CallCtl 1001 (CTransfer ordi 1002 10)) = Err /\
    let st2 := l_apply CTL st (CallCtl 1001 (CApprove ordi CTL 25)) in
    is_ok (l_call CTL st2 (CallCtl 1001 (CTransfer ordi 1002 10))) = true /\
    l_query (l_apply CTL st2 (CallCtl 1001 (CTransfer ordi 1002 10))) (QCtlAllowance ordi 1001 CTL) = Ok 15.
  Proof. vm_compute. repeat split. Qed.

  (* the proposed fix (docs/proposed_fixes/C07_controller_transfer.diff): route the controller's
     transfer through the 4-argument overload with spender = owner; then no allowance is
     needed or used *)
  Example C07_controller_transfer_fix_sketch :
    let st := run [ODeposit alice ORDI 100] in
    let st' := l_tok_call CTL st ordi (TTransferFromO 1001 1001 1002 10) in
    match st' with
    | Ok s => balance s ordi 1001 = 90 /\ balance s ordi 1002 = 10 /\ supply s ordi = Some 100
    | _ => False
    end.
  Proof. vm_compute. repeat split. Qed.
  (* across reorgs: a deposit in block 1, a transfer and a withdrawal in block 2, a pending
     deposit, then a reorg that drops block 2 and the pending deposit; a refused reorg (the
     chain is not that long) changes nothing *)
  Definition k1 : list LedgerChain.item :=
    [ KOp (ODeposit alice ORDI 100); KBlock;
      KOp (OUser (CallTok 1001 ordi (TTransfer 1002 30))); KOp (OWithdraw bob ordi 30); KBlock;
      KOp (ODeposit bob ORDI 7);
      KReorg 1; KReorg 5;
      KOp (OUser (CallTok 1001 ordi (TTransfer 1002 1))) ].
  Example C07_nonvacuous_across_reorgs :
    surviving k1 = [ODeposit alice ORDI 100; OUser (CallTok 1001 ordi (TTransfer 1002 1))] /\
    let st := fst (c_run H lower_bytes INDEXER CTL k1) in
    bal st alice ordi = 99 /\ bal st bob ordi = 1 /\ supply st ordi = Some 100 /\
    length (snd (c_run H lower_bytes INDEXER CTL k1)) = 2%nat.
  Proof. vm_compute. repeat split. Qed.
End Ex.
