(* C18 — eth_getLogs returns exactly the matching logs, in chain order.  Statements only. *)
From Brc.Model Require Import Base Logs.
From Brc.Proofs Require Import LogsP.
From Brc.Model Require Tie18.
From Brc.Proofs Require Tie18P.

(* For every range it serves, the answer is the list of the logs of the blocks from..to in
   chain order (block, transaction index, log index), filtered by the address / topic filter:
   exactly the matching logs, each once, in order; and the range is at most 6 blocks. The
   rows are the (block, index) -> receipt table in key order, which C13 shows the range scan
   returns completely and in order whether or not the blocks are committed. *)
Theorem C18_get_logs_eq_spec :
  forall latest from to addr topics rows r,
    Forall (fun e => e_idx e < 2 ^ 64) rows ->
    get_logs latest from to addr topics rows = Ok r ->
    let f := match from with Some x => x | None => latest end in
    let t := match to with Some x => x | None => f end in
    r = filter (log_matches addr topics) (chain_logs f t rows) /\ t - f <= 5.
Proof. exact get_logs_eq_spec. Qed.
Print Assumptions C18_get_logs_eq_spec.

Theorem C18_too_wide_refused :
  forall latest from to addr topics rows,
    let f := match from with Some x => x | None => latest end in
    let t := match to with Some x => x | None => f end in
    5 < t - f -> get_logs latest from to addr topics rows = Err.
Proof. exact get_logs_too_wide_refused. Qed.

Theorem C18_never_panics :
  forall latest from to addr topics rows, get_logs latest from to addr topics rows <> Panic.
Proof. exact get_logs_never_panics. Qed.

Theorem C18_reversed_range_empty :
  forall latest f t addr topics rows,
    Forall (fun e => e_idx e < 2 ^ 64) rows -> t < f -> t <> U64MAX ->
    get_logs latest (Some f) (Some t) addr topics rows = Ok [].
Proof. exact get_logs_reversed_empty. Qed.

(* Filter semantics: positional; null = wildcard; a list = alternatives (a null inside a list
   matches nothing); a position beyond the log's topics does not match unless it is null. *)
Theorem C18_topics_positional :
  forall fs idx l,
    topics_ok fs idx l = true <->
    forall i f, nth_error fs i = Some f -> topic_pos_ok f (idx + i) l = true.
Proof. exact topics_ok_spec. Qed.

Theorem C18_wildcard_and_alternatives :
  forall l idx,
    topic_pos_ok (TSingle None) idx l = true /\
    (forall ts, topic_pos_ok (TVec ts) idx l = true <->
                exists x, nth_error (l_topics l) idx = Some x /\ In (Some x) ts) /\
    (forall t, topic_pos_ok (TSingle (Some t)) idx l = true <-> nth_error (l_topics l) idx = Some t).
Proof. exact wildcard_and_alternatives. Qed.
Print Assumptions C18_wildcard_and_alternatives.

Example C18_nonvacuous :
  get_logs 7 (Some 3) (Some 5) (Some 9) (Some [TSingle None; TVec [Some 2; None]])
    [ (2, 0, [mkLog 9 [1; 2] 100]); (3, 0, [mkLog 9 [1; 2] 101; mkLog 8 [1; 2] 102]);
      (3, 1, [mkLog 9 [1] 103]); (5, 0, [mkLog 9 [7; 2; 3] 104]); (6, 0, [mkLog 9 [1; 2] 105]) ]
  = Ok [mkLog 9 [1; 2] 101; mkLog 9 [7; 2; 3] 104].
Proof. vm_compute. reflexivity. Qed.

(* assumptions of the theorems above that had no report next to them *)
Print Assumptions C18_too_wide_refused.
Print Assumptions C18_never_panics.
Print Assumptions C18_reversed_range_empty.
Print Assumptions C18_topics_positional.

(* ---------------------------------------------------------------------------------------
   The tie, as a theorem.  [Tie18.check18] is the executable checker the correspondence run
   evaluates on every recorded eth_getLogs request against a real chain.  If it accepts a case
   in which the implementation answered, the tags of the logs the IMPLEMENTATION returned are
   exactly the tags of the matching logs of the recorded rows, in chain order; if the
   implementation refused, so does the model. *)
Theorem C18_accepted_case_answer_is_the_matching_logs :
  forall (c : Tie18.case18) (tags : list N),
    Forall (fun e => e_idx e < 2 ^ 64) (Tie18.c18_rows c) ->
    Tie18.check18 c = true -> Tie18.c18_got c = Some tags ->
    let f := match Tie18.c18_from c with Some x => x | None => Tie18.c18_latest c end in
    let t := match Tie18.c18_to c with Some x => x | None => f end in
    tags = map l_tag (filter (log_matches (Tie18.c18_addr c) (Tie18.c18_topics c))
                             (chain_logs f t (Tie18.c18_rows c)))
    /\ t - f <= 5.
Proof. exact Tie18P.check18_accepts. Qed.
Print Assumptions C18_accepted_case_answer_is_the_matching_logs.

Theorem C18_accepted_case_refusal_is_the_models :
  forall (c : Tie18.case18),
    Tie18.check18 c = true -> Tie18.c18_got c = None ->
    get_logs (Tie18.c18_latest c) (Tie18.c18_from c) (Tie18.c18_to c) (Tie18.c18_addr c)
             (Tie18.c18_topics c) (Tie18.c18_rows c) = Err.
Proof. exact Tie18P.check18_refusal. Qed.
Print Assumptions C18_accepted_case_refusal_is_the_models.
