(* C13 — versioned tables behave like a simple map with a 10-block undo window.
   Statements only; every proof is [exact] of a lemma from Proofs/.  The window [W] is the
   constant reflected from the compiled crate (gen/Consts.v), regenerated on every run. *)
From Brc.Model Require Import Base History Table BlockTable.
From Brc.Proofs Require Import HistoryP KvP TableP.
From Brc.Model Require Tie13.
From Brc.Proofs Require Tie13P.
From BrcGen Require Import Consts.

(* The property text fixes the numbers: a 10-block window, at most 11 versions. *)
Theorem C13_window_pinned : W = 10.
Proof. reflexivity. Qed.

(* A history object, under any sequence of set / unset / rollback that does not panic,
   represents the abstract function "value as of the end of block m" of the same sequence
   ([s_run]), with the clock = the newest block it has been told about. *)
Theorem C13_history_refines_map :
  forall (V : Type) (veq : V -> V -> bool), (forall a b, veq a b = true <-> a = b) ->
  forall (init : option V) (ops : list hop) (h : list (N * option V)),
    h_run veq W (h_new init) ops = Ok h ->
    ReprS W h (fst (s_run (fun _ => init, 0) ops)) (snd (s_run (fun _ => init, 0) ops)).
Proof. exact (fun V veq Hveq => history_run_refines veq Hveq W). Qed.
Print Assumptions C13_history_refines_map.

(* What that representation gives: latest = the abstract value; at most W+1 versions; a
   rollback to any n panics or restores exactly the value as of n (never silently wrong);
   inside the window (clock <= n + W) it does not panic. *)
Theorem C13_history_rollback :
  forall (V : Type) (h : list (N * option V)) (Sp : N -> option V) (c : N),
    ReprS W h Sp c ->
    (forall m, c <= m -> h_latest h = Ok (Sp m)) /\
    N.of_nat (length h) <= W + 1 /\
    (forall n, h_reorg h n = Panic \/
               exists h', h_reorg h n = Ok h' /\ ReprS W h' (s_reorg Sp n) c /\
                          h_latest h' = Ok (Sp n)) /\
    (forall n, c <= n + W -> h_reorg h n <> Panic).
Proof. exact (fun V => @ReprS_facts V W). Qed.
Print Assumptions C13_history_rollback.

(* Non-vacuity: a concrete run that creates, overwrites with the same value, deletes, idles
   past the window, touches again and rolls back meets the hypothesis. *)
Example C13_history_nonvacuous :
  exists h, h_run N.eqb W (h_new None)
              [HSet 1 5; HSet 2 5; HSet 3 6; HUnset 4; HSet 16 7; HSet 17 8; HReorg 16] = Ok h
            /\ h = [(4, None); (16, Some 7)].
Proof. eexists. split; vm_compute; reflexivity. Qed.

(* ---------------------------------------------------------------------------------------
   The versioned table (BlockCachedDatabase).  [TRepr t T]: every key's cell (latest row,
   persisted history row, cache entry) represents the plain map [T] from keys to "value as of
   block m" functions, with the copy saved at the last commit; [ts_step] is the plain map's
   transition (set/unset overwrite from the stamp on, commit saves, clear restores the saved
   copy, rollback composes with min n). *)

(* Any interleaving of set / unset / commit / clear(=discard, reopen) / rollback that does
   not panic and whose rollbacks stay inside the window keeps the table a representation of
   the plain map run on the same operations. *)
Theorem C13_table_refines_map :
  forall (V : Type) (veq : V -> V -> bool), (forall a b, veq a b = true <-> a = b) ->
  forall (ops : list top) (t' : table),
    run_in_window W ts_init ops ->
    t_run veq W t_empty ops = Ok t' ->
    TRepr W t' (fold_left ts_step ops ts_init).
Proof.
  exact (fun V veq Hveq ops t' Hw Hr =>
           table_run_refines veq Hveq W ops t_empty ts_init t' (TRepr_init W) Hw Hr).
Qed.
Print Assumptions C13_table_refines_map.

(* Point reads return the plain map's current value. *)
Theorem C13_table_point_read :
  forall (V : Type) (t : @table V) (T : tspec) (k m : N),
    TRepr W t T -> ts_clk T <= m -> t_latest t k = Ok (ts_cur T k m).
Proof. exact (fun V => @TRepr_latest V W). Qed.
Print Assumptions C13_table_point_read.

(* Range scans are complete, exact and in key order, for every order of the in-memory cache. *)
Theorem C13_table_range_scan :
  forall (V : Type) (t : @table V) (T : tspec) (lo hi : N),
    TRepr W t T ->
    exists l, t_get_range t lo hi = Ok l /\ ksorted l /\
      forall k, kv_get l k = if in_range lo hi k then latest_or_none t k else None.
Proof. exact (fun V => @get_range_spec V W). Qed.
Print Assumptions C13_table_range_scan.

(* ... so cache order and commit placement are unobservable through range scans. *)
Theorem C13_table_scan_determined_by_point_reads :
  forall (V : Type) (t1 : @table V) T1 (t2 : @table V) T2 lo hi,
    TRepr W t1 T1 -> TRepr W t2 T2 ->
    (forall k, latest_or_none t1 k = latest_or_none t2 k) ->
    t_get_range t1 lo hi = t_get_range t2 lo hi.
Proof. exact (fun V => @get_range_determined_by_latest V W). Qed.
Print Assumptions C13_table_scan_determined_by_point_reads.

(* Commit, clear and a rollback inside the window never panic. *)
Theorem C13_table_no_panic_in_window :
  forall (V : Type) (veq : V -> V -> bool) (t : @table V) (T : tspec) (o : top),
    TRepr W t T -> op_in_window W T o ->
    match o with TSet _ _ _ | TUnset _ _ => True | _ => t_step veq W t o <> Panic end.
Proof. exact (fun V veq => @table_step_no_panic V veq W). Qed.
Print Assumptions C13_table_no_panic_in_window.

(* Known finding F13: BELOW the window the table, used on its own, can be silently wrong
   (history dropped as old at a commit, re-seeded at block 0 from the latest value). The
   property clause "deeper rollbacks are never silently wrong" is refuted for the table in
   isolation by this witness; the store refuses such rollbacks (C01). *)
Theorem C13_table_deep_rollback_refuted :
  exists (ops : list top) (t' : table),
    t_run N.eqb W t_empty ops = Ok t' /\
    t_latest t' 1 = Ok (Some 100) /\
    ts_cur (fold_left ts_step ops ts_init) 1 (ts_clk (fold_left ts_step ops ts_init)) = None.
Proof.
  exists [TSet 5 1 100; TCommit 17; TSet 17 1 100; TCommit 18; TReorg 3]. eexists.
  split; [vm_compute; reflexivity|]. split; vm_compute; reflexivity.
Qed.

(* Non-vacuity of the table theorems: a run with overwrite, delete, commit, discard and an
   in-window rollback satisfies [run_in_window] and does not panic. *)
Example C13_table_nonvacuous :
  let ops := [TSet 1 7 1; TSet 2 9 2; TCommit 3; TUnset 3 7; TSet 4 9 3; TClear; TSet 12 7 5; TCommit 13; TReorg 3] in
  run_in_window W ts_init ops /\ exists t', t_run N.eqb W t_empty ops = Ok t' /\
  t_get_range t' 0 100 = Ok [(7, 1); (9, 2)].
Proof.
  split.
  - cbn. repeat split; vm_compute; discriminate.
  - eexists. split; vm_compute; reflexivity.
Qed.

(* assumptions of the theorems above that had no report next to them *)
Print Assumptions C13_window_pinned.
Print Assumptions C13_table_deep_rollback_refuted.

(* ---------------------------------------------------------------------------------------
   The tie, as theorems.  [Tie13.h_check] / [Tie13.t_check] are the executable checkers the
   correspondence run evaluates on every recorded case (operations executed on the real
   BlockHistoryCacheData / BlockCachedDatabase, and what the implementation reported after
   each).  If a case without panics is accepted, the model runs the whole sequence without
   error, the implementation's last report of the history entries IS the model's state, and
   the model's observation of the table after the run equals the implementation's last report
   (point reads, range scans in order, full scan) - so the refinement theorems above speak
   about what the implementation answered. *)
Theorem C13_accepted_history_case_is_the_model_run :
  forall ops h (es : list Tie13.ohist),
    Tie13.h_check W h ops (map Some es) = true ->
    exists h', h_run N.eqb W h ops = Ok h' /\ h' = last es h /\ length es = length ops.
Proof. exact (Tie13P.h_check_accepts W). Qed.
Print Assumptions C13_accepted_history_case_is_the_model_run.

Theorem C13_accepted_table_case_is_the_model_run :
  forall keys ranges ops t (es : list Tie13.tobs) e,
    Tie13.t_check W t keys ranges ops (map Some (es ++ [e])) = true ->
    exists t' m, t_run N.eqb W t ops = Ok t' /\ Tie13.t_observe t' keys ranges = Some m /\
                 Tie13.tobs_eqb m e = true.
Proof. exact (Tie13P.t_check_accepts W). Qed.
Print Assumptions C13_accepted_table_case_is_the_model_run.
