(* C13 — versioned tables behave like a simple map with a 10-block undo window.
   Statements only; every proof is [exact] of a lemma from Proofs/.  The window [W] is the
   constant reflected from the compiled crate (gen/Consts.v), regenerated on every run. *)
From Brc.Model Require Import Base History Table BlockTable.
From Brc.Proofs Require Import HistoryP.
From BrcGen Require Import Consts.

(* The property text fixes the numbers: a 10-block window, at most 11 versions. *)
Theorem C13_window_pinned : W = 10.
Proof. reflexivity. Qed.

(* A history object, under any sequence of set / unset / rollback that does not panic,
   represents the abstract function "value as of the end of block m" of the same sequence
   ([s_run]), with the clock = the newest block it has been told about. *)
Theorem C13_history_refines_map :
  forall (V : Type) (veq : V -> V -> bool), (forall a b, veq a b = true <-> a = b) ->
  forall (init : option V) (ops : list hop) (h : list (N * option V)),
    h_run veq W (h_new init) ops = Ok h ->
    ReprS W h (fst (s_run (fun _ => init, 0) ops)) (snd (s_run (fun _ => init, 0) ops)).
Proof. exact (fun V veq Hveq => history_run_refines veq Hveq W). Qed.
Print Assumptions C13_history_refines_map.

(* What that representation gives: latest = the abstract value; at most W+1 versions; a
   rollback to any n panics or restores exactly the value as of n (never silently wrong);
   inside the window (clock <= n + W) it does not panic. *)
Theorem C13_history_rollback :
  forall (V : Type) (h : list (N * option V)) (Sp : N -> option V) (c : N),
    ReprS W h Sp c ->
    (forall m, c <= m -> h_latest h = Ok (Sp m)) /\
    N.of_nat (length h) <= W + 1 /\
    (forall n, h_reorg h n = Panic \/
               exists h', h_reorg h n = Ok h' /\ ReprS W h' (s_reorg Sp n) c /\
                          h_latest h' = Ok (Sp n)) /\
    (forall n, c <= n + W -> h_reorg h n <> Panic).
Proof. exact (fun V => @ReprS_facts V W). Qed.
Print Assumptions C13_history_rollback.

(* Non-vacuity: a concrete run that creates, overwrites with the same value, deletes, idles
   past the window, touches again and rolls back meets the hypothesis. *)
Example C13_history_nonvacuous :
  exists h, h_run N.eqb W (h_new None)
              [HSet 1 5; HSet 2 5; HSet 3 6; HUnset 4; HSet 16 7; HSet 17 8; HReorg 16] = Ok h
            /\ h = [(4, None); (16, Some 7)].
Proof. eexists. split; vm_compute; reflexivity. Qed.
