(* C01 — an accepted reorg restores exactly the state as of the chosen block.
   Statements only.  [W] is reflected from the compiled crate. What is proved here is the
   storage half of the property, for the store model driven by ANY sequence of store
   operations that respects the block protocol ([wf_run]: the decidable predicate the
   correspondence run evaluates on the traces recorded from the real engine); revm enters only
   through the values written, which are universally quantified. *)
From Brc.Model Require Import Base History Table BlockTable Store.
From Brc.Model Require Import Engine EngineStore.
From Brc.Model Require Import Allowed.
From Brc.Proofs Require Import HistoryP KvP TableP BlockTableP StoreP EngineP EngineStoreP AllowedP.
From BrcGen Require Import Consts.

Theorem C01_window_pinned : W = 10.
Proof. reflexivity. Qed.

(* Along every well-formed trace the store keeps representing, key by key, the plain
   "value as of block m" map of the same trace ([fs_run]), and its clock stays within
   max_block_number on every clean boundary ([SInv]). *)
Theorem C01_store_trace_invariant :
  forall (ops : list sop) (s' : store) (st' : wfst),
    wf_run W wf_init ops = Some st' -> sto_run W st_empty ops = Ok s' ->
    SInv W s' (fs_run fs_init ops) st'.
Proof. exact (fun ops s' st' => store_run_inv W ops st_empty fs_init wf_init s' st' (SInv_init W)). Qed.
Print Assumptions C01_store_trace_invariant.

(* A reorg the protocol allows (clean boundary, n <= height, highest finalised block <= n+W)
   is neither refused by the store's own depth guard nor able to panic ... *)
Theorem C01_allowed_reorg_succeeds :
  forall s F st n st', SInv W s F st -> wf_step W st (SReorg n) = Some st' ->
                       exists s', sto_step W s (SReorg n) = Ok s'.
Proof. exact (store_reorg_ok W). Qed.
Print Assumptions C01_allowed_reorg_succeeds.

(* ... and afterwards every key reads the value it had at the end of block n. *)
Theorem C01_reorg_restores_values_as_of_target :
  forall s F st n st' s' k,
    SInv W s F st -> wf_step W st (SReorg n) = Some st' -> sto_step W s (SReorg n) = Ok s' ->
    t_latest (st_t s') k = Ok (fst F k n).
Proof. exact (store_reorg_restores W). Qed.
Print Assumptions C01_reorg_restores_values_as_of_target.

(* "As if the blocks above n had never been submitted": the value as of n of a write log
   equals the current value of the log with every write stamped above n removed. *)
Theorem C01_reorg_equals_orphans_never_written :
  forall (ws : list (N * option N)) (n : N) (S0 S0' : N -> option N),
    (forall m, S0 (N.min m n) = S0' m) ->
    forall m, fold_left wstep ws S0 (N.min m n)
              = fold_left wstep (filter (fun w => fst w <=? n) ws) S0' m.
Proof. exact reorg_is_filter. Qed.
Print Assumptions C01_reorg_equals_orphans_never_written.

(* Block tables after a reorg: rows above n are gone, the others unchanged. *)
Theorem C01_block_rows_after_reorg :
  forall (t : btable N) n k, b_get (b_reorg t n) k = if k <=? n then b_get t k else None.
Proof. exact (@b_get_reorg N). Qed.
Print Assumptions C01_block_rows_after_reorg.

(* The engine's own guard (engine.rs reorg) in front of the store. *)
Theorem C01_engine_guard_spec :
  forall waiting s n,
    engine_reorg_guard W waiting s n = RvDo <->
    waiting = 0 /\ n < latest_height s /\ latest_height s - n <= W.
Proof. exact (engine_guard_spec W). Qed.

(* Acceptance clause of the property. *)
Theorem C01_in_window_not_refused :
  forall s n h m, latest_height s = h -> h <= m -> n <= h -> m <= n + W ->
                  engine_reorg_guard W 0 s n <> RvRefused.
Proof. exact (engine_guard_accepts W). Qed.
Print Assumptions C01_in_window_not_refused.

(* The hypothesis [wf_run] of the theorems above is not only evaluated on the recorded traces:
   the engine's block protocol (Model/Engine.v) guarantees it.  For every history of engine
   calls from the initial state, whatever the oracles answer (signature layer, revm) and
   whatever keys and values the accepted calls write, as long as each accepted call issues store
   operations of the shape the engine code issues for it ([emits]: writes stamped with the
   block under construction; finalise = block row, raw block row, pool clean-up, hash rows,
   height bookkeeping; commit / clear / reorg as single operations) and each rejected call
   issues none, the concatenated store trace is well-formed. *)
Theorem C01_engine_protocol_implies_wf :
  forall (h : list (call * list sop)),
    allowed W MAX_FUTURE_TRANSACTION_NONCES MAX_FUTURE_TRANSACTION_BLOCKS INDEXER_ADDRESS g_init wf_init h ->
    exists st', wf_run W wf_init (concat (map snd h)) = Some st'.
Proof.
  exact (fun h => engine_history_wf W MAX_FUTURE_TRANSACTION_NONCES MAX_FUTURE_TRANSACTION_BLOCKS INDEXER_ADDRESS
                    h g_init wf_init Rel_init).
Qed.
Print Assumptions C01_engine_protocol_implies_wf.

(* The hypothesis [allowed] is decidable: [allowed_b] (Model/Allowed.v) is evaluated by Coq on
   every history the C05 / C08 correspondence runs record on the real engine (each call with the
   store operations issued while it was served; Model/TieAllowed.v).  A history that passes has a
   well-formed store trace: the chain  real run -> allowed -> wf_run -> store theorems  is
   closed by computation on the recorded histories and by proof everywhere else. *)
Theorem C01_checked_history_wf :
  forall (h : list (call * list sop)),
    allowed_b W MAX_FUTURE_TRANSACTION_NONCES MAX_FUTURE_TRANSACTION_BLOCKS INDEXER_ADDRESS g_init wf_init h = true ->
    exists st', wf_run W wf_init (concat (map snd h)) = Some st'.
Proof.
  exact (checked_history_wf W MAX_FUTURE_TRANSACTION_NONCES MAX_FUTURE_TRANSACTION_BLOCKS INDEXER_ADDRESS).
Qed.
Print Assumptions C01_checked_history_wf.

(* Non-vacuity: a 14-block trace (a key created, overwritten with the same value, zeroed,
   deleted, idle past the window, touched again), committed half-way, then rolled back 10
   blocks, is well-formed, runs, and reads the values as of the target. *)
Definition C01_example_trace : list sop :=
  let blk (b : N) (ws : list sop) := ws ++ [SB 1 b (100 + b); SB 2 b (200 + b); SB 0 b (300 + b); SV b (1000 + b) (Some b); SHash b] in
  blk 0 [SV 0 1 (Some 5)] ++ blk 1 [SV 1 1 (Some 5); SV 1 2 (Some 7)] ++ blk 2 [SV 2 2 (Some 0)] ++
  blk 3 [SV 3 2 None] ++ blk 4 [] ++ [SCommit] ++ blk 5 [] ++ blk 6 [] ++ blk 7 [] ++ blk 8 [] ++ blk 9 [] ++
  blk 10 [] ++ blk 11 [] ++ blk 12 [] ++ blk 13 [SV 13 1 (Some 9)] ++ blk 14 [SV 14 2 (Some 8)] ++ [SReorg 4].
Example C01_nonvacuous :
  wf_run W wf_init C01_example_trace <> None /\
  match sto_run W st_empty C01_example_trace with
  | Ok s' => t_latest (st_t s') 1 = Ok (Some 5) /\ t_latest (st_t s') 2 = Ok None /\
             latest_height s' = 4 /\ b_get (st_blk s') 5 = None /\ b_get (st_blk s') 4 = Some 104
  | _ => False
  end.
Proof. split; [vm_compute; discriminate|vm_compute; repeat split]. Qed.

(* The store theorems are about ONE merged table; the engine has fifteen.  That merge is sound
   only if reorg touches every table commit and clearCaches touch (a table left out of reorg
   would keep rows of abandoned blocks).  BrcGen.TableOrder is reflected from the store events
   of a real commit / reorg / clearCaches on every run. *)
From BrcGen Require Import TableOrder.
From Coq Require Import String.
Theorem C01_reorg_covers_all_tables :
  forall t, In t commit_tables \/ In t clear_tables -> In t reorg_tables.
Proof.
  assert (H : forallb (fun x => existsb (String.eqb x) reorg_tables) (commit_tables ++ clear_tables) = true)
    by (vm_compute; reflexivity).
  rewrite forallb_forall in H. intros t Ht.
  assert (Hi : In t (commit_tables ++ clear_tables)) by (apply in_or_app; exact Ht).
  apply H in Hi. apply existsb_exists in Hi. destruct Hi as [y [Hy He]].
  apply String.eqb_eq in He. subst y. exact Hy.
Qed.
Print Assumptions C01_reorg_covers_all_tables.
