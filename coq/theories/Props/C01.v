(* C01 — an accepted reorg restores exactly the state as of the chosen block.
   Statements only.  [W] is reflected from the compiled crate. What is proved here is the
   storage half of the property, for the store model driven by ANY sequence of store
   operations that respects the block protocol ([wf_run]: the decidable predicate the
   correspondence run evaluates on the traces recorded from the real engine); revm enters only
   through the values written, which are universally quantified. *)
From Brc.Model Require Import Base History Table BlockTable Store.
From Brc.Model Require Import Engine EngineStore.
From Brc.Model Require Import Allowed.
From Brc.Proofs Require Import HistoryP KvP TableP BlockTableP StoreP EngineP EngineStoreP AllowedP ProgressP.
From Brc.Model Require Tie01.
From Brc.Proofs Require Tie01P.
From BrcGen Require Import Consts.

Theorem C01_window_pinned : W = 10.
Proof. reflexivity. Qed.

(* Along every well-formed trace the store keeps representing, key by key, the plain
   "value as of block m" map of the same trace ([fs_run]), and its clock stays within
   max_block_number on every clean boundary ([SInv]). *)
Theorem C01_store_trace_invariant :
  forall (ops : list sop) (s' : store) (st' : wfst),
    wf_run W wf_init ops = Some st' -> sto_run W st_empty ops = Ok s' ->
    SInv W s' (fs_run fs_init ops) st'.
Proof. exact (fun ops s' st' => store_run_inv W ops st_empty fs_init wf_init s' st' (SInv_init W)). Qed.
Print Assumptions C01_store_trace_invariant.

(* A reorg the protocol allows (clean boundary, n <= height, highest finalised block <= n+W)
   is neither refused by the store's own depth guard nor able to panic ... *)
Theorem C01_allowed_reorg_succeeds :
  forall s F st n st', SInv W s F st -> wf_step W st (SReorg n) = Some st' ->
                       exists s', sto_step W s (SReorg n) = Ok s'.
Proof. exact (store_reorg_ok W). Qed.
Print Assumptions C01_allowed_reorg_succeeds.

(* ... and afterwards every key reads the value it had at the end of block n. *)
Theorem C01_reorg_restores_values_as_of_target :
  forall s F st n st' s' k,
    SInv W s F st -> wf_step W st (SReorg n) = Some st' -> sto_step W s (SReorg n) = Ok s' ->
    t_latest (st_t s') k = Ok (fst F k n).
Proof. exact (store_reorg_restores W). Qed.
Print Assumptions C01_reorg_restores_values_as_of_target.

(* "As if the blocks above n had never been submitted": the value as of n of a write log
   equals the current value of the log with every write stamped above n removed. *)
Theorem C01_reorg_equals_orphans_never_written :
  forall (ws : list (N * option N)) (n : N) (S0 S0' : N -> option N),
    (forall m, S0 (N.min m n) = S0' m) ->
    forall m, fold_left wstep ws S0 (N.min m n)
              = fold_left wstep (filter (fun w => fst w <=? n) ws) S0' m.
Proof. exact reorg_is_filter. Qed.
Print Assumptions C01_reorg_equals_orphans_never_written.

(* Block tables after a reorg: rows above n are gone, the others unchanged. *)
Theorem C01_block_rows_after_reorg :
  forall (t : btable N) n k, b_get (b_reorg t n) k = if k <=? n then b_get t k else None.
Proof. exact (@b_get_reorg N). Qed.
Print Assumptions C01_block_rows_after_reorg.

(* The engine's own guard (engine.rs reorg) in front of the store. *)
Theorem C01_engine_guard_spec :
  forall waiting s n,
    engine_reorg_guard W waiting s n = RvDo <->
    waiting = 0 /\ n < latest_height s /\ latest_height s - n <= W.
Proof. exact (engine_guard_spec W). Qed.

(* Acceptance clause of the property. *)
Theorem C01_in_window_not_refused :
  forall s n h m, latest_height s = h -> h <= m -> n <= h -> m <= n + W ->
                  engine_reorg_guard W 0 s n <> RvRefused.
Proof. exact (engine_guard_accepts W). Qed.
Print Assumptions C01_in_window_not_refused.

(* The hypothesis [wf_run] of the theorems above is not only evaluated on the recorded traces:
   the engine's block protocol (Model/Engine.v) guarantees it.  For every history of engine
   calls from the initial state, whatever the oracles answer (signature layer, revm) and
   whatever keys and values the accepted calls write, as long as each accepted call issues store
   operations of the shape the engine code issues for it ([emits]: writes stamped with the
   block under construction; finalise = block row, raw block row, pool clean-up, hash rows,
   height bookkeeping; commit / clear / reorg as single operations) and each rejected call
   issues none, the concatenated store trace is well-formed. *)
Theorem C01_engine_protocol_implies_wf :
  forall (h : list (call * list sop)),
    allowed W MAX_FUTURE_TRANSACTION_NONCES MAX_FUTURE_TRANSACTION_BLOCKS INDEXER_ADDRESS g_init wf_init h ->
    exists st', wf_run W wf_init (concat (map snd h)) = Some st'.
Proof.
  exact (fun h => engine_history_wf W MAX_FUTURE_TRANSACTION_NONCES MAX_FUTURE_TRANSACTION_BLOCKS INDEXER_ADDRESS
                    h g_init wf_init Rel_init).
Qed.
Print Assumptions C01_engine_protocol_implies_wf.

(* The hypothesis [allowed] is decidable: [allowed_b] (Model/Allowed.v) is evaluated by Coq on
   every history the C05 / C08 correspondence runs record on the real engine (each call with the
   store operations issued while it was served; Model/TieAllowed.v).  A history that passes has a
   well-formed store trace: the chain  real run -> allowed -> wf_run -> store theorems  is
   closed by computation on the recorded histories and by proof everywhere else. *)
Theorem C01_checked_history_wf :
  forall (h : list (call * list sop)),
    allowed_b W MAX_FUTURE_TRANSACTION_NONCES MAX_FUTURE_TRANSACTION_BLOCKS INDEXER_ADDRESS g_init wf_init h = true ->
    exists st', wf_run W wf_init (concat (map snd h)) = Some st'.
Proof.
  exact (checked_history_wf W MAX_FUTURE_TRANSACTION_NONCES MAX_FUTURE_TRANSACTION_BLOCKS INDEXER_ADDRESS).
Qed.
Print Assumptions C01_checked_history_wf.

(* Non-vacuity: a 14-block trace (a key created, overwritten with the same value, zeroed,
   deleted, idle past the window, touched again), committed half-way, then rolled back 10
   blocks, is well-formed, runs, and reads the values as of the target. *)
Definition C01_example_trace : list sop :=
  let blk (b : N) (ws : list sop) := ws ++ [SB 1 b (100 + b); SB 2 b (200 + b); SB 0 b (300 + b); SV b (1000 + b) (Some b); SHash b] in
  blk 0 [SV 0 1 (Some 5)] ++ blk 1 [SV 1 1 (Some 5); SV 1 2 (Some 7)] ++ blk 2 [SV 2 2 (Some 0)] ++
  blk 3 [SV 3 2 None] ++ blk 4 [] ++ [SCommit] ++ blk 5 [] ++ blk 6 [] ++ blk 7 [] ++ blk 8 [] ++ blk 9 [] ++
  blk 10 [] ++ blk 11 [] ++ blk 12 [] ++ blk 13 [SV 13 1 (Some 9)] ++ blk 14 [SV 14 2 (Some 8)] ++ [SReorg 4].
Example C01_nonvacuous :
  wf_run W wf_init C01_example_trace <> None /\
  match sto_run W st_empty C01_example_trace with
  | Ok s' => t_latest (st_t s') 1 = Ok (Some 5) /\ t_latest (st_t s') 2 = Ok None /\
             latest_height s' = 4 /\ b_get (st_blk s') 5 = None /\ b_get (st_blk s') 4 = Some 104
  | _ => False
  end.
Proof. split; [vm_compute; discriminate|vm_compute; repeat split]. Qed.

(* PROGRESS.  The theorems above say what holds IF the store answers [Ok]; this one says it
   always does: on a protocol-conform trace the store model never answers [Err] (its own reorg
   depth guard) and never [Panic]s (a write stamped below the newest stamp of its key's history,
   an emptied history, a rollback below a history's floor).  The extra invariant behind it
   (Proofs/ProgressP.v, [Fresh]): every history the next write can load carries only stamps up
   to the block under construction -- in particular after a reorg, which truncates every
   history to the target although it does not lower the table clock. *)
Theorem C01_store_never_fails_on_wf_traces :
  forall (ops : list sop) (st' : wfst),
    wf_run W wf_init ops = Some st' -> exists s', sto_run W st_empty ops = Ok s'.
Proof. exact (store_run_progress W). Qed.
Print Assumptions C01_store_never_fails_on_wf_traces.

(* One step, from any state satisfying the invariants. *)
Theorem C01_store_step_never_fails :
  forall s F st o st',
    SInv W s F st -> Fresh s st -> wf_step W st o = Some st' -> exists s', sto_step W s o = Ok s'.
Proof. exact (store_step_progress W). Qed.
Print Assumptions C01_store_step_never_fails.

(* END TO END.  For every history of engine calls from the initial state in which each accepted
   call issues store operations of the shape the engine code issues for it and each rejected
   call issues none ([allowed]): the concatenated store trace is well-formed, the store runs it
   without error or panic, ends in a state that represents the plain "value as of block m" map
   of the trace, and every reorg the protocol allows next is accepted and makes every key read
   the value it had at the end of the target block. *)
Theorem C01_end_to_end :
  forall (h : list (call * list sop)),
    allowed W MAX_FUTURE_TRANSACTION_NONCES MAX_FUTURE_TRANSACTION_BLOCKS INDEXER_ADDRESS g_init wf_init h ->
    exists st s,
      wf_run W wf_init (concat (map snd h)) = Some st /\
      sto_run W st_empty (concat (map snd h)) = Ok s /\
      SInv W s (fs_run fs_init (concat (map snd h))) st /\
      forall n st', wf_step W st (SReorg n) = Some st' ->
        exists s', sto_step W s (SReorg n) = Ok s' /\
                   forall k, t_latest (st_t s') k = Ok (fst (fs_run fs_init (concat (map snd h))) k n).
Proof.
  exact (engine_end_to_end W MAX_FUTURE_TRANSACTION_NONCES MAX_FUTURE_TRANSACTION_BLOCKS INDEXER_ADDRESS).
Qed.
Print Assumptions C01_end_to_end.

(* The same for a history that passes the executable check (the recorded histories of the
   correspondence runs). *)
Theorem C01_end_to_end_checked :
  forall (h : list (call * list sop)),
    allowed_b W MAX_FUTURE_TRANSACTION_NONCES MAX_FUTURE_TRANSACTION_BLOCKS INDEXER_ADDRESS g_init wf_init h = true ->
    exists st s,
      wf_run W wf_init (concat (map snd h)) = Some st /\
      sto_run W st_empty (concat (map snd h)) = Ok s /\
      SInv W s (fs_run fs_init (concat (map snd h))) st /\
      forall n st', wf_step W st (SReorg n) = Some st' ->
        exists s', sto_step W s (SReorg n) = Ok s' /\
                   forall k, t_latest (st_t s') k = Ok (fst (fs_run fs_init (concat (map snd h))) k n).
Proof.
  exact (checked_history_end_to_end W MAX_FUTURE_TRANSACTION_NONCES MAX_FUTURE_TRANSACTION_BLOCKS INDEXER_ADDRESS).
Qed.
Print Assumptions C01_end_to_end_checked.

(* Non-vacuity of the end-to-end statement: a history of engine calls (initialise at height 0,
   a transaction and its finalise, three mined blocks, a commit, two more blocks, clearCaches
   back to the commit, the same two heights built again, a reorg to block 4, a refused call,
   heights 5-7 built a third time) passes the check, so the hypothesis of C01_end_to_end holds
   of it; the conclusion is evaluated on it below. *)
Definition C01_example_history : list (call * list sop) :=
  let fin (b : N) (us : list sop) :=
    [SB 1 b (100 + b); SB 2 b (200 + b)] ++ us ++ [SB 0 b (300 + b); SV b (1000 + b) (Some b); SHash b] in
  [ (CInit 0 7 0, [SV 0 1 (Some 5); SV 0 2 (Some 6)] ++ fin 0 []);
    (CTx 50 0 8 0 true, [SV 1 1 (Some 9); SV 1 3 (Some 1)]);
    (CFinalise 8 0 1, fin 1 [SV 1 77 None]);
    (CMine 3 9, fin 2 [] ++ fin 3 [] ++ fin 4 []);
    (CCommit, [SCommit]);
    (CMine 2 9, fin 5 [] ++ fin 6 []);
    (CClear (Some 4) [(0, 1); (1, 2); (2, 3); (3, 4); (4, 5)] [] [], [SClear]);
    (CTx 50 0 8 0 true, [SV 5 1 (Some 11)]);
    (CFinalise 8 0 1, fin 5 []);
    (CMine 1 9, fin 6 []);
    (CReorg 4 [] [], [SReorg 4]);
    (CBadParams, []);
    (CTx 50 0 8 0 true, [SV 5 1 (Some 12); SV 5 3 None]);
    (CFinalise 8 0 1, fin 5 []);
    (CMine 2 9, fin 6 [] ++ fin 7 []) ].
Example C01_end_to_end_nonvacuous :
  allowed_b W MAX_FUTURE_TRANSACTION_NONCES MAX_FUTURE_TRANSACTION_BLOCKS INDEXER_ADDRESS g_init wf_init
            C01_example_history = true /\
  match wf_run W wf_init (concat (map snd C01_example_history)) with
  | Some st =>
      (* the trace ends at height 7, the highest block ever finalised; a reorg to block 5, and one
         to block 0 (7 <= 0 + W), are allowed next, run, and read the values as of the target *)
      wf_step W st (SReorg 5) <> None /\ wf_step W st (SReorg 0) <> None /\
      match sto_run W st_empty (concat (map snd C01_example_history) ++ [SReorg 5]) with
      | Ok s' => t_latest (st_t s') 1 = Ok (Some 12) /\ t_latest (st_t s') 3 = Ok None /\
                 t_latest (st_t s') 2 = Ok (Some 6) /\ latest_height s' = 5
      | _ => False
      end /\
      match sto_run W st_empty (concat (map snd C01_example_history) ++ [SReorg 0]) with
      | Ok s' => t_latest (st_t s') 1 = Ok (Some 5) /\ t_latest (st_t s') 3 = Ok None /\ latest_height s' = 0
      | _ => False
      end
  | None => False
  end.
Proof.
  split; [vm_compute; reflexivity|].
  vm_compute. repeat split; discriminate.
Qed.

(* The store theorems are about ONE merged table; the engine has fifteen.  That merge is sound
   only if reorg touches every table commit and clearCaches touch (a table left out of reorg
   would keep rows of abandoned blocks).  BrcGen.TableOrder is reflected from the store events
   of a real commit / reorg / clearCaches on every run. *)
From BrcGen Require Import TableOrder.
From Coq Require Import String.
Theorem C01_reorg_covers_all_tables :
  forall t, In t commit_tables \/ In t clear_tables -> In t reorg_tables.
Proof.
  assert (H : forallb (fun x => existsb (String.eqb x) reorg_tables) (commit_tables ++ clear_tables) = true)
    by (vm_compute; reflexivity).
  rewrite forallb_forall in H. intros t Ht.
  assert (Hi : In t (commit_tables ++ clear_tables)) by (apply in_or_app; exact Ht).
  apply H in Hi. apply existsb_exists in Hi. destruct Hi as [y [Hy He]].
  apply String.eqb_eq in He. subst y. exact Hy.
Qed.
Print Assumptions C01_reorg_covers_all_tables.

(* assumptions of the theorems above that had no report next to them *)
Print Assumptions C01_window_pinned.
Print Assumptions C01_engine_guard_spec.

(* ---------------------------------------------------------------------------------------
   The tie, as a theorem.  [Tie01.s_check] is the executable checker the correspondence run
   evaluates on every store trace recorded from the real engine (verdict 0 = every operation
   replays, every refusal is the model's, every probe agrees, the trace is well-formed).
   Verdict 0 delivers exactly the hypotheses of [C01_store_trace_invariant] for the recorded
   operations: the model store the engine's probes were compared with satisfies SInv, so the
   reorg / commit / clear theorems of C01, C03 and C13 apply at every accepted case. *)
Theorem C01_accepted_trace_case_satisfies_the_invariant :
  forall items,
    Tie01.s_check W st_empty (Some wf_init) items = 0 ->
    exists s' st', sto_run W st_empty (Tie01P.ops_of items) = Ok s' /\
                   wf_run W wf_init (Tie01P.ops_of items) = Some st' /\
                   SInv W s' (fs_run fs_init (Tie01P.ops_of items)) st'.
Proof. exact (Tie01P.accepted_case_invariant W). Qed.
Print Assumptions C01_accepted_trace_case_satisfies_the_invariant.
