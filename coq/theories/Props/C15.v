(* C15 — inscription payload decoding is lossless, bounded and encoding-independent.
   Statements only; every proof is [exact] of a lemma from Proofs/.  The limit is the constant
   reflected from the compiled crate (gen/Consts.v); the proofs are parametric in it.
   zstd is an oracle: [zstd_c src capacity], [zstd_d src capacity], [zstd_frame_size src]
   are universally quantified, what a theorem assumes of them is written in its statement.
   Strings are lists of their UTF-8 bytes; [bytes x] = every element is below 256.
   [FIXED] is the code with docs/proposed_fixes applied, [AS_WRITTEN] the unchanged tree
   (Model/Payload.v, record [variant]). *)
From Brc.Model Require Import Base Base64 Nada Payload.
From Brc.Proofs Require Import Base64P NadaP PayloadP.
From BrcGen Require Import Consts.

(* The property text fixes the number: 1 MB = 1024 * 1024. *)
Theorem C15_limit_pinned : CALLDATA_LIMIT = 1024 * 1024.
Proof. reflexivity. Qed.

(* The correspondence run compares the implementation with the variant the positive theorems
   below are about. *)
Theorem C15_current_is_fixed : CURRENT = FIXED.
Proof. reflexivity. Qed.

(* ---- base64 (standard alphabet, no padding) ---- *)
Theorem C15_b64_roundtrip : forall x, bytes x -> b64_decode (b64_encode x) = Some x.
Proof. exact b64_roundtrip. Qed.
Print Assumptions C15_b64_roundtrip.

(* the decoder accepts canonical encodings only (no stray trailing bits, no '='), so two
   different strings never decode to the same bytes *)
Theorem C15_b64_decode_canonical : forall s x, b64_decode s = Some x -> bytes x /\ b64_encode x = s.
Proof. exact b64_decode_canonical. Qed.
Print Assumptions C15_b64_decode_canonical.

(* padding: whatever follows the first '=' is irrelevant — for every string, both variants *)
Theorem C15_b64_padding_irrelevant :
  forall zstd_d zstd_frame_size v s k,
    decode_payload zstd_d zstd_frame_size CALLDATA_LIMIT v (s ++ repeat EQ_SIGN k)
    = decode_payload zstd_d zstd_frame_size CALLDATA_LIMIT v s.
Proof. exact (fun zd zf => b64_padding_irrelevant_k zd zf CALLDATA_LIMIT). Qed.
Print Assumptions C15_b64_padding_irrelevant.

(* ---- nada ---- *)
Theorem C15_nada_roundtrip : forall x, exists e, nada_encode x = Ok e /\ nada_decode e = Ok x.
Proof. exact nada_roundtrip. Qed.
Print Assumptions C15_nada_roundtrip.

(* decode_with_limit accepts what decode accepts and is STRICTLY shorter than the limit *)
Theorem C15_nada_decode_with_limit_spec : forall l L o,
  nada_decode_with_limit l L = Ok o <-> nada_decode l = Ok o /\ (l = [] \/ len o < L).
Proof. exact nada_decode_with_limit_spec. Qed.
Print Assumptions C15_nada_decode_with_limit_spec.

(* ---- lossless: every byte string up to the limit, packed by the published encoder,
        decodes to itself (code with the proposed fixes) ---- *)
Theorem C15_payload_roundtrip :
  forall (zstd_c zstd_d : list N -> N -> option (list N)) (zstd_frame_size : list N -> option (option N)),
  (forall x cap z, bytes x -> zstd_c x cap = Some z ->
     bytes z
     /\ (zstd_frame_size z = Some None \/ zstd_frame_size z = Some (Some (len x)))
     /\ (forall cap', len x <= cap' -> zstd_d z cap' = Some x)) ->
  forall x, bytes x -> len x <= CALLDATA_LIMIT ->
  exists e, from_bytes zstd_c CALLDATA_LIMIT FIXED x = Ok e
            /\ decode_payload zstd_d zstd_frame_size CALLDATA_LIMIT FIXED e = Ok (Some x).
Proof.
  exact (fun zc zd zf H x => payload_roundtrip_fixed zc zd zf CALLDATA_LIMIT x H eq_refl).
Qed.
Print Assumptions C15_payload_roundtrip.

(* the unchanged tree: only strictly below the limit and only if the encoder answers at all *)
Theorem C15_payload_roundtrip_as_written_partial :
  forall (zstd_c zstd_d : list N -> N -> option (list N)) (zstd_frame_size : list N -> option (option N)),
  (forall x cap z, bytes x -> zstd_c x cap = Some z ->
     bytes z
     /\ (zstd_frame_size z = Some None \/ zstd_frame_size z = Some (Some (len x)))
     /\ (forall cap', len x <= cap' -> zstd_d z cap' = Some x)) ->
  forall x e, bytes x -> len x < CALLDATA_LIMIT ->
  from_bytes zstd_c CALLDATA_LIMIT AS_WRITTEN x = Ok e ->
  decode_payload zstd_d zstd_frame_size CALLDATA_LIMIT AS_WRITTEN e = Ok (Some x).
Proof.
  exact (fun zc zd zf H x e => payload_roundtrip_as_written_partial zc zd zf CALLDATA_LIMIT x e H eq_refl).
Qed.
Print Assumptions C15_payload_roundtrip_as_written_partial.

(* the unchanged tree at the limit: there are an oracle meeting every assumption and a payload
   of exactly CALLDATA_LIMIT bytes that the encoder packs (as nada) and the decoder refuses *)
Theorem C15_payload_roundtrip_as_written_refuted :
  exists (zstd_c zstd_d : list N -> N -> option (list N)) (zstd_frame_size : list N -> option (option N)),
  (forall x cap z, bytes x -> zstd_c x cap = Some z ->
     bytes z
     /\ (zstd_frame_size z = Some None \/ zstd_frame_size z = Some (Some (len x)))
     /\ (forall cap', len x <= cap' -> zstd_d z cap' = Some x)) /\
  exists x e, bytes x /\ len x = CALLDATA_LIMIT
    /\ from_bytes zstd_c CALLDATA_LIMIT AS_WRITTEN x = Ok e
    /\ decode_payload zstd_d zstd_frame_size CALLDATA_LIMIT AS_WRITTEN e = Ok None.
Proof. exact (payload_roundtrip_as_written_refuted CALLDATA_LIMIT ltac:(discriminate)). Qed.
Print Assumptions C15_payload_roundtrip_as_written_refuted.

(* per branch, unchanged tree, EVERY payload of exactly the limit, EVERY oracle:
   raw and nada packings are refused; the encoder itself fails whenever zstd does not fit *)
Theorem C15_as_written_raw_rejects_limit :
  forall zstd_d zstd_frame_size x, bytes x -> len x = CALLDATA_LIMIT ->
    decode_payload zstd_d zstd_frame_size CALLDATA_LIMIT AS_WRITTEN (b64_encode (0 :: x)) = Ok None.
Proof. exact (fun zd zf => as_written_raw_rejects_limit zd zf CALLDATA_LIMIT). Qed.
Print Assumptions C15_as_written_raw_rejects_limit.

Theorem C15_as_written_nada_rejects_limit :
  forall zstd_d zstd_frame_size x ne, bytes x -> x <> [] -> len x = CALLDATA_LIMIT ->
    nada_encode x = Ok ne ->
    decode_payload zstd_d zstd_frame_size CALLDATA_LIMIT AS_WRITTEN (b64_encode (1 :: ne)) = Ok None.
Proof. exact (fun zd zf => as_written_nada_rejects_limit zd zf CALLDATA_LIMIT). Qed.
Print Assumptions C15_as_written_nada_rejects_limit.

Theorem C15_as_written_encoder_fails :
  forall zstd_c x, zstd_c x CALLDATA_LIMIT = None -> from_bytes zstd_c CALLDATA_LIMIT AS_WRITTEN x = Err.
Proof. exact (fun zc => as_written_encoder_fails zc CALLDATA_LIMIT). Qed.
Print Assumptions C15_as_written_encoder_fails.

(* ---- bounded: every string, every oracle, both variants (nada slack 0 or 1) ---- *)
Theorem C15_decode_bounded :
  forall zstd_d zstd_frame_size v s y, v_nada_slack v <= 1 ->
    decode_payload zstd_d zstd_frame_size CALLDATA_LIMIT v s = Ok (Some y) -> len y <= CALLDATA_LIMIT.
Proof. exact (fun zd zf => decode_bounded zd zf CALLDATA_LIMIT). Qed.
Print Assumptions C15_decode_bounded.

(* ---- unknown prefixes give None ---- *)
Theorem C15_unknown_prefix_none :
  forall zstd_d zstd_frame_size v p body, bytes (p :: body) -> 2 < p ->
    decode_payload zstd_d zstd_frame_size CALLDATA_LIMIT v (b64_encode (p :: body)) = Ok None.
Proof. exact (fun zd zf => unknown_prefix_none_str zd zf CALLDATA_LIMIT). Qed.
Print Assumptions C15_unknown_prefix_none.

(* ---- no panic (fixed code); the unchanged tree panics exactly on "" and "=..." ---- *)
Theorem C15_decode_no_panic :
  forall zstd_d zstd_frame_size s,
    decode_payload zstd_d zstd_frame_size CALLDATA_LIMIT FIXED s <> Panic.
Proof. exact (fun zd zf s => decode_no_panic zd zf CALLDATA_LIMIT FIXED s eq_refl). Qed.
Print Assumptions C15_decode_no_panic.

Theorem C15_decode_no_panic_as_written_refuted :
  forall zstd_d zstd_frame_size s,
    decode_payload zstd_d zstd_frame_size CALLDATA_LIMIT AS_WRITTEN s = Panic
    <-> s = [] \/ exists t, s = EQ_SIGN :: t.
Proof. exact (fun zd zf => as_written_panics_iff zd zf CALLDATA_LIMIT). Qed.
Print Assumptions C15_decode_no_panic_as_written_refuted.

(* ---- hex field vs base64 field ---- *)
Theorem C15_hex_base64_equivalent :
  forall zstd_d zstd_frame_size v h b,
    b64_value zstd_d zstd_frame_size CALLDATA_LIMIT v b = Ok (raw_value h) ->
    select_bytes zstd_d zstd_frame_size CALLDATA_LIMIT v (Some h) None
    = select_bytes zstd_d zstd_frame_size CALLDATA_LIMIT v None (Some b).
Proof. exact (fun zd zf => hex_base64_equivalent zd zf CALLDATA_LIMIT). Qed.
Print Assumptions C15_hex_base64_equivalent.

Theorem C15_select_bytes_both_or_neither :
  forall zstd_d zstd_frame_size v h b,
    select_bytes zstd_d zstd_frame_size CALLDATA_LIMIT v (Some h) (Some b) = Err
    /\ select_bytes zstd_d zstd_frame_size CALLDATA_LIMIT v None None = Err.
Proof. exact (fun zd zf => select_bytes_both_or_neither zd zf CALLDATA_LIMIT). Qed.
Print Assumptions C15_select_bytes_both_or_neither.

(* the same bytes through RawBytes::from_bytes and through Base64Bytes::from_bytes *)
Theorem C15_hex_base64_equivalent_encoders :
  forall (zstd_c zstd_d : list N -> N -> option (list N)) (zstd_frame_size : list N -> option (option N)),
  (forall x cap z, bytes x -> zstd_c x cap = Some z ->
     bytes z
     /\ (zstd_frame_size z = Some None \/ zstd_frame_size z = Some (Some (len x)))
     /\ (forall cap', len x <= cap' -> zstd_d z cap' = Some x)) ->
  forall x, bytes x -> len x <= CALLDATA_LIMIT ->
  exists e, from_bytes zstd_c CALLDATA_LIMIT FIXED x = Ok e
    /\ select_bytes zstd_d zstd_frame_size CALLDATA_LIMIT FIXED (Some (raw_from_bytes x)) None = Ok (Some x)
    /\ select_bytes zstd_d zstd_frame_size CALLDATA_LIMIT FIXED None (Some (Some e)) = Ok (Some x).
Proof.
  exact (fun zc zd zf H x => hex_base64_equivalent_encoded zc zd zf CALLDATA_LIMIT x H eq_refl).
Qed.
Print Assumptions C15_hex_base64_equivalent_encoders.

(* ---- non-vacuity ---- *)
(* "AN6tvu//" = 00 de ad be ef ff; with padding; a nada payload; the crate's own test vector *)
Example C15_ex_raw :
  decode_payload (fun _ _ => None) (fun _ => None) CALLDATA_LIMIT FIXED
    [65; 78; 54; 116; 118; 117; 47; 47; 61; 61] = Ok (Some [222; 173; 190; 239; 255]).
Proof. vm_compute. reflexivity. Qed.
Example C15_ex_nada :
  nada_encode [222; 173; 190; 239; 0; 0; 255; 0; 0; 0; 0; 255; 255]
  = Ok [222; 173; 190; 239; 0; 0; 255; 1; 255; 4; 255; 2].
Proof. vm_compute. reflexivity. Qed.
(* non-canonical trailing bits are refused: "AR" (low bits of 'R' set) vs "AQ" *)
Example C15_ex_noncanonical : b64_decode [65; 82] = None /\ b64_decode [65; 81] = Some [1].
Proof. split; vm_compute; reflexivity. Qed.
(* the hypothesis about zstd is satisfiable (toy codec) *)
Example C15_ex_oracle_hyp_satisfiable : zstd_roundtrip_hyp toy_c toy_d toy_f.
Proof. exact toy_ok. Qed.

(* assumptions of the theorems above that had no report next to them *)
Print Assumptions C15_limit_pinned.
Print Assumptions C15_current_is_fixed.
