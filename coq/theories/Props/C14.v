(* C14 — the storage encoding is lossless, self-delimiting and order-preserving.
   Statements only; every proof is [exact] of a lemma from Proofs/CodecP.v.

   [codec_ok c] unfolds to
     forall x pre rest, wf c x = true ->
       dec c (pre ++ enc c x ++ rest) (length pre) = Ok (x, length pre + length (enc c x))
   i.e. decoding what was encoded, at any offset of any larger buffer, gives back exactly
   the value and stops exactly at the end of its bytes (so encodings concatenate). *)
From Brc.Model Require Import Base History Codec.
From Brc.Proofs Require Import CodecP.
From BrcGen Require Import Consts.

(* ---- lossless and self-delimiting: the statement, spelled out once ---- *)
Theorem C14_roundtrip_statement :
  forall (A : Type) (c : codec A), codec_ok c <->
    (forall x pre rest, wf c x = true ->
       dec c (pre ++ enc c x ++ rest) (length pre) = Ok (x, (length pre + length (enc c x))%nat)).
Proof. exact (fun A c => conj (fun H => H) (fun H => H)). Qed.
Print Assumptions C14_roundtrip_statement.

(* ---- the building blocks (impl Encode/Decode for u8, u32, u64, [T;N], Vec, Option, tuples, String, UintED) ---- *)
Theorem C14_roundtrip_combinators :
  codec_ok c_u8 /\ codec_ok c_u32 /\ codec_ok c_u64 /\
  codec_ok c_U8 /\ codec_ok c_U64 /\ codec_ok c_U128 /\ codec_ok c_U256 /\ codec_ok c_U512 /\
  (forall n, codec_ok (c_fixed n)) /\ codec_ok c_bytes /\ codec_ok c_string /\
  (forall A n (c : codec A), codec_ok c -> codec_ok (c_arr n c)) /\
  (forall A (c : codec A), codec_ok c -> codec_ok (c_vec c)) /\
  (forall A (c : codec A), codec_ok c -> codec_ok (c_opt c)) /\
  (forall A B (ca : codec A) (cb : codec B), codec_ok ca -> codec_ok cb -> codec_ok (c_pair ca cb)).
Proof.
  exact (conj c_u8_ok (conj c_u32_ok (conj c_u64_ok (conj c_U8_ok (conj c_U64_ok (conj c_U128_ok
        (conj c_U256_ok (conj c_U512_ok (conj c_fixed_ok (conj c_bytes_ok (conj c_string_ok
        (conj (@c_arr_ok) (conj (@c_vec_ok) (conj (@c_opt_ok) (@c_pair_ok))))))))))))))).
Qed.
Print Assumptions C14_roundtrip_combinators.

(* ---- every persisted / served type ---- *)
Theorem C14_roundtrip_account : codec_ok c_account.
Proof. exact c_account_ok. Qed.
Print Assumptions C14_roundtrip_account.

Theorem C14_roundtrip_bytecode : codec_ok c_bytecode.
Proof. exact c_bytecode_ok. Qed.
Print Assumptions C14_roundtrip_bytecode.

Theorem C14_roundtrip_log : codec_ok c_log.
Proof. exact c_log_ok. Qed.
Print Assumptions C14_roundtrip_log.

(* for whatever chain id the process is configured with *)
Theorem C14_roundtrip_tx : forall chain, codec_ok (c_tx chain).
Proof. exact c_tx_ok. Qed.
Print Assumptions C14_roundtrip_tx.

Theorem C14_roundtrip_receipt : codec_ok c_receipt.
Proof. exact c_receipt_ok. Qed.
Print Assumptions C14_roundtrip_receipt.

(* with the gas limit constant of the compiled crate *)
Theorem C14_roundtrip_block : codec_ok (c_block (MAX_BLOCK_SIZE * GAS_PER_BYTE)).
Proof. exact (c_block_ok (MAX_BLOCK_SIZE * GAS_PER_BYTE)). Qed.
Print Assumptions C14_roundtrip_block.

Theorem C14_roundtrip_trace : codec_ok c_trace.
Proof. exact c_trace_ok. Qed.
Print Assumptions C14_roundtrip_trace.

(* histories of any stored value type *)
Theorem C14_roundtrip_history : forall (V : Type) (c : codec V), codec_ok c -> codec_ok (c_hist c).
Proof. exact (@c_hist_ok). Qed.
Print Assumptions C14_roundtrip_history.

(* composite keys: (AddressED, U64ED) *)
Theorem C14_roundtrip_addr_nonce : codec_ok c_addr_nonce.
Proof. exact (c_pair_ok c_addr c_U64 c_addr_ok c_U64_ok). Qed.
Print Assumptions C14_roundtrip_addr_nonce.

(* raw blocks: for ANY RLP layer that round-trips and produces bytes (alloy_rlp is outside
   the model), the storage form "0x"+hex as String / Vec<String> is lossless *)
Theorem C14_roundtrip_rawblock :
  forall (BL RC : Type) (rlp_block : BL -> bytes) (unrlp_block : bytes -> option BL)
         (rlp_receipt : RC -> bytes) (unrlp_receipt : bytes -> option RC),
    (forall b, bytes_ok (rlp_block b) = true) -> (forall r, bytes_ok (rlp_receipt r) = true) ->
    (forall b, unrlp_block (rlp_block b) = Some b) -> (forall r, unrlp_receipt (rlp_receipt r) = Some r) ->
    codec_ok (c_rawblock BL RC rlp_block unrlp_block rlp_receipt unrlp_receipt).
Proof. exact c_rawblock_ok. Qed.
Print Assumptions C14_roundtrip_rawblock.

(* ---- order: encoded keys compare as their values ---- *)
Theorem C14_order_u64 : forall a b, wf c_u64 a = true -> wf c_u64 b = true ->
  lexb (enc c_u64 a) (enc c_u64 b) = (a <? b).
Proof. exact order_u64. Qed.
Print Assumptions C14_order_u64.

Theorem C14_order_U64 : forall a b, wf c_U64 a = true -> wf c_U64 b = true ->
  lexb (enc c_U64 a) (enc c_U64 b) = (a <? b).
Proof. exact order_U64. Qed.
Print Assumptions C14_order_U64.

Theorem C14_order_U128 : forall a b, wf c_U128 a = true -> wf c_U128 b = true ->
  lexb (enc c_U128 a) (enc c_U128 b) = (a <? b).
Proof. exact order_U128. Qed.
Print Assumptions C14_order_U128.

Theorem C14_order_U256 : forall a b, wf c_U256 a = true -> wf c_U256 b = true ->
  lexb (enc c_U256 a) (enc c_U256 b) = (a <? b).
Proof. exact order_U256. Qed.
Print Assumptions C14_order_U256.

Theorem C14_order_U512 : forall a b, wf c_U512 a = true -> wf c_U512 b = true ->
  lexb (enc c_U512 a) (enc c_U512 b) = (a <? b).
Proof. exact order_U512. Qed.
Print Assumptions C14_order_U512.

(* the full three-way comparison, any width (hence also: equal encodings <-> equal values) *)
Theorem C14_order_uint_compare : forall bits limbs a b,
  a < limb_base ^ N.of_nat limbs -> b < limb_base ^ N.of_nat limbs ->
  lcmp (enc (c_uint bits limbs) a) (enc (c_uint bits limbs) b) = (a ?= b).
Proof. exact order_uint_cmp. Qed.
Print Assumptions C14_order_uint_compare.

(* fixed-width byte keys (AddressED, B256ED): the encoding is the byte string, and byte
   order is the order of the big-endian numbers *)
Theorem C14_order_fixed : forall n a b,
  lcmp (enc (c_fixed n) a) (enc (c_fixed n) b) = lcmp a b.
Proof. exact order_fixed. Qed.
Print Assumptions C14_order_fixed.

Theorem C14_order_fixed_numeric : forall a b,
  bytes_ok a = true -> bytes_ok b = true -> length a = length b ->
  lcmp a b = (of_be a ?= of_be b).
Proof. exact order_fixed_numeric. Qed.
Print Assumptions C14_order_fixed_numeric.

(* (AddressED, U64ED): address first, then nonce *)
Theorem C14_order_addr_nonce : forall p q, wf c_addr_nonce p = true -> wf c_addr_nonce q = true ->
  lexb (enc c_addr_nonce p) (enc c_addr_nonce q) = pair_lt p q.
Proof. exact order_addr_nonce. Qed.
Print Assumptions C14_order_addr_nonce.

(* get_all_pending_txes_from: the scan [(a,0), (a,U64::MAX)) holds exactly a's nonces below U64::MAX *)
Theorem C14_pending_range : forall a a' n,
  wf c_addr_nonce (a, 0) = true -> wf c_addr_nonce (a', n) = true ->
  in_range (enc c_addr_nonce (a', n)) (enc c_addr_nonce (a, 0)) (enc c_addr_nonce (a, 2 ^ 64 - 1)) = true
  <-> a' = a /\ n < 2 ^ 64 - 1.
Proof. exact pending_range. Qed.
Print Assumptions C14_pending_range.

(* (block << 64) | idx as U128ED: block first, then index; the shift-or is block*2^64+idx *)
Theorem C14_ni_key_is_sum : forall b i, i < 2 ^ 64 -> ni_key b i = b * 2 ^ 64 + i.
Proof. exact ni_key_add. Qed.
Print Assumptions C14_ni_key_is_sum.

Theorem C14_order_block_idx : forall b1 i1 b2 i2,
  b1 < 2 ^ 64 -> i1 < 2 ^ 64 -> b2 < 2 ^ 64 -> i2 < 2 ^ 64 ->
  lcmp (enc c_U128 (ni_key b1 i1)) (enc c_U128 (ni_key b2 i2))
  = match b1 ?= b2 with Eq => i1 ?= i2 | c => c end.
Proof. exact order_block_idx_cmp. Qed.
Print Assumptions C14_order_block_idx.

(* get_logs / get_block_tx_count / generate_block: the scan [key(b,0), key(b+1,0)) holds
   exactly the entries of block b *)
Theorem C14_block_range : forall b b' i,
  b + 1 < 2 ^ 64 -> b' < 2 ^ 64 -> i < 2 ^ 64 ->
  in_range (enc c_U128 (ni_key b' i)) (enc c_U128 (ni_key b 0)) (enc c_U128 (ni_key (b + 1) 0)) = true
  <-> b' = b.
Proof. exact block_range. Qed.
Print Assumptions C14_block_range.

(* "last block" lookups: the last key of a byte-ordered map of u64 keys is the maximum; the
   key written by put (u64) and the one used by delete / last_key (U64ED) are the same bytes *)
Theorem C14_last_key_is_max : forall ks,
  forallb (wf c_u64) ks = true -> byte_sorted (map (enc c_u64) ks) = true ->
  forall k, In k ks -> k <= last ks 0.
Proof. exact last_key_is_max. Qed.
Print Assumptions C14_last_key_is_max.

Theorem C14_u64_key_forms_agree : forall a, a < 2 ^ 64 -> enc c_U64 a = enc c_u64 a.
Proof. exact enc_U64_u64. Qed.
Print Assumptions C14_u64_key_forms_agree.

(* (address, storage slot) keys are injective and fit 512 bits *)
Theorem C14_slot_key_injective : forall a1 m1 a2 m2,
  wf c_addr a1 = true -> wf c_addr a2 = true -> m1 < 2 ^ 256 -> m2 < 2 ^ 256 ->
  slot_key a1 m1 = slot_key a2 m2 -> a1 = a2 /\ m1 = m2.
Proof. exact slot_key_inj. Qed.
Print Assumptions C14_slot_key_injective.

(* ---- and where the order law does NOT hold: length-prefixed String keys.  Nobody may
   range-scan them (the module only does exact lookups on inscription ids). ---- *)
Theorem C14_order_string_fails :
  exists a b, wf c_string a = true /\ wf c_string b = true /\
              lexb a b = true /\ lexb (enc c_string a) (enc c_string b) = false.
Proof. exact order_string_fails. Qed.
Print Assumptions C14_order_string_fails.

(* ---- non-vacuity: concrete non-trivial values meet wf and go through the codecs ---- *)
Definition ex_addr : bytes := be 20 1311768467294899695.
Definition ex_hash : bytes := be 32 (2 ^ 255 + 77).
Definition ex_log : log :=
  {| l_address := ex_addr; l_topics := [ex_hash; zeros 32]; l_data := [1; 2; 3; 255]; l_tx_index := 3;
     l_tx_hash := ex_hash; l_block_hash := ex_hash; l_block_number := 2 ^ 32; l_log_index := 2 ^ 64 - 1 |}.
Definition ex_tx : tx :=
  {| x_hash := ex_hash; x_nonce := 256; x_block_hash := ex_hash; x_block_number := Some (2 ^ 32 - 1);
     x_tx_index := None; x_from := ex_addr; x_to := Some (zeros 20); x_value := 0; x_gas := 2 ^ 64 - 1;
     x_gas_price := 0; x_input := [96; 128; 96; 64; 82]; x_v := 255; x_r := 2 ^ 256 - 1; x_s := 1;
     x_chain_id := 72987069952115; x_type := 0;
     x_inscription_id := Some [104; 195; 169; 108; 108; 111; 105; 48] |}.
Definition ex_receipt : receipt :=
  {| r_status := 1; r_logs := [ex_log; ex_log]; r_gas_used := 21000; r_from := ex_addr; r_to := None;
     r_contract_address := Some ex_addr; r_logs_bloom := be 256 (2 ^ 2047 + 5); r_block_hash := ex_hash;
     r_block_number := 7; r_tx_hash := ex_hash; r_tx_index := 0; r_cumulative_gas_used := 2 ^ 32;
     r_effective_gas_price := 0; r_type := 0 |}.
Definition ex_block : block :=
  {| b_difficulty := 0; b_gas_limit := MAX_BLOCK_SIZE * GAS_PER_BYTE; b_gas_used := 5; b_hash := ex_hash;
     b_logs_bloom := zeros 256; b_nonce := 6; b_number := 2 ^ 32; b_timestamp := 1700000000;
     b_mine_timestamp := 2 ^ 64 + 9; b_transactions := Some [ex_hash; zeros 32; ex_hash];
     b_transactions_root := ex_hash; b_total_difficulty := 0; b_parent_hash := zeros 32;
     b_receipts_root := zeros 32; b_size := 0; b_rest_default := true |}.
Definition ex_leaf : trace := Trace [67; 65; 76; 76] ex_addr None [] 1 2 [] [7] 0 (Some [111; 111; 103]) None.
Definition ex_trace : trace :=
  Trace [67; 82; 69; 65; 84; 69] ex_addr (Some ex_addr) [ex_leaf; Trace [] ex_addr None [ex_leaf] 3 4 [1] [] (2 ^ 256 - 1) None (Some [])]
        (2 ^ 64) 21000 [96; 0] [] 0 None None.

Example C14_nonvacuous_values :
  wf c_log ex_log = true /\ wf (c_tx 72987069952115) ex_tx = true /\ wf c_receipt ex_receipt = true
  /\ wf (c_block (MAX_BLOCK_SIZE * GAS_PER_BYTE)) ex_block = true /\ wf c_trace ex_trace = true
  /\ wf (c_hist c_account) [(0, None); (5, Some {| a_balance := 2 ^ 200; a_nonce := 1; a_code_hash := ex_hash |}); (2 ^ 33, None)] = true
  /\ wf c_bytecode (239 :: 1 :: 0 :: ex_addr) = true
  /\ wf c_addr_nonce (ex_addr, 2 ^ 64 - 1) = true.
Proof. vm_compute. repeat split. Qed.

(* three different values back to back, at a non-zero offset, decode one after the other *)
Example C14_nonvacuous_concatenation :
  let buf := [9; 9] ++ enc (c_tx 72987069952115) ex_tx ++ enc c_receipt ex_receipt ++ enc c_trace ex_trace ++ [1] in
  match dec (c_tx 72987069952115) buf 2 with
  | Ok (_, o1) => match dec c_receipt buf o1 with
                  | Ok (_, o2) => match dec c_trace buf o2 with
                                  | Ok (_, o3) => S o3 = length buf
                                  | _ => False end
                  | _ => False end
  | _ => False end.
Proof. vm_compute. reflexivity. Qed.

(* the order law on concrete keys that differ only in a high / low limb *)
Example C14_nonvacuous_order :
  lexb (enc c_U128 (ni_key 1 0)) (enc c_U128 (ni_key 0 (2 ^ 64 - 1))) = false
  /\ lexb (enc c_U128 (ni_key 255 7)) (enc c_U128 (ni_key 256 0)) = true
  /\ lexb (enc c_addr_nonce (ex_addr, 256)) (enc c_addr_nonce (ex_addr, 255)) = false
  /\ lexb (enc c_U512 (slot_key ex_addr 1)) (enc c_U512 (slot_key ex_addr 2)) = true.
Proof. vm_compute. repeat split. Qed.
