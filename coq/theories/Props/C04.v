(* C04 — a crash at any write can be recovered exactly by a reorg to a durable height.
   Statements only.  RocksDB is modelled as a map with atomic single-key writes of which a
   crash keeps a prefix (torn writes, fsync and power loss are RocksDB's contract). *)
From Brc.Model Require Import Base History Table BlockTable Store Crash TieCrash.
From Brc.Proofs Require Import HistoryP KvP TableP BlockTableP StoreP CrashP.
From BrcGen Require Import Consts.
From Coq Require Import Sorting.Permutation.

(* Versioned tables, key by key (keys are independent).  A commit(b) writes two rows per
   cached key.  Whatever subset of them reached the disk before the crash — nothing, the
   first of the two, or both — reopening (the cache is gone) and a reorg to any n that is
   durable (n <= cd, up to which the uncommitted writes agree with the committed state) and
   inside the window yields exactly the values as of n.  This covers a crash inside
   commitToDatabase and inside the commit phase of a reorg (whose in-memory roll-back is lost
   with the cache). *)
Theorem C04_crash_in_commit_recovers :
  forall (V : Type) (veq : V -> V -> bool), (forall a b, veq a b = true <-> a = b) ->
  forall (c : cell) (S Sv : N -> option V) (clk sclk b cd n : N),
    CellRepr W c S Sv clk sclk ->
    (forall m, m <= cd -> S m = Sv m) ->
    n <= cd -> N.max clk (b - 1) <= n + W ->
    forall K, (K = crash_none c \/ crash_mid W b c = Ok K \/ crash_both W b c = Ok K) ->
    exists c' clk', c_reorg W n K = Ok c' /\
                    CellRepr W c' (s_reorg S n) (s_reorg S n) clk' clk'.
Proof. exact (fun V veq Hveq => @crash_in_commit_recovers V W). Qed.
Print Assumptions C04_crash_in_commit_recovers.

(* Why the order of the two writes matters (the defect repaired by the "fix:" commit on
   BlockCachedDatabase::commit): a key with no history row and a stale latest row is not
   touched by any later reorg. *)
Theorem C04_delete_first_unrecoverable :
  forall (V : Type) (n : N) (d : option V), c_reorg W n (d, None, None) = Ok (d, None, None).
Proof. exact (fun V => @crash_delete_first_unrecoverable V W). Qed.

(* Block-keyed tables: a crash after any number of the puts of a commit, reopen, reorg to n
   below the rows being committed: the rows up to n are the durable ones, nothing above. *)
Theorem C04_block_rows_crash_in_commit :
  forall (t : btable N) k n x,
    (forall e, In e (b_cache t) -> n < fst e) ->
    b_get (b_reorg (mkBTable (fold_left (fun d e => kv_put d (fst e) (snd e)) (firstn k (b_cache t)) (b_db t)) []) n) x
    = if x <=? n then kv_get (b_db t) x else None.
Proof. exact (@b_crash_in_commit_then_reorg N). Qed.
Print Assumptions C04_block_rows_crash_in_commit.

(* A crash outside commit / reorg loses exactly the uncommitted work: reopening drops the
   in-memory state, which is what clearCaches does (C03_clear_is_last_commit). *)
Theorem C04_crash_outside_commit :
  forall s F st st' s' k m,
    SInv W s F st -> wf_step W st SClear = Some st' -> sto_step W s SClear = Ok s' ->
    w_m st <= m -> t_latest (st_t s') k = Ok (snd F k m).
Proof. exact (clear_is_last_commit W). Qed.
Print Assumptions C04_crash_outside_commit.

(* Non-vacuity, and the scenario of the repaired defect on the model: key 3 written at block
   3 and again at 24 and 27, committed at 28; reorg(22) crashes after the first write for that
   key; reopen; reorg(22) again reads the value as of block 22. *)
Example C04_nonvacuous :
  let ops := [TSet 3 3 3; TCommit 18; TSet 24 3 2; TSet 27 3 1; TCommit 28] in
  match t_run N.eqb W t_empty ops with
  | Ok t =>
      match reorg_keys t 22 (map fst (t_cdb t) ++ map fst (t_cache t)) with
      | Ok t1 =>
          (* history row kept?  no: [(3,3)] is_old at 22, so the latest row goes first *)
          let crashed := mkTable (kv_put (t_db t1) 3 3) (t_cdb t1) [] in
          match t_reorg W crashed 22 with
          | Ok tr => t_latest tr 3 = Ok (Some 3)
          | _ => False
          end
      | _ => False
      end
  | _ => False
  end.
Proof. vm_compute. reflexivity. Qed.

(* ============================ the whole store ============================
   Model/Crash.v lists the ATOMIC persistent writes of Brc20ProgDatabase::commit_changes and
   ::reorg in the order the code issues them ([commit_script_ord], [reorg_script_ord]; [es] is
   the order in which the HashMaps happen to iterate: any permutation of the cached entries).
   A crash keeps a prefix [p] of the script; [reopen] starts a process on the files (every cache
   empty, no cached height); [engine_reorg] is the engine's reorg: its guard (refuse / no-op /
   do) in front of the store's reorg.

   [crun W wf_init st_empty ops = Some (st, s)]: [ops] is a history of store operations from
   an empty database that follows the block protocol ([wf_run]: stamps, one block at a time,
   commit/reorg only between blocks, reorg targets inside the window) and in which
   set_block_hash puts the height row before it moves the height, and reorgs go to existing
   blocks; [s] is the store it leads to.  (Evaluated by Coq on the recorded traces of the real
   engine in the C04 tie.)  [w_m st] is the highest block ever finalised, [fs_run fs_init ops]
   the per-key "value as of block m" functions of the history. *)

(* the scripts ARE commit_changes / reorg: running a whole script on the files gives the files
   of the model's sto_commit / sto_reorg *)
Theorem C04_commit_script_is_commit :
  forall (s : store) (es : kv vhist) (s' : store),
    ksorted (t_db (st_t s)) -> ksorted (t_cdb (st_t s)) -> NoDup (map fst (t_cache (st_t s))) ->
    Permutation es (t_cache (st_t s)) ->
    sto_commit W s = Ok s' ->
    exists ws, commit_script_ord W s es = Ok ws /\ apply_pwrites (persistent s) ws = persistent s'.
Proof. exact (commit_script_ord_correct W). Qed.
Print Assumptions C04_commit_script_is_commit.

Theorem C04_reorg_script_is_reorg :
  forall (s : store) (n : N) (t1 : @table N) (es1 : kv vhist) (s' : store),
    bsorted s -> ksorted (t_db (st_t s)) -> ksorted (t_cdb (st_t s)) -> NoDup (map fst (t_cache (st_t s))) ->
    reorg_keys (st_t s) n (map fst (t_cdb (st_t s)) ++ map fst (t_cache (st_t s))) = Ok t1 ->
    Permutation es1 (t_cache t1) ->
    sto_reorg W s n = Ok s' ->
    exists ws, reorg_script_ord W s n es1 = Ok ws /\ apply_pwrites (persistent s) ws = persistent s'.
Proof. exact (reorg_script_ord_correct W). Qed.
Print Assumptions C04_reorg_script_is_reorg.

(* A crash after ANY prefix [p] of the writes of commit_changes, reopen, and the engine's reorg
   to ANY block n whose height row was durable before the crash and that is inside the window:
   the reorg is not refused (it is a no-op only when nothing but flushes had happened and n is
   the committed height), and afterwards every versioned key reads its value as of block n,
   the three block tables hold exactly the durable rows up to n, the height is n, and the
   store invariant of C01/C03 holds again (so everything proved for uncrashed runs applies to
   the continuation). *)
Theorem C04_store_crash_in_commit_recovers :
  forall (ops : list sop) (st : wfst) (s : store) (es : kv vhist) (ws p q : list pwrite) (n : N),
    crun W wf_init st_empty ops = Some (st, s) ->
    w_dirty st = false ->
    Permutation es (t_cache (st_t s)) ->
    commit_script_ord W s es = Ok ws -> ws = p ++ q ->
    kv_get (b_db (st_hash s)) n <> None ->
    w_m st <= n + W ->
    exists s2,
      engine_reorg W (reopen (apply_pwrites (persistent s) p)) n = Ok s2 /\
      (forall k, t_latest (st_t s2) k = Ok (fst (fs_run fs_init ops) k n)) /\
      (forall x, b_get (st_hash s2) x = if x <=? n then kv_get (b_db (st_hash s)) x else None) /\
      (forall x, b_get (st_blk s2) x = if x <=? n then kv_get (b_db (st_blk s)) x else None) /\
      (forall x, b_get (st_raw s2) x = if x <=? n then kv_get (b_db (st_raw s)) x else None) /\
      latest_height s2 = n /\ next_height s2 = n + 1 /\
      SInv W s2 (fun k => s_reorg (fst (fs_run fs_init ops) k) n, fun k => s_reorg (fst (fs_run fs_init ops) k) n)
           (mkWf (Some n) (w_m st) (Some n) false None).
Proof. exact (crun_commit_crash W). Qed.
Print Assumptions C04_store_crash_in_commit_recovers.

(* The same for a crash after ANY prefix of the writes of reorg(n0) (issued by the engine: n0
   below the height, block n0 exists), then reopen and the engine's reorg to n0 again or to any
   durable n <= n0 inside the window.  This is the discipline of defect F18: heights persisted
   first, trimmed last. *)
Theorem C04_store_crash_in_reorg_recovers :
  forall (ops : list sop) (st : wfst) (s : store) (n0 : N) (t1 : @table N) (es1 : kv vhist)
         (ws p q : list pwrite) (n : N),
    crun W wf_init st_empty ops = Some (st, s) ->
    w_dirty st = false ->
    engine_reorg_guard W 0 s n0 = RvDo -> b_get (st_hash s) n0 <> None ->
    reorg_keys (st_t s) n0 (map fst (t_cdb (st_t s)) ++ map fst (t_cache (st_t s))) = Ok t1 ->
    Permutation es1 (t_cache t1) ->
    reorg_script_ord W s n0 es1 = Ok ws -> ws = p ++ q ->
    kv_get (b_db (st_hash s)) n <> None -> n <= n0 ->
    w_m st <= n + W ->
    exists s2,
      engine_reorg W (reopen (apply_pwrites (persistent s) p)) n = Ok s2 /\
      (forall k, t_latest (st_t s2) k = Ok (fst (fs_run fs_init ops) k n)) /\
      (forall x, b_get (st_hash s2) x = if x <=? n then kv_get (b_db (st_hash s)) x else None) /\
      (forall x, b_get (st_blk s2) x = if x <=? n then kv_get (b_db (st_blk s)) x else None) /\
      (forall x, b_get (st_raw s2) x = if x <=? n then kv_get (b_db (st_raw s)) x else None) /\
      latest_height s2 = n /\ next_height s2 = n + 1 /\
      SInv W s2 (fun k => s_reorg (fst (fs_run fs_init ops) k) n, fun k => s_reorg (fst (fs_run fs_init ops) k) n)
           (mkWf (Some n) (w_m st) (Some n) false None).
Proof. exact (crun_reorg_crash W). Qed.
Print Assumptions C04_store_crash_in_reorg_recovers.

(* "durable before the crash" is what the hypothesis says: a block with a durable height row is
   at or below the height of the last commit; and up to that height the uncommitted work has
   not changed any value *)
Theorem C04_durable_means_committed :
  forall (ops : list sop) (st : wfst) (s : store) (n : N),
    crun W wf_init st_empty ops = Some (st, s) ->
    kv_get (b_db (st_hash s)) n <> None ->
    exists hc, w_hc st = Some hc /\ n <= hc /\
               forall k m, m <= hc -> fst (fs_run fs_init ops) k m = snd (fs_run fs_init ops) k m.
Proof.
  intros ops st s n Hrun Hn.
  destruct (crun_inv W ops _ _ _ _ _ (SInv_init W) CInv_init Hrun) as [_ CI].
  destruct (bt_db _ _ (ci_hash _ _ _ CI) n ltac:(apply kv_get_in_keys; exact Hn)) as (hc & E & Hle).
  exists hc. split; [exact E|]. split; [exact Hle|]. apply (ci_agree _ _ _ CI hc E).
Qed.
Print Assumptions C04_durable_means_committed.

(* Non-vacuity on a concrete multi-key, multi-block store: blocks 0 and 1 committed, blocks 2
   and 3 finalised; commit_changes crashes after EVERY prefix of its 20 writes; reopen; the
   engine's reorg to block 1 (durable): keys 1, 2, 3 read 2, 5, nothing; height 1; the rows of
   blocks 2 and 3 are gone.  The prefix of length 13 ends between the two writes of key 3. *)
Definition ex_blk (n : N) (writes : list (N * option N)) : list sop :=
  map (fun w => SV n (fst w) (snd w)) writes
  ++ [SB 1 n (100 + n); SB 2 n (200 + n); SB 0 n (300 + n); SV n (1000 + n) (Some n); SHash n].
Definition ex_ops : list sop :=
  ex_blk 0 [(1, Some 1)] ++ ex_blk 1 [(1, Some 2); (2, Some 5)] ++ [SCommit]
  ++ ex_blk 2 [(1, Some 3); (2, None)] ++ ex_blk 3 [(3, Some 7)].
Definition ex_rd (s : store) (k : N) : option N :=
  match t_latest (st_t s) k with Ok v => v | _ => Some 999999 end.
Definition ex_ok_at (s2 : store) (n : N) (vals hrows brows : list (option N)) : bool :=
  list_eqb (opt_eqb N.eqb) (map (ex_rd s2) [1; 2; 3]) vals && (latest_height s2 =? n)
  && list_eqb (opt_eqb N.eqb) (map (b_get (st_hash s2)) [1; 2; 3]) hrows
  && list_eqb (opt_eqb N.eqb) (map (b_get (st_blk s2)) [1; 2; 3]) brows.

Example C04_store_nonvacuous_commit :
  match crun W wf_init st_empty ex_ops with
  | Some (st, s) =>
      match commit_script W s with
      | Ok ws =>
          Nat.eqb (length ws) 20
          && match nth 12 ws (PFlush 9), nth 13 ws (PFlush 9) with
             | PHistPut 3 _, PLatestPut 3 7 => true
             | _, _ => false
             end
          && forallb (fun j =>
               match engine_reorg W (reopen (apply_pwrites (persistent s) (firstn j ws))) 1 with
               | Ok s2 => ex_ok_at s2 1 [Some 2; Some 5; None] [Some 301; None; None] [Some 101; None; None]
               | _ => false
               end) (seq 0 21)
      | _ => false
      end
  | None => false
  end = true.
Proof. vm_compute. reflexivity. Qed.

(* and for a crashed reorg: everything committed (height 3), reorg(1) crashes after every
   prefix of its writes, reopen, then reorg(1) again, or reorg(0) *)
Example C04_store_nonvacuous_reorg :
  match crun W wf_init st_empty (ex_ops ++ [SCommit]) with
  | Some (st, s) =>
      match reorg_script W s 1 with
      | Ok ws =>
          Nat.ltb 20 (length ws)
          && forallb (fun j =>
               match engine_reorg W (reopen (apply_pwrites (persistent s) (firstn j ws))) 1,
                     engine_reorg W (reopen (apply_pwrites (persistent s) (firstn j ws))) 0 with
               | Ok s2, Ok s3 =>
                   ex_ok_at s2 1 [Some 2; Some 5; None] [Some 301; None; None] [Some 101; None; None]
                   && ex_ok_at s3 0 [Some 1; None; None] [None; None; None] [None; None; None]
               | _, _ => false
               end) (seq 0 (S (length ws)))
      | _ => false
      end
  | None => false
  end = true.
Proof. vm_compute. reflexivity. Qed.

(* ---- the write discipline the engine actually follows, reflected from a real run ----
   BrcGen.TableOrder is regenerated by `hx reflect` on every run from the recorded store events
   of one commit, one reorg and one clearCaches of the real engine.  The crash theorems above
   are per table; what makes them compose across tables is the ORDER of the persistent writes:
   the heights table (block_number_to_hash, which get_latest_block_height reads) is written
   first by commit (so a crash leaves "the new height" visible only together with a prefix of
   the remaining writes that reorg/commit-replay can finish), persisted first and trimmed last
   by reorg (defect F18: so that after a crash inside reorg the guard of a repeated reorg still
   admits the same target).  These statements are decided by computation on the reflected
   lists; a change of the order in last_block.rs / db/mod.rs falsifies them. *)
From BrcGen Require Import TableOrder.
From Coq Require Import String.

Definition heights_table : string := "block_number_to_hash"%string.
Definition str_in (x : string) (l : list string) : bool := existsb (String.eqb x) l.
Definition subset_str (a b : list string) : bool := forallb (fun x => str_in x b) a.

Theorem C04_heights_first_in_commit :
  hd EmptyString commit_tables = heights_table /\ hd EmptyString commit_write_order = heights_table.
Proof. split; vm_compute; reflexivity. Qed.
Print Assumptions C04_heights_first_in_commit.

Theorem C04_reorg_heights_persisted_first_trimmed_last :
  reorg_first_write = heights_table /\ last reorg_block_trim_order EmptyString = heights_table
  /\ last reorg_tables EmptyString = heights_table.
Proof. repeat split; vm_compute; reflexivity. Qed.
Print Assumptions C04_reorg_heights_persisted_first_trimmed_last.

(* every table a commit persists is also rolled back by reorg and dropped by clearCaches, and
   conversely: no table escapes the crash/rollback discipline *)
Theorem C04_same_tables_everywhere :
  subset_str commit_tables reorg_tables = true /\ subset_str reorg_tables commit_tables = true /\
  subset_str commit_tables clear_tables = true /\ subset_str clear_tables commit_tables = true /\
  NoDup commit_tables.
Proof.
  repeat split; try (vm_compute; reflexivity).
  apply (NoDup_count_occ' string_dec). intros x Hx.
  repeat (destruct Hx as [<- | Hx]; [vm_compute; reflexivity|]). destruct Hx.
Qed.
Print Assumptions C04_same_tables_everywhere.

(* The table order the store-level tie (Model/TieCrash.v) expects from the recorded writes of
   commit_changes / reorg is the reflected one: block tables first (heights first) then the
   versioned tables for a commit; versioned tables then block tables (heights last) for the
   roll-back phase of a reorg. *)
Definition vname (i : N) : string := nth (N.to_nat i) vtable_names EmptyString.

Theorem C04_tie_table_order_is_reflected :
  commit_tables = btable_names ++ map vname commit_vorder /\
  reorg_tables = map vname reorg_vorder ++ [nth 1 btable_names EmptyString; nth 2 btable_names EmptyString;
                                            nth 0 btable_names EmptyString].
Proof. split; vm_compute; reflexivity. Qed.
Print Assumptions C04_tie_table_order_is_reflected.

(* assumptions of the theorems above that had no report next to them *)
Print Assumptions C04_delete_first_unrecoverable.
