(* C04 — a crash at any write can be recovered exactly by a reorg to a durable height.
   Statements only.  RocksDB is modelled as a map with atomic single-key writes of which a
   crash keeps a prefix (torn writes, fsync and power loss are RocksDB's contract). *)
From Brc.Model Require Import Base History Table BlockTable Store.
From Brc.Proofs Require Import HistoryP KvP TableP BlockTableP StoreP.
From BrcGen Require Import Consts.

(* Versioned tables, key by key (keys are independent).  A commit(b) writes two rows per
   cached key.  Whatever subset of them reached the disk before the crash — nothing, the
   first of the two, or both — reopening (the cache is gone) and a reorg to any n that is
   durable (n <= cd, up to which the uncommitted writes agree with the committed state) and
   inside the window yields exactly the values as of n.  This covers a crash inside
   commitToDatabase and inside the commit phase of a reorg (whose in-memory roll-back is lost
   with the cache). *)
Theorem C04_crash_in_commit_recovers :
  forall (V : Type) (veq : V -> V -> bool), (forall a b, veq a b = true <-> a = b) ->
  forall (c : cell) (S Sv : N -> option V) (clk sclk b cd n : N),
    CellRepr W c S Sv clk sclk ->
    (forall m, m <= cd -> S m = Sv m) ->
    n <= cd -> N.max clk (b - 1) <= n + W ->
    forall K, (K = crash_none c \/ crash_mid W b c = Ok K \/ crash_both W b c = Ok K) ->
    exists c' clk', c_reorg W n K = Ok c' /\
                    CellRepr W c' (s_reorg S n) (s_reorg S n) clk' clk'.
Proof. exact (fun V veq Hveq => @crash_in_commit_recovers V W). Qed.
Print Assumptions C04_crash_in_commit_recovers.

(* Why the order of the two writes matters (the defect repaired by the "fix:" commit on
   BlockCachedDatabase::commit): a key with no history row and a stale latest row is not
   touched by any later reorg. *)
Theorem C04_delete_first_unrecoverable :
  forall (V : Type) (n : N) (d : option V), c_reorg W n (d, None, None) = Ok (d, None, None).
Proof. exact (fun V => @crash_delete_first_unrecoverable V W). Qed.

(* Block-keyed tables: a crash after any number of the puts of a commit, reopen, reorg to n
   below the rows being committed: the rows up to n are the durable ones, nothing above. *)
Theorem C04_block_rows_crash_in_commit :
  forall (t : btable N) k n x,
    (forall e, In e (b_cache t) -> n < fst e) ->
    b_get (b_reorg (mkBTable (fold_left (fun d e => kv_put d (fst e) (snd e)) (firstn k (b_cache t)) (b_db t)) []) n) x
    = if x <=? n then kv_get (b_db t) x else None.
Proof. exact (@b_crash_in_commit_then_reorg N). Qed.
Print Assumptions C04_block_rows_crash_in_commit.

(* A crash outside commit / reorg loses exactly the uncommitted work: reopening drops the
   in-memory state, which is what clearCaches does (C03_clear_is_last_commit). *)
Theorem C04_crash_outside_commit :
  forall s F st st' s' k m,
    SInv W s F st -> wf_step W st SClear = Some st' -> sto_step W s SClear = Ok s' ->
    w_m st <= m -> t_latest (st_t s') k = Ok (snd F k m).
Proof. exact (clear_is_last_commit W). Qed.

(* Non-vacuity, and the scenario of the repaired defect on the model: key 3 written at block
   3 and again at 24 and 27, committed at 28; reorg(22) crashes after the first write for that
   key; reopen; reorg(22) again reads the value as of block 22. *)
Example C04_nonvacuous :
  let ops := [TSet 3 3 3; TCommit 18; TSet 24 3 2; TSet 27 3 1; TCommit 28] in
  match t_run N.eqb W t_empty ops with
  | Ok t =>
      match reorg_keys t 22 (map fst (t_cdb t) ++ map fst (t_cache t)) with
      | Ok t1 =>
          (* history row kept?  no: [(3,3)] is_old at 22, so the latest row goes first *)
          let crashed := mkTable (kv_put (t_db t1) 3 3) (t_cdb t1) [] in
          match t_reorg W crashed 22 with
          | Ok tr => t_latest tr 3 = Ok (Some 3)
          | _ => False
          end
      | _ => False
      end
  | _ => False
  end.
Proof. vm_compute. reflexivity. Qed.
