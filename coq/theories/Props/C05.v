(* C05 — a rejected indexer call changes nothing; the block protocol is enforced.
   Statements only, about the engine protocol model (Model/Engine.v), for every engine state,
   every call and every answer of the oracles (signature recovery, revm validation). *)
From Brc.Model Require Import Base Table Engine.
From Brc.Proofs Require Import EngineP.
From BrcGen Require Import Consts.

Notation step := (e_step W MAX_FUTURE_TRANSACTION_NONCES MAX_FUTURE_TRANSACTION_BLOCKS INDEXER_ADDRESS).

Theorem C05_reject_no_effect :
  forall g c, snd (step g c) = ORejected -> fst (step g c) = g.
Proof. exact (reject_no_effect W MAX_FUTURE_TRANSACTION_NONCES MAX_FUTURE_TRANSACTION_BLOCKS INDEXER_ADDRESS). Qed.
Print Assumptions C05_reject_no_effect.

Theorem C05_wrong_tx_idx_rejected :
  forall g a idx ts h v, idx <> g_wait g -> snd (step g (CTx a idx ts h v)) = ORejected.
Proof. exact (wrong_tx_idx_rejected W MAX_FUTURE_TRANSACTION_NONCES MAX_FUTURE_TRANSACTION_BLOCKS INDEXER_ADDRESS). Qed.

Theorem C05_midblock_timestamp_or_hash_mismatch_rejected :
  forall g a idx ts h v,
    g_wait g <> 0 -> (ts <> g_ts g \/ resolve_hash h (next_h g) <> g_hash g) ->
    snd (step g (CTx a idx ts h v)) = ORejected.
Proof. exact (midblock_mismatch_rejected W MAX_FUTURE_TRANSACTION_NONCES MAX_FUTURE_TRANSACTION_BLOCKS INDEXER_ADDRESS). Qed.

Theorem C05_finalise_wrong_count_rejected :
  forall g ts h cnt, cnt <> g_wait g -> snd (step g (CFinalise ts h cnt)) = ORejected.
Proof. exact (finalise_wrong_count_rejected W MAX_FUTURE_TRANSACTION_NONCES MAX_FUTURE_TRANSACTION_BLOCKS INDEXER_ADDRESS). Qed.

Theorem C05_existing_hash_rejected :
  forall g a idx ts h v,
    hash_exists g (resolve_hash h (next_h g)) = true -> snd (step g (CTx a idx ts h v)) = ORejected.
Proof. exact (existing_hash_rejected W MAX_FUTURE_TRANSACTION_NONCES MAX_FUTURE_TRANSACTION_BLOCKS INDEXER_ADDRESS). Qed.

Theorem C05_open_block_refuses_commit_reorg_mine :
  forall g, g_wait g <> 0 \/ g_dirty g = true ->
    snd (step g CCommit) = ORejected /\
    (forall n nn pl, snd (step g (CReorg n nn pl)) = ORejected) /\
    (forall c ts, snd (step g (CMine c ts)) = ORejected).
Proof. exact (open_block_refuses_commit_reorg_mine W MAX_FUTURE_TRANSACTION_NONCES MAX_FUTURE_TRANSACTION_BLOCKS INDEXER_ADDRESS). Qed.
Print Assumptions C05_open_block_refuses_commit_reorg_mine.

(* Both or neither of the two data encodings: refused by select_bytes before the engine is
   reached (C15_select_bytes_both_or_neither proves that function's verdict). *)
Theorem C05_bad_encodings_rejected : forall g, step g CBadParams = (g, ORejected).
Proof. reflexivity. Qed.

(* Non-vacuity: an accepted two-transaction block, then a rejected third call. *)
Example C05_nonvacuous :
  let g1 := fst (step g_init (CMine 1 7)) in
  let g2 := fst (step g1 (CTx 42 0 9 0 true)) in
  let g3 := fst (step g2 (CTx 42 1 9 0 true)) in
  snd (step g3 (CTx 42 1 9 0 true)) = ORejected /\ g_wait g3 = 2 /\ next_h g3 = 1.
Proof. vm_compute. repeat split. Qed.

(* assumptions of the theorems above that had no report next to them *)
Print Assumptions C05_wrong_tx_idx_rejected.
Print Assumptions C05_midblock_timestamp_or_hash_mismatch_rejected.
Print Assumptions C05_finalise_wrong_count_rejected.
Print Assumptions C05_existing_hash_rejected.
Print Assumptions C05_bad_encodings_rejected.
