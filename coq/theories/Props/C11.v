(* C11 — concurrent readers and the indexer can never deadlock the server.
   Statements only; every proof is [exact] of a lemma from Proofs/LocksP.v or a computation
   on the lock programs reflected from the running code (gen/LockPrograms.v, regenerated on
   every run by driving the whole RPC surface with the SharedData recorder on).

   Model (Model/Locks.v): locks are numbers; a handler is a list of [Acq l R|W] / [Rel l];
   a configuration is a list of threads (remaining program, held multiset, queued flag);
   [step c i] lets thread i take one step under the writer-preferring semantics of
   std::sync::RwLock on this platform: a read request is granted iff no writer holds the
   lock and no writer is queued on it, a write request iff nobody holds it; a request that
   is not granted queues and the thread cannot step until it becomes grantable. *)
From Brc.Model Require Import Base Locks Tie11.
From Brc.Proofs Require Import LocksP.
From BrcGen Require Import LockPrograms.

(* The discipline.  [written] = the locks some program of the set takes in write mode.
   [disciplined written order p] (Inductive [disc], started with nothing held) says:
   p is well bracketed (releases only what it holds, ends holding nothing); whenever p
   requests a lock of [written] it does not already hold that lock in any mode and every
   lock of [written] it holds has a strictly smaller [order]; a lock outside [written] is
   only ever requested in read mode (and is then unconstrained: such a request never waits
   and such a hold never makes anybody wait). *)

(* If every program of a set is disciplined - with [written] computed from the set itself -
   then for ANY number of threads running ANY multiset of those programs and ANY schedule:
   (1) the configuration reached is not a deadlock: either every thread has finished or some
       thread can take a step;
   (2) the schedule is no longer than an explicit bound (two steps per instruction plus one
       per thread), so there is no infinite schedule;
   (3) a maximal schedule (nobody can step any more) ends with all programs finished. *)
Theorem C11_disciplined_deadlock_free :
  forall (order : N -> N) (progs : list prog),
    (forall p, In p progs -> disciplined (written_of progs) order p) ->
    forall threads : list prog, (forall p, In p threads -> In p progs) ->
    forall (sched : list nat) (c : config),
      run (init threads) sched = Some c ->
      (finished c = true \/ exists i c', step c i = Some c')
      /\ (length sched <= schedule_bound threads)%nat
      /\ ((forall i, step c i = None) -> finished c = true)
      /\ deadlocked c = false.
Proof.
  exact (fun order progs H threads Hsub =>
           disciplined_run (written_of progs) order threads (fun p Hp => H p (Hsub p Hp))).
Qed.
Print Assumptions C11_disciplined_deadlock_free.

(* The same for every grant policy between writer-preferring and reader-preferring: in a
   configuration reached by any mixture of strict steps and liberal steps (a reader is let in
   past a queued writer), a STRICT step is still enabled unless everything has finished.  And
   no sequence of such steps is infinite. *)
Theorem C11_deadlock_free_any_grant_policy :
  forall (order : N -> N) (progs : list prog),
    (forall p, In p progs -> disciplined (written_of progs) order p) ->
    forall threads : list prog, (forall p, In p threads -> In p progs) ->
    (forall c, reach (init threads) c ->
       (finished c = true \/ exists i c', step c i = Some c') /\ deadlocked c = false)
    /\ (forall (f : nat -> config) (g : nat -> nat * bool),
          ~ (forall n, step_gen (snd (g n)) (f n) (fst (g n)) = Some (f (S n)))).
Proof.
  exact (fun order progs H threads Hsub =>
           conj (disciplined_reach (written_of progs) order threads (fun p Hp => H p (Hsub p Hp)))
                no_infinite_schedule).
Qed.
Print Assumptions C11_deadlock_free_any_grant_policy.

(* The boolean checker decides the discipline (soundness is the direction the property
   needs; completeness says the checker rejects nothing it should accept). *)
Theorem C11_disciplinedb_sound :
  forall written order p, disciplinedb written order p = true -> disciplined written order p.
Proof. exact (fun written order p => proj1 (disciplinedb_iff written order p)). Qed.
Print Assumptions C11_disciplinedb_sound.

Theorem C11_disciplinedb_complete :
  forall written order p, disciplined written order p -> disciplinedb written order p = true.
Proof. exact (fun written order p => proj2 (disciplinedb_iff written order p)). Qed.
Print Assumptions C11_disciplinedb_complete.

(* A program that requests a lock it already holds deadlocks against a writer of that lock:
   [witness p] computes the configuration (thread 0 = p, thread 1 = [Acq l W; Rel l]) and the
   schedule (thread 0 up to its re-entrant request; thread 1 requests the write lock and
   queues; thread 0 makes its re-entrant request and queues); running it ends in a deadlock. *)
Theorem C11_undisciplined_witness :
  forall p c s, witness p = Some (c, s) ->
    exists c', run c s = Some c' /\ deadlocked c' = true.
Proof. exact witness_deadlock. Qed.
Print Assumptions C11_undisciplined_witness.

(* ... and for the plain re-entrant read it is the three-step schedule A reads l; B requests
   write l; A re-reads l. *)
Example C11_witness_three_steps :
  witness [Acq 1 R; Acq 1 R; Rel 1; Rel 1]
  = Some (init [[Acq 1 R; Acq 1 R; Rel 1; Rel 1]; [Acq 1 W; Rel 1]], [0; 1; 0]%nat)
  /\ witness_deadlocks [Acq 1 R; Acq 1 R; Rel 1; Rel 1] = true.
Proof. split; vm_compute; reflexivity. Qed.

(* The lock programs of the RPC handlers, as recorded from the running code on this run,
   are all disciplined (with the written set computed from them and the order the generated
   file declares), and the recorder covered every SharedData call site of the sources. *)
Theorem C11_handlers_disciplined :
  forallb (disciplinedb (written_of programs) order) programs = true
  /\ reflect_complete = true.
Proof. split; vm_compute; reflexivity. Qed.
Print Assumptions C11_handlers_disciplined.

(* The waiver for never-written locks is what lets the re-entrant CONFIG reads pass: it
   applies because no handler program takes the configuration lock in write mode (start()
   writes it before the server exists: [startup_programs]). *)
Theorem C11_config_never_written_by_handlers :
  memN lock_cfg (written_of programs) = false.
Proof. vm_compute; reflexivity. Qed.
Print Assumptions C11_config_never_written_by_handlers.

(* Hence: any number of concurrent requests, any methods, any interleaving. *)
Theorem C11_handlers_deadlock_free :
  forall threads : list prog, (forall p, In p threads -> In p programs) ->
  forall (sched : list nat) (c : config),
    run (init threads) sched = Some c ->
    (finished c = true \/ exists i c', step c i = Some c')
    /\ (length sched <= schedule_bound threads)%nat
    /\ ((forall i, step c i = None) -> finished c = true)
    /\ deadlocked c = false.
Proof.
  exact (C11_disciplined_deadlock_free order programs
           (fun p Hp => C11_disciplinedb_sound _ _ p
              (proj1 (forallb_forall _ _) (proj1 C11_handlers_disciplined) p Hp))).
Qed.
Print Assumptions C11_handlers_deadlock_free.

(* Non-vacuity and sharpness. *)

(* a disciplined set with nesting, a re-entrant read of a never-written lock (9) and two
   writers: the checker accepts it and exhaustive exploration of three threads agrees *)
Example C11_discipline_nonvacuous :
  let ps := [[Acq 0 W; Acq 1 R; Rel 1; Acq 9 R; Acq 9 R; Rel 9; Rel 9; Acq 1 W; Rel 1; Rel 0];
             [Acq 1 W; Rel 1; Acq 0 W; Rel 0];
             [Acq 0 R; Acq 9 R; Rel 9; Rel 0]] in
  forallb (disciplinedb (written_of ps) (fun l => l)) ps = true
  /\ no_deadlock_within 40 (init ps) = true.
Proof. split; vm_compute; reflexivity. Qed.

(* each clause of the discipline is needed: dropping it admits a set that deadlocks *)
Example C11_order_is_needed :
  no_deadlock_within 6 (init [[Acq 0 W; Acq 1 W; Rel 1; Rel 0]; [Acq 1 W; Acq 0 W; Rel 0; Rel 1]]) = false.
Proof. vm_compute; reflexivity. Qed.

Example C11_no_reentry_is_needed :
  no_deadlock_within 6 (init [[Acq 0 R; Acq 0 R; Rel 0; Rel 0]; [Acq 0 W; Rel 0]]) = false
  /\ disciplinedb [0] (fun l => l) [Acq 0 R; Acq 0 R; Rel 0; Rel 0] = false
  (* while the same shape on a lock nobody writes is harmless *)
  /\ no_deadlock_within 12 (init [[Acq 0 R; Acq 0 R; Rel 0; Rel 0]; [Acq 0 R; Rel 0]]) = true
  /\ disciplinedb [] (fun l => l) [Acq 0 R; Acq 0 R; Rel 0; Rel 0] = true.
Proof. repeat split; vm_compute; reflexivity. Qed.

(* writer preference is what makes the re-entrant read fatal: under the liberal grant
   policy the same three steps do not block thread 0 *)
Example C11_writer_preference_matters :
  let c := init [[Acq 1 R; Acq 1 R; Rel 1; Rel 1]; [Acq 1 W; Rel 1]] in
  match run c [0; 1]%nat with
  | Some c2 => match step_gen true c2 0, step_gen false c2 0 with
               | Some a, Some b => negb (t_wait (nth 0 a (init_thread []))) && t_wait (nth 0 b (init_thread []))
               | _, _ => false
               end
  | None => false
  end = true.
Proof. vm_compute; reflexivity. Qed.
