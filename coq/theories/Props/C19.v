(* C19 — contracts see exactly the block context the indexer supplied.
   Statements only, about Model/Env.v (what the module hands to revm) and the block-hash table
   as Database::block_hash reads it.  That an opcode returns the corresponding field of the
   environment is revm's (checked by the probe contract in the correspondence run). *)
From Brc.Model Require Import Base Table BlockTable Engine Gas Env.
From Brc.Proofs Require Import EnvP.
From BrcGen Require Import Consts.

Notation GPB := GAS_PER_BYTE.
Notation PM := PRAGUE_ACTIVATION_HEIGHT_MAINNET.
Notation PS := PRAGUE_ACTIVATION_HEIGHT_SIGNET.
Notation op_ti := (op_ti INDEXER_ADDRESS CONTROLLER_ADDRESS).
Notation op_env := (op_env GPB PM PS INDEXER_ADDRESS CONTROLLER_ADDRESS).
Notation rpc_tx_env := (rpc_tx_env GPB PM PS INDEXER_ADDRESS CONTROLLER_ADDRESS).
Notation read_env := (read_env PM PS).
Notation read_multi_envs := (read_multi_envs PM PS).
Notation get_evm_spec := (get_evm_spec PM PS).

Theorem C19_fork_heights_pinned : PM = 923369 /\ PS = 275000.
Proof. split; reflexivity. Qed.

(* Every transaction (inscription, signed, drained, deposit / withdraw, genesis): block number =
   the height being built, the supplied timestamp, the supplied hash (zero replaced by the
   generated hash number + 1) as randomness, the configured chain id in both places, zero base
   fee / gas price / coinbase / difficulty / value, caller = the operation's sender. *)
Theorem C19_env_fields :
  forall cf g o hash ts,
    let e := rpc_tx_env cf g o hash ts in
    be_number (e_block e) = next_h g /\
    be_timestamp (e_block e) = ts /\
    be_prevrandao (e_block e) = Some (resolve_hash hash (next_h g)) /\
    ce_chain_id (e_cfg e) = cf_chain_id cf /\
    te_chain_id (e_tx e) = Some (cf_chain_id cf) /\
    be_basefee (e_block e) = 0 /\ te_gas_price (e_tx e) = 0 /\ be_beneficiary (e_block e) = 0 /\
    be_difficulty (e_block e) = 0 /\ te_value (e_tx e) = 0 /\
    te_caller (e_tx e) = ti_from (op_ti o) /\
    te_kind (e_tx e) = ti_to (op_ti o) /\ te_data (e_tx e) = ti_data (op_ti o) /\
    ce_spec (e_cfg e) = get_evm_spec (cf_net cf) (next_h g).
Proof. exact (tx_env_fields GPB PM PS INDEXER_ADDRESS CONTROLLER_ADDRESS). Qed.
Print Assumptions C19_env_fields.

(* who the sender is, per kind of operation *)
Theorem C19_sender :
  forall cf g hash ts,
    (forall ti len txid, te_caller (e_tx (rpc_tx_env cf g (OInscr ti len txid) hash ts)) = ti_from ti) /\
    (forall from nonce to data len txid,
        te_caller (e_tx (rpc_tx_env cf g (OSigned from nonce to data len txid) hash ts)) = from) /\
    (forall p, te_caller (e_tx (rpc_tx_env cf g (ODrained p) hash ts)) = pk_from p) /\
    (forall d, te_caller (e_tx (rpc_tx_env cf g (OIndexer d) hash ts)) = INDEXER_ADDRESS) /\
    (forall d, te_caller (e_tx (rpc_tx_env cf g (OGenesis d) hash ts)) = INDEXER_ADDRESS).
Proof. exact (tx_env_sender GPB PM PS INDEXER_ADDRESS CONTROLLER_ADDRESS). Qed.

(* The Bitcoin txid handed to the precompile provider is the one supplied with that call; for a
   parked transaction the one stored with it at parking time (zero if that row is missing);
   zero for deposit / withdraw / genesis and for eth_call; per index for eth_callMany. *)
Theorem C19_txid_of_this_tx :
  forall cf number hash ts an,
    (forall ti len txid, e_txid (op_env cf (OInscr ti len txid) number hash ts an) = txid) /\
    (forall f n t d len txid, e_txid (op_env cf (OSigned f n t d len txid) number hash ts an) = txid) /\
    (forall ti nonce len txid, e_txid (op_env cf (ODrained (park GPB ti nonce len txid)) number hash ts an) = txid) /\
    (forall p, pk_txid p = None -> e_txid (op_env cf (ODrained p) number hash ts an) = 0) /\
    (forall d, e_txid (op_env cf (OIndexer d) number hash ts an) = 0) /\
    (forall d, e_txid (op_env cf (OGenesis d) number hash ts an) = 0).
Proof. exact (txid_of_this_tx GPB PM PS INDEXER_ADDRESS CONTROLLER_ADDRESS). Qed.
Print Assumptions C19_txid_of_this_tx.

Theorem C19_txid_reads :
  (forall cf ti bh next now gas an, e_txid (read_env cf ti bh next now gas an) = 0) /\
  (forall cf tis bh next now txids gases acct i ti, nth_error tis i = Some ti ->
      exists e, nth_error (read_multi_envs cf tis bh next now txids gases acct) i = Some e /\
        e_txid e = nth_txid txids i /\
        be_number (e_block e) = match bh with Some h => h | None => next end /\
        te_caller (e_tx e) = ti_from ti /\ te_kind (e_tx e) = ti_to ti /\ te_data (e_tx e) = ti_data ti).
Proof. exact (conj (txid_read PM PS) (multi_txid PM PS)). Qed.

(* eth_callMany: the nonce of call i is the account nonce plus the number of earlier calls of
   the same sender in the batch. *)
Theorem C19_multi_nonce :
  forall cf tis bh next now txids gases acct i ti, nth_error tis i = Some ti ->
    exists e, nth_error (read_multi_envs cf tis bh next now txids gases acct) i = Some e /\
      te_nonce (e_tx e) = acct (ti_from ti) + earlier tis i (ti_from ti).
Proof. exact (multi_nonce PM PS). Qed.

(* A parked transaction runs with its own sender, target, data and nonce. *)
Theorem C19_parked_identity :
  forall ti nonce len txid,
    op_ti (ODrained (park GPB ti nonce len txid)) = mkTi (ti_from ti) (ti_to ti) (ti_data ti) (Some nonce).
Proof. exact (park_roundtrip GPB INDEXER_ADDRESS CONTROLLER_ADDRESS). Qed.

(* The current-txid helper is in the dispatch table exactly where the Prague rules are in
   force; which rules are in force is decided by network and height. *)
Theorem C19_txid_helper_only_prague :
  (forall cf o number hash ts an,
      e_helper (op_env cf o number hash ts an) = true <-> get_evm_spec (cf_net cf) number = PRAGUE) /\
  (forall cf ti bh next now gas an,
      e_helper (read_env cf ti bh next now gas an) = true <->
      get_evm_spec (cf_net cf) (match bh with Some h => h | None => next end) = PRAGUE) /\
  (forall number,
      (get_evm_spec NetBitcoin number = PRAGUE <-> PM <= number) /\
      (get_evm_spec NetSignet number = PRAGUE <-> PS <= number) /\
      get_evm_spec NetOther number = PRAGUE).
Proof.
  exact (conj (helper_iff_prague GPB PM PS INDEXER_ADDRESS CONTROLLER_ADDRESS)
        (conj (helper_iff_prague_read PM PS) (spec_by_network PM PS))).
Qed.
Print Assumptions C19_txid_helper_only_prague.

(* BLOCKHASH's source: the block-hash table's current value, uncommitted rows included, zero
   where the table has no row. *)
Theorem C19_blockhash_view :
  (forall (t : btable N) n,
      block_hash_view t n =
        match kv_get (b_cache t) n with
        | Some h => h
        | None => match kv_get (b_db t) n with Some h => h | None => 0 end
        end) /\
  (forall (t : btable N) n h, block_hash_view (b_set t n h) n = h) /\
  (forall (t : btable N) n, kv_get (b_cache t) n = None -> kv_get (b_db t) n = None -> block_hash_view t n = 0).
Proof. exact (conj blockhash_view (conj blockhash_uncommitted blockhash_absent)). Qed.
Print Assumptions C19_blockhash_view.

(* Non-vacuity: signet just below and at the activation height; a drained parked transaction
   carrying its own txid into a block built with another one. *)
Example C19_nonvacuous :
  let cf := mkConfig 1111 NetSignet 1000000000 in
  let ti := mkTi 42 (KCall 99) (mkBytes 4 123456) None in
  let lo := op_env cf (OInscr ti 100 777) 274999 0 555 5 in
  let hi := op_env cf (OInscr ti 100 777) 275000 0 555 5 in
  let dr := op_env cf (ODrained (park GPB ti 6 100 888)) 275000 0 555 5 in
  e_helper lo = false /\ e_helper hi = true /\ ce_spec (e_cfg lo) = CANCUN /\
  e_txid hi = 777 /\ e_txid dr = 888 /\ te_nonce (e_tx dr) = 6 /\ te_nonce (e_tx hi) = 5 /\
  be_prevrandao (e_block hi) = Some 275001 /\ te_gas_limit (e_tx dr) = 1200000.
Proof. vm_compute. repeat split. Qed.

(* assumptions of the theorems above that had no report next to them *)
Print Assumptions C19_fork_heights_pinned.
Print Assumptions C19_sender.
Print Assumptions C19_txid_reads.
Print Assumptions C19_multi_nonce.
Print Assumptions C19_parked_identity.
