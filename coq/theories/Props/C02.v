(* C02 — replicas fed the same call history agree byte for byte.  Statements only.
   What the module itself could make differ between replicas is (a) the iteration order of its
   in-memory hash maps and (b) consensus constants drifting without a protocol-version bump;
   both are settled here.  Determinism of revm and the libraries underneath is an assumption,
   exercised by the two-process correspondence run. *)
From Brc.Model Require Import Base History Table Logs.
From Brc.Proofs Require Import HistoryP KvP TableP LogsP.
From BrcGen Require Import Consts.
From Coq Require Import Sorting.Permutation.

(* Two tables with the same database contents whose in-memory caches hold the same entries in
   ANY two orders answer every point read and every range scan identically (equal lists, not
   merely permutations). *)
Theorem C02_cache_order_unobservable :
  forall (V : Type) (t1 t2 : @table V) (T : tspec) lo hi,
    TRepr W t1 T -> t_db t2 = t_db t1 -> t_cdb t2 = t_cdb t1 ->
    Permutation (t_cache t1) (t_cache t2) ->
    TRepr W t2 T /\
    (forall k, t_latest t2 k = t_latest t1 k) /\
    t_get_range t2 lo hi = t_get_range t1 lo hi.
Proof. exact (fun V => @cache_order_unobservable V W). Qed.
Print Assumptions C02_cache_order_unobservable.

(* eth_getLogs is a function of the ordered rows the range scan returns (hence of the state
   only): it is the filter of the chain-ordered log list. *)
Theorem C02_logs_function_of_ordered_rows :
  forall latest from to addr topics rows r,
    Forall (fun e => e_idx e < 2 ^ 64) rows ->
    get_logs latest from to addr topics rows = Ok r ->
    let f := match from with Some x => x | None => latest end in
    let t := match to with Some x => x | None => f end in
    r = filter (log_matches addr topics) (chain_logs f t rows) /\ t - f <= 5.
Proof. exact get_logs_eq_spec. Qed.

(* Consensus constants cannot drift while the protocol version stays 2. *)
Theorem C02_consts_pinned :
  PROTOCOL_VERSION = 2 ->
  (W, MAX_FUTURE_TRANSACTION_NONCES, MAX_FUTURE_TRANSACTION_BLOCKS, GAS_PER_BYTE, CALLDATA_LIMIT,
   GAS_PER_OP_RETURN_TX_ID, GAS_PER_BITCOIN_RPC_CALL, GAS_PER_BIP_322_VERIFY, GAS_PER_LOCKED_PKSCRIPT)
  = (10, 10, 10, 12000, 1048576, 40, 400000, 20000, 20000).
Proof. vm_compute. intros H. first [reflexivity | discriminate H]. Qed.
Print Assumptions C02_consts_pinned.

