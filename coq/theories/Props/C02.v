(* C02 — replicas fed the same call history agree byte for byte.  Statements only.
   What the module itself could make differ between replicas is (a) the iteration order of its
   in-memory hash maps and (b) consensus constants drifting without a protocol-version bump;
   both are settled here.  Determinism of revm and the libraries underneath is an assumption,
   exercised by the two-process correspondence run. *)
From Brc.Model Require Import Base History Table Logs.
From Brc.Proofs Require Import HistoryP KvP TableP ReplicaP LogsP.
From BrcGen Require Import Consts.
From Coq Require Import Sorting.Permutation.

(* Two tables with the same database contents whose in-memory caches hold the same entries in
   ANY two orders answer every point read and every range scan identically (equal lists, not
   merely permutations). *)
Theorem C02_cache_order_unobservable :
  forall (V : Type) (t1 t2 : @table V) (T : tspec) lo hi,
    TRepr W t1 T -> t_db t2 = t_db t1 -> t_cdb t2 = t_cdb t1 ->
    Permutation (t_cache t1) (t_cache t2) ->
    TRepr W t2 T /\
    (forall k, t_latest t2 k = t_latest t1 k) /\
    t_get_range t2 lo hi = t_get_range t1 lo hi.
Proof. exact (fun V => @cache_order_unobservable V W). Qed.
Print Assumptions C02_cache_order_unobservable.

(* eth_getLogs is a function of the ordered rows the range scan returns (hence of the state
   only): it is the filter of the chain-ordered log list. *)
Theorem C02_logs_function_of_ordered_rows :
  forall latest from to addr topics rows r,
    Forall (fun e => e_idx e < 2 ^ 64) rows ->
    get_logs latest from to addr topics rows = Ok r ->
    let f := match from with Some x => x | None => latest end in
    let t := match to with Some x => x | None => f end in
    r = filter (log_matches addr topics) (chain_logs f t rows) /\ t - f <= 5.
Proof. exact get_logs_eq_spec. Qed.
Print Assumptions C02_logs_function_of_ordered_rows.

(* Consensus constants cannot drift while the protocol version stays 2. *)
Theorem C02_consts_pinned :
  PROTOCOL_VERSION = 2 ->
  (W, MAX_FUTURE_TRANSACTION_NONCES, MAX_FUTURE_TRANSACTION_BLOCKS, GAS_PER_BYTE, CALLDATA_LIMIT,
   GAS_PER_OP_RETURN_TX_ID, GAS_PER_BITCOIN_RPC_CALL, GAS_PER_BIP_322_VERIFY, GAS_PER_LOCKED_PKSCRIPT)
  = (10, 10, 10, 12000, 1048576, 40, 400000, 20000, 20000).
Proof. vm_compute. intros H. first [reflexivity | discriminate H]. Qed.
Print Assumptions C02_consts_pinned.


(* ---------------------------------------------------------------------------------------
   Whole histories.  A replica performs each table operation as the code does and then holds
   its in-memory hash map in ANY order ([shuffle]: same rows, same entries, any permutation),
   re-chosen after every operation.  Two replicas whose starting states represent the same
   specification state (e.g. both fresh; or one holding in its cache what the other has
   already in its rows), fed the same operations with every rollback inside the window,
   answer every point read and every range scan identically - equal lists in equal order -
   at the end of the history and at the end of every prefix of it. *)
Theorem C02_replicas_agree_over_histories :
  forall (V : Type) (veq : V -> V -> bool), (forall a b, veq a b = true <-> a = b) ->
  forall (t1 t2 : @table V) (T : tspec) ops1 ops2 t1' t2',
    TRepr W t1 T -> TRepr W t2 T -> run_in_window W T (ops1 ++ ops2) ->
    replica_run veq W t1 ops1 t1' -> replica_run veq W t2 ops1 t2' ->
    (forall k, t_latest t1' k = t_latest t2' k) /\
    (forall lo hi, t_get_range t1' lo hi = t_get_range t2' lo hi).
Proof. exact (fun V veq Hveq => replicas_agree_at_every_prefix veq Hveq W). Qed.
Print Assumptions C02_replicas_agree_over_histories.

(* The model's own deterministic run (what the correspondence check executes) is one such
   replica, so the theorem speaks about it. *)
Theorem C02_model_run_is_a_replica :
  forall (V : Type) (veq : V -> V -> bool) ops (t t' : @table V),
    t_run veq W t ops = Ok t' -> replica_run veq W t ops t'.
Proof. exact (fun V veq ops => t_run_is_replica_run veq W ops). Qed.
Print Assumptions C02_model_run_is_a_replica.

(* "Restarted or not": dropping the process state at a clean boundary (current = saved
   specification state) changes no read. *)
Theorem C02_restart_unobservable :
  forall (V : Type) (t : @table V) (T : tspec),
    TRepr W t T -> (forall k m, ts_cur T k m = ts_sav T k m) -> ts_clk T = ts_sclk T ->
    (forall k, t_latest (t_clear t) k = t_latest t k) /\
    (forall lo hi, t_get_range (t_clear t) lo hi = t_get_range t lo hi).
Proof. exact (fun V => @restarted_replica_agrees V W). Qed.
Print Assumptions C02_restart_unobservable.

(* Non-vacuity: two replicas of one history whose caches end up in opposite orders; the
   range scan of both is the same key-ordered list. *)
Example C02_nonvacuous_replicas :
  let ops := [TSet 1 7 70; TSet 1 3 30; TSet 1 5 50] in
  match t_run N.eqb W t_empty ops with
  | Ok t =>
      let t2 := mkTable (t_db t) (t_cdb t) (rev (t_cache t)) in
      map fst (t_cache t) <> map fst (t_cache t2) /\
      t_get_range t 0 10 = Ok [(3, 30); (5, 50); (7, 70)] /\
      t_get_range t2 0 10 = Ok [(3, 30); (5, 50); (7, 70)]
  | _ => False
  end.
Proof. vm_compute. repeat split. discriminate. Qed.
