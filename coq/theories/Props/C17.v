(* C17 — eth_call predicts what the same transaction will do.
   Statements only, about Model/Env.v: the environment read_contract hands to revm for a
   sender / target / data at a block boundary against the one add_tx_to_block hands over for the
   transaction executed next.  revm is an oracle ([evm]); "its answer is a function of the
   environment and the state it reads" is the assumption, made explicit as [insensitive]. *)
From Brc.Model Require Import Base Table Engine Gas Env.
From Brc.Proofs Require Import EnvP.
From BrcGen Require Import Consts.

Notation GPB := GAS_PER_BYTE.
Notation PM := PRAGUE_ACTIVATION_HEIGHT_MAINNET.
Notation PS := PRAGUE_ACTIVATION_HEIGHT_SIGNET.
Notation rpc_tx_env := (rpc_tx_env GPB PM PS INDEXER_ADDRESS CONTROLLER_ADDRESS).
Notation rpc_read_env := (rpc_read_env PM PS).

(* Same sender, target and data; the simulation with no explicit height, any gas limit; the
   transaction with any timestamp, block hash, inscription length and Bitcoin txid: the two
   environments are equal once timestamp, prevrandao, gas limit and current txid are blanked. *)
Theorem C17_env_sim_vs_tx :
  forall cf g from kind data len txid hash ts now gas,
    env_mask (rpc_read_env cf g (mkTi from kind data None) None now gas) =
    env_mask (rpc_tx_env cf g (OInscr (mkTi from kind data None) len txid) hash ts).
Proof. exact (env_sim_vs_tx GPB PM PS INDEXER_ADDRESS CONTROLLER_ADDRESS). Qed.
Print Assumptions C17_env_sim_vs_tx.

(* What equality under the mask means, field by field: block number (= the height being
   built), the whole CfgEnv (chain id, spec, code size limit), caller, kind, data, nonce, gas
   price, value, chain id, base fee, coinbase, block gas limit, difficulty, blob fee, and the
   presence of the current-txid helper. *)
Theorem C17_mask_meaning :
  forall e1 e2, env_mask e1 = env_mask e2 ->
    be_number (e_block e1) = be_number (e_block e2) /\
    e_cfg e1 = e_cfg e2 /\
    te_caller (e_tx e1) = te_caller (e_tx e2) /\ te_kind (e_tx e1) = te_kind (e_tx e2) /\
    te_data (e_tx e1) = te_data (e_tx e2) /\ te_nonce (e_tx e1) = te_nonce (e_tx e2) /\
    te_gas_price (e_tx e1) = te_gas_price (e_tx e2) /\ te_value (e_tx e1) = te_value (e_tx e2) /\
    te_chain_id (e_tx e1) = te_chain_id (e_tx e2) /\
    be_basefee (e_block e1) = be_basefee (e_block e2) /\
    be_beneficiary (e_block e1) = be_beneficiary (e_block e2) /\
    be_gas_limit (e_block e1) = be_gas_limit (e_block e2) /\
    be_difficulty (e_block e1) = be_difficulty (e_block e2) /\
    be_blob (e_block e1) = be_blob (e_block e2) /\
    e_helper e1 = e_helper e2.
Proof. exact mask_differs_only_in. Qed.
Print Assumptions C17_mask_meaning.

(* In particular: same block number = the next height, same nonce = the account's nonce (so
   nonce-derived child addresses coincide), same spec. *)
Theorem C17_sim_number_nonce_spec :
  forall cf g from kind data now gas,
    let e := rpc_read_env cf g (mkTi from kind data None) None now gas in
    be_number (e_block e) = next_h g /\ te_nonce (e_tx e) = nonce_of g from /\
    ce_spec (e_cfg e) = get_evm_spec PM PS (cf_net cf) (next_h g) /\ te_caller (e_tx e) = from.
Proof. exact (fun cf g from kind data now gas => conj eq_refl (conj eq_refl (conj eq_refl eq_refl))). Qed.

(* The same against a signed transaction carrying the account's nonce. *)
Theorem C17_env_sim_vs_signed :
  forall cf g from to data len txid hash ts now gas,
    env_mask (rpc_read_env cf g (mkTi from (raw_kind to) data None) None now gas) =
    env_mask (rpc_tx_env cf g (OSigned from (nonce_of g from) to data len txid) hash ts).
Proof. exact (env_sim_vs_signed GPB PM PS INDEXER_ADDRESS CONTROLLER_ADDRESS). Qed.

(* For every EVM that is insensitive to the four blanked fields: if neither run is cut short
   by its gas limit, success flag, return data (for a creation: the runtime code installed),
   created address and the addresses created inside agree. *)
Theorem C17_sim_predicts_tx :
  forall (View Out : Type) (evm : env -> View -> @result Out),
    insensitive evm ->
    forall cf g v from kind data len txid hash ts now gas,
      let sim := evm (rpc_read_env cf g (mkTi from kind data None) None now gas) v in
      let txr := evm (rpc_tx_env cf g (OInscr (mkTi from kind data None) len txid) hash ts) v in
      r_gas_exhausted sim = false -> r_gas_exhausted txr = false -> same_answer sim txr.
Proof. exact (fun View Out evm => sim_predicts_tx GPB PM PS INDEXER_ADDRESS CONTROLLER_ADDRESS evm). Qed.
Print Assumptions C17_sim_predicts_tx.

(* Not covered by the prediction: a simulation at an explicit height runs with that block
   number (spec, BLOCKHASH window) against the current nonce and state. *)
Theorem C17_explicit_height_is_not_a_boundary :
  forall cf g ti h now gas,
    be_number (e_block (rpc_read_env cf g ti (Some h) now gas)) = h /\
    te_nonce (e_tx (rpc_read_env cf g ti (Some h) now gas)) = nonce_of g (ti_from ti).
Proof. exact (read_at_height_number PM PS). Qed.

(* The one place where the RPC layer maps "the same request" to different transactions: a
   brc20_deploy with empty data is a call to the invalid address, an eth_call without `to` is a
   creation (of nothing).  Both succeed with empty return data; the environments differ in kind. *)
Theorem C17_empty_deploy_is_a_call :
  forall from data, d_len data = 0 ->
    ti_to (deploy_ti INVALID_ADDRESS from data) = KCall INVALID_ADDRESS /\
    ti_to (ethcall_ti INVALID_ADDRESS (Some from) None data) = KCreate /\
    (forall data', d_len data' <> 0 ->
       deploy_ti INVALID_ADDRESS from data' = ethcall_ti INVALID_ADDRESS (Some from) None data').
Proof. exact (empty_deploy_is_a_call INVALID_ADDRESS). Qed.

(* Non-vacuity: a concrete pair of environments that differ in all four blanked fields and
   nowhere else. *)
Example C17_nonvacuous :
  let cf := mkConfig 1111 NetOther 1000000000 in
  let g := fst (e_step W MAX_FUTURE_TRANSACTION_NONCES MAX_FUTURE_TRANSACTION_BLOCKS INDEXER_ADDRESS g_init (CMine 3 7)) in
  let ti := mkTi 42 (KCall 99) (mkBytes 4 123456) None in
  let sim := rpc_read_env cf g ti None 1700000000 None in
  let txe := rpc_tx_env cf g (OInscr ti 100 777) 0 555 in
  env_mask sim = env_mask txe /\ env_eqb sim txe = false /\
  be_number (e_block sim) = 3 /\ te_gas_limit (e_tx txe) = 1200000 /\ te_gas_limit (e_tx sim) = 1000000000 /\
  be_prevrandao (e_block txe) = Some 4 /\ be_prevrandao (e_block sim) = Some 0 /\ e_txid txe = 777.
Proof. vm_compute. repeat split. Qed.

(* assumptions of the theorems above that had no report next to them *)
Print Assumptions C17_sim_number_nonce_spec.
Print Assumptions C17_env_sim_vs_signed.
Print Assumptions C17_explicit_height_is_not_a_boundary.
Print Assumptions C17_empty_deploy_is_a_call.
