(* Proofs about L2 History: structure invariants, the lookup semantics of every operation,
   and the refinement of one history object to the "value as of block m" function. *)
From Brc.Model Require Import Base History.
From Coq Require Import Sorting.Sorted.

Arguments N.add : simpl never.
Arguments N.leb : simpl never.
Arguments N.ltb : simpl never.
Arguments N.eqb : simpl never.

Section HistoryP.
  Context {V : Type}.
  Variable veq : V -> V -> bool.
  Hypothesis veq_spec : forall a b, veq a b = true <-> a = b.
  Variable W : N.

  Notation entry := (N * option V)%type.
  Notation hist := (list (N * option V)).

  Definition klt (a b : entry) : Prop := fst a < fst b.
  Definition sorted (h : hist) : Prop := StronglySorted klt h.

  Lemma sorted_cons_inv a h : sorted (a :: h) -> sorted h /\ Forall (klt a) h.
  Proof. intros H; inversion H; subst; auto. Qed.

  Lemma sorted_app_inv (p q : hist) : sorted (p ++ q) ->
    sorted p /\ sorted q /\ (forall a b, In a p -> In b q -> fst a < fst b).
  Proof.
    induction p as [|x p IH]; cbn [app]; intros H.
    - repeat split; [constructor | exact H | intros a b []].
    - apply sorted_cons_inv in H as [Hs Hf].
      destruct (IH Hs) as (Hp & Hq & Hpq).
      rewrite Forall_app in Hf. destruct Hf as [Hfp Hfq].
      repeat split; [constructor; assumption | assumption |].
      intros a b [<-|Ha] Hb.
      + rewrite Forall_forall in Hfq. apply Hfq; assumption.
      + apply Hpq; assumption.
  Qed.

  (* ---------- last_entry / last_key ---------- *)

  Lemma last_entry_app (p : hist) e : last_entry (p ++ [e]) = Some e.
  Proof.
    unfold last_entry. rewrite map_app. cbn [map]. apply last_last.
  Qed.

  Lemma last_entry_cons e (h : hist) : h <> [] -> last_entry (e :: h) = last_entry h.
  Proof.
    unfold last_entry. destruct h as [|x t]; [congruence|]. intros _. reflexivity.
  Qed.

  Lemma last_entry_app_r (p q : hist) : q <> [] -> last_entry (p ++ q) = last_entry q.
  Proof.
    intros Hq. induction p as [|a p IH]; [reflexivity|]. cbn [app].
    rewrite last_entry_cons; [exact IH|]. destruct p; [assumption|discriminate].
  Qed.

  Lemma last_entry_nil_iff (h : hist) : last_entry h = None <-> h = [].
  Proof.
    split; [|intros ->; reflexivity].
    destruct h as [|e t] using rev_ind; [reflexivity|].
    rewrite last_entry_app. discriminate.
  Qed.

  Lemma last_entry_in (h : hist) e : last_entry h = Some e -> In e h.
  Proof.
    destruct h as [|x t] using rev_ind; [discriminate|].
    rewrite last_entry_app. intros [= ->]. apply in_or_app; right; left; reflexivity.
  Qed.

  Lemma sorted_last_max (h : hist) e x :
    sorted h -> last_entry h = Some e -> In x h -> fst x <= fst e.
  Proof.
    destruct h as [|y t] using rev_ind; [discriminate|].
    rewrite last_entry_app. intros Hs [= ->] Hin.
    apply sorted_app_inv in Hs as (_ & _ & Hlt).
    apply in_app_or in Hin as [Hin|[<-|[]]]; [|lia].
    specialize (Hlt x e Hin (or_introl eq_refl)). lia.
  Qed.

  (* ---------- lookup ---------- *)

  Lemma lookup_none_iff (h : hist) m :
    lookup h m = None <-> (h = [] \/ exists k v t, h = (k, v) :: t /\ m < k).
  Proof.
    destruct h as [|[k v] t]; cbn [lookup].
    - split; auto.
    - destruct (N.leb_spec k m) as [Hle|Hlt].
      + split.
        * destruct (lookup t m); discriminate.
        * intros [H|(k' & v' & t' & [= -> -> ->] & Hm)]; [discriminate|lia].
      + split; [|reflexivity]. intros _. right. exists k, v, t. split; [reflexivity|assumption].
  Qed.

  Lemma lookup_app_hi (p q : hist) m k :
    sorted (p ++ q) -> head_key q = Some k -> k <= m -> lookup (p ++ q) m = lookup q m.
  Proof.
    induction p as [|[k0 v0] p IH]; cbn [app]; intros Hs Hk Hm; [reflexivity|].
    cbn [lookup].
    destruct q as [|[kq vq] q']; [discriminate|]. cbn [head_key] in Hk. injection Hk as ->.
    pose proof Hs as Hs0.
    apply sorted_cons_inv in Hs as [Hs Hf].
    rewrite Forall_forall in Hf.
    assert (k0 < k) by (apply (Hf (k, vq)); apply in_or_app; right; left; reflexivity).
    destruct (N.leb_spec k0 m); [|lia].
    rewrite (IH Hs eq_refl Hm).
    cbn [lookup]. destruct (N.leb_spec k m); [|lia].
    destruct (lookup q' m); reflexivity.
  Qed.

  Lemma lookup_last_ge (h : hist) k v m :
    sorted h -> last_entry h = Some (k, v) -> k <= m -> lookup h m = Some v.
  Proof.
    intros Hs Hl Hm.
    destruct h as [|e t] using rev_ind; [discriminate|]. clear IHt.
    rewrite last_entry_app in Hl. injection Hl as ->.
    rewrite (lookup_app_hi t [(k, v)] m k Hs eq_refl Hm).
    cbn [lookup]. destruct (N.leb_spec k m); [reflexivity|lia].
  Qed.

  Lemma lookup_filter_le (h : hist) n m :
    sorted h -> lookup (filter (fun e : entry => fst e <=? n) h) m = lookup h (N.min m n).
  Proof.
    induction h as [|[k v] t IH]; intros Hs; [reflexivity|].
    apply sorted_cons_inv in Hs as [Hs Hf].
    cbn [filter fst]. destruct (N.leb_spec k n) as [Hkn|Hkn].
    - cbn [lookup]. rewrite (IH Hs).
      destruct (N.leb_spec k m), (N.leb_spec k (N.min m n)); try lia; reflexivity.
    - (* k > n: every later key is > n as well, the filter returns [] *)
      assert (Hnil : filter (fun e : entry => fst e <=? n) t = []).
      { clear IH. induction t as [|[k' v'] t' IHt]; [reflexivity|].
        inversion Hf as [|? ? Hk' Hf']; subst. unfold klt in Hk'. cbn [fst] in Hk'.
        apply sorted_cons_inv in Hs as [Hs' _].
        cbn [filter fst]. destruct (N.leb_spec k' n); [lia|]. apply IHt; assumption. }
      rewrite Hnil. cbn [lookup]. destruct (N.leb_spec k (N.min m n)); [lia|reflexivity].
  Qed.

  Lemma filter_le_sorted (h : hist) n : sorted h -> sorted (filter (fun e : entry => fst e <=? n) h).
  Proof.
    induction h as [|e t IH]; intros Hs; [constructor|].
    apply sorted_cons_inv in Hs as [Hs Hf]. cbn [filter].
    destruct (fst e <=? n); [|apply IH; assumption].
    constructor; [apply IH; assumption|].
    rewrite Forall_forall in *. intros x Hx. apply filter_In in Hx as [Hx _]. apply Hf; assumption.
  Qed.

  Lemma filter_le_head (h : hist) n k :
    head_key h = Some k -> k <= n ->
    head_key (filter (fun e : entry => fst e <=? n) h) = Some k.
  Proof.
    destruct h as [|[k0 v0] t]; [discriminate|]. cbn [head_key]. intros [= ->] Hk.
    cbn [filter fst]. destruct (N.leb_spec k n); [reflexivity|lia].
  Qed.

  Lemma filter_le_nil_head (h : hist) n k :
    sorted h -> head_key h = Some k -> n < k -> filter (fun e : entry => fst e <=? n) h = [].
  Proof.
    destruct h as [|[k0 v0] t]; [discriminate|]. cbn [head_key]. intros Hs [= ->] Hk.
    apply sorted_cons_inv in Hs as [_ Hf]. rewrite Forall_forall in Hf.
    cbn [filter fst]. destruct (N.leb_spec k n); [lia|].
    induction t as [|e t IH]; [reflexivity|].
    cbn [filter]. assert (k < fst e) by (apply (Hf e); left; reflexivity).
    destruct (N.leb_spec (fst e) n); [lia|].
    apply IH. intros x Hx. apply Hf. right; assumption.
  Qed.

  (* ---------- bt_insert at or after the last key ---------- *)

  Lemma bt_insert_snoc (h : hist) k v b x :
    sorted h -> last_entry h = Some (k, v) ->
    k < b -> bt_insert b x h = h ++ [(b, x)].
  Proof.
    intros Hs Hl Hb.
    assert (Hall : forall e, In e h -> fst e < b).
    { intros e He. pose proof (sorted_last_max h (k, v) e Hs Hl He). cbn [fst] in *. lia. }
    clear Hs Hl. induction h as [|[k0 v0] t IH]; [reflexivity|].
    cbn [bt_insert app].
    assert (k0 < b) by (apply (Hall (k0, v0)); left; reflexivity).
    destruct (N.ltb_spec b k0); [lia|]. destruct (N.eqb_spec b k0); [lia|].
    f_equal. apply IH. intros e He. apply Hall. right; assumption.
  Qed.

  Lemma bt_insert_replace_last (p : hist) k v x :
    sorted (p ++ [(k, v)]) -> bt_insert k x (p ++ [(k, v)]) = p ++ [(k, x)].
  Proof.
    induction p as [|[k0 v0] t IH]; cbn [app]; intros Hs.
    - cbn [bt_insert]. destruct (N.ltb_spec k k); [lia|]. rewrite N.eqb_refl. reflexivity.
    - cbn [bt_insert].
      apply sorted_cons_inv in Hs as [Hs Hf]. rewrite Forall_forall in Hf.
      assert (k0 < k) by (apply (Hf (k, v)); apply in_or_app; right; left; reflexivity).
      destruct (N.ltb_spec k k0); [lia|]. destruct (N.eqb_spec k k0); [lia|].
      f_equal. apply IH; assumption.
  Qed.

  (* A history whose stamp check passed, after the insert: the old entries below [b],
     then [(b, x)]. *)
  Lemma bt_insert_shape (h : hist) k v b x :
    sorted h -> last_entry h = Some (k, v) -> k <= b ->
    exists p, bt_insert b x h = p ++ [(b, x)] /\ sorted (p ++ [(b, x)]) /\
              (forall m, m < b -> lookup p m = lookup h m) /\
              (forall e, In e p -> In e h) /\
              (p = [] -> h = [(b, v)]) /\
              (p <> [] -> head_key p = head_key h).
  Proof.
    intros Hs Hl Hb.
    destruct h as [|e t] using rev_ind; [discriminate|]. clear IHt.
    rewrite last_entry_app in Hl. injection Hl as ->.
    destruct (N.eq_dec k b) as [->|Hne].
    - exists t. rewrite bt_insert_replace_last by assumption.
      pose proof (sorted_app_inv _ _ Hs) as (Hst & _ & Hlt).
      split; [reflexivity|]. split; [|split; [|split; [|split]]].
      + (* sorted *)
        clear -Hs. induction t as [|a t IH]; cbn [app] in *.
        * constructor; constructor.
        * apply sorted_cons_inv in Hs as [Hs Hf]. constructor; [apply IH; assumption|].
          rewrite Forall_forall in *. intros y Hy.
          apply in_app_or in Hy as [Hy|[<-|[]]].
          -- apply Hf. apply in_or_app; left; assumption.
          -- specialize (Hf (b, v)). unfold klt in *. cbn [fst] in *.
             apply Hf. apply in_or_app; right; left; reflexivity.
      + intros m Hm. clear -Hs Hm. induction t as [|[k0 v0] t IH]; cbn [app] in *.
        * cbn [lookup]. destruct (N.leb_spec b m); [lia|reflexivity].
        * apply sorted_cons_inv in Hs as [Hs _]. cbn [lookup]. rewrite (IH Hs). reflexivity.
      + intros e He. apply in_or_app; left; assumption.
      + intros ->. reflexivity.
      + intros Hne. destruct t; [congruence|reflexivity].
    - exists (t ++ [(k, v)]).
      rewrite (bt_insert_snoc (t ++ [(k, v)]) k v b x Hs (last_entry_app _ _)) by lia.
      assert (Hall : forall e, In e (t ++ [(k, v)]) -> fst e < b).
      { intros e He. pose proof (sorted_last_max _ (k, v) e Hs (last_entry_app _ _) He).
        cbn [fst] in *. lia. }
      split; [reflexivity|]. split; [|split; [|split; [|split]]].
      + clear -Hs Hall. induction (t ++ [(k, v)]) as [|a l IH]; cbn [app].
        * constructor; constructor.
        * apply sorted_cons_inv in Hs as [Hs Hf]. constructor.
          -- apply IH; [assumption|]. intros e He; apply Hall; right; assumption.
          -- rewrite Forall_forall in *. intros y Hy.
             apply in_app_or in Hy as [Hy|[<-|[]]]; [apply Hf; assumption|].
             unfold klt; cbn [fst]. apply Hall; left; reflexivity.
      + reflexivity.
      + auto.
      + intros Habs. destruct t; discriminate.
      + reflexivity.
  Qed.

  Lemma lookup_snoc (p : hist) b x m :
    sorted (p ++ [(b, x)]) ->
    lookup (p ++ [(b, x)]) m = if b <=? m then Some x else lookup p m.
  Proof.
    intros Hs. destruct (N.leb_spec b m) as [Hle|Hlt].
    - apply (lookup_last_ge _ b x m Hs (last_entry_app _ _) Hle).
    - induction p as [|[k0 v0] t IH]; cbn [app] in *.
      + cbn [lookup]. destruct (N.leb_spec b m); [lia|reflexivity].
      + apply sorted_cons_inv in Hs as [Hs _]. cbn [lookup]. rewrite (IH Hs). reflexivity.
  Qed.

  (* ---------- prune ---------- *)

  (* On a sorted list the old entries form a prefix. *)
  Lemma old_prefix (b : N) (h : hist) :
    sorted h ->
    exists p q, h = p ++ q /\
      filter (fun e : entry => fst e + W <=? b) h = p /\
      (forall e, In e p -> fst e + W <= b) /\ (forall e, In e q -> b < fst e + W).
  Proof.
    induction h as [|[k v] t IH]; intros Hs.
    - exists [], []. repeat split; intros e [].
    - apply sorted_cons_inv in Hs as [Hs Hf]. rewrite Forall_forall in Hf.
      cbn [filter fst]. destruct (N.leb_spec (k + W) b) as [Hold|Hnew].
      + destruct (IH Hs) as (p & q & -> & Hp & Hpo & Hqn).
        exists ((k, v) :: p), q. rewrite Hp. repeat split; [|assumption].
        intros e [<-|He]; [assumption|apply Hpo; assumption].
      + exists [], ((k, v) :: t). repeat split.
        * clear IH Hs. induction t as [|e t IHt]; [reflexivity|].
          cbn [filter]. assert (k < fst e) by (apply (Hf e); left; reflexivity).
          destruct (N.leb_spec (fst e + W) b); [lia|].
          apply IHt. intros x Hx. apply Hf. right; assumption.
        * intros e [].
        * intros e [<-|He]; [assumption|].
          assert (k < fst e) by (apply (Hf e); assumption). lia.
  Qed.

  Lemma sorted_keys_nodup_in (h : hist) e x :
    sorted h -> In e h -> In x h -> fst e = fst x -> e = x.
  Proof.
    induction h as [|a t IH]; intros Hs He Hx Hk; [destruct He|].
    apply sorted_cons_inv in Hs as [Hs Hf]. rewrite Forall_forall in Hf.
    destruct He as [<-|He], Hx as [<-|Hx]; try reflexivity.
    - specialize (Hf x Hx). unfold klt in Hf. lia.
    - specialize (Hf e He). unfold klt in Hf. lia.
    - apply IH; assumption.
  Qed.

  Lemma prune_shape (b : N) (h : hist) :
    sorted h -> h <> [] ->
    exists pre h', h = pre ++ h' /\ prune W b h = h' /\ h' <> [] /\
      (pre <> [] -> exists k, head_key h' = Some k /\ k + W <= b) /\
      (forall e, In e (tl h') -> b < fst e + W).
  Proof.
    intros Hs Hne.
    destruct (old_prefix b h Hs) as (p & q & Hh & Hp & Hpo & Hqn).
    unfold prune, old_keys. rewrite Hp.
    destruct p as [|e0 p0] using rev_ind.
    - (* nothing old *)
      exists [], h. cbn [map removelast app]. repeat split.
      + clear. induction h as [|e t IH]; [reflexivity|]. cbn [filter existsb negb]. f_equal. exact IH.
      + assumption.
      + intros Habs; congruence.
      + intros e He. apply Hqn. cbn [app] in Hh. subst q. destruct h; [destruct He|right; exact He].
    - clear IHp0.
      exists p0, (e0 :: q). rewrite map_app. cbn [map]. rewrite removelast_last.
      rewrite <- app_assoc in Hh. cbn [app] in Hh.
      repeat split; [assumption| |discriminate| |].
      + (* the filter removes exactly p0 *)
        subst h.
        pose proof (sorted_app_inv _ _ Hs) as (Hsp0 & Hsq & Hlt).
        rewrite filter_app.
        assert (H1 : filter (fun e : entry => negb (existsb (N.eqb (fst e)) (map fst p0))) p0 = []).
        { clear -p0. assert (Hsub : forall x, In x p0 -> In (fst x) (map fst p0)) by (intros; apply in_map; assumption).
          revert Hsub. generalize (map fst p0) as ks. intros ks.
          induction p0 as [|a t IH]; intros Hsub; [reflexivity|].
          cbn [filter]. assert (Hex : existsb (N.eqb (fst a)) ks = true).
          { apply existsb_exists. exists (fst a). split; [apply Hsub; left; reflexivity|apply N.eqb_refl]. }
          rewrite Hex. cbn [negb]. apply IH. intros x Hx; apply Hsub; right; assumption. }
        rewrite H1. cbn [app].
        assert (H2 : forall l : hist, (forall x, In x l -> forall a, In a p0 -> fst a < fst x) ->
                     filter (fun e : entry => negb (existsb (N.eqb (fst e)) (map fst p0))) l = l).
        { intros l Hl. induction l as [|a t IH]; [reflexivity|].
          cbn [filter].
          assert (Hex : existsb (N.eqb (fst a)) (map fst p0) = false).
          { apply Bool.not_true_is_false. intros Hex. apply existsb_exists in Hex as (k & Hk & Hkeq).
            apply N.eqb_eq in Hkeq. apply in_map_iff in Hk as (y & <- & Hy).
            specialize (Hl a (or_introl eq_refl) y Hy). lia. }
          rewrite Hex. cbn [negb]. f_equal. apply IH. intros x Hx; apply Hl; right; assumption. }
        apply H2. intros x Hx a Ha. apply Hlt; assumption.
      + intros _. exists (fst e0). split; [destruct e0; reflexivity|].
        apply Hpo. apply in_or_app; right; left; reflexivity.
      + cbn [tl]. assumption.
  Qed.

  (* ---------- the abstract "value as of block m" function ---------- *)

  Definition spec : Type := N -> option V.
  Definition s_set (S : spec) (b : N) (v : option V) : spec :=
    fun m => if b <=? m then v else S m.
  Definition s_reorg (S : spec) (n : N) : spec := fun m => S (N.min m n).

  (* [Repr h S c fl]: [h] represents [S] on every block >= [fl]; [c] is the clock (the
     newest block the history has been told about); nothing above the floor has been
     forgotten, and the floor is at most [W] behind the clock unless it is 0. *)
  Record Repr (h : hist) (S : spec) (c fl : N) : Prop := {
    r_sorted : sorted h;
    r_head : exists hk, head_key h = Some hk /\ hk <= fl;
    r_floor : fl = 0 \/ fl + W <= c;
    r_look : forall m, fl <= m -> lookup h m = Some (S m);
    r_last : forall e, last_entry h = Some e -> fst e <= c;
    r_tail : forall e lk, last_entry h = Some lk -> In e (tl h) -> fst lk < fst e + W;
  }.

  (* strong form: the head key *is* the floor (a history object that was never re-seeded) *)
  Definition ReprS (h : hist) (S : spec) (c : N) : Prop :=
    exists fl, Repr h S c fl /\ head_key h = Some fl.

  Lemma Repr_nonempty h S c fl : Repr h S c fl -> h <> [].
  Proof. intros [_ (hk & Hk & _) _ _ _ _] ->. discriminate. Qed.

  Lemma Repr_latest h S c fl m :
    Repr h S c fl -> c <= m -> fl <= m -> h_latest h = Ok (S m).
  Proof.
    intros R Hc Hfl. pose proof (Repr_nonempty _ _ _ _ R) as Hne.
    unfold h_latest. destruct (last_entry h) as [[k v]|] eqn:Hl.
    - pose proof (r_last _ _ _ _ R _ Hl) as Hk. cbn [fst] in Hk.
      pose proof (lookup_last_ge h k v m (r_sorted _ _ _ _ R) Hl ltac:(lia)) as Hlk.
      rewrite (r_look _ _ _ _ R m Hfl) in Hlk. congruence.
    - apply last_entry_nil_iff in Hl. contradiction.
  Qed.

  Lemma Repr_new (init : option V) : Repr (h_new init) (fun _ => init) 0 0.
  Proof.
    unfold h_new. constructor.
    - constructor; constructor.
    - exists 0. split; [reflexivity|lia].
    - left; reflexivity.
    - intros m _. cbn [lookup]. destruct (N.leb_spec 0 m); [reflexivity|lia].
    - intros e [= <-]. cbn [fst]. lia.
    - intros e lk _ [].
  Qed.

  Lemma tl_app_in (p : hist) e x : In x (tl (p ++ [e])) -> p <> [] /\ (In x (tl p) \/ x = e).
  Proof.
    destruct p as [|a t]; cbn [app tl]; [intros []|].
    intros Hx. split; [discriminate|]. apply in_app_or in Hx as [Hx|[<-|[]]]; auto.
  Qed.

  (* The write step shared by set (Some v) and unset (None), when the value changes. *)
  Lemma Repr_write h S c fl b x k v :
    Repr h S c fl -> last_entry h = Some (k, v) -> k <= b ->
    exists fl', Repr (prune W b (bt_insert b x h)) (s_set S b x) (N.max c b) fl' /\
      fl <= fl' /\
      (head_key h = Some fl -> head_key (prune W b (bt_insert b x h)) = Some fl').
  Proof.
    intros R Hl Hb.
    destruct (bt_insert_shape h k v b x (r_sorted _ _ _ _ R) Hl Hb)
      as (p & Hins & Hsp & Hlk & Hin & Hpnil & Hphead).
    rewrite Hins.
    assert (Hne : p ++ [(b, x)] <> []) by (destruct p; discriminate).
    destruct (prune_shape b (p ++ [(b, x)]) Hsp Hne) as (pre & h' & Hsplit & -> & Hne' & Hpre & Htl).
    destruct R as [Rs (hk & Rhk & Rhkfl) Rfl Rlook Rlast Rtail].
    (* h' ends with (b, x) *)
    assert (Hlast' : last_entry h' = Some (b, x)).
    { rewrite <- (last_entry_app_r pre h' Hne'), <- Hsplit. apply last_entry_app. }
    pose proof (sorted_app_inv pre h' ltac:(rewrite <- Hsplit; exact Hsp)) as (_ & Hsh' & _).
    destruct h' as [|[hk' hv'] t'] eqn:Eh'; [congruence|]. rewrite <- Eh' in *.
    assert (Hhk' : head_key h' = Some hk') by (subst h'; reflexivity).
    (* lookup through the dropped prefix *)
    assert (Hlook' : forall m, hk' <= m -> lookup h' m = lookup (p ++ [(b, x)]) m).
    { intros m Hm. rewrite Hsplit. symmetry. apply (lookup_app_hi pre h' m hk'); [rewrite <- Hsplit|..]; assumption. }
    (* head key of p ++ [(b,x)] is hk or b *)
    assert (Hhead_full : head_key (p ++ [(b, x)]) = Some (if match p with [] => true | _ => false end then b else hk)).
    { destruct p as [|a p']; [reflexivity|]. rewrite <- Rhk, <- Hphead by discriminate. reflexivity. }
    assert (Hhk_le : hk <= b).
    { destruct h as [|[a av] t]; [discriminate|]. cbn [head_key] in Rhk. injection Rhk as ->.
      pose proof (sorted_last_max _ (k, v) (hk, av) Rs Hl (or_introl eq_refl)). cbn [fst] in *. lia. }
    assert (Hhk'_ge : (if match p with [] => true | _ => false end then b else hk) <= hk').
    { destruct pre as [|a pre'].
      - cbn [app] in Hsplit. rewrite Hsplit, Hhk' in Hhead_full. injection Hhead_full as <-. lia.
      - destruct a as [ak av].
        pose proof (sorted_app_inv ((ak, av) :: pre') h' ltac:(rewrite <- Hsplit; exact Hsp)) as (_ & _ & Hlt).
        rewrite Hsplit in Hhead_full. cbn [app head_key] in Hhead_full. injection Hhead_full as <-.
        specialize (Hlt (ak, av) (hk', hv') (or_introl eq_refl)). rewrite Eh' in Hlt.
        specialize (Hlt (or_introl eq_refl)). cbn [fst] in Hlt. lia. }
    exists (N.max fl hk'). split; [|split; [lia|]].
    - constructor.
      + exact Hsh'.
      + exists hk'. split; [assumption|lia].
      + destruct (N.max_spec fl hk') as [[Hlt ->]|[Hge ->]].
        * (* floor moved to hk' > fl: something was pruned, or p = [] *)
          destruct pre as [|a pre'].
          -- cbn [app] in Hsplit. rewrite Hsplit, Hhk' in Hhead_full. injection Hhead_full as Heq.
             destruct p as [|a0 p0].
             ++ (* h = [(b, v)]: hk = b = hk' *)
                specialize (Hpnil eq_refl). subst h. cbn [head_key] in Rhk. injection Rhk as <-. lia.
             ++ subst hk'. lia.
          -- destruct (Hpre ltac:(discriminate)) as (k0 & Hk0 & Hk0b).
             rewrite Hhk' in Hk0. injection Hk0 as <-. right. lia.
        * destruct Rfl as [->|Rfl]; [left; reflexivity|right; lia].
      + intros m Hm. rewrite Hlook' by lia. rewrite lookup_snoc by assumption.
        unfold s_set. destruct (N.leb_spec b m) as [Hbm|Hbm]; [reflexivity|].
        rewrite Hlk by assumption. apply Rlook. lia.
      + intros e He. rewrite Hlast' in He. injection He as <-. cbn [fst]. lia.
      + intros e lk Hlk' He. rewrite Hlast' in Hlk'. injection Hlk' as <-. cbn [fst].
        apply Htl. assumption.
    - intros Hhfl. rewrite Rhk in Hhfl. injection Hhfl as ->.
      rewrite Hhk'. f_equal.
      assert (fl <= hk'); [|lia].
      destruct p; lia.
  Qed.

  (* set / unset when the latest value already equals the written one: no change *)
  Lemma Repr_write_same h S c fl b x k :
    Repr h S c fl -> last_entry h = Some (k, x) -> k <= b ->
    Repr h (s_set S b x) (N.max c b) fl.
  Proof.
    intros [Rs Rhk Rfl Rlook Rlast Rtail] Hl Hb. constructor; try assumption.
    - destruct Rfl as [->|Rfl]; [left; reflexivity|right; lia].
    - intros m Hm. unfold s_set. destruct (N.leb_spec b m) as [Hbm|Hbm]; [|apply Rlook; assumption].
      apply (lookup_last_ge h k x m Rs Hl). lia.
    - intros e He. specialize (Rlast e He). lia.
  Qed.

  Lemma stamp_ok_true (h : hist) b k v :
    last_entry h = Some (k, v) -> stamp_ok b h = true -> k <= b.
  Proof.
    unfold stamp_ok, last_key. intros ->. cbn [option_map fst].
    destruct (N.ltb_spec b k); [discriminate|]. intros _. assumption.
  Qed.

  Theorem Repr_set h S c fl b v h' :
    Repr h S c fl -> h_set veq W h b v = Ok h' ->
    exists fl', Repr h' (s_set S b (Some v)) (N.max c b) fl' /\ fl <= fl' /\
                (head_key h = Some fl -> head_key h' = Some fl').
  Proof.
    intros R. unfold h_set.
    destruct (stamp_ok b h) eqn:Hst; cbn [negb]; [|discriminate].
    unfold h_latest. destruct (last_entry h) as [[k x]|] eqn:Hl; cbn [rbind]; [|discriminate].
    pose proof (stamp_ok_true h b k x Hl Hst) as Hkb.
    destruct (opt_eqb veq x (Some v)) eqn:Heq.
    - intros [= <-]. exists fl. split; [|split; [lia|auto]].
      destruct x as [x|]; cbn [opt_eqb] in Heq; [|discriminate].
      apply veq_spec in Heq. subst x.
      apply (Repr_write_same h S c fl b (Some v) k R Hl Hkb).
    - intros [= <-]. apply (Repr_write h S c fl b (Some v) k x R Hl Hkb).
  Qed.

  Theorem Repr_unset h S c fl b h' :
    Repr h S c fl -> h_unset W h b = Ok h' ->
    exists fl', Repr h' (s_set S b None) (N.max c b) fl' /\ fl <= fl' /\
                (head_key h = Some fl -> head_key h' = Some fl').
  Proof.
    intros R. unfold h_unset.
    destruct (stamp_ok b h) eqn:Hst; cbn [negb]; [|discriminate].
    unfold h_latest. destruct (last_entry h) as [[k x]|] eqn:Hl; cbn [rbind]; [|discriminate].
    pose proof (stamp_ok_true h b k x Hl Hst) as Hkb.
    destruct x as [x|].
    - intros [= <-]. apply (Repr_write h S c fl b None k (Some x) R Hl Hkb).
    - intros [= <-]. exists fl. split; [|split; [lia|auto]].
      apply (Repr_write_same h S c fl b None k R Hl Hkb).
  Qed.

  (* Rollback: at or above the floor it is exact; in the window it is at or above the floor. *)
  Theorem Repr_reorg h S c fl n :
    Repr h S c fl -> fl <= n ->
    exists h', h_reorg h n = Ok h' /\ Repr h' (s_reorg S n) c fl /\ head_key h' = head_key h.
  Proof.
    intros [Rs (hk & Rhk & Rhkfl) Rfl Rlook Rlast Rtail] Hn.
    unfold h_reorg.
    pose proof (filter_le_head h n hk Rhk ltac:(lia)) as Hhead.
    destruct (filter (fun e : entry => fst e <=? n) h) as [|a t] eqn:Ef; [discriminate|].
    rewrite <- Ef in *. exists (filter (fun e : entry => fst e <=? n) h).
    split; [reflexivity|]. split; [|congruence].
    constructor.
    - apply filter_le_sorted; assumption.
    - exists hk. split; assumption.
    - assumption.
    - intros m Hm. rewrite lookup_filter_le by assumption. unfold s_reorg. apply Rlook. lia.
    - intros e He. apply last_entry_in in He. apply filter_In in He as [He _].
      destruct (last_entry h) as [lk|] eqn:Hl.
      + pose proof (sorted_last_max h lk e Rs Hl He). specialize (Rlast lk eq_refl). lia.
      + apply last_entry_nil_iff in Hl. subst h. destruct He.
    - intros e lk Hlk He.
      assert (Hein : In e (tl h)).
      { clear -He. destruct h as [|a0 t0]; [destruct He|]. cbn [filter] in He.
        destruct (fst a0 <=? n); cbn [tl] in *.
        - apply filter_In in He as [He _]. assumption.
        - clear -He. induction t0 as [|b t IH]; [destruct He|]. cbn [filter] in He.
          destruct (fst b <=? n); cbn [tl] in He.
          + apply filter_In in He as [He _]. right; assumption.
          + right. apply IH. assumption. }
      apply last_entry_in in Hlk. apply filter_In in Hlk as [Hlk _].
      destruct (last_entry h) as [lk0|] eqn:Hl.
      + pose proof (sorted_last_max h lk0 lk Rs Hl Hlk). specialize (Rtail e lk0 eq_refl Hein). lia.
      + apply last_entry_nil_iff in Hl. subst h. destruct Hlk.
  Qed.

  Lemma window_above_floor h S c fl n : Repr h S c fl -> c <= n + W -> fl <= n.
  Proof. intros R Hn. destruct (r_floor _ _ _ _ R); lia. Qed.

  (* Below the head key a rollback panics (strong form: below the floor). *)
  Theorem reorg_below_head_panics h hk n :
    sorted h -> head_key h = Some hk -> n < hk -> h_reorg h n = Panic.
  Proof.
    intros Hs Hk Hn. unfold h_reorg. rewrite (filter_le_nil_head h n hk Hs Hk Hn). reflexivity.
  Qed.

  (* ---------- length bound ---------- *)

  Lemma sorted_keys_bounded_length (l : hist) base width :
    sorted l -> (forall e, In e l -> base < fst e /\ fst e <= base + width) ->
    N.of_nat (length l) <= width.
  Proof.
    revert base width. induction l as [|x l IHl]; intros base width Hs Hb; [cbn; lia|].
    apply sorted_cons_inv in Hs as [Hs Hf]. rewrite Forall_forall in Hf.
    destruct (Hb x (or_introl eq_refl)) as [Hx1 Hx2].
    assert (Hl : N.of_nat (length l) <= width - (fst x - base)).
    { apply (IHl (fst x)); [assumption|]. intros e He.
      destruct (Hb e (or_intror He)) as [He1 He2].
      specialize (Hf e He). unfold klt in Hf. lia. }
    cbn [length]. rewrite Nat2N.inj_succ. lia.
  Qed.

  Theorem Repr_length h Sp c fl : Repr h Sp c fl -> N.of_nat (length h) <= W + 1.
  Proof.
    intros [Rs (hk & Rhk & _) _ _ Rlast Rtail].
    destruct h as [|a t]; [discriminate|].
    cbn [length]. rewrite Nat2N.inj_succ.
    destruct t as [|a' t'] eqn:Et; [cbn; lia|]. rewrite <- Et in *.
    assert (Htne : t <> []) by (subst t; discriminate).
    destruct (last_entry (a :: t)) as [lk|] eqn:Hl; [|apply last_entry_nil_iff in Hl; discriminate].
    pose proof Hl as Hlk. rewrite (last_entry_cons a t Htne) in Hlk.
    apply sorted_cons_inv in Rs as [Rs Hf]. rewrite Forall_forall in Hf.
    enough (N.of_nat (length t) <= W) by lia.
    destruct (N.le_gt_cases W (fst lk)) as [Hge|Hlt].
    - apply (sorted_keys_bounded_length t (fst lk - W) W); [assumption|].
      intros e He. specialize (Rtail e lk eq_refl He).
      pose proof (sorted_last_max t lk e Rs Hlk He). lia.
    - apply (sorted_keys_bounded_length t (fst a) W); [assumption|].
      intros e He. specialize (Hf e He). unfold klt in Hf.
      pose proof (sorted_last_max t lk e Rs Hlk He). lia.
  Qed.

  (* ---------- a whole run of one history object against the abstract function ---------- *)

  Definition s_step (Sc : spec * N) (o : @hop V) : spec * N :=
    match o with
    | HSet b v => (s_set (fst Sc) b (Some v), N.max (snd Sc) b)
    | HUnset b => (s_set (fst Sc) b None, N.max (snd Sc) b)
    | HReorg n => (s_reorg (fst Sc) n, snd Sc)
    end.
  Definition s_run (Sc : spec * N) (ops : list (@hop V)) : spec * N := fold_left s_step ops Sc.

  Lemma ReprS_step h Sp c o h' :
    ReprS h Sp c -> h_step veq W h o = Ok h' ->
    ReprS h' (fst (s_step (Sp, c) o)) (snd (s_step (Sp, c) o)).
  Proof.
    intros (fl & R & Hhd) Hstep. destruct o as [b v|b|n]; cbn [h_step s_step fst snd] in *.
    - destruct (Repr_set h Sp c fl b v h' R Hstep) as (fl' & R' & _ & Hh). exists fl'. auto.
    - destruct (Repr_unset h Sp c fl b h' R Hstep) as (fl' & R' & _ & Hh). exists fl'. auto.
    - destruct (N.le_gt_cases fl n) as [Hle|Hgt].
      + destruct (Repr_reorg h Sp c fl n R Hle) as (h2 & Hr & R' & Hh).
        rewrite Hr in Hstep. injection Hstep as <-. exists fl. split; [assumption|congruence].
      + rewrite (reorg_below_head_panics h fl n (r_sorted _ _ _ _ R) Hhd Hgt) in Hstep. discriminate.
  Qed.

  Theorem history_run_refines init ops h :
    h_run veq W (h_new init) ops = Ok h ->
    ReprS h (fst (s_run (fun _ => init, 0) ops)) (snd (s_run (fun _ => init, 0) ops)).
  Proof.
    assert (G : forall ops h0 Sp c h, ReprS h0 Sp c -> h_run veq W h0 ops = Ok h ->
                ReprS h (fst (s_run (Sp, c) ops)) (snd (s_run (Sp, c) ops))).
    { intros ops0. induction ops0 as [|o ops0 IH]; intros h0 Sp c h1' R Hrun.
      - cbn in Hrun. injection Hrun as <-. exact R.
      - cbn [h_run] in Hrun. destruct (h_step veq W h0 o) as [h1| |] eqn:Hs; cbn [rbind] in Hrun; try discriminate.
        pose proof (ReprS_step h0 Sp c o h1 R Hs) as R1.
        unfold s_run. cbn [fold_left]. destruct (s_step (Sp, c) o) as [Sp1 c1] eqn:E.
        apply (IH h1 Sp1 c1 h1' R1 Hrun). }
    intros Hrun. apply (G ops (h_new init) (fun _ => init) 0 h); [|assumption].
    exists 0. split; [apply Repr_new|reflexivity].
  Qed.

  (* What ReprS gives the user of a history. *)
  Theorem ReprS_facts h Sp c :
    ReprS h Sp c ->
    (* latest is the abstract value at (and after) the clock *)
    (forall m, c <= m -> h_latest h = Ok (Sp m)) /\
    (* at most W + 1 versions are kept *)
    N.of_nat (length h) <= W + 1 /\
    (* a rollback is never silently wrong: it panics, or it yields exactly the value as of n *)
    (forall n, h_reorg h n = Panic \/
               exists h', h_reorg h n = Ok h' /\ ReprS h' (s_reorg Sp n) c /\
                          h_latest h' = Ok (Sp n)) /\
    (* and inside the window it does not panic *)
    (forall n, c <= n + W -> h_reorg h n <> Panic).
  Proof.
    intros (fl & R & Hhd).
    assert (Hflc : fl <= c) by (destruct (r_floor _ _ _ _ R); lia).
    split; [|split; [|split]].
    - intros m Hm. apply (Repr_latest h Sp c fl m R Hm). lia.
    - apply (Repr_length h Sp c fl R).
    - intros n. destruct (N.le_gt_cases fl n) as [Hle|Hgt].
      + right. destruct (Repr_reorg h Sp c fl n R Hle) as (h2 & Hr & R' & Hh).
        exists h2. split; [assumption|]. split; [exists fl; split; [assumption|congruence]|].
        rewrite (Repr_latest h2 (s_reorg Sp n) c fl (N.max c n) R') by lia.
        unfold s_reorg. f_equal. f_equal. lia.
      + left. apply (reorg_below_head_panics h fl n (r_sorted _ _ _ _ R) Hhd Hgt).
    - intros n Hn. pose proof (window_above_floor h Sp c fl n R Hn) as Hle.
      destruct (Repr_reorg h Sp c fl n R Hle) as (h2 & Hr & _). rewrite Hr. discriminate.
  Qed.
End HistoryP.
