(* Soundness of the decidable protocol check: a history accepted by [allowed_b] satisfies
   [allowed], hence (engine_history_wf) its store trace is well-formed. *)
From Brc.Model Require Import Base Table Store Engine EngineStore Allowed.
From Brc.Proofs Require Import EngineP EngineStoreP.

Arguments N.add : simpl never.
Arguments N.sub : simpl never.
Arguments N.leb : simpl never.
Arguments N.ltb : simpl never.
Arguments N.eqb : simpl never.
Arguments N.max : simpl never.

Lemma is_sv_at_sound n o : is_sv_at n o = true -> exists k v, o = SV n k v.
Proof.
  destruct o as [s k v| | | | |]; cbn [is_sv_at]; try discriminate.
  intros H. apply N.eqb_eq in H. subst. eauto.
Qed.

Lemma all_sv_at_b_sound n tr : all_sv_at_b n tr = true -> all_sv_at n tr.
Proof.
  unfold all_sv_at_b, all_sv_at. intros H. rewrite forallb_forall in H.
  apply Forall_forall. intros o Ho. apply is_sv_at_sound. apply H. exact Ho.
Qed.

Lemma is_sb_sound w n o : is_sb w n o = true -> exists v, o = SB w n v.
Proof.
  destruct o as [| w' n' v | | | |]; cbn [is_sb]; try discriminate.
  intros H. apply andb_true_iff in H. destruct H as [H1 H2].
  apply N.eqb_eq in H1. apply N.eqb_eq in H2. subst. eauto.
Qed.

Lemma is_shash_sound n o : is_shash n o = true -> o = SHash n.
Proof.
  destruct o as [| | n' | | |]; cbn [is_shash]; try discriminate.
  intros H. apply N.eqb_eq in H. subst. reflexivity.
Qed.

Lemma fin_trace_b_sound n tr : fin_trace_b n tr = true -> fin_trace n tr.
Proof.
  unfold fin_trace_b, fin_trace.
  destruct tr as [|o1 [|o2 rest]]; try discriminate.
  intros H. apply andb_true_iff in H. destruct H as [H12 H].
  apply andb_true_iff in H12. destruct H12 as [H1 H2].
  destruct (is_sb_sound _ _ _ H1) as [b1 ->]. destruct (is_sb_sound _ _ _ H2) as [b2 ->].
  destruct (rev rest) as [|o5 [|o4 [|o3 us']]] eqn:Er; try discriminate.
  apply andb_true_iff in H. destruct H as [H H6].
  apply andb_true_iff in H. destruct H as [H H3].
  apply andb_true_iff in H. destruct H as [H5 H4].
  apply is_shash_sound in H5. subst o5.
  destruct (is_sv_at_sound _ _ H4) as (k & v & ->).
  destruct (is_sb_sound _ _ _ H3) as [b0 ->].
  assert (Hrest : rest = rev us' ++ [SB 0 n b0; SV n k v; SHash n]).
  { rewrite <- (rev_involutive rest), Er. cbn [rev]. rewrite <- !app_assoc. reflexivity. }
  exists b1, b2, (rev us'), b0, k, v. split.
  - apply all_sv_at_b_sound. unfold all_sv_at_b. rewrite forallb_forall in *.
    intros o Ho. apply H6. apply in_rev. exact Ho.
  - rewrite Hrest. reflexivity.
Qed.

Lemma split_shash_spec tr a b : split_shash tr = Some (a, b) -> tr = a ++ b.
Proof.
  revert a b. induction tr as [|o r IH]; intros a b; cbn [split_shash]; [discriminate|].
  destruct o as [s k v|w n v|n| | |n];
    try (destruct (split_shash r) as [[a' b']|]; [|discriminate]; intros H; injection H as <- <-;
         cbn [app]; f_equal; apply IH; reflexivity).
  intros H. injection H as <- <-. reflexivity.
Qed.

Lemma mine_trace_b_sound f : forall n tr, mine_trace_b f n tr = true -> mine_trace f n tr.
Proof.
  induction f as [|f IH]; intros n tr; cbn [mine_trace_b].
  - destruct tr; [intros _; constructor|discriminate].
  - destruct (split_shash tr) as [[t1 t2]|] eqn:Es; [|discriminate].
    intros H. apply andb_true_iff in H. destruct H as [H1 H2].
    rewrite (split_shash_spec _ _ _ Es).
    constructor; [apply fin_trace_b_sound; exact H1|apply IH; exact H2].
Qed.

Lemma is_nil_sound {A} (l : list A) : is_nil l = true -> l = [].
Proof. destruct l; [reflexivity|discriminate]. Qed.

Lemma span_sv_spec n tr : tr = fst (span_sv n tr) ++ snd (span_sv n tr) /\ all_sv_at n (fst (span_sv n tr)).
Proof.
  induction tr as [|o r IH]; cbn [span_sv]; [split; [reflexivity|constructor]|].
  destruct (is_sv_at n o) eqn:Eo.
  - destruct (span_sv n r) as [a b]. cbn [fst snd] in *. destruct IH as [IH1 IH2]. split.
    + cbn [app]. f_equal. exact IH1.
    + constructor; [apply is_sv_at_sound; exact Eo|exact IH2].
  - cbn [fst snd app]. split; [reflexivity|constructor].
Qed.

Lemma emits_b_sound W FN g c tr : emits_b W FN g c tr = true -> emits W FN g c tr.
Proof.
  destruct c as [a idx ts h v|d idx ts h vs|ts h cnt|cnt ts|h ts hg| |hc bl nn pl|n nn pl|];
    cbn [emits_b emits].
  - apply all_sv_at_b_sound.
  - destruct d as [| |a n]; try apply is_nil_sound.
    destruct (_ || _); [apply all_sv_at_b_sound|apply is_nil_sound].
  - apply fin_trace_b_sound.
  - apply mine_trace_b_sound.
  - destruct (block_exists g hg); [apply is_nil_sound|].
    intros H. destruct (span_sv_spec hg tr) as [H1 H2].
    exists (fst (span_sv hg tr)), (snd (span_sv hg tr)). split; [exact H2|]. split; [|exact H1].
    apply fin_trace_b_sound. exact H.
  - destruct tr as [|o [|? ?]]; cbn [is_single]; try discriminate. destruct o; try discriminate. reflexivity.
  - destruct tr as [|o [|? ?]]; cbn [is_single]; try discriminate. destruct o; try discriminate. reflexivity.
  - destruct (n =? height g); [apply is_nil_sound|].
    destruct tr as [|o [|? ?]]; cbn [is_single]; try discriminate. destruct o as [| | | | |n']; try discriminate.
    intros H. apply N.eqb_eq in H. subst. reflexivity.
  - apply is_nil_sound.
Qed.

Lemma in_upto h k : k <= h -> In k (upto h).
Proof.
  intros Hk. unfold upto. apply in_map_iff. exists (N.to_nat k). split; [apply N2Nat.id|].
  apply in_seq. lia.
Qed.

Lemma optN_eqb_sound a b : optN_eqb a b = true -> a = b.
Proof.
  destruct a, b; cbn [optN_eqb]; try discriminate; try reflexivity.
  intros H. apply N.eqb_eq in H. subst. reflexivity.
Qed.

Lemma clear_params_ok_b_sound st c : clear_params_ok_b st c = true -> clear_params_ok st c.
Proof.
  destruct c as [| | | | | |hc bl nn pl| |]; cbn [clear_params_ok_b clear_params_ok]; try (intros _; exact I).
  intros H. apply andb_true_iff in H. destruct H as [H1 H2]. apply optN_eqb_sound in H1.
  split; [exact H1|]. destruct hc as [h|].
  - apply andb_true_iff in H2. destruct H2 as [H2 H3]. rewrite forallb_forall in H2. apply N.leb_le in H3.
    split; [|split].
    + intros h' k Hh Hk. injection Hh as <-. apply H2. apply in_upto. exact Hk.
    + discriminate.
    + intros h' Hh. injection Hh as <-. exact H3.
  - apply is_nil_sound in H2. split; [|split].
    + discriminate.
    + intros _. exact H2.
    + discriminate.
Qed.

Section AllowedP.
  Variables W FN FB IDX : N.

  Theorem allowed_b_sound h : forall g st,
    allowed_b W FN FB IDX g st h = true -> allowed W FN FB IDX g st h.
  Proof.
    induction h as [|[c tr] r IH]; intros g st; cbn [allowed_b allowed]; [intros _; exact I|].
    destruct (e_step W FN FB IDX g c) as [g' o] eqn:Es. cbn [fst snd].
    intros H. apply andb_true_iff in H. destruct H as [H Hr].
    apply andb_true_iff in H. destruct H as [Hc He].
    split; [apply clear_params_ok_b_sound; exact Hc|]. split; [|split].
    - intros Ho. subst o. cbn [is_rejected] in He. apply is_nil_sound. exact He.
    - intros Ho. destruct o; cbn [is_rejected] in He; [congruence| |]; apply emits_b_sound; exact He.
    - apply IH. unfold st_after. exact Hr.
  Qed.

  (* a history that passes the check issues a well-formed store trace *)
  Theorem checked_history_wf h :
    allowed_b W FN FB IDX g_init wf_init h = true ->
    exists st', wf_run W wf_init (concat (map snd h)) = Some st'.
  Proof.
    intros H. apply (engine_history_wf W FN FB IDX h g_init wf_init Rel_init).
    apply allowed_b_sound. exact H.
  Qed.
End AllowedP.
