(* What an ACCEPTED C20 correspondence case means: when the real start() succeeded on the
   prepared directory, the model's configuration-database validation accepts that directory
   under that configuration (so, by C20_reopen_iff_equal, a non-empty directory holds the four
   rows of this configuration); when the real start() failed, the model's start fails. *)
From Brc.Model Require Import Base Config ConfigDb Tie20.
From Brc.Proofs Require Import ConfigDbP.

Theorem check_dcase_start_ok dbv pv c :
  check_dcase dbv pv c = true -> dc_start_ok c = true ->
  fst (validate_config_database dbv pv (dc_cfg c) (dc_dir c)) = Ok tt.
Proof.
  intros Hc Hs. unfold check_dcase in Hc.
  apply andb_prop in Hc. destruct Hc as [Hc _]. apply andb_prop in Hc. destruct Hc as [Hc _].
  rewrite Hs in Hc. apply Bool.eqb_prop in Hc.
  destruct (fst (validate_config_database dbv pv (dc_cfg c) (dc_dir c))) as [[]| |] eqn:E; [reflexivity| |].
  - assert (Hne : fst (validate_config_database dbv pv (dc_cfg c) (dc_dir c)) <> Ok tt) by (rewrite E; discriminate).
    rewrite (start_fails_if_config_db_fails dbv pv _ _ Hne) in Hc. discriminate.
  - assert (Hne : fst (validate_config_database dbv pv (dc_cfg c) (dc_dir c)) <> Ok tt) by (rewrite E; discriminate).
    rewrite (start_fails_if_config_db_fails dbv pv _ _ Hne) in Hc. discriminate.
Qed.

Theorem check_dcase_start_verdict dbv pv c :
  check_dcase dbv pv c = true -> fst (start_model dbv pv (dc_cfg c) (dc_dir c)) = dc_start_ok c.
Proof.
  intros Hc. unfold check_dcase in Hc.
  apply andb_prop in Hc. destruct Hc as [Hc _]. apply andb_prop in Hc. destruct Hc as [Hc _].
  apply Bool.eqb_prop in Hc. exact Hc.
Qed.
