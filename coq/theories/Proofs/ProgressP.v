(* Progress for L4 Store: on a protocol-conform trace ([wf_run]) the store model never answers
   [Err] or [Panic].

   StoreP proves that the refinement invariant [SInv] is preserved along well-formed traces
   PROVIDED every step returns [Ok], and progress only for reorg and commit.  The gap is the
   versioned write: [h_set] / [h_unset] panic when the stamp of the write is below the newest
   stamp of the key's history ([stamp_ok]), and [SInv] bounds the stamps of a history only by
   the table clock, which a reorg does not lower (after reorg(20) from height 30 the clock is
   still 30 while the next write is stamped 21).

   The extra invariant [Fresh] closes the gap: every history the next write can load (the
   cache entry of the key, else its persisted history row) carries only stamps that are at most
   the number of the block under construction.  It is established by the empty store and
   preserved by every store operation along [wf_step]; with [SInv] (histories are never empty,
   a reorg inside the window never leaves a history empty, the store's own depth guard agrees
   with the protocol's) it gives progress for every operation. *)
From Brc.Model Require Import Base History Table BlockTable Store Crash.
From Brc.Model Require Import Engine EngineStore Allowed.
From Brc.Proofs Require Import HistoryP KvP TableP StoreP EngineP EngineStoreP AllowedP.

Arguments N.add : simpl never.
Arguments N.sub : simpl never.
Arguments N.leb : simpl never.
Arguments N.ltb : simpl never.
Arguments N.eqb : simpl never.
Arguments N.max : simpl never.

(* ================= one history ================= *)
Section HistFresh.
  Context {V : Type}.
  Variable veq : V -> V -> bool.
  Variable W : N.

  Notation entry := (N * option V)%type.
  Notation hist := (list (N * option V)).

  (* every stamp of the history is at most [top] (for the sorted histories of the store this is
     the same as: its LAST stamp is at most [top]; the all-stamps form needs no sortedness) *)
  Definition hle (top : N) (h : hist) : Prop := forall e, In e h -> fst e <= top.

  Lemma hle_mono top top' (h : hist) : hle top h -> top <= top' -> hle top' h.
  Proof. intros H Hle e He. specialize (H e He). lia. Qed.

  Lemma hle_new top (init : option V) : hle top (h_new init).
  Proof. intros e [<-|[]]. cbn [fst]. lia. Qed.

  Lemma hle_last top (h : hist) k : hle top h -> last_key h = Some k -> k <= top.
  Proof.
    intros H. unfold last_key. destruct (last_entry h) as [e|] eqn:E; cbn [option_map]; [|discriminate].
    intros [= <-]. apply H. apply last_entry_in. exact E.
  Qed.

  (* conversely, on a sorted history the last stamp bounds all of them *)
  Lemma hle_of_last top (h : hist) :
    sorted h -> (forall k, last_key h = Some k -> k <= top) -> hle top h.
  Proof.
    intros Hs Hl e He. unfold last_key in Hl.
    destruct (last_entry h) as [lk|] eqn:E.
    - pose proof (sorted_last_max h lk e Hs E He). specialize (Hl (fst lk) eq_refl). lia.
    - apply last_entry_nil_iff in E. subst h. destruct He.
  Qed.

  Lemma hle_stamp_ok top b (h : hist) : hle top h -> top <= b -> stamp_ok b h = true.
  Proof.
    intros H Hb. unfold stamp_ok. destruct (last_key h) as [k|] eqn:E; [|reflexivity].
    pose proof (hle_last top h k H E). destruct (N.ltb_spec b k); [lia|reflexivity].
  Qed.

  Lemma in_bt_insert b x (h : hist) e : In e (bt_insert b x h) -> e = (b, x) \/ In e h.
  Proof.
    induction h as [|[k y] t IH]; cbn [bt_insert].
    - intros [<-|[]]. left; reflexivity.
    - destruct (b <? k).
      + intros [<-|H]; [left; reflexivity|right; exact H].
      + destruct (b =? k).
        * intros [<-|H]; [left; reflexivity|right; right; exact H].
        * intros [<-|H]; [right; left; reflexivity|].
          destruct (IH H) as [H1|H1]; [left; exact H1|right; right; exact H1].
  Qed.

  Lemma in_prune b (h : hist) e : In e (prune W b h) -> In e h.
  Proof. unfold prune. intros H. apply filter_In in H as [H _]. exact H. Qed.

  Lemma hle_write top b x (h : hist) : hle top h -> b <= top -> hle top (prune W b (bt_insert b x h)).
  Proof.
    intros H Hb e He. apply in_prune in He. apply in_bt_insert in He as [->|He]; [exact Hb|apply H; exact He].
  Qed.

  Lemma h_set_hle top (h : hist) b v h' : h_set veq W h b v = Ok h' -> hle top h -> b <= top -> hle top h'.
  Proof.
    unfold h_set. destruct (negb (stamp_ok b h)); [discriminate|].
    destruct (h_latest h) as [l| |]; cbn [rbind]; try discriminate.
    destruct (opt_eqb veq l (Some v)); intros [= <-] H Hb; [exact H|apply hle_write; assumption].
  Qed.

  Lemma h_unset_hle top (h : hist) b h' : h_unset W h b = Ok h' -> hle top h -> b <= top -> hle top h'.
  Proof.
    unfold h_unset. destruct (negb (stamp_ok b h)); [discriminate|].
    destruct (h_latest h) as [l| |]; cbn [rbind]; try discriminate.
    destruct l; intros [= <-] H Hb; [apply hle_write; assumption|exact H].
  Qed.

  (* a rollback to n keeps only stamps <= n, whatever the history was *)
  Lemma h_reorg_hle (h : hist) n h' : h_reorg h n = Ok h' -> hle n h'.
  Proof.
    unfold h_reorg. destruct (filter (fun e : entry => fst e <=? n) h) as [|a l] eqn:E; [discriminate|].
    intros [= <-]. rewrite <- E. intros e He. apply filter_In in He as [_ He]. apply N.leb_le. exact He.
  Qed.

  (* the two ways a write can fail are an empty history and a stamp below the newest one *)
  Lemma h_set_ok (h : hist) b v : h <> [] -> stamp_ok b h = true -> exists h', h_set veq W h b v = Ok h'.
  Proof.
    intros Hne Hst. unfold h_set. rewrite Hst. cbn [negb]. unfold h_latest.
    destruct (last_entry h) as [[k x]|] eqn:E.
    - cbn [rbind]. destruct (opt_eqb veq x (Some v)); eexists; reflexivity.
    - apply last_entry_nil_iff in E. contradiction.
  Qed.

  Lemma h_unset_ok (h : hist) b : h <> [] -> stamp_ok b h = true -> exists h', h_unset W h b = Ok h'.
  Proof.
    intros Hne Hst. unfold h_unset. rewrite Hst. cbn [negb]. unfold h_latest.
    destruct (last_entry h) as [[k x]|] eqn:E.
    - cbn [rbind]. destruct x; eexists; reflexivity.
    - apply last_entry_nil_iff in E. contradiction.
  Qed.
End HistFresh.

(* ================= cells and the table ================= *)
Section TableFresh.
  Context {V : Type}.
  Variable veq : V -> V -> bool.
  Variable W : N.

  Notation hist := (list (N * option V)).
  Notation table := (@table V).
  Notation cell := (@cell V).

  (* [ct] bounds the cached history of the key, [pt] its persisted history row *)
  Definition cell_fresh (ct pt : N) (c : cell) : Prop :=
    (forall h, c_m c = Some h -> hle ct h) /\ (forall h, c_p c = Some h -> hle pt h).

  Definition TFresh (t : table) (ct pt : N) : Prop := forall k, cell_fresh ct pt (view t k).

  Lemma cell_fresh_mono ct pt ct' pt' c :
    cell_fresh ct pt c -> ct <= ct' -> pt <= pt' -> cell_fresh ct' pt' c.
  Proof.
    intros [Hm Hp] H1 H2. split; intros h Hh.
    - apply (hle_mono ct); [apply Hm; exact Hh|exact H1].
    - apply (hle_mono pt); [apply Hp; exact Hh|exact H2].
  Qed.

  (* the history the next write loads *)
  Lemma cell_fresh_retrieve ct pt top c :
    cell_fresh ct pt c -> ct <= top -> pt <= top -> hle top (c_retrieve c).
  Proof.
    intros [Hm Hp] H1 H2. unfold c_retrieve, effp.
    destruct (c_m c) as [h|]; [apply (hle_mono ct); [apply Hm; reflexivity|exact H1]|].
    destruct (c_p c) as [h|]; [apply (hle_mono pt); [apply Hp; reflexivity|exact H2]|].
    apply hle_new.
  Qed.

  Lemma TFresh_init ct pt : TFresh t_empty ct pt.
  Proof. intros k. split; intros h Hh; discriminate. Qed.

  Lemma TFresh_mono t ct pt ct' pt' : TFresh t ct pt -> ct <= ct' -> pt <= pt' -> TFresh t ct' pt'.
  Proof. intros F H1 H2 k. apply (cell_fresh_mono ct pt); [apply F|exact H1|exact H2]. Qed.

  Lemma TFresh_with_cache t k h ct pt ct' :
    TFresh t ct pt -> ct <= ct' -> hle ct' h -> TFresh (t_with_cache t k h) ct' pt.
  Proof.
    intros F Hct Hh k'. rewrite view_with_cache. destruct (k =? k').
    - split; cbn [c_m c_p fst snd].
      + intros h0 [= <-]. exact Hh.
      + apply (F k').
    - apply (cell_fresh_mono ct pt); [apply F|exact Hct|lia].
  Qed.

  Lemma TFresh_set t b k v t' ct pt ct' :
    t_set veq W t b k v = Ok t' -> TFresh t ct pt -> ct <= ct' -> pt <= ct' -> b <= ct' ->
    TFresh t' ct' pt.
  Proof.
    intros Hs F H1 H2 Hb. unfold t_set in Hs. rewrite retrieve_view in Hs.
    destruct (h_set veq W (c_retrieve (view t k)) b v) as [h'| |] eqn:Hh; cbn [rbind] in Hs; try discriminate.
    injection Hs as <-. apply (TFresh_with_cache t k h' ct pt ct' F H1).
    apply (h_set_hle veq W ct' _ b v h' Hh); [|exact Hb].
    apply (cell_fresh_retrieve ct pt); [apply F|exact H1|exact H2].
  Qed.

  Lemma TFresh_unset t b k t' ct pt ct' :
    t_unset W t b k = Ok t' -> TFresh t ct pt -> ct <= ct' -> pt <= ct' -> b <= ct' ->
    TFresh t' ct' pt.
  Proof.
    intros Hs F H1 H2 Hb. unfold t_unset in Hs. rewrite retrieve_view in Hs.
    destruct (h_unset W (c_retrieve (view t k)) b) as [h'| |] eqn:Hh; cbn [rbind] in Hs; try discriminate.
    injection Hs as <-. apply (TFresh_with_cache t k h' ct pt ct' F H1).
    apply (h_unset_hle W ct' _ b h' Hh); [|exact Hb].
    apply (cell_fresh_retrieve ct pt); [apply F|exact H1|exact H2].
  Qed.

  (* commit: a cached history becomes the persisted row or is dropped; none is created *)
  Lemma cell_fresh_commit b c c' ct pt ct' pt' :
    c_commit W b c = Ok c' -> cell_fresh ct pt c -> ct <= pt' -> pt <= pt' -> cell_fresh ct' pt' c'.
  Proof.
    unfold c_commit. intros Hc [Hm Hp] H1 H2. destruct (c_m c) as [h|] eqn:Em.
    - destruct (h_latest h) as [l| |]; cbn [rbind] in Hc; try discriminate. injection Hc as <-.
      split; cbn [c_m c_p fst snd]; [discriminate|].
      destruct (h_is_old W h b); [discriminate|]. intros h0 [= <-].
      apply (hle_mono ct); [apply Hm; reflexivity|exact H1].
    - injection Hc as <-. split; [rewrite Em; discriminate|].
      intros h Hh. apply (hle_mono pt); [apply Hp; exact Hh|exact H2].
  Qed.

  Lemma TFresh_commit t b t' ct pt ct' pt' :
    NoDup (map fst (t_cache t)) -> t_commit W t b = Ok t' -> TFresh t ct pt ->
    ct <= pt' -> pt <= pt' -> TFresh t' ct' pt'.
  Proof.
    intros Hnd Hc F H1 H2 k. destruct (view_commit W t b t' Hnd Hc) as [Hv _].
    apply (cell_fresh_commit b (view t k) (view t' k) ct pt ct' pt' (Hv k) (F k) H1 H2).
  Qed.

  (* clear: the cache is dropped *)
  Lemma TFresh_clear t ct pt ct' : TFresh t ct pt -> TFresh (t_clear t) ct' pt.
  Proof.
    intros F k. destruct (F k) as [_ Hp]. split.
    - intros h Hh. discriminate.
    - exact Hp.
  Qed.

  (* reorg(n): every history that survives was truncated to stamps <= n *)
  Lemma cell_fresh_reorg n c c' ct' : c_reorg W n c = Ok c' -> cell_fresh ct' n c'.
  Proof.
    unfold c_reorg. destruct (c_touched c) eqn:Ht.
    - destruct (h_reorg (c_retrieve c) n) as [h| |] eqn:Hr; cbn [rbind]; try discriminate.
      unfold c_commit, c_write. cbn [c_m c_p c_d fst snd].
      destruct (h_latest h) as [l| |]; cbn [rbind]; try discriminate. intros [= <-].
      split; cbn [c_m c_p fst snd]; [discriminate|].
      destruct (h_is_old W h n); [discriminate|]. intros h0 [= <-].
      apply (h_reorg_hle _ n h Hr).
    - intros [= <-]. unfold c_touched in Ht. unfold cell_fresh.
      destruct (c_p c); [discriminate|]. destruct (c_m c); [discriminate|].
      split; intros h0 Hh0; discriminate.
  Qed.

  Lemma TFresh_reorg t n t' ct' :
    NoDup (map fst (t_cache t)) -> t_reorg W t n = Ok t' -> TFresh t' ct' n /\ t_cache t' = [].
  Proof.
    intros Hnd Hr. destruct (view_reorg W t n t' Hnd Hr) as [Hv Hc]. split; [|exact Hc].
    intros k. apply (cell_fresh_reorg n (view t k) (view t' k) ct' (Hv k)).
  Qed.
End TableFresh.

(* ================= the store ================= *)
Section ProgressP.
  Variable W : N.

  Notation SInv := (SInv W).
  Notation TFresh := (@TFresh N).

  (* The number of the block whose writes the cache may already hold: the block under
     construction once it has writes, the height otherwise (0 on an empty database, where
     get_next_block_height() is 0). *)
  Definition ctop (st : wfst) : N :=
    match w_h st with
    | Some h => if w_dirty st then h + 1 else h
    | None => 0
    end.
  (* ... and the height at the last commit for the persisted rows *)
  Definition ptop (st : wfst) : N := match w_hc st with Some h => h | None => 0 end.

  Definition ole (a b : option N) : Prop :=
    match a, b with
    | None, _ => True
    | Some x, Some y => x <= y
    | Some _, None => False
    end.

  Record Fresh (s : store) (st : wfst) : Prop := {
    fr_t : TFresh (st_t s) (ctop st) (ptop st);
    fr_ord : ole (w_hc st) (w_h st);    (* the committed height never exceeds the height *)
  }.

  Lemma Fresh_init : Fresh st_empty wf_init.
  Proof. constructor; [apply TFresh_init|exact I]. Qed.

  (* the stamp the protocol prescribes for the next write is at or above both bounds *)
  Lemma stamp_above st stamp :
    ole (w_hc st) (w_h st) -> stamp_ok_for st stamp = true ->
    ctop st <= stamp /\ ptop st <= stamp /\
    stamp = ctop (mkWf (w_h st) (w_m st) (w_hc st) true (w_open st)).
  Proof.
    unfold stamp_ok_for, ctop, ptop, ole. cbn [w_h w_dirty].
    destruct (w_h st) as [h|], (w_hc st) as [c|]; intros Ho Hs; apply N.eqb_eq in Hs; subst stamp;
      try contradiction; destruct (w_dirty st); repeat split; lia.
  Qed.

  Lemma SInv_nodup s F st : SInv s F st -> NoDup (map fst (t_cache (st_t s))).
  Proof. intros I. destruct (si_t _ _ _ _ I) as (clk & sclk & TR & _). apply (tr_nodup _ _ _ TR). Qed.

  (* ---------- preservation ---------- *)
  Theorem Fresh_step s F st o st' s' :
    SInv s F st -> Fresh s st -> wf_step W st o = Some st' -> sto_step W s o = Ok s' ->
    Fresh s' st'.
  Proof.
    intros I [FT FO] Hwf Hs. pose proof (SInv_nodup s F st I) as Hnd.
    destruct o as [stamp k v|which n v|n| | |n]; cbn [wf_step sto_step] in *.
    - (* SV: the new last stamp of the key's history is the write's stamp *)
      destruct (stamp_ok_for st stamp) eqn:Hst; [|discriminate]. injection Hwf as <-.
      destruct (stamp_above st stamp FO Hst) as (H1 & H2 & H3).
      constructor; [|exact FO]. unfold ptop at 1. cbn [w_hc]. fold (ptop st). rewrite <- H3.
      destruct v as [v|].
      + destruct (t_set N.eqb W (st_t s) stamp k v) as [t'| |] eqn:Et; cbn [rbind] in Hs; try discriminate.
        injection Hs as <-. cbn [st_t].
        apply (TFresh_set N.eqb W _ stamp k v t' (ctop st) (ptop st) stamp Et FT H1 H2). lia.
      + destruct (t_unset W (st_t s) stamp k) as [t'| |] eqn:Et; cbn [rbind] in Hs; try discriminate.
        injection Hs as <-. cbn [st_t].
        apply (TFresh_unset W _ stamp k t' (ctop st) (ptop st) stamp Et FT H1 H2). lia.
    - (* SB: histories untouched, the bound does not decrease *)
      destruct (row_ok_for st n); [|discriminate]. injection Hwf as <-. injection Hs as <-.
      constructor; [|exact FO].
      assert (Hc : ctop st <= ctop (mkWf (w_h st) (w_m st) (w_hc st) true (Some n))).
      { unfold ctop. cbn [w_h w_dirty]. destruct (w_h st); [|lia]. destruct (w_dirty st); lia. }
      assert (Ht : TFresh (st_t s) (ctop (mkWf (w_h st) (w_m st) (w_hc st) true (Some n)))
                          (ptop (mkWf (w_h st) (w_m st) (w_hc st) true (Some n)))).
      { apply (TFresh_mono _ (ctop st) (ptop st)); [exact FT|exact Hc|unfold ptop; cbn [w_hc]; lia]. }
      destruct which as [|p]; [exact Ht|]. destruct p; exact Ht.
    - (* SHash n: n is the block under construction *)
      destruct (row_ok_for st n) eqn:Hrow; [|discriminate]. injection Hwf as <-. injection Hs as <-.
      unfold row_ok_for in Hrow.
      constructor; cbn [st_t].
      + apply (TFresh_mono _ (ctop st) (ptop st)); [exact FT| |unfold ptop; cbn [w_hc]; lia].
        unfold ctop. cbn [w_h w_dirty]. destruct (w_h st) as [h|]; [|lia].
        apply N.eqb_eq in Hrow. subst n. destruct (w_dirty st); lia.
      + unfold ole in *. cbn [w_hc w_h]. destruct (w_hc st) as [c|]; [|exact Logic.I].
        destruct (w_h st) as [h|]; [|contradiction]. apply N.eqb_eq in Hrow. lia.
    - (* SCommit: on a clean boundary the cached histories are bounded by the height *)
      destruct (w_dirty st) eqn:Hd; [discriminate|]. injection Hwf as <-.
      unfold sto_commit in Hs.
      destruct (t_commit W (st_t s) (next_height s)) as [t'| |] eqn:Ec; cbn [rbind] in Hs; try discriminate.
      injection Hs as <-. constructor; cbn [sto_clear st_t].
      + apply TFresh_clear with (ct := 0).
        apply (TFresh_commit W _ _ t' (ctop st) (ptop st) 0 _ Hnd Ec FT).
        * unfold ctop, ptop. cbn [w_hc]. rewrite Hd. destruct (w_h st); lia.
        * unfold ptop, ole in *. cbn [w_hc]. destruct (w_hc st) as [c|]; [|lia].
          destruct (w_h st) as [h|]; [lia|contradiction].
      + unfold ole. cbn [w_hc w_h]. destruct (w_h st); [lia|exact Logic.I].
    - (* SClear: the cache is dropped, the height returns to the committed one *)
      injection Hwf as <-. injection Hs as <-. constructor; cbn [sto_clear st_t].
      + apply (TFresh_clear _ (ctop st) (ptop st)). exact FT.
      + unfold ole. cbn [w_hc w_h]. destruct (w_hc st); [lia|exact Logic.I].
    - (* SReorg n: every surviving history is truncated to stamps <= n *)
      destruct (w_h st) as [h|] eqn:Eh; [|discriminate].
      destruct (negb (w_dirty st) && (n <=? h) && (w_m st <=? n + W)); [|discriminate].
      injection Hwf as <-. unfold sto_reorg in Hs.
      destruct (W + n <? match st_max s with Some m => m | None => 0 end); [discriminate|].
      destruct (t_reorg W (st_t s) n) as [t1| |] eqn:Er; cbn [rbind] in Hs; try discriminate.
      unfold sto_commit in Hs. cbn [st_t st_hash st_blk st_raw st_max st_lbn] in Hs.
      destruct (t_commit W t1 _) as [t2| |] eqn:Ec; cbn [rbind] in Hs; try discriminate.
      injection Hs as <-. constructor; cbn [sto_clear st_t].
      + destruct (TFresh_reorg W _ n t1 n Hnd Er) as [F1 Hc1].
        apply TFresh_clear with (ct := n).
        assert (Hnd1 : NoDup (map fst (t_cache t1))) by (rewrite Hc1; constructor).
        apply (TFresh_commit W t1 _ t2 n n n n Hnd1 Ec F1); lia.
      + unfold ole. cbn [w_hc w_h]. lia.
  Qed.

  (* ---------- progress ---------- *)
  Theorem store_step_progress s F st o st' :
    SInv s F st -> Fresh s st -> wf_step W st o = Some st' -> exists s', sto_step W s o = Ok s'.
  Proof.
    intros I [FT FO] Hwf.
    destruct o as [stamp k v|which n v|n| | |n].
    - (* SV *)
      cbn [wf_step] in Hwf. destruct (stamp_ok_for st stamp) eqn:Hst; [|discriminate].
      destruct (stamp_above st stamp FO Hst) as (H1 & H2 & _).
      destruct (si_t _ _ _ _ I) as (clk & sclk & TR & _).
      destruct (CellRepr_eff W _ _ _ _ _ (tr_cells _ _ _ TR k)) as (fl & R).
      pose proof (Repr_nonempty W _ _ _ _ R) as Hne.
      pose proof (cell_fresh_retrieve (ctop st) (ptop st) stamp _ (FT k) H1 H2) as Hle.
      pose proof (hle_stamp_ok stamp stamp _ Hle (N.le_refl _)) as Hok.
      cbn [sto_step]. destruct v as [v|].
      + unfold t_set. rewrite retrieve_view.
        destruct (h_set_ok N.eqb W _ stamp v Hne Hok) as (h' & ->). cbn [rbind]. eexists. reflexivity.
      + unfold t_unset. rewrite retrieve_view.
        destruct (h_unset_ok W _ stamp Hne Hok) as (h' & ->). cbn [rbind]. eexists. reflexivity.
    - cbn [sto_step]. eexists. reflexivity.
    - cbn [sto_step]. eexists. reflexivity.
    - apply (store_commit_ok W s F st st' I Hwf).
    - cbn [sto_step]. eexists. reflexivity.
    - apply (store_reorg_ok W s F st n st' I Hwf).
  Qed.

  (* ---------- whole traces ---------- *)
  Theorem store_run_progress_from ops : forall s F st st',
    SInv s F st -> Fresh s st -> wf_run W st ops = Some st' ->
    exists s', sto_run W s ops = Ok s' /\ SInv s' (fs_run F ops) st' /\ Fresh s' st'.
  Proof.
    induction ops as [|o r IH]; intros s F st st' I FR Hwf.
    - cbn in Hwf. injection Hwf as <-. exists s. split; [reflexivity|]. split; assumption.
    - cbn [wf_run] in Hwf. destruct (wf_step W st o) as [st1|] eqn:Ew; [|discriminate].
      destruct (store_step_progress s F st o st1 I FR Ew) as (s1 & Es).
      pose proof (SInv_step W s F st o st1 s1 I Ew Es) as I1.
      pose proof (Fresh_step s F st o st1 s1 I FR Ew Es) as FR1.
      destruct (IH s1 (fs_step F o) st1 st' I1 FR1 Hwf) as (s' & Hrun & I' & FR').
      exists s'. cbn [sto_run]. rewrite Es. cbn [rbind]. split; [exact Hrun|].
      unfold fs_run. cbn [fold_left]. split; assumption.
  Qed.

  Theorem store_run_progress ops st' :
    wf_run W wf_init ops = Some st' -> exists s', sto_run W st_empty ops = Ok s'.
  Proof.
    intros Hwf.
    destruct (store_run_progress_from ops st_empty fs_init wf_init st' (SInv_init W) Fresh_init Hwf)
      as (s' & Hrun & _).
    exists s'. exact Hrun.
  Qed.

  (* the same with everything the run establishes *)
  Theorem store_run_total ops st' :
    wf_run W wf_init ops = Some st' ->
    exists s', sto_run W st_empty ops = Ok s' /\ SInv s' (fs_run fs_init ops) st' /\ Fresh s' st'.
  Proof. apply (store_run_progress_from ops st_empty fs_init wf_init st' (SInv_init W) Fresh_init). Qed.

  (* [Fresh] in the "every entry" form: every entry of the cache and every persisted history
     row, not only the ones a lookup reaches (under [SInv] keys are not repeated) *)
  Theorem Fresh_entries s F st :
    SInv s F st -> Fresh s st ->
    (forall k h, In (k, h) (t_cache (st_t s)) -> hle (ctop st) h) /\
    (forall k h, In (k, h) (t_cdb (st_t s)) -> hle (ptop st) h).
  Proof.
    intros I [FT _]. destruct (si_t _ _ _ _ I) as (clk & sclk & TR & _). split; intros k h Hin.
    - destruct (FT k) as [Hm _]. apply Hm. unfold view, c_m. cbn [snd].
      apply kv_get_nodup_in; [apply (tr_nodup _ _ _ TR)|exact Hin].
    - destruct (FT k) as [_ Hp]. apply Hp. unfold view, c_p. cbn [fst snd].
      apply kv_get_nodup_in; [apply ksorted_nodup; apply (tr_cdb_sorted _ _ _ TR)|exact Hin].
  Qed.
End ProgressP.

(* ================= the traces of the crash theorems =================
   [crun] (Model/Crash.v) runs the protocol predicate and the store side by side and fails when
   either does; by progress only the protocol predicate and the two block-row facts
   ([crash_step_ok]) can fail. *)
Section CrunProgress.
  Variable W : N.

  Theorem crun_of_wf_from ops : forall s F st st',
    SInv W s F st -> Fresh s st -> wf_run W st ops = Some st' ->
    (forall pre o post s0, ops = pre ++ o :: post -> sto_run W s pre = Ok s0 -> crash_step_ok s0 o = true) ->
    exists s', crun W st s ops = Some (st', s') /\ sto_run W s ops = Ok s'.
  Proof.
    induction ops as [|o r IH]; intros s F st st' I FR Hwf Hok.
    - cbn in Hwf. injection Hwf as <-. exists s. split; reflexivity.
    - cbn [wf_run] in Hwf. destruct (wf_step W st o) as [st1|] eqn:Ew; [|discriminate].
      destruct (store_step_progress W s F st o st1 I FR Ew) as (s1 & Es).
      pose proof (SInv_step W s F st o st1 s1 I Ew Es) as I1.
      pose proof (Fresh_step W s F st o st1 s1 I FR Ew Es) as FR1.
      assert (Hok1 : forall pre o' post s0, r = pre ++ o' :: post -> sto_run W s1 pre = Ok s0 ->
                                            crash_step_ok s0 o' = true).
      { intros pre o' post s0 Hr Hrun. apply (Hok (o :: pre) o' post s0).
        - rewrite Hr. reflexivity.
        - cbn [sto_run]. rewrite Es. cbn [rbind]. exact Hrun. }
      destruct (IH s1 (fs_step F o) st1 st' I1 FR1 Hwf Hok1) as (s' & Hc & Hrun).
      exists s'. cbn [crun sto_run]. rewrite (Hok [] o r s eq_refl eq_refl), Ew, Es. cbn [rbind].
      split; assumption.
  Qed.

  Theorem crun_of_wf ops st :
    wf_run W wf_init ops = Some st ->
    (forall pre o post s0, ops = pre ++ o :: post -> sto_run W st_empty pre = Ok s0 -> crash_step_ok s0 o = true) ->
    exists s, crun W wf_init st_empty ops = Some (st, s).
  Proof.
    intros Hwf Hok.
    destruct (crun_of_wf_from ops st_empty fs_init wf_init st (SInv_init W) (Fresh_init) Hwf Hok) as (s & Hc & _).
    exists s. exact Hc.
  Qed.
End CrunProgress.

(* ================= from the engine's block protocol to the store =================
   Every history of engine calls that issues store operations of the shape the engine code
   issues ([allowed]) yields a store trace that is well-formed, on which the store model never
   fails, keeps its invariant, and accepts every reorg the protocol allows next, restoring the
   values as of the target block. *)
Section EndToEnd.
  Variables W FN FB IDX : N.

  Theorem engine_end_to_end (h : list (call * list sop)) :
    allowed W FN FB IDX g_init wf_init h ->
    exists st s,
      wf_run W wf_init (concat (map snd h)) = Some st /\
      sto_run W st_empty (concat (map snd h)) = Ok s /\
      SInv W s (fs_run fs_init (concat (map snd h))) st /\
      forall n st', wf_step W st (SReorg n) = Some st' ->
        exists s', sto_step W s (SReorg n) = Ok s' /\
                   forall k, t_latest (st_t s') k = Ok (fst (fs_run fs_init (concat (map snd h))) k n).
  Proof.
    intros Hall.
    destruct (engine_history_wf W FN FB IDX h g_init wf_init Rel_init Hall) as (st & Hwf).
    destruct (store_run_progress W _ st Hwf) as (s & Hrun).
    pose proof (store_run_inv W _ st_empty fs_init wf_init s st (SInv_init W) Hwf Hrun) as I.
    exists st, s. split; [exact Hwf|]. split; [exact Hrun|]. split; [exact I|].
    intros n st' Hre. destruct (store_reorg_ok W s _ st n st' I Hre) as (s' & Hs').
    exists s'. split; [exact Hs'|]. intros k.
    apply (store_reorg_restores W s _ st n st' s' k I Hre Hs').
  Qed.

  Theorem checked_history_end_to_end (h : list (call * list sop)) :
    allowed_b W FN FB IDX g_init wf_init h = true ->
    exists st s,
      wf_run W wf_init (concat (map snd h)) = Some st /\
      sto_run W st_empty (concat (map snd h)) = Ok s /\
      SInv W s (fs_run fs_init (concat (map snd h))) st /\
      forall n st', wf_step W st (SReorg n) = Some st' ->
        exists s', sto_step W s (SReorg n) = Ok s' /\
                   forall k, t_latest (st_t s') k = Ok (fst (fs_run fs_init (concat (map snd h))) k n).
  Proof. intros H. apply engine_end_to_end. apply allowed_b_sound. exact H. Qed.
End EndToEnd.
