(* Global facts about the engine protocol model (C08): invariants of every state reachable from
   g_init by any list of calls, under the oracle hypotheses of Model/EngineRun.v, and the exact
   effect of the drain loop of one transact. *)
From Brc.Model Require Import Base Table Engine EngineRun.
From Brc.Proofs Require Import KvP EngineP.

Arguments N.add : simpl never.
Arguments N.leb : simpl never.
Arguments N.ltb : simpl never.
Arguments N.eqb : simpl never.
Arguments N.of_nat : simpl never.
Arguments N.to_nat : simpl never.

(* ---------- lists ---------- *)

(* [k-1; k-2; ...; 0] *)
Fixpoint countdown (l : list N) : Prop :=
  match l with
  | [] => True
  | x :: t => x = N.of_nat (length t) /\ countdown t
  end.

Lemma countdown_app_r l1 l2 : countdown (l1 ++ l2) -> countdown l2.
Proof. induction l1 as [|x l1 IH]; cbn [app countdown]; [auto|]. intros [_ H]. exact (IH H). Qed.

Lemma countdown_rev l : countdown l -> rev l = map N.of_nat (seq 0 (length l)).
Proof.
  induction l as [|x t IH]; cbn [countdown rev length]; [reflexivity|].
  intros [-> H]. rewrite (IH H), seq_S, map_app. reflexivity.
Qed.

Lemma filter_all_true {A} (f : A -> bool) l : (forall x, In x l -> f x = true) -> filter f l = l.
Proof.
  induction l as [|x t IH]; cbn [filter]; [reflexivity|]. intros H.
  rewrite (H x (or_introl eq_refl)), IH; [reflexivity|]. intros y Hy. apply H. right. exact Hy.
Qed.

Lemma filter_filter {A} (f g : A -> bool) l : filter f (filter g l) = filter (fun x => g x && f x) l.
Proof.
  induction l as [|x t IH]; cbn [filter]; [reflexivity|].
  destruct (g x); cbn [filter andb]; [destruct (f x)|]; rewrite IH; reflexivity.
Qed.

Lemma filter_len_le {A} (f : A -> bool) l : (length (filter f l) <= length l)%nat.
Proof. induction l as [|x t IH]; cbn [filter length]; [lia|]. destruct (f x); cbn [length]; lia. Qed.

Lemma filter_ext_in {A} (f g : A -> bool) l : (forall x, In x l -> f x = g x) -> filter f l = filter g l.
Proof.
  induction l as [|x t IH]; cbn [filter]; [reflexivity|]. intros H.
  rewrite (H x (or_introl eq_refl)), IH; [reflexivity|]. intros y Hy. apply H. right. exact Hy.
Qed.

Lemma NoDup_map_filter {A B} (k : A -> B) (f : A -> bool) l : NoDup (map k l) -> NoDup (map k (filter f l)).
Proof.
  induction l as [|x t IH]; cbn [map filter]; [auto|]. intros H. inversion H as [|? ? Hn Hd]; subst.
  destruct (f x); cbn [map]; [|exact (IH Hd)]. constructor; [|exact (IH Hd)].
  intros Hin. apply Hn. apply in_map_iff in Hin as (y & Hy & Hin). apply filter_In in Hin as [Hin _].
  apply in_map_iff. exists y. auto.
Qed.

(* ---------- the log ---------- *)

Lemma valid_nonces_cons a e log :
  valid_nonces a (e :: log) =
  if l_valid e && (l_acct e =? a) then l_nonce e :: valid_nonces a log else valid_nonces a log.
Proof. unfold valid_nonces. cbn [filter]. destruct (l_valid e && (l_acct e =? a)); reflexivity. Qed.

Lemma valid_nonces_app a l1 l2 : valid_nonces a (l1 ++ l2) = valid_nonces a l1 ++ valid_nonces a l2.
Proof. unfold valid_nonces. rewrite filter_app, map_app. reflexivity. Qed.

Lemma valid_nonces_absent a log : ~ In a (map l_acct log) -> valid_nonces a log = [].
Proof.
  induction log as [|e t IH]; [reflexivity|]. cbn [map In]. intros H. rewrite valid_nonces_cons.
  destruct (N.eqb_spec (l_acct e) a) as [E|E]; [exfalso; apply H; left; exact E|].
  rewrite andb_false_r. apply IH. intros Hin. apply H. right. exact Hin.
Qed.

(* block numbers never increase towards the older entries *)
Fixpoint blocks_desc (log : list (N * N * N * N * bool)) : Prop :=
  match log with
  | [] => True
  | e :: t => (forall e', In e' t -> l_block e' <= l_block e) /\ blocks_desc t
  end.

Lemma blocks_desc_filter f log : blocks_desc log -> blocks_desc (filter f log).
Proof.
  induction log as [|e t IH]; cbn [filter blocks_desc]; [auto|]. intros [H1 H2].
  destruct (f e); cbn [blocks_desc]; [|exact (IH H2)]. split; [|exact (IH H2)].
  intros e' Hin. apply filter_In in Hin as [Hin _]. exact (H1 e' Hin).
Qed.

(* truncating a log at a block keeps a suffix of it (its older part) *)
Lemma truncate_is_suffix c log :
  blocks_desc log -> exists l1, log = l1 ++ filter (fun e => fst (fst (fst (fst e))) <=? c) log.
Proof.
  induction log as [|e t IH]; cbn [filter blocks_desc]; [exists []; reflexivity|]. intros [H1 H2].
  destruct (N.leb_spec (fst (fst (fst (fst e)))) c) as [Hle|Hgt].
  - exists []. cbn [app]. f_equal. symmetry. apply filter_all_true. intros x Hx.
    apply N.leb_le. specialize (H1 x Hx). unfold l_block in H1. lia.
  - destruct (IH H2) as (l1 & Hl). exists (e :: l1). cbn [app]. f_equal. exact Hl.
Qed.

Lemma countdown_truncate a c log :
  blocks_desc log -> countdown (valid_nonces a log) ->
  countdown (valid_nonces a (filter (fun e => fst (fst (fst (fst e))) <=? c) log)).
Proof.
  intros Hs Hc. destruct (truncate_is_suffix c log Hs) as (l1 & Hl).
  rewrite Hl, valid_nonces_app in Hc. exact (countdown_app_r _ _ Hc).
Qed.

(* ---------- the pool ---------- *)

Lemma keys_distinct_NoDup l : keys_distinct l = true -> NoDup (map fst l).
Proof.
  induction l as [|p t IH]; cbn [keys_distinct map]; [constructor|]. intros H.
  apply andb_prop in H as [H1 H2]. constructor; [|exact (IH H2)].
  intros Hin. apply in_map_iff in Hin as (q & Hq & Hin).
  assert (E : existsb (same_key p) t = true).
  { apply existsb_exists. exists q. split; [exact Hin|]. unfold same_key. rewrite Hq, !N.eqb_refl. reflexivity. }
  rewrite E in H1. discriminate.
Qed.

Definition key_is (a n : N) (p : N * N * N) : bool := (fst (fst p) =? a) && (snd (fst p) =? n).

Lemma key_is_true a n p : key_is a n p = true <-> fst p = (a, n).
Proof.
  unfold key_is. destruct p as [[a' n'] b]. cbn [fst snd]. split.
  - intros H. apply andb_prop in H as [H1 H2]. apply N.eqb_eq in H1, H2. congruence.
  - intros [= -> ->]. rewrite !N.eqb_refl. reflexivity.
Qed.

Lemma find_key_NoDup pool p :
  NoDup (map fst pool) -> In p pool ->
  find (key_is (fst (fst p)) (snd (fst p))) pool = Some p.
Proof.
  induction pool as [|q t IH]; cbn [map In find]; [intros _ []|]. intros Hd Hin.
  inversion Hd as [|? ? Hn Hd']; subst. destruct Hin as [->|Hin].
  - assert (E : key_is (fst (fst p)) (snd (fst p)) p = true) by (apply key_is_true; destruct p as [[? ?] ?]; reflexivity).
    rewrite E. reflexivity.
  - destruct (key_is (fst (fst p)) (snd (fst p)) q) eqn:E; [|exact (IH Hd' Hin)].
    exfalso. apply Hn. apply key_is_true in E. apply in_map_iff. exists p. split; [|exact Hin].
    rewrite E. destruct p as [[? ?] ?]. reflexivity.
Qed.

Lemma find_key_none pool a n : find (key_is a n) pool = None -> forall p, In p pool -> fst p <> (a, n).
Proof.
  intros H p Hin E. apply (find_none _ _ H) in Hin. apply key_is_true in E. congruence.
Qed.

Lemma drained_entries_S num idx a nn valids m :
  drained_entries num idx a nn valids (S m) =
  (num, idx, a, nn, hd true valids) :: drained_entries num (idx + 1) a (nn + 1) (tl valids) m.
Proof.
  unfold drained_entries. cbn [seq map]. f_equal.
  - change (N.of_nat 0) with 0. rewrite !N.add_0_r. destruct valids; reflexivity.
  - rewrite <- seq_shift, map_map. apply map_ext. intros i. rewrite Nat2N.inj_succ.
    replace (idx + N.succ (N.of_nat i)) with (idx + 1 + N.of_nat i) by lia.
    replace (nn + N.succ (N.of_nat i)) with (nn + 1 + N.of_nat i) by lia.
    destruct valids; [destruct i|]; reflexivity.
Qed.

Lemma answers_used_S valids m : answers_used (S m) valids = hd true valids :: answers_used m (tl valids).
Proof.
  unfold answers_used. cbn [seq map]. f_equal; [destruct valids; reflexivity|].
  rewrite <- seq_shift, map_map. apply map_ext. intros i. destruct valids; [destruct i|]; reflexivity.
Qed.

Lemma all_false_mono l : forallb negb l = true -> mono_bools l = true.
Proof.
  induction l as [|b t IH]; cbn [forallb mono_bools]; [reflexivity|]. intros H.
  apply andb_prop in H as [H1 H2]. destruct b; [discriminate|exact H2].
Qed.

Section EngineGlobalP.
  Variables W FN FB IDX : N.

  Notation e_step := (e_step W FN FB IDX).
  Notation drain := (drain FB).
  Notation finalise := (finalise FB).
  Notation mine := (mine FB).
  Notation run := (run W FN FB IDX).
  Notation run_all := (run_all W FN FB IDX).

  (* ---------- one execution ---------- *)

  Lemma next_h_ext g g' : g_h g' = g_h g -> g_blocks g' = g_blocks g -> next_h g' = next_h g.
  Proof. intros H1 H2. unfold next_h, height, block_exists. rewrite H1, H2. reflexivity. Qed.

  Lemma exec_tx_more g a nn idx ts h num v g1 :
    exec_tx g a nn idx ts h num v = Some g1 ->
    g_nonce g1 = (if v then kv_put (g_nonce g) a (nonce_of g a + 1) else g_nonce g) /\
    g_dirty g1 = g_dirty g /\ next_h g1 = next_h g.
  Proof.
    unfold exec_tx. destruct (validate_next g idx h num ts); [|discriminate].
    intros [= <-]. cbn. repeat split; reflexivity.
  Qed.

  (* the tx nonces of the effective transactions of every account count down to 0, and the
     account's nonce is their number *)
  Definition CountInv (g : eng) : Prop :=
    forall a, countdown (valid_nonces a (g_log g)) /\
              nonce_of g a = N.of_nat (length (valid_nonces a (g_log g))).

  Lemma CountInv_ext g g' : g_nonce g' = g_nonce g -> g_log g' = g_log g -> CountInv g -> CountInv g'.
  Proof. intros H1 H2 I a. unfold nonce_of. rewrite H1, H2. exact (I a). Qed.

  Lemma exec_tx_CountInv g a nn idx ts h num v g1 :
    exec_tx g a nn idx ts h num v = Some g1 ->
    (v = true -> nn = nonce_of g a) -> CountInv g -> CountInv g1.
  Proof.
    intros He Hv I a'.
    destruct (exec_tx_fields _ _ _ _ _ _ _ _ _ He) as (_ & _ & _ & _ & _ & _ & _ & _ & Hlog).
    destruct (exec_tx_more _ _ _ _ _ _ _ _ _ He) as (Hn & _).
    unfold nonce_of. rewrite Hlog, Hn, valid_nonces_cons. cbn [l_valid l_acct l_nonce fst snd].
    destruct (I a') as [Hc Hl]. unfold nonce_of in Hl.
    destruct v; cbn [andb]; [|split; assumption].
    rewrite kv_get_put. destruct (N.eqb_spec a a') as [<-|Hne]; [|split; assumption].
    cbn [countdown length]. rewrite (Hv eq_refl). unfold nonce_of. rewrite Hl.
    split; [split; [reflexivity|exact Hc]|]. rewrite Nat2N.inj_succ. lia.
  Qed.

  (* ---------- the drain loop ---------- *)

  Lemma pool_remove_shorter pool a nn b :
    match find (fun p => (fst (fst p) =? a) && (snd (fst p) =? nn)) pool with Some p => Some (snd p) | None => None end = Some b ->
    (length (pool_remove pool a nn) < length pool)%nat.
  Proof.
    unfold pool_remove. induction pool as [|q t IH]; cbn [find filter length]; [discriminate|].
    destruct ((fst (fst q) =? a) && (snd (fst q) =? nn)); cbn [negb length].
    - intros _. pose proof (filter_len_le (fun p => negb ((fst (fst p) =? a) && (snd (fst p) =? nn))) t). lia.
    - intros H. specialize (IH H). lia.
  Qed.

  Lemma pool_find_remove_other g g2 a nn j :
    g_pool g2 = pool_remove (g_pool g) a nn -> j <> nn -> pool_find g2 a j = pool_find g a j.
  Proof.
    intros Hp Hne. unfold pool_find. rewrite Hp. unfold pool_remove. clear Hp.
    induction (g_pool g) as [|q t IH]; cbn [find filter]; [reflexivity|].
    destruct ((fst (fst q) =? a) && (snd (fst q) =? nn)) eqn:E1; cbn [negb find].
    - apply andb_prop in E1 as [Ea En]. apply N.eqb_eq in Ea, En.
      assert (E2 : (fst (fst q) =? a) && (snd (fst q) =? j) = false).
      { rewrite En. destruct (N.eqb_spec nn j); [congruence|]. apply andb_false_r. }
      rewrite E2. exact IH.
    - destruct ((fst (fst q) =? a) && (snd (fst q) =? j)); [reflexivity|exact IH].
  Qed.

  Lemma pool_find_none_remove pool a nn :
    find (fun p => (fst (fst p) =? a) && (snd (fst p) =? nn)) pool = None -> pool_remove pool a nn = pool.
  Proof.
    intros H. unfold pool_remove. apply filter_all_true. intros p Hp.
    rewrite (find_none _ _ H p Hp). reflexivity.
  Qed.

  (* the filter that removes the keys (a, lo) ... (a, hi) *)
  Definition out_of_range (a lo hi : N) (p : N * N * N) : bool :=
    negb ((fst (fst p) =? a) && (lo <=? snd (fst p)) && (snd (fst p) <=? hi)).

  Lemma pool_remove_range pool a nn : pool_remove pool a nn = filter (out_of_range a nn nn) pool.
  Proof.
    unfold pool_remove. apply filter_ext_in. intros p _. unfold out_of_range. f_equal.
    destruct (fst (fst p) =? a); cbn [andb]; [|reflexivity].
    destruct (N.eqb_spec (snd (fst p)) nn), (N.leb_spec nn (snd (fst p))), (N.leb_spec (snd (fst p)) nn); cbn [andb]; try reflexivity; lia.
  Qed.

  Lemma out_of_range_split pool a nn hi :
    nn + 1 <= hi + 1 ->
    filter (out_of_range a (nn + 1) hi) (pool_remove pool a nn) = filter (out_of_range a nn hi) pool.
  Proof.
    intros Hle. rewrite pool_remove_range, filter_filter. apply filter_ext_in. intros p _. unfold out_of_range.
    destruct (fst (fst p) =? a); cbn [andb negb]; [|reflexivity].
    destruct (N.leb_spec nn (snd (fst p))), (N.leb_spec (snd (fst p)) nn), (N.leb_spec (nn + 1) (snd (fst p))),
      (N.leb_spec (snd (fst p)) hi); cbn [andb negb]; try reflexivity; lia.
  Qed.

  Lemma drain_done_le fuel : forall g a nn idx ts h num valids done g' k,
    drain fuel g a nn idx ts h num valids done = Some (g', k) -> done <= k.
  Proof.
    induction fuel as [|f IH]; intros g a nn idx ts h num valids done g' k; cbn [Engine.drain].
    - intros [= _ <-]. lia.
    - destruct (pool_find g a nn) as [parked|]; [|intros [= _ <-]; lia].
      destruct (num <? FB + parked); [|intros [= _ <-]; lia].
      destruct (exec_tx g a nn idx ts h num (hd true valids)) as [g1|]; [|discriminate].
      intros H. apply IH in H. lia.
  Qed.

  (* What the drain does, exactly: it executes the m waiting transactions with the nonces nn,
     nn+1, ... that are present and fresh, at consecutive indexes, and stops at the first nonce
     that is absent or expired (the expired one is dropped). *)
  Lemma drain_spec fuel : forall g a nn idx ts h num valids done g' k,
    drain fuel g a nn idx ts h num valids done = Some (g', k) ->
    (length (g_pool g) < fuel)%nat ->
    exists m, k = done + N.of_nat m /\
      g_log g' = rev (drained_entries num idx a nn valids m) ++ g_log g /\
      (forall i, (i < m)%nat -> exists b, pool_find g a (nn + N.of_nat i) = Some b /\ num < FB + b) /\
      (pool_find g a (nn + N.of_nat m) = None \/
       exists b, pool_find g a (nn + N.of_nat m) = Some b /\ FB + b <= num) /\
      g_pool g' = filter (out_of_range a nn (nn + N.of_nat m)) (g_pool g) /\
      g_h g' = g_h g /\ g_blocks g' = g_blocks g.
  Proof.
    induction fuel as [|f IH]; intros g a nn idx ts h num valids done g' k; cbn [Engine.drain]; [intros _ Hf; lia|].
    destruct (pool_find g a nn) as [parked|] eqn:Ef.
    2:{ intros [= <- <-] _. exists 0%nat. change (N.of_nat 0) with 0. rewrite !N.add_0_r.
        repeat split; try reflexivity; [ |left; exact Ef|].
        - intros i Hi. lia.
        - rewrite <- pool_remove_range. symmetry. apply pool_find_none_remove.
          unfold pool_find in Ef. destruct (find _ (g_pool g)); [discriminate|reflexivity]. }
    destruct (N.ltb_spec num (FB + parked)) as [Hfresh|Hexp].
    - destruct (exec_tx g a nn idx ts h num (hd true valids)) as [g1|] eqn:He; [|discriminate].
      destruct (exec_tx_fields _ _ _ _ _ _ _ _ _ He) as (_ & _ & _ & _ & Hb1 & Hh1 & Hp1 & _ & Hl1).
      match goal with |- Engine.drain FB f ?g2 _ _ _ _ _ _ _ _ = _ -> _ => set (gg := g2) end.
      intros Hd Hfuel.
      assert (Hpg : g_pool gg = pool_remove (g_pool g) a nn) by (subst gg; cbn [g_pool]; rewrite Hp1; reflexivity).
      assert (Hlen : (length (g_pool gg) < f)%nat).
      { rewrite Hpg. unfold pool_find in Ef.
        pose proof (pool_remove_shorter (g_pool g) a nn parked Ef). lia. }
      destruct (IH _ _ _ _ _ _ _ _ _ _ _ Hd Hlen) as (m & Hk & Hlog & Hex & Hstop & Hpool & Hh & Hb).
      exists (S m). rewrite Nat2N.inj_succ.
      replace (nn + N.succ (N.of_nat m)) with (nn + 1 + N.of_nat m) by lia.
      split; [lia|]. split.
      { rewrite Hlog, drained_entries_S. cbn [rev]. rewrite <- app_assoc. cbn [app].
        subst gg. cbn [g_log]. rewrite Hl1. reflexivity. }
      split.
      { intros [|i] Hi.
        - change (N.of_nat 0) with 0. rewrite N.add_0_r. exists parked. split; [exact Ef|exact Hfresh].
        - destruct (Hex i ltac:(lia)) as (b & Hb' & Hlt). exists b. split; [|exact Hlt].
          rewrite Nat2N.inj_succ. replace (nn + N.succ (N.of_nat i)) with (nn + 1 + N.of_nat i) by lia.
          rewrite <- Hb'. symmetry. apply (pool_find_remove_other g gg a nn); [exact Hpg|lia]. }
      split.
      { rewrite <- (pool_find_remove_other g gg a nn (nn + 1 + N.of_nat m) Hpg ltac:(lia)). exact Hstop. }
      split.
      { rewrite Hpool, Hpg. apply out_of_range_split. lia. }
      subst gg. cbn [g_h g_blocks] in Hh, Hb. split; congruence.
    - intros [= <- <-] _. exists 0%nat. change (N.of_nat 0) with 0. rewrite !N.add_0_r.
      repeat split; try reflexivity.
      + intros i Hi. lia.
      + right. exists parked. split; [exact Ef|exact Hexp].
      + cbn [g_pool]. apply pool_remove_range.
  Qed.

  Lemma nonce_of_after_valid g a nn idx ts h num g1 :
    exec_tx g a nn idx ts h num true = Some g1 -> nonce_of g1 a = nonce_of g a + 1.
  Proof.
    intros He. destruct (exec_tx_more _ _ _ _ _ _ _ _ _ He) as (Hn & _).
    unfold nonce_of at 1. rewrite Hn, kv_get_put, N.eqb_refl. reflexivity.
  Qed.

  (* the drain keeps the nonce invariant as long as revm's answers follow its nonce rule: either
     the drain starts at the account's nonce, or every execution is refused *)
  Lemma drain_CountInv fuel : forall g a nn idx ts h num valids done g' k m,
    drain fuel g a nn idx ts h num valids done = Some (g', k) -> k = done + N.of_nat m ->
    mono_bools (answers_used m valids) = true ->
    (nn = nonce_of g a \/ forallb negb (answers_used m valids) = true) ->
    CountInv g -> CountInv g'.
  Proof.
    induction fuel as [|f IH]; intros g a nn idx ts h num valids done g' k m; cbn [Engine.drain].
    - intros [= <- _] _ _ _ I. exact I.
    - destruct (pool_find g a nn) as [parked|]; [|intros [= <- _] _ _ _ I; exact I].
      destruct (num <? FB + parked).
      + destruct (exec_tx g a nn idx ts h num (hd true valids)) as [g1|] eqn:He; [|discriminate].
        match goal with |- Engine.drain FB f ?g2 _ _ _ _ _ _ _ _ = _ -> _ => set (gg := g2) end.
        intros Hd Hk Hm Hor I.
        pose proof (drain_done_le _ _ _ _ _ _ _ _ _ _ _ _ Hd) as Hle.
        destruct m as [|m']; [change (N.of_nat 0) with 0 in Hk; lia|].
        rewrite answers_used_S in Hm, Hor. rewrite Nat2N.inj_succ in Hk.
        assert (Hv : hd true valids = true -> nn = nonce_of g a).
        { intros Ev. destruct Hor as [Hn|Hall]; [exact Hn|]. rewrite Ev in Hall. discriminate. }
        assert (I1 : CountInv g1) by exact (exec_tx_CountInv _ _ _ _ _ _ _ _ _ He Hv I).
        apply (IH gg a (nn + 1) (idx + 1) ts h num (tl valids) (done + 1) g' k m' Hd); [lia| | |].
        * cbn [mono_bools] in Hm. destruct (hd true valids); [exact Hm|apply all_false_mono; exact Hm].
        * destruct (hd true valids) eqn:Ev.
          -- left. rewrite (Hv eq_refl). symmetry. exact (nonce_of_after_valid _ _ _ _ _ _ _ _ He).
          -- right. destruct Hor as [_|Hall]; [exact Hm|]. cbn [forallb negb andb] in Hall. exact Hall.
        * exact (CountInv_ext g1 gg eq_refl eq_refl I1).
      + intros [= <- _] _ _ _ I. exact (CountInv_ext g _ eq_refl eq_refl I).
  Qed.

  Lemma pool_find_filtered_none g' pool a lo hi j :
    g_pool g' = filter (out_of_range a lo hi) pool -> lo <= j -> j <= hi -> pool_find g' a j = None.
  Proof.
    intros Hp H1 H2. unfold pool_find. rewrite Hp.
    destruct (find _ (filter (out_of_range a lo hi) pool)) as [p|] eqn:E; [|reflexivity].
    apply find_some in E as [Hin Hk]. apply filter_In in Hin as [_ Ho]. exfalso.
    apply andb_prop in Hk as [Ha Hn]. apply N.eqb_eq in Hn. unfold out_of_range in Ho. rewrite Ha, Hn in Ho.
    destruct (N.leb_spec lo j), (N.leb_spec j hi); cbn in Ho; try discriminate; lia.
  Qed.

  (* ---------- one transact, by cases ---------- *)

  Definition parked_state (g : eng) (a n : N) : eng :=
    mkEng (g_h g) (g_maxb g) (g_wait g) (g_ts g) (g_hash g) (g_blocks g) (g_nonce g)
          (pool_put (g_pool g) a n (next_h g)) true (g_log g).

  Lemma transact_cases g a n idx ts h vs :
    let c := CRaw (DSigned a n) idx ts h vs in
    let num := next_h g in
    let hash := resolve_hash h num in
    (n = nonce_of g a /\ exists g1 g2 k,
        exec_tx g a n idx ts hash num (hd true vs) = Some g1 /\
        drain (S (length (g_pool g1))) g1 a (n + 1) (idx + 1) ts hash num (tl vs) 1 = Some (g2, k) /\
        e_step g c = (g2, OOk k)) \/
    (n = nonce_of g a /\ exec_tx g a n idx ts hash num (hd true vs) = None /\ e_step g c = (g, ORejected)) \/
    (nonce_of g a < n /\ n < nonce_of g a + FN /\ e_step g c = (parked_state g a n, OOk 0)) \/
    (n <> nonce_of g a /\ e_step g c = (g, OOk 0)).
  Proof.
    intros c num hash. subst c. cbn [Engine.e_step]. fold num. fold hash.
    destruct (N.eqb_spec n (nonce_of g a)) as [E|E].
    - destruct (exec_tx g a n idx ts hash num (hd true vs)) as [g1|] eqn:He.
      + left. split; [exact E|].
        pose proof (validate_after_exec _ _ _ _ _ _ _ _ _ He) as Hv.
        destruct (drain_ok FB (S (length (g_pool g1))) g1 a (nonce_of g a + 1) (idx + 1) ts hash num (tl vs) 1 Hv)
          as (g2 & k & Hd & _).
        exists g1, g2, k. rewrite Hd. rewrite E. rewrite Hd. repeat split.
      + right. left. repeat split. exact E.
    - destruct (N.ltb_spec (nonce_of g a) n), (N.ltb_spec n (nonce_of g a + FN)); cbn [andb].
      + right. right. left. repeat split; assumption.
      + right. right. right. split; [exact E|reflexivity].
      + right. right. right. split; [exact E|reflexivity].
      + right. right. right. split; [exact E|reflexivity].
  Qed.

  (* A2: the entries one transact appends, and what its drain guarantees *)
  Theorem transact_drain_spec g a n idx ts h vs k :
    snd (e_step g (CRaw (DSigned a n) idx ts h vs)) = OOk k ->
    let g' := fst (e_step g (CRaw (DSigned a n) idx ts h vs)) in
    g_log g' = rev (drained_entries (next_h g) idx a n vs (N.to_nat k)) ++ g_log g /\
    (1 <= k ->
     n = nonce_of g a /\ idx = g_wait g /\
     (forall j, n < j -> j < n + k -> exists b, pool_find g a j = Some b /\ next_h g < FB + b) /\
     (pool_find g a (n + k) = None \/
      exists b, pool_find g a (n + k) = Some b /\ FB + b <= next_h g) /\
     g_pool g' = filter (out_of_range a (n + 1) (n + k)) (g_pool g) /\
     (forall j, n < j -> j <= n + k -> pool_find g' a j = None)).
  Proof.
    destruct (transact_cases g a n idx ts h vs) as [(E & g1 & g2 & k' & He & Hd & Hs)|[(E & He & Hs)|[(H1 & H2 & Hs)|(E & Hs)]]];
      rewrite Hs; cbn [fst snd].
    - intros [= <-].
      destruct (exec_tx_fields _ _ _ _ _ _ _ _ _ He) as (Hv & _ & _ & _ & _ & _ & Hp1 & _ & Hl1).
      destruct (drain_spec _ _ _ _ _ _ _ _ _ _ _ _ Hd ltac:(lia)) as (m & Hk & Hlog & Hex & Hstop & Hpool & _).
      assert (Hm : N.to_nat k' = S m) by lia.
      rewrite Hm, drained_entries_S. cbn [rev]. rewrite <- app_assoc. cbn [app]. rewrite Hlog, Hl1.
      split; [reflexivity|]. intros _.
      replace (n + k') with (n + 1 + N.of_nat m) by lia. rewrite Hp1 in Hpool.
      split; [exact E|]. split; [symmetry; exact (validate_wait _ _ _ _ _ Hv)|].
      assert (Hf : forall j, pool_find g1 a j = pool_find g a j) by (intros j; unfold pool_find; rewrite Hp1; reflexivity).
      split; [|split; [|split]].
      + intros j Hj1 Hj2. destruct (Hex (N.to_nat (j - (n + 1))) ltac:(lia)) as (b & Hb & Hlt).
        exists b. split; [|exact Hlt]. rewrite <- Hf, <- Hb. f_equal. lia.
      + rewrite <- Hf. exact Hstop.
      + exact Hpool.
      + intros j Hj1 Hj2. apply (pool_find_filtered_none g2 (g_pool g) a (n + 1) (n + 1 + N.of_nat m) j Hpool); lia.
    - discriminate.
    - intros [= <-]. split; [reflexivity|lia].
    - intros [= <-]. split; [reflexivity|lia].
  Qed.

  (* a waiting successor that is still fresh is executed in the same call *)
  Corollary transact_takes_waiting_successor g a n idx ts h vs k b :
    snd (e_step g (CRaw (DSigned a n) idx ts h vs)) = OOk k -> 1 <= k ->
    pool_find g a (n + 1) = Some b -> next_h g < FB + b -> 2 <= k.
  Proof.
    intros Hs Hk Hf Hfresh. destruct (transact_drain_spec g a n idx ts h vs k Hs) as (_ & H).
    destruct (H Hk) as (_ & _ & _ & Hstop & _).
    destruct (N.eq_dec k 1) as [->|]; [|lia]. rewrite Hf in Hstop.
    destruct Hstop as [Hn|(b' & [= <-] & Hle)]; [discriminate|lia].
  Qed.

  (* ---------- finalise, mine ---------- *)

  Definition unexpired_at (b : N) (p : N * N * N) : bool := b <? snd p + FB.

  Lemma finalise_fields g ts h num cnt g' :
    finalise g ts h num cnt = Some g' ->
    g_h g' = Some num /\ g_log g' = g_log g /\ g_nonce g' = g_nonce g /\
    g_pool g' = filter (unexpired_at num) (g_pool g) /\ next_h g' = num + 1.
  Proof.
    unfold Engine.finalise. destruct (validate_next g cnt h num ts); [|discriminate].
    intros [= <-]. cbn [g_h g_log g_nonce g_pool]. repeat split.
    unfold next_h, height, block_exists. cbn [g_h g_blocks existsb fst].
    destruct (N.eqb_spec num 0) as [->|Hne]; [reflexivity|reflexivity].
  Qed.

  Lemma height_le_next g c : g_h g = Some c -> c <= next_h g.
  Proof.
    intros H. unfold next_h, height. rewrite H. destruct (N.eqb_spec c 0) as [->|Hne]; [apply N.le_0_l|lia].
  Qed.

  Lemma unexpired_twice b1 b2 pool :
    b1 <= b2 -> filter (unexpired_at b2) (filter (unexpired_at b1) pool) = filter (unexpired_at b2) pool.
  Proof.
    intros Hle. rewrite filter_filter. apply filter_ext_in. intros p _. unfold unexpired_at.
    destruct (N.ltb_spec b1 (snd p + FB)), (N.ltb_spec b2 (snd p + FB)); cbn [andb]; try reflexivity; lia.
  Qed.

  Lemma mine_fields f : forall g num ts g',
    mine f g num ts = Some g' ->
    g_log g' = g_log g /\ g_nonce g' = g_nonce g /\
    match f with
    | O => g' = g
    | S _ => g_h g' = Some (num + N.of_nat f - 1) /\ next_h g' = num + N.of_nat f /\
             g_pool g' = filter (unexpired_at (num + N.of_nat f - 1)) (g_pool g)
    end.
  Proof.
    induction f as [|f IH]; intros g num ts g'; cbn [Engine.mine].
    - intros [= <-]. repeat split.
    - destruct (finalise g ts (gen_hash num) num 0) as [g1|] eqn:Ef; [|discriminate].
      destruct (finalise_fields _ _ _ _ _ _ Ef) as (Hh & Hl & Hn & Hp & Hnx).
      intros Hm. destruct (IH _ _ _ _ Hm) as (Hl' & Hn' & Hrest).
      split; [congruence|]. split; [congruence|]. rewrite Nat2N.inj_succ.
      destruct f as [|f'].
      + subst g'. change (N.of_nat 0) with 0.
        replace (num + N.succ 0 - 1) with num by lia. replace (num + N.succ 0) with (num + 1) by lia.
        repeat split; assumption.
      + destruct Hrest as (Hh' & Hnx' & Hp').
        replace (num + N.succ (N.of_nat (S f')) - 1) with (num + 1 + N.of_nat (S f') - 1) by lia.
        replace (num + N.succ (N.of_nat (S f'))) with (num + 1 + N.of_nat (S f')) by lia.
        repeat split; try assumption. rewrite Hp', Hp. apply unexpired_twice. lia.
  Qed.

  (* ---------- the log invariants ---------- *)

  Definition SortInv (g : eng) : Prop :=
    blocks_desc (g_log g) /\ forall e, In e (g_log g) -> l_block e <= next_h g.

  Lemma SortInv_ext g g' : g_log g' = g_log g -> next_h g <= next_h g' -> SortInv g -> SortInv g'.
  Proof.
    intros Hl Hn [H1 H2]. split; rewrite Hl; [exact H1|]. intros e He. specialize (H2 e He). lia.
  Qed.

  Lemma SortInv_app g g' l :
    g_log g' = l ++ g_log g -> (forall e, In e l -> l_block e = next_h g) -> next_h g' = next_h g ->
    SortInv g -> SortInv g'.
  Proof.
    intros Hl Hb Hn [H1 H2]. split; rewrite Hl.
    - clear Hl. induction l as [|e t IH]; cbn [app blocks_desc]; [exact H1|]. split.
      + intros e' He'. rewrite (Hb e (or_introl eq_refl)). apply in_app_or in He' as [He'|He'].
        * rewrite (Hb e' (or_intror He')). lia.
        * exact (H2 e' He').
      + apply IH. intros e' He'. apply Hb. right. exact He'.
    - intros e He. rewrite Hn. apply in_app_or in He as [He|He]; [rewrite (Hb e He); lia|exact (H2 e He)].
  Qed.

  Lemma SortInv_truncate g g' c :
    g_log g' = filter (fun e => fst (fst (fst (fst e))) <=? c) (g_log g) -> c <= next_h g' ->
    SortInv g -> SortInv g'.
  Proof.
    intros Hl Hc [H1 _]. split; rewrite Hl; [apply blocks_desc_filter; exact H1|].
    intros e He. apply filter_In in He as [_ He]. apply N.leb_le in He. unfold l_block. lia.
  Qed.

  Lemma exec_tx_SortInv g a nn idx ts h v g1 :
    exec_tx g a nn idx ts h (next_h g) v = Some g1 -> SortInv g -> SortInv g1.
  Proof.
    intros He. destruct (exec_tx_fields _ _ _ _ _ _ _ _ _ He) as (_ & _ & _ & _ & _ & _ & _ & _ & Hlog).
    destruct (exec_tx_more _ _ _ _ _ _ _ _ _ He) as (_ & _ & Hn).
    apply (SortInv_app g g1 [(next_h g, idx, a, nn, v)]); [exact Hlog| |exact Hn].
    intros e [<-|[]]. reflexivity.
  Qed.

  Lemma drained_entries_block num idx a nn vs m e :
    In e (rev (drained_entries num idx a nn vs m)) -> l_block e = num.
  Proof.
    intros H. apply in_rev in H. unfold drained_entries in H. apply in_map_iff in H as (i & <- & _). reflexivity.
  Qed.

  Definition LogInv (g : eng) : Prop := CountInv g /\ SortInv g.

  Lemma nonces_agree_spec g :
    nonces_agree g = true -> forall a, nonce_of g a = N.of_nat (length (valid_nonces a (g_log g))).
  Proof.
    unfold nonces_agree. intros H a. rewrite forallb_forall in H.
    destruct (in_dec N.eq_dec a (map fst (g_nonce g) ++ map l_acct (g_log g))) as [Hin|Hout].
    - apply N.eqb_eq. exact (H a Hin).
    - rewrite valid_nonces_absent by (intros Hi; apply Hout; apply in_or_app; right; exact Hi).
      unfold nonce_of. destruct (kv_get (g_nonce g) a) eqn:E; [|reflexivity].
      exfalso. apply Hout. apply in_or_app. left. apply kv_get_in_keys. congruence.
  Qed.

  Lemma LogInv_init : LogInv g_init.
  Proof. split; [intros a; split; [exact I|reflexivity]|split; [exact I|intros e []]]. Qed.

  Lemma truncated_LogInv g g' c :
    g_log g' = filter (fun e => fst (fst (fst (fst e))) <=? c) (g_log g) -> g_h g' = Some c ->
    nonces_agree g' = true -> LogInv g -> LogInv g'.
  Proof.
    intros Hl Hh Hn [Ic Is]. split.
    - intros a. split; [|exact (nonces_agree_spec g' Hn a)]. rewrite Hl.
      apply countdown_truncate; [exact (proj1 Is)|exact (proj1 (Ic a))].
    - exact (SortInv_truncate g g' c Hl (height_le_next g' c Hh) Is).
  Qed.

  (* A1, one step: the log invariants survive every call, whatever the oracles answer within
     revm's nonce rule (H1) and a faithful resynchronisation (H2) *)
  Theorem step_LogInv g c :
    revm_nonce_rule W FN FB IDX g c = true -> resync_nonces_agree W FN FB IDX g c = true ->
    LogInv g -> LogInv (fst (e_step g c)).
  Proof.
    intros H1 H2 [Ic Is].
    destruct c as [a idx ts h v|d idx ts h vs|ts h cnt|cnt ts|h ts hg| |hc bl nn pl|n nn pl|].
    - cbn [Engine.e_step].
      destruct (exec_tx g a (nonce_of g a) idx ts (resolve_hash h (next_h g)) (next_h g) v) as [g1|] eqn:He;
        cbn [fst]; [|split; assumption].
      split; [exact (exec_tx_CountInv _ _ _ _ _ _ _ _ _ He (fun _ => eq_refl) Ic)|exact (exec_tx_SortInv _ _ _ _ _ _ _ _ He Is)].
    - destruct d as [| |a n]; [split; assumption|split; assumption|].
      cbn [revm_nonce_rule] in H1.
      destruct (transact_cases g a n idx ts h vs) as [(E & g1 & g2 & k & He & Hd & Hs)|[(E & He & Hs)|[(_ & _ & Hs)|(E & Hs)]]];
        rewrite Hs in *; cbn [fst snd receipts_of] in *; try (split; assumption).
      + destruct (drain_spec _ _ _ _ _ _ _ _ _ _ _ _ Hd ltac:(lia)) as (m & Hk & Hlog & _ & _ & _ & Hh & Hb).
        replace (N.to_nat k) with (S m) in H1 by lia. rewrite answers_used_S in H1.
        assert (I1 : CountInv g1) by exact (exec_tx_CountInv _ _ _ _ _ _ _ _ _ He (fun _ => E) Ic).
        split.
        * apply (drain_CountInv _ _ _ _ _ _ _ _ _ _ _ _ m Hd Hk); [| |exact I1].
          -- cbn [mono_bools] in H1. destruct (hd true vs); [exact H1|apply all_false_mono; exact H1].
          -- destruct (hd true vs) eqn:Ev.
             ++ left. rewrite (nonce_of_after_valid _ _ _ _ _ _ _ _ He), E. reflexivity.
             ++ right. exact H1.
        * apply (SortInv_app g1 g2 _ Hlog).
          -- intros e He'. rewrite (drained_entries_block _ _ _ _ _ _ _ He').
             symmetry. exact (proj2 (proj2 (exec_tx_more _ _ _ _ _ _ _ _ _ He))).
          -- exact (next_h_ext g1 g2 Hh Hb).
          -- exact (exec_tx_SortInv _ _ _ _ _ _ _ _ He Is).
    - cbn [Engine.e_step].
      destruct (finalise g ts (resolve_hash h (next_h g)) (next_h g) cnt) as [g1|] eqn:Ef; cbn [fst]; [|split; assumption].
      destruct (finalise_fields _ _ _ _ _ _ Ef) as (_ & Hl & Hn & _ & Hnx).
      split; [exact (CountInv_ext g g1 Hn Hl Ic)|apply (SortInv_ext g g1 Hl); [lia|exact Is]].
    - cbn [Engine.e_step]. destruct (negb (g_wait g =? 0) || g_dirty g); cbn [fst]; [split; assumption|].
      destruct (mine (N.to_nat cnt) g (next_h g) ts) as [g1|] eqn:Em; cbn [fst]; [|split; assumption].
      destruct (mine_fields _ _ _ _ _ Em) as (Hl & Hn & Hrest).
      split; [exact (CountInv_ext g g1 Hn Hl Ic)|]. apply (SortInv_ext g g1 Hl); [|exact Is].
      destruct (N.to_nat cnt); [subst g1; lia|]. destruct Hrest as (_ & Hnx & _). lia.
    - cbn [Engine.e_step]. destruct (find (fun b => fst b =? hg) (g_blocks g)) as [b|].
      + destruct (snd b =? resolve_hash h hg); cbn [fst]; split; assumption.
      + destruct (N.eqb_spec hg (next_h g)) as [->|Hne]; cbn [negb orb fst]; [|split; assumption].
        destruct (negb (nonce_of g IDX =? 0)); cbn [fst]; [split; assumption|].
        destruct (exec_tx g IDX (nonce_of g IDX) 0 ts (resolve_hash h (next_h g)) (next_h g) true) as [g1|] eqn:He;
          cbn [fst]; [|split; assumption].
        assert (I1 : LogInv g1).
        { split; [exact (exec_tx_CountInv _ _ _ _ _ _ _ _ _ He (fun _ => eq_refl) Ic)|exact (exec_tx_SortInv _ _ _ _ _ _ _ _ He Is)]. }
        destruct (finalise g1 ts (resolve_hash h (next_h g)) (next_h g) 1) as [g2|] eqn:Ef; cbn [fst]; [|exact I1].
        destruct (finalise_fields _ _ _ _ _ _ Ef) as (_ & Hl & Hn & _ & Hnx). destruct I1 as [Ic1 Is1].
        split; [exact (CountInv_ext g1 g2 Hn Hl Ic1)|apply (SortInv_ext g1 g2 Hl); [|exact Is1]].
        rewrite (proj2 (proj2 (exec_tx_more _ _ _ _ _ _ _ _ _ He))). lia.
    - cbn [Engine.e_step]. destruct (negb (g_wait g =? 0) || g_dirty g); cbn [fst]; split; assumption.
    - cbn [resync_nonces_agree] in H2. cbn [Engine.e_step fst] in *.
      destruct hc as [c|].
      + apply (truncated_LogInv g _ c); [reflexivity|reflexivity|exact H2|split; assumption].
      + split; [|split; [exact I|intros e []]]. intros a. split; [exact I|exact (nonces_agree_spec _ H2 a)].
    - cbn [resync_nonces_agree] in H2. cbn [Engine.e_step] in *.
      destruct (negb (g_wait g =? 0) || g_dirty g); cbn [fst] in *; [split; assumption|].
      destruct (height g <? n); cbn [fst] in *; [split; assumption|].
      destruct (W <? height g - n); cbn [fst] in *; [split; assumption|].
      destruct (n =? height g); cbn [fst] in *; [split; assumption|].
      destruct (W + n <? g_maxb g); cbn [fst] in *; [split; assumption|].
      apply (truncated_LogInv g _ n); [reflexivity|reflexivity|exact H2|split; assumption].
    - split; assumption.
  Qed.

  (* ---------- whole runs ---------- *)

  Lemma run_inv1 (P : eng -> Prop) (H : eng -> call -> bool) :
    (forall g c, H g c = true -> P g -> P (fst (e_step g c))) ->
    forall cs g, run_all H g cs = true -> P g -> P (run g cs).
  Proof.
    intros Hstep. induction cs as [|c r IH]; intros g Hr Hp; cbn [EngineRun.run EngineRun.run_all fold_left] in *; [exact Hp|].
    apply andb_prop in Hr as [Hc Hr]. exact (IH _ Hr (Hstep g c Hc Hp)).
  Qed.

  Lemma run_all_and (H1 H2 : eng -> call -> bool) cs : forall g,
    run_all (fun g c => H1 g c && H2 g c) g cs = run_all H1 g cs && run_all H2 g cs.
  Proof.
    induction cs as [|c r IH]; intros g; cbn [EngineRun.run_all]; [reflexivity|]. rewrite IH.
    destruct (H1 g c), (H2 g c), (run_all H1 (fst (e_step g c)) r); reflexivity.
  Qed.

  Lemma run_inv2 (P : eng -> Prop) (H1 H2 : eng -> call -> bool) :
    (forall g c, H1 g c = true -> H2 g c = true -> P g -> P (fst (e_step g c))) ->
    forall cs g, run_all H1 g cs = true -> run_all H2 g cs = true -> P g -> P (run g cs).
  Proof.
    intros Hstep cs g Ha Hb. apply (run_inv1 P (fun g c => H1 g c && H2 g c)).
    - intros g0 c Hc. apply andb_prop in Hc as [Hc1 Hc2]. exact (Hstep g0 c Hc1 Hc2).
    - rewrite run_all_and, Ha, Hb. reflexivity.
  Qed.

  Theorem run_LogInv cs :
    run_all (revm_nonce_rule W FN FB IDX) g_init cs = true ->
    run_all (resync_nonces_agree W FN FB IDX) g_init cs = true ->
    LogInv (run g_init cs).
  Proof. intros H1 H2. exact (run_inv2 LogInv _ _ step_LogInv cs g_init H1 H2 LogInv_init). Qed.

  (* A1 *)
  Theorem on_chain_nonces_consecutive cs a :
    run_all (revm_nonce_rule W FN FB IDX) g_init cs = true ->
    run_all (resync_nonces_agree W FN FB IDX) g_init cs = true ->
    let g := run g_init cs in
    rev (valid_nonces a (g_log g)) = map N.of_nat (seq 0 (N.to_nat (nonce_of g a))) /\
    nonce_of g a = N.of_nat (length (valid_nonces a (g_log g))).
  Proof.
    intros H1 H2 g. destruct (run_LogInv cs H1 H2) as [Ic _]. destruct (Ic a) as [Hc Hn]. fold g in Hc, Hn.
    split; [|exact Hn]. rewrite Hn, Nat2N.id. exact (countdown_rev _ Hc).
  Qed.

  (* ---------- the pool ---------- *)

  (* what one call can do to the pool: nothing; a drain; parking; the expiry sweep of a
     finalised block; a resynchronisation *)
  Lemma pool_step_shape g c :
    let g' := fst (e_step g c) in
    (g_pool g' = g_pool g /\ g_h g' = g_h g /\ next_h g' = next_h g) \/
    (exists a n idx ts h vs k, c = CRaw (DSigned a n) idx ts h vs /\ snd (e_step g c) = OOk k /\ 1 <= k /\
        g_pool g' = filter (out_of_range a (n + 1) (n + k)) (g_pool g) /\ g_h g' = g_h g /\ next_h g' = next_h g) \/
    (exists a n idx ts h vs, c = CRaw (DSigned a n) idx ts h vs /\ nonce_of g a < n /\ g' = parked_state g a n) \/
    (((exists ts h cnt, c = CFinalise ts h cnt) \/ (exists cnt ts, c = CMine cnt ts) \/ (exists h ts hg, c = CInit h ts hg)) /\
     exists b, g_h g' = Some b /\ next_h g' = b + 1 /\ next_h g <= b /\ g_pool g' = filter (unexpired_at b) (g_pool g)) \/
    (exists hc bl nn pl, c = CClear hc bl nn pl) \/
    (exists n nn pl, c = CReorg n nn pl).
  Proof.
    intros g'. subst g'.
    destruct c as [a idx ts h v|d idx ts h vs|ts h cnt|cnt ts|h ts hg| |hc bl nn pl|n nn pl|].
    - left. cbn [Engine.e_step].
      destruct (exec_tx g a (nonce_of g a) idx ts (resolve_hash h (next_h g)) (next_h g) v) as [g1|] eqn:He;
        cbn [fst]; [|repeat split].
      destruct (exec_tx_fields _ _ _ _ _ _ _ _ _ He) as (_ & _ & _ & _ & _ & Hh & Hp & _).
      destruct (exec_tx_more _ _ _ _ _ _ _ _ _ He) as (_ & _ & Hn). repeat split; assumption.
    - destruct d as [| |a n]; [left; repeat split|left; repeat split|].
      destruct (transact_cases g a n idx ts h vs) as [(E & g1 & g2 & k & He & Hd & Hs)|[(E & He & Hs)|[(Hlt & _ & Hs)|(E & Hs)]]].
      + right. left. exists a, n, idx, ts, h, vs, k.
        assert (Hk : snd (e_step g (CRaw (DSigned a n) idx ts h vs)) = OOk k) by (rewrite Hs; reflexivity).
        pose proof (drain_done_le _ _ _ _ _ _ _ _ _ _ _ _ Hd) as Hle.
        destruct (transact_drain_spec g a n idx ts h vs k Hk) as (_ & Hspec).
        destruct (Hspec Hle) as (_ & _ & _ & _ & Hpool & _).
        destruct (transact_receipts_match W FN FB IDX g (DSigned a n) idx ts h vs k Hk) as (_ & Hb & Hh).
        repeat split; try assumption. exact (next_h_ext _ _ Hh Hb).
      + left. rewrite Hs. repeat split.
      + right. right. left. exists a, n, idx, ts, h, vs. rewrite Hs. repeat split. exact Hlt.
      + left. rewrite Hs. repeat split.
    - cbn [Engine.e_step].
      destruct (finalise g ts (resolve_hash h (next_h g)) (next_h g) cnt) as [g1|] eqn:Ef; cbn [fst]; [|left; repeat split].
      destruct (finalise_fields _ _ _ _ _ _ Ef) as (Hh & _ & _ & Hp & Hnx).
      right. right. right. left. split; [left; eauto|]. exists (next_h g). repeat split; try assumption. lia.
    - cbn [Engine.e_step]. destruct (negb (g_wait g =? 0) || g_dirty g); cbn [fst]; [left; repeat split|].
      destruct (mine (N.to_nat cnt) g (next_h g) ts) as [g1|] eqn:Em; cbn [fst]; [|left; repeat split].
      destruct (mine_fields _ _ _ _ _ Em) as (_ & _ & Hrest).
      destruct (N.to_nat cnt) as [|f]; [subst g1; left; repeat split|].
      destruct Hrest as (Hh & Hnx & Hp).
      right. right. right. left. split; [right; left; eauto|]. exists (next_h g + N.of_nat (S f) - 1).
      repeat split; try assumption; lia.
    - cbn [Engine.e_step]. destruct (find (fun b => fst b =? hg) (g_blocks g)) as [b|].
      + left. destruct (snd b =? resolve_hash h hg); cbn [fst]; repeat split.
      + destruct (N.eqb_spec hg (next_h g)) as [->|Hne]; cbn [negb orb fst]; [|left; repeat split].
        destruct (negb (nonce_of g IDX =? 0)); cbn [fst]; [left; repeat split|].
        destruct (exec_tx g IDX (nonce_of g IDX) 0 ts (resolve_hash h (next_h g)) (next_h g) true) as [g1|] eqn:He;
          cbn [fst]; [|left; repeat split].
        destruct (exec_tx_fields _ _ _ _ _ _ _ _ _ He) as (_ & _ & _ & _ & _ & Hh1 & Hp1 & _).
        destruct (exec_tx_more _ _ _ _ _ _ _ _ _ He) as (_ & _ & Hn1).
        destruct (finalise g1 ts (resolve_hash h (next_h g)) (next_h g) 1) as [g2|] eqn:Ef; cbn [fst].
        * destruct (finalise_fields _ _ _ _ _ _ Ef) as (Hh & _ & _ & Hp & Hnx).
          right. right. right. left. split; [right; right; eauto|]. exists (next_h g).
          rewrite Hp1 in Hp. repeat split; try assumption. lia.
        * left. repeat split; assumption.
    - left. cbn [Engine.e_step]. destruct (negb (g_wait g =? 0) || g_dirty g); cbn [fst]; repeat split.
    - right. right. right. right. left. eauto.
    - right. right. right. right. right. eauto.
    - left. repeat split.
  Qed.

  (* A3 (i), (ii) *)
  Definition PoolInv (g : eng) : Prop :=
    NoDup (map fst (g_pool g)) /\ forall p, In p (g_pool g) -> snd p <= next_h g.

  Lemma pool_wf_spec g : pool_wf g = true -> PoolInv g.
  Proof.
    unfold pool_wf. intros H. apply andb_prop in H as [H1 H2]. split; [exact (keys_distinct_NoDup _ H1)|].
    intros p Hp. rewrite forallb_forall in H2. apply N.leb_le. exact (H2 p Hp).
  Qed.

  Lemma PoolInv_filter g g' f :
    g_pool g' = filter f (g_pool g) -> next_h g <= next_h g' -> PoolInv g -> PoolInv g'.
  Proof.
    intros Hp Hn [H1 H2]. split; rewrite Hp; [exact (NoDup_map_filter fst f _ H1)|].
    intros p Hin. apply filter_In in Hin as [Hin _]. specialize (H2 p Hin). lia.
  Qed.

  Lemma pool_remove_no_key pool a n p : In p (pool_remove pool a n) -> fst p <> (a, n).
  Proof.
    unfold pool_remove. intros H E. apply filter_In in H as [_ H].
    apply (proj2 (key_is_true a n p)) in E. unfold key_is in E. rewrite E in H. discriminate.
  Qed.

  Theorem step_PoolInv g c :
    resync_pool_wf W FN FB IDX g c = true -> PoolInv g -> PoolInv (fst (e_step g c)).
  Proof.
    intros H3 I.
    destruct (pool_step_shape g c) as [(Hp & _ & Hn)|[(a & n & idx & ts & h & vs & k & _ & _ & _ & Hp & _ & Hn)|
      [(a & n & idx & ts & h & vs & _ & _ & Hg)|[(_ & b & _ & Hn & Hle & Hp)|[(hc & bl & nn & pl & ->)|(n & nn & pl & ->)]]]]].
    - destruct I as [I1 I2]. split; rewrite Hp; [exact I1|]. intros p Hin. rewrite Hn. exact (I2 p Hin).
    - apply (PoolInv_filter g _ _ Hp); [lia|exact I].
    - rewrite Hg. destruct I as [I1 I2]. split.
      + unfold parked_state, pool_put. cbn [g_pool map fst]. constructor.
        * intros Hin. apply in_map_iff in Hin as (q & Hq & Hin). exact (pool_remove_no_key _ _ _ _ Hin Hq).
        * exact (NoDup_map_filter fst _ _ I1).
      + intros p [<-|Hin]; [cbn [snd]; apply N.le_refl|].
        apply filter_In in Hin as [Hin _]. exact (I2 p Hin).
    - apply (PoolInv_filter g _ _ Hp); [lia|exact I].
    - exact (pool_wf_spec _ H3).
    - exact (pool_wf_spec _ H3).
  Qed.

  Lemma PoolInv_init : PoolInv g_init.
  Proof. split; [constructor|intros p []]. Qed.

  Theorem run_PoolInv cs :
    run_all (resync_pool_wf W FN FB IDX) g_init cs = true -> PoolInv (run g_init cs).
  Proof. intros H3. exact (run_inv1 PoolInv _ step_PoolInv cs g_init H3 PoolInv_init). Qed.

  (* A3 (iii), globally: no entry of the pool is expired at the height of the chain *)
  Definition PoolFresh (g : eng) : Prop :=
    forall h, g_h g = Some h -> forall p, In p (g_pool g) -> h < snd p + FB.

  Lemma pool_unexpired_spec g : pool_unexpired FB g = true -> PoolFresh g.
  Proof.
    unfold pool_unexpired. intros H h Hh p Hp. rewrite Hh, forallb_forall in H. apply N.ltb_lt. exact (H p Hp).
  Qed.

  Theorem step_PoolFresh g c :
    0 < FB -> resync_pool_unexpired W FN FB IDX g c = true -> PoolFresh g -> PoolFresh (fst (e_step g c)).
  Proof.
    intros HFB H3 I.
    destruct (pool_step_shape g c) as [(Hp & Hh & _)|[(a & n & idx & ts & h & vs & k & _ & _ & _ & Hp & Hh & _)|
      [(a & n & idx & ts & h & vs & _ & _ & Hg)|[(_ & b & Hh & _ & _ & Hp)|[(hc & bl & nn & pl & ->)|(n & nn & pl & ->)]]]]].
    - intros h' Hh' p Hin. rewrite Hp in Hin. rewrite Hh in Hh'. exact (I h' Hh' p Hin).
    - intros h' Hh' p Hin. rewrite Hp in Hin. apply filter_In in Hin as [Hin _]. rewrite Hh in Hh'. exact (I h' Hh' p Hin).
    - rewrite Hg. intros h' Hh' p [<-|Hin].
      + cbn [snd]. pose proof (height_le_next g h' Hh'). lia.
      + apply filter_In in Hin as [Hin _]. exact (I h' Hh' p Hin).
    - intros h' Hh' p Hin. rewrite Hh in Hh'. injection Hh' as <-. rewrite Hp in Hin.
      apply filter_In in Hin as [_ Hin]. apply N.ltb_lt. exact Hin.
    - exact (pool_unexpired_spec _ H3).
    - exact (pool_unexpired_spec _ H3).
  Qed.

  Theorem run_PoolFresh cs :
    0 < FB -> run_all (resync_pool_unexpired W FN FB IDX) g_init cs = true -> PoolFresh (run g_init cs).
  Proof.
    intros HFB H3. apply (run_inv1 PoolFresh _ (fun g c => step_PoolFresh g c HFB) cs g_init H3).
    intros h Hh. discriminate.
  Qed.

  (* A3 (iii), one step: an accepted finalise / mine sweeps every entry that is expired at the
     block it creates, and nothing else *)
  Theorem finalise_sweeps_expired g ts h cnt :
    snd (e_step g (CFinalise ts h cnt)) = OOk 0 ->
    let g' := fst (e_step g (CFinalise ts h cnt)) in
    g_h g' = Some (next_h g) /\
    forall p, In p (g_pool g') <-> In p (g_pool g) /\ next_h g < snd p + FB.
  Proof.
    cbn [Engine.e_step].
    destruct (finalise g ts (resolve_hash h (next_h g)) (next_h g) cnt) as [g1|] eqn:Ef; cbn [fst snd]; [|discriminate].
    intros _. destruct (finalise_fields _ _ _ _ _ _ Ef) as (Hh & _ & _ & Hp & _). split; [exact Hh|].
    intros p. rewrite Hp, filter_In. unfold unexpired_at. rewrite N.ltb_lt. reflexivity.
  Qed.

  Theorem mine_sweeps_expired g cnt ts :
    snd (e_step g (CMine cnt ts)) = OOk 0 -> 0 < cnt ->
    let g' := fst (e_step g (CMine cnt ts)) in
    g_h g' = Some (next_h g + cnt - 1) /\
    forall p, In p (g_pool g') <-> In p (g_pool g) /\ next_h g + cnt - 1 < snd p + FB.
  Proof.
    cbn [Engine.e_step]. destruct (negb (g_wait g =? 0) || g_dirty g); cbn [fst snd]; [discriminate|].
    destruct (mine (N.to_nat cnt) g (next_h g) ts) as [g1|] eqn:Em; cbn [fst snd]; [|discriminate].
    intros _ Hc. destruct (mine_fields _ _ _ _ _ Em) as (_ & _ & Hrest).
    destruct (N.to_nat cnt) as [|f] eqn:En; [lia|]. destruct Hrest as (Hh & _ & Hp).
    replace (N.of_nat (S f)) with cnt in * by lia. split; [exact Hh|].
    intros p. rewrite Hp, filter_In. unfold unexpired_at. rewrite N.ltb_lt. reflexivity.
  Qed.

  Lemma not_in_filter {A} (f : A -> bool) l x : In x l -> ~ In x (filter f l) -> f x = false.
  Proof. intros Hin Hn. destruct (f x) eqn:E; [|reflexivity]. exfalso. apply Hn. apply filter_In. auto. Qed.

  Lemma pool_find_of_entry g p :
    NoDup (map fst (g_pool g)) -> In p (g_pool g) -> pool_find g (fst (fst p)) (snd (fst p)) = Some (snd p).
  Proof.
    intros Hd Hin. pose proof (find_key_NoDup _ _ Hd Hin) as F. unfold key_is in F.
    unfold pool_find. rewrite F. reflexivity.
  Qed.

  (* A3 (iv): the only ways out of the pool *)
  Theorem pool_entry_leaves_only g c p :
    PoolInv g -> In p (g_pool g) -> ~ In p (g_pool (fst (e_step g c))) ->
    (* executed by the drain of a transact, while fresh *)
    (exists a n idx ts h vs k, c = CRaw (DSigned a n) idx ts h vs /\ snd (e_step g c) = OOk k /\
       fst (fst p) = a /\ n < snd (fst p) /\ snd (fst p) < n + k /\ next_h g < FB + snd p /\
       In (next_h g, idx + (snd (fst p) - n), a, snd (fst p), nth (N.to_nat (snd (fst p) - n)) vs true)
          (g_log (fst (e_step g c)))) \/
    (* found expired by the drain of a transact: dropped, the drain stops *)
    (exists a n idx ts h vs k, c = CRaw (DSigned a n) idx ts h vs /\ snd (e_step g c) = OOk k /\ 1 <= k /\
       fst p = (a, n + k) /\ FB + snd p <= next_h g) \/
    (* replaced by a later inscription of the same (account, nonce) *)
    (exists a n idx ts h vs, c = CRaw (DSigned a n) idx ts h vs /\ fst p = (a, n) /\ snd p < next_h g /\
       In (a, n, next_h g) (g_pool (fst (e_step g c)))) \/
    (* expired at the block a finalise / mine / initialise creates *)
    (((exists ts h cnt, c = CFinalise ts h cnt) \/ (exists cnt ts, c = CMine cnt ts) \/ (exists h ts hg, c = CInit h ts hg)) /\
     exists b, g_h (fst (e_step g c)) = Some b /\ snd p + FB <= b) \/
    (* resynchronisation *)
    (exists hc bl nn pl, c = CClear hc bl nn pl) \/
    (exists n nn pl, c = CReorg n nn pl).
  Proof.
    intros [Id Ib] Hin Hout.
    destruct (pool_step_shape g c) as [(Hp & _ & _)|[(a & n & idx & ts & h & vs & k & Hc & Hk & Hk1 & Hp & _ & _)|
      [(a & n & idx & ts & h & vs & Hc & _ & Hg)|[(Hc & b & Hh & _ & _ & Hp)|[Hc|Hc]]]]].
    - exfalso. apply Hout. rewrite Hp. exact Hin.
    - rewrite Hp in Hout. pose proof (not_in_filter _ _ _ Hin Hout) as Ho. unfold out_of_range in Ho.
      apply negb_false_iff in Ho. apply andb_prop in Ho as [Ho H2]. apply andb_prop in Ho as [Ha H1].
      apply N.eqb_eq in Ha. apply N.leb_le in H1, H2.
      pose proof (pool_find_of_entry g p Id Hin) as Hf. rewrite Ha in Hf.
      rewrite Hc in *. destruct (transact_drain_spec g a n idx ts h vs k Hk) as (Hlog & Hspec).
      destruct (Hspec Hk1) as (_ & _ & Hex & Hstop & _).
      destruct (N.eq_dec (snd (fst p)) (n + k)) as [E|E].
      + right. left. exists a, n, idx, ts, h, vs, k. repeat split; try assumption.
        * destruct p as [[pa pn] pb]. cbn [fst snd] in *. congruence.
        * rewrite E in Hf. rewrite Hf in Hstop. destruct Hstop as [Hn|(b' & [= <-] & Hle)]; [discriminate|exact Hle].
      + left. exists a, n, idx, ts, h, vs, k.
        destruct (Hex (snd (fst p)) ltac:(lia) ltac:(lia)) as (b' & Hb' & Hfresh).
        rewrite Hf in Hb'. injection Hb' as <-.
        repeat split; try assumption; try lia.
        rewrite Hlog. apply in_or_app. left. rewrite <- in_rev. unfold drained_entries.
        apply in_map_iff. exists (N.to_nat (snd (fst p) - n)). split; [|apply in_seq; lia].
        rewrite N2Nat.id. replace (n + (snd (fst p) - n)) with (snd (fst p)) by lia. reflexivity.
    - right. right. left. exists a, n, idx, ts, h, vs. rewrite Hg in *.
      unfold parked_state, pool_put in *. cbn [g_pool] in *.
      assert (Hk : key_is a n p = true).
      { destruct (key_is a n p) eqn:E; [reflexivity|]. exfalso. apply Hout. right.
        unfold pool_remove. apply filter_In. split; [exact Hin|]. unfold key_is in E. rewrite E. reflexivity. }
      apply key_is_true in Hk. split; [exact Hc|]. split; [exact Hk|]. split; [|left; reflexivity].
      specialize (Ib p Hin). destruct (N.eq_dec (snd p) (next_h g)) as [E|E]; [|lia].
      exfalso. apply Hout. left. destruct p as [[pa pn] pb]. cbn [fst snd] in *. congruence.
    - right. right. right. left. split; [exact Hc|]. exists b. split; [exact Hh|].
      rewrite Hp in Hout. pose proof (not_in_filter _ _ _ Hin Hout) as Ho. unfold unexpired_at in Ho.
      apply N.ltb_ge in Ho. exact Ho.
    - right. right. right. right. left. exact Hc.
    - right. right. right. right. right. exact Hc.
  Qed.
End EngineGlobalP.

Lemma drained_entries_shape number idx a n vs m :
  map l_block (drained_entries number idx a n vs m) = repeat number m /\
  map l_acct (drained_entries number idx a n vs m) = repeat a m /\
  map l_idx (drained_entries number idx a n vs m) = map (fun i => idx + N.of_nat i) (seq 0 m) /\
  map l_nonce (drained_entries number idx a n vs m) = map (fun i => n + N.of_nat i) (seq 0 m).
Proof.
  unfold drained_entries. rewrite !map_map. cbn [l_block l_acct l_idx l_nonce fst snd].
  repeat split; try reflexivity.
  - generalize 0%nat. induction m as [|m IH]; intros s; cbn [seq map repeat]; [reflexivity|]. rewrite IH. reflexivity.
  - generalize 0%nat. induction m as [|m IH]; intros s; cbn [seq map repeat]; [reflexivity|]. rewrite IH. reflexivity.
Qed.
