(* Proofs about L0/L1 (Model/Codec.v): every codec of the universe is lossless and
   self-delimiting at any offset ([codec_ok]); numeric and composite keys compare in their
   encoded form as their values do; length-prefixed strings do not. *)
From Brc.Model Require Import Base History Codec.
From Coq Require Import Arith PeanoNat Pnat.

Arguments N.add : simpl never.
Arguments N.mul : simpl never.
Arguments N.pow : simpl never.
Arguments N.div : simpl never.
Arguments N.modulo : simpl never.
Arguments N.leb : simpl never.
Arguments N.ltb : simpl never.
Arguments N.eqb : simpl never.
Arguments N.of_nat : simpl never.
Arguments N.to_nat : simpl never.
Arguments N.compare : simpl never.

(* ---------------- digits ---------------- *)
Lemma pow_succ_nat B w : B ^ N.of_nat (S w) = B * B ^ N.of_nat w.
Proof. rewrite Nat2N.inj_succ, N.pow_succ_r by lia. reflexivity. Qed.

Lemma pow_pos_nat B w : 0 < B -> 0 < B ^ N.of_nat w.
Proof. intros. apply N.neq_0_lt_0, N.pow_nonzero. lia. Qed.

Lemma beB_length B w n : length (beB B w n) = w.
Proof. revert n; induction w; intros; cbn [beB length]; auto. Qed.

Lemma beB_digits B w n : 0 < B -> Forall (fun d => d < B) (beB B w n).
Proof.
  intros HB. revert n; induction w; intros; cbn [beB]; constructor; auto.
  apply N.mod_lt. lia.
Qed.

Lemma of_beB_bound B l : 0 < B -> Forall (fun d => d < B) l -> of_beB B l < B ^ N.of_nat (length l).
Proof.
  intros HB. induction 1 as [|d t Hd Ht IH]; cbn [of_beB length].
  - cbn. lia.
  - rewrite pow_succ_nat. pose proof (pow_pos_nat B (length t) HB). nia.
Qed.

Lemma of_beB_beB B w n : 0 < B -> n < B ^ N.of_nat w -> of_beB B (beB B w n) = n.
Proof.
  intros HB. revert n; induction w; intros n Hn.
  - cbn in *. change (B ^ N.of_nat 0) with (B ^ 0) in Hn. rewrite N.pow_0_r in Hn. lia.
  - cbn [beB of_beB]. rewrite beB_length.
    pose proof (pow_pos_nat B w HB) as HP. rewrite pow_succ_nat in Hn.
    rewrite IHw by (apply N.mod_lt; lia).
    rewrite N.mod_small.
    + pose proof (N.div_mod n (B ^ N.of_nat w)). lia.
    + apply N.div_lt_upper_bound; lia.
Qed.

Lemma beB_of_beB B l : 0 < B -> Forall (fun d => d < B) l -> beB B (length l) (of_beB B l) = l.
Proof.
  intros HB. induction 1 as [|d t Hd Ht IH]; cbn [of_beB length beB]; auto.
  pose proof (pow_pos_nat B (length t) HB) as HP.
  pose proof (of_beB_bound B t HB Ht) as Hb.
  assert (Hq : (d * B ^ N.of_nat (length t) + of_beB B t) / B ^ N.of_nat (length t) = d).
  { rewrite N.div_add_l by lia. rewrite N.div_small by lia. lia. }
  assert (Hr : (d * B ^ N.of_nat (length t) + of_beB B t) mod B ^ N.of_nat (length t) = of_beB B t).
  { rewrite N.add_comm, N.mod_add by lia. apply N.mod_small; lia. }
  rewrite Hq, Hr, IH. rewrite N.mod_small by lia. reflexivity.
Qed.

(* ---------------- lexicographic comparison ---------------- *)
Lemma lcmp_refl a : lcmp a a = Eq.
Proof. induction a; cbn [lcmp]; auto. rewrite N.compare_refl. auto. Qed.

Lemma lcmp_eq a b : lcmp a b = Eq -> a = b.
Proof.
  revert b; induction a as [|x a IH]; intros [|y b]; cbn [lcmp]; try discriminate; auto.
  destruct (N.compare_spec x y); try discriminate. intros HH. subst. f_equal. auto.
Qed.

Lemma lcmp_antisym a b : lcmp b a = CompOpp (lcmp a b).
Proof.
  revert b; induction a as [|x a IH]; intros [|y b]; cbn [lcmp]; auto.
  rewrite (N.compare_antisym x y). destruct (x ?= y); cbn [CompOpp]; auto.
Qed.

Lemma lcmp_app x1 x2 y1 y2 : length x1 = length x2 ->
  lcmp (x1 ++ y1) (x2 ++ y2) = match lcmp x1 x2 with Eq => lcmp y1 y2 | c => c end.
Proof.
  revert x2; induction x1 as [|a x1 IH]; intros [|b x2]; cbn [length app lcmp]; try discriminate; auto.
  intros H. injection H as H. destruct (a ?= b); auto.
Qed.

Lemma lexb_lcmp a b : lexb a b = match lcmp a b with Lt => true | _ => false end.
Proof. reflexivity. Qed.

Lemma cmp_ltb a b : (a <? b) = match a ?= b with Lt => true | _ => false end.
Proof. unfold N.ltb. reflexivity. Qed.

(* comparing numbers = comparing their digit strings *)
Lemma beB_order B w a b : 0 < B -> a < B ^ N.of_nat w -> b < B ^ N.of_nat w ->
  lcmp (beB B w a) (beB B w b) = (a ?= b).
Proof.
  intros HB. revert a b; induction w; intros a b Ha Hb.
  - change (B ^ N.of_nat 0) with (B ^ 0) in *. rewrite N.pow_0_r in *.
    assert (a = 0) by lia. assert (b = 0) by lia. subst. reflexivity.
  - cbn [beB lcmp]. pose proof (pow_pos_nat B w HB) as HP. rewrite pow_succ_nat in *.
    set (P := B ^ N.of_nat w) in *. clearbody P.
    assert (Hqa : a / P < B) by (apply N.div_lt_upper_bound; lia).
    assert (Hqb : b / P < B) by (apply N.div_lt_upper_bound; lia).
    rewrite !N.mod_small by lia.
    pose proof (N.div_mod a P ltac:(lia)) as Ea. pose proof (N.div_mod b P ltac:(lia)) as Eb.
    pose proof (N.mod_lt a P ltac:(lia)) as Ra. pose proof (N.mod_lt b P ltac:(lia)) as Rb.
    assert (IH := IHw (a mod P) (b mod P) Ra Rb). clear IHw.
    revert IH Hqa Hqb Ea Eb Ra Rb. generalize (a / P) (b / P) (a mod P) (b mod P). intros qa qb ra rb IH Hqa Hqb Ea Eb Ra Rb.
    destruct (N.compare_spec qa qb) as [E|L|G].
    + rewrite IH. 
      destruct (N.compare_spec ra rb); symmetry;
        [apply N.compare_eq_iff | apply N.compare_lt_iff | apply N.compare_gt_iff]; rewrite E in *; lia.
    + symmetry. apply N.compare_lt_iff.
      assert (P * (qa + 1) <= P * qb) by (apply N.mul_le_mono_l; lia). lia.
    + symmetry. apply N.compare_gt_iff.
      assert (P * (qb + 1) <= P * qa) by (apply N.mul_le_mono_l; lia). lia.
Qed.

Lemma be_order w a b : a < 256 ^ N.of_nat w -> b < 256 ^ N.of_nat w ->
  lcmp (be w a) (be w b) = (a ?= b).
Proof. apply beB_order. lia. Qed.

(* chunks of equal width *)
Lemma lcmp_flat_map (f : N -> bytes) (w : nat) (P : N -> Prop) :
  (forall x, P x -> length (f x) = w) ->
  (forall x y, P x -> P y -> lcmp (f x) (f y) = (x ?= y)) ->
  forall l1 l2, Forall P l1 -> Forall P l2 -> length l1 = length l2 ->
  lcmp (flat_map f l1) (flat_map f l2) = lcmp l1 l2.
Proof.
  intros Hw Hc. induction l1 as [|x l1 IH]; intros [|y l2] H1 H2; cbn [length flat_map lcmp]; try discriminate; auto.
  intros HL. injection HL as HL. inversion H1; inversion H2; subst.
  rewrite lcmp_app by (rewrite !Hw; auto). rewrite Hc by auto.
  destruct (x ?= y); auto.
Qed.

(* ---------------- the counted loop of Vec::decode ---------------- *)
Definition guard {St} (f : res St -> res St) (s : res St) : res St := if is_ok s then f s else s.
Fixpoint itn {St} (k : nat) (g : St -> St) (s : St) : St :=
  match k with O => s | S k' => g (itn k' g s) end.

Lemma itn_guard_fail {St} (f : res St -> res St) k s : is_ok s = false -> itn k (guard f) s = s.
Proof.
  intros H. induction k; cbn [itn]; [reflexivity|]. rewrite IHk. unfold guard. rewrite H. reflexivity.
Qed.

Lemma itn_plus {St} (g : St -> St) a b s : itn (a + b) g s = itn a g (itn b g s).
Proof. induction a; cbn [Nat.add itn]; congruence. Qed.

Lemma itn_succ_r {St} (g : St -> St) k s : itn (S k) g s = itn k g (g s).
Proof. replace (S k) with (k + 1)%nat by lia. rewrite itn_plus. reflexivity. Qed.

Lemma iter_ok_nat {St} (f : res St -> res St) :
  (forall s, is_ok s = false -> f s = s) ->
  forall p s, iter_ok p f s = itn (Pos.to_nat p) (guard f) s.
Proof.
  intros Hf. induction p as [p IH|p IH|]; intros s; cbn [iter_ok].
  - destruct (is_ok s) eqn:E.
    + rewrite !IH. rewrite Pos2Nat.inj_xI. cbn [itn]. rewrite <- itn_plus.
      replace (Pos.to_nat p + Pos.to_nat p)%nat with (2 * Pos.to_nat p)%nat by lia.
      set (t := itn (2 * Pos.to_nat p) (guard f) s). unfold guard at 1.
      destruct (is_ok t) eqn:Et; [reflexivity|]. apply Hf. exact Et.
    + symmetry. apply itn_guard_fail. exact E.
  - destruct (is_ok s) eqn:E.
    + rewrite !IH. rewrite Pos2Nat.inj_xO. rewrite <- itn_plus. f_equal. lia.
    + symmetry. apply itn_guard_fail. exact E.
  - reflexivity.
Qed.

Lemma many_step_fail {A} (d : bytes -> nat -> res (A * nat)) b s :
  is_ok s = false -> many_step d b s = s.
Proof. destruct s; [discriminate| |]; reflexivity. Qed.

Definition push_res {A} (acc : list A) (r : res (list A * nat)) : res (list A * nat) :=
  match r with Ok (l, o) => Ok (rev l ++ acc, o) | Err => Err | Panic => Panic end.

Lemma itn_many {A} (d : bytes -> nat -> res (A * nat)) b k : forall acc o,
  itn k (guard (many_step d b)) (Ok (acc, o)) = push_res acc (dec_arr d k b o).
Proof.
  induction k; intros acc o.
  - reflexivity.
  - rewrite itn_succ_r. cbn [dec_arr]. unfold guard at 2. cbn [is_ok many_step rbind fst snd].
    destruct (d b o) as [[x o1]| |]; cbn [rbind fst snd].
    + rewrite IHk. destruct (dec_arr d k b o1) as [[l o2]| |]; cbn [rbind push_res fst snd rev]; try reflexivity.
      rewrite <- app_assoc. reflexivity.
    + apply itn_guard_fail. reflexivity.
    + apply itn_guard_fail. reflexivity.
Qed.

Lemma dec_many_arr {A} (d : bytes -> nat -> res (A * nat)) n b o :
  dec_many d n b o = dec_arr d (N.to_nat n) b o.
Proof.
  unfold dec_many. destruct n as [|p].
  - reflexivity.
  - rewrite iter_ok_nat by (apply many_step_fail). rewrite itn_many.
    change (N.to_nat (N.pos p)) with (Pos.to_nat p).
    destruct (dec_arr d (Pos.to_nat p) b o) as [[l o2]| |]; cbn [push_res rbind fst snd]; try reflexivity.
    rewrite app_nil_r, rev_involutive. reflexivity.
Qed.

(* ---------------- round trip ---------------- *)
(* lossless and self-delimiting, at any offset, whatever follows *)
Definition codec_ok {A} (c : codec A) : Prop :=
  forall x pre rest, wf c x = true ->
    dec c (pre ++ enc c x ++ rest) (length pre) = Ok (x, (length pre + length (enc c x))%nat).

Lemma c_u8_ok : codec_ok c_u8.
Proof.
  intros x pre rest _. cbn [c_u8 dec enc app length].
  rewrite nth_error_app2 by lia. rewrite Nat.sub_diag. cbn [nth_error].
  rewrite Nat.add_1_r. reflexivity.
Qed.

Lemma dec_arr_ok {A} (e : A -> bytes) (d : bytes -> nat -> res (A * nat)) (xs : list A) :
  (forall x, In x xs -> forall pre rest,
      d (pre ++ e x ++ rest) (length pre) = Ok (x, (length pre + length (e x))%nat)) ->
  forall pre rest,
    dec_arr d (length xs) (pre ++ flat_map e xs ++ rest) (length pre)
    = Ok (xs, (length pre + length (flat_map e xs))%nat).
Proof.
  induction xs as [|x xs IH]; intros Hx pre rest.
  - cbn [length flat_map dec_arr app]. rewrite Nat.add_0_r. reflexivity.
  - cbn [length flat_map dec_arr]. rewrite <- app_assoc.
    rewrite (Hx x (or_introl eq_refl) pre (flat_map e xs ++ rest)). cbn [rbind fst snd].
    assert (IH' := IH (fun y Hy => Hx y (or_intror Hy)) (pre ++ e x) rest).
    rewrite <- app_assoc in IH'. rewrite app_length in IH'. rewrite IH'. cbn [rbind fst snd].
    rewrite app_length. do 2 f_equal. lia.
Qed.

Lemma forallb_In {A} (f : A -> bool) l x : forallb f l = true -> In x l -> f x = true.
Proof. intros H. rewrite forallb_forall in H. auto. Qed.

Lemma c_arr_ok {A} n (c : codec A) : codec_ok c -> codec_ok (c_arr n c).
Proof.
  intros Hc xs pre rest Hwf. cbn [c_arr wf enc dec] in *.
  apply andb_prop in Hwf as [Hl Hall]. apply Nat.eqb_eq in Hl. subst n.
  apply dec_arr_ok. intros x Hx pre' rest'. apply Hc. eapply forallb_In; eauto.
Qed.

Lemma c_iso_ok {A B} (f : A -> B) (g : B -> A) ok (c : codec A) :
  codec_ok c -> (forall y, ok y = true -> f (g y) = y) -> codec_ok (c_iso f g ok c).
Proof.
  intros Hc Hfg y pre rest Hwf. cbn [c_iso wf enc dec] in *.
  apply andb_prop in Hwf as [Hok Hw]. rewrite Hc by assumption. cbn [rbind fst snd].
  rewrite Hfg by assumption. reflexivity.
Qed.

Lemma be_bytes_ok w n : forallb byteb (be w n) = true.
Proof.
  apply forallb_forall. intros d Hd. pose proof (beB_digits 256 w n ltac:(lia)) as H.
  rewrite Forall_forall in H. unfold byteb. apply N.ltb_lt. apply H. exact Hd.
Qed.

Lemma be_length w n : length (be w n) = w.
Proof. apply beB_length. Qed.

Lemma bytes_ok_Forall l : bytes_ok l = true -> Forall (fun d => d < 256) l.
Proof.
  unfold bytes_ok. intros H. apply Forall_forall. intros d Hd.
  apply N.ltb_lt. exact (forallb_In _ _ _ H Hd).
Qed.

Lemma flat_map_single (l : bytes) : flat_map (fun x => [x]) l = l.
Proof. induction l; cbn [flat_map app]; congruence. Qed.

Lemma enc_fixed n x : enc (c_fixed n) x = x.
Proof. cbn. apply flat_map_single. Qed.

Lemma enc_be w x : enc (c_be w) x = be w x.
Proof. cbn. apply flat_map_single. Qed.

Lemma c_be_ok w : codec_ok (c_be w).
Proof.
  apply c_iso_ok.
  - apply c_arr_ok, c_u8_ok.
  - intros y Hy. apply N.ltb_lt in Hy. apply of_beB_beB; [lia|assumption].
Qed.

Lemma wf_be w x : wf (c_be w) x = (x <? 256 ^ N.of_nat w).
Proof.
  cbn [c_be c_iso wf c_arr c_u8]. rewrite be_length, Nat.eqb_refl, be_bytes_ok.
  cbn [andb]. apply andb_true_r.
Qed.

Lemma c_fixed_ok n : codec_ok (c_fixed n).
Proof. apply c_arr_ok, c_u8_ok. Qed.

Lemma c_pair_ok {A B} (ca : codec A) (cb : codec B) :
  codec_ok ca -> codec_ok cb -> codec_ok (c_pair ca cb).
Proof.
  intros Ha Hb [a b] pre rest Hwf. cbn [c_pair wf enc dec fst snd] in *.
  apply andb_prop in Hwf as [Hwa Hwb]. rewrite <- app_assoc.
  rewrite Ha by assumption. cbn [rbind fst snd].
  assert (H := Hb b (pre ++ enc ca a) rest Hwb). rewrite <- app_assoc, app_length in H.
  rewrite H. cbn [rbind fst snd]. rewrite app_length. do 2 f_equal. lia.
Qed.

Lemma dec_opt_eq {A} (c : codec A) b o :
  dec (c_opt c) b o =
  (do r <- dec c_u8 b o;
   if fst r =? 1 then (do v <- dec c b (snd r); Ok (Some (fst v), snd v)) else Ok (None, snd r)).
Proof. reflexivity. Qed.

Lemma c_opt_ok {A} (c : codec A) : codec_ok c -> codec_ok (c_opt c).
Proof.
  intros Hc [v|] pre rest Hwf; rewrite dec_opt_eq.
  - change (enc (c_opt c) (Some v)) with (enc c_u8 1 ++ enc c v). rewrite <- app_assoc.
    rewrite (c_u8_ok 1 pre (enc c v ++ rest) eq_refl). cbn [rbind fst snd].
    change (1 =? 1) with true. cbn iota.
    assert (H := Hc v (pre ++ enc c_u8 1) rest Hwf). rewrite <- app_assoc, app_length in H.
    rewrite H. cbn [rbind fst snd]. rewrite app_length. do 2 f_equal. lia.
  - change (enc (c_opt c) None) with (enc c_u8 0).
    rewrite (c_u8_ok 0 pre rest eq_refl). cbn [rbind fst snd].
    change (0 =? 1) with false. cbn iota. reflexivity.
Qed.

Lemma c_vec_ok {A} (c : codec A) : codec_ok c -> codec_ok (c_vec c).
Proof.
  intros Hc xs pre rest Hwf. cbn [c_vec wf enc dec] in *.
  apply andb_prop in Hwf as [Hl Hall]. rewrite <- app_assoc.
  assert (Hlen : wf c_u32 (N.of_nat (length xs)) = true).
  { unfold c_u32. rewrite wf_be. exact Hl. }
  assert (H := c_be_ok 4 (N.of_nat (length xs)) pre (flat_map (enc c) xs ++ rest) Hlen).
  rewrite enc_be in H. fold c_u32 in H. rewrite H. cbn [rbind fst snd]. rewrite dec_many_arr, Nat2N.id.
  assert (H2 := dec_arr_ok (enc c) (dec c) xs
                  (fun x Hx pre' rest' => Hc x pre' rest' (forallb_In _ _ _ Hall Hx))
                  (pre ++ be 4 (N.of_nat (length xs))) rest).
  rewrite <- app_assoc, app_length in H2. rewrite H2. rewrite app_length. do 2 f_equal. lia.
Qed.

Lemma c_bytes_ok : codec_ok c_bytes.
Proof. apply c_vec_ok, c_u8_ok. Qed.

Lemma c_string_ok : codec_ok c_string.
Proof.
  intros s pre rest Hwf. cbn [c_string wf enc dec] in *. apply andb_prop in Hwf as [Hb Hu].
  rewrite c_bytes_ok by assumption. cbn [rbind fst snd]. rewrite Hu. reflexivity.
Qed.

Lemma c_bytecode_ok : codec_ok c_bytecode.
Proof.
  intros s pre rest Hwf. cbn [c_bytecode wf enc dec] in *. apply andb_prop in Hwf as [Hb Hu].
  rewrite c_bytes_ok by assumption. cbn [rbind fst snd]. rewrite Hu. reflexivity.
Qed.

Lemma c_u64_ok : codec_ok c_u64. Proof. apply c_be_ok. Qed.
Lemma c_u32_ok : codec_ok c_u32. Proof. apply c_be_ok. Qed.

Lemma limb_base_256 : 256 ^ N.of_nat 8 = limb_base.
Proof. reflexivity. Qed.

Lemma dec_uint_eq bits limbs b o :
  dec (c_uint bits limbs) b o =
  (do r <- dec_arr (dec c_u64) limbs b o;
   if hd 0 (fst r) <=? umask bits then Ok (of_beB limb_base (fst r), snd r) else Panic).
Proof. reflexivity. Qed.

Lemma enc_uint_eq bits limbs x :
  enc (c_uint bits limbs) x = flat_map (enc c_u64) (beB limb_base limbs x).
Proof. reflexivity. Qed.

Lemma c_uint_ok bits limbs :
  (forall x, x < 2 ^ bits ->
     x < limb_base ^ N.of_nat limbs /\ hd 0 (beB limb_base limbs x) <= umask bits) ->
  codec_ok (c_uint bits limbs).
Proof.
  intros Hside x pre rest Hwf. change (wf (c_uint bits limbs) x) with (x <? 2 ^ bits) in Hwf.
  apply N.ltb_lt in Hwf. destruct (Hside x Hwf) as [Hx Hm].
  rewrite dec_uint_eq, enc_uint_eq.
  assert (Hd := beB_digits limb_base limbs x ltac:(reflexivity)). rewrite Forall_forall in Hd.
  assert (H := dec_arr_ok (enc c_u64) (dec c_u64) (beB limb_base limbs x)
     (fun l Hl pre' rest' => c_u64_ok l pre' rest'
        (eq_trans (wf_be 8 l) (proj2 (N.ltb_lt _ _) (Hd l Hl)))) pre rest).
  rewrite beB_length in H. rewrite H. cbn [rbind fst snd].
  apply N.leb_le in Hm. rewrite Hm. rewrite of_beB_beB by (try reflexivity; assumption).
  reflexivity.
Qed.

Lemma uint_side_full bits limbs :
  umask bits = limb_base - 1 -> 2 ^ bits = limb_base ^ N.of_nat limbs ->
  forall x, x < 2 ^ bits ->
     x < limb_base ^ N.of_nat limbs /\ hd 0 (beB limb_base limbs x) <= umask bits.
Proof.
  intros Hm Hp x Hx. split; [rewrite <- Hp; exact Hx|]. rewrite Hm.
  destruct limbs; cbn [beB hd].
  - unfold limb_base. lia.
  - assert (H := N.mod_lt (x / limb_base ^ N.of_nat limbs) limb_base ltac:(discriminate)). lia.
Qed.

Lemma c_U64_ok : codec_ok c_U64. Proof. apply c_uint_ok, uint_side_full; reflexivity. Qed.
Lemma c_U128_ok : codec_ok c_U128. Proof. apply c_uint_ok, uint_side_full; reflexivity. Qed.
Lemma c_U256_ok : codec_ok c_U256. Proof. apply c_uint_ok, uint_side_full; reflexivity. Qed.
Lemma c_U512_ok : codec_ok c_U512. Proof. apply c_uint_ok, uint_side_full; reflexivity. Qed.
Lemma c_U8_ok : codec_ok c_U8.
Proof.
  apply c_uint_ok. intros x Hx. change (2 ^ 8) with 256 in Hx. split.
  - change (limb_base ^ N.of_nat 1) with 18446744073709551616. lia.
  - cbn [beB hd]. change (limb_base ^ N.of_nat 0) with 1. change (umask 8) with 255.
    rewrite N.div_1_r. rewrite N.mod_small by (unfold limb_base; change (2^64) with 18446744073709551616; lia). lia.
Qed.

Lemma c_const_ok {A} (c : codec A) v : codec_ok c -> codec_ok (c_const c v).
Proof.
  intros Hc [] pre rest Hwf. change (wf (c_const c v) tt) with (wf c v) in Hwf.
  change (enc (c_const c v) tt) with (enc c v).
  change (dec (c_const c v) (pre ++ enc c v ++ rest) (length pre))
    with (do r <- dec c (pre ++ enc c v ++ rest) (length pre); Ok (tt, snd r)).
  rewrite Hc by assumption. reflexivity.
Qed.

(* ---------------- history ---------------- *)
Lemma ss_snoc l x : strictly_sorted (l ++ [x]) = true ->
  strictly_sorted l = true /\ Forall (fun y => y < x) l.
Proof.
  induction l as [|a l IH]; intros H.
  - split; [reflexivity|constructor].
  - destruct l as [|b l'].
    + cbn in H. rewrite andb_true_r in H. apply N.ltb_lt in H. split; [reflexivity|].
      constructor; [assumption|constructor].
    + change (strictly_sorted ((a :: b :: l') ++ [x])) with ((a <? b) && strictly_sorted ((b :: l') ++ [x])) in H.
      apply andb_prop in H as [Hab Hs]. destruct (IH Hs) as [Hs' Hf].
      split.
      * change (strictly_sorted (a :: b :: l')) with ((a <? b) && strictly_sorted (b :: l')).
        rewrite Hab, Hs'. reflexivity.
      * constructor; [|assumption]. apply N.ltb_lt in Hab. inversion Hf; subst. lia.
Qed.

Lemma bt_insert_last {V} k (v : option V) h :
  Forall (fun y => y < k) (map fst h) -> bt_insert k v h = h ++ [(k, v)].
Proof.
  induction h as [|[k' x] t IH]; intros H; cbn [bt_insert app]; [reflexivity|].
  cbn [map fst] in H. inversion H; subst.
  replace (k <? k') with false by (symmetry; apply N.ltb_ge; lia).
  replace (k =? k') with false by (symmetry; apply N.eqb_neq; lia).
  rewrite IH by assumption. reflexivity.
Qed.

Lemma hist_rebuild {V} (h : list (N * option V)) :
  strictly_sorted (map fst h) = true ->
  fold_left (fun acc kv => bt_insert (fst kv) (snd kv) acc) h [] = h.
Proof.
  induction h as [|[k v] h IH] using rev_ind; intros H; [reflexivity|].
  rewrite map_app in H. cbn [map fst] in H. apply ss_snoc in H as [Hs Hf].
  rewrite fold_left_app. cbn [fold_left fst snd]. rewrite IH by assumption.
  apply bt_insert_last. assumption.
Qed.

Lemma c_hist_ok {V} (c : codec V) : codec_ok c -> codec_ok (c_hist c).
Proof.
  intros Hc. apply c_iso_ok.
  - apply c_vec_ok, c_pair_ok; [apply c_u64_ok | apply c_opt_ok, Hc].
  - intros h Hs. apply hist_rebuild. exact Hs.
Qed.

(* ---------------- concrete types ---------------- *)
Create HintDb codec.
#[export] Hint Resolve c_u8_ok c_u32_ok c_u64_ok c_U8_ok c_U64_ok c_U128_ok c_U256_ok c_U512_ok
  c_fixed_ok c_bytes_ok c_string_ok c_bytecode_ok : codec.
#[export] Hint Resolve c_pair_ok c_opt_ok c_vec_ok c_const_ok c_arr_ok c_hist_ok : codec.

Lemma c_addr_ok : codec_ok c_addr. Proof. apply c_fixed_ok. Qed.
Lemma c_b256_ok : codec_ok c_b256. Proof. apply c_fixed_ok. Qed.
Lemma c_bloom_ok : codec_ok c_bloom. Proof. apply c_fixed_ok. Qed.
#[export] Hint Resolve c_addr_ok c_b256_ok c_bloom_ok : codec.

Lemma c_account_ok : codec_ok c_account.
Proof. apply c_iso_ok; [auto 20 with codec|]. intros [] _. reflexivity. Qed.

Lemma c_log_ok : codec_ok c_log.
Proof. apply c_iso_ok; [auto 30 with codec|]. intros [] _. reflexivity. Qed.
#[export] Hint Resolve c_account_ok c_log_ok : codec.

Lemma c_tx_ok chain : codec_ok (c_tx chain).
Proof.
  apply c_iso_ok; [auto 40 with codec|]. intros [] H. cbn in H.
  apply andb_prop in H as [H1 H2]. apply N.eqb_eq in H1, H2. subst. reflexivity.
Qed.

Lemma c_receipt_ok : codec_ok c_receipt.
Proof.
  apply c_iso_ok; [auto 50 with codec|]. intros [] H. cbn in H.
  apply andb_prop in H as [H1 H2]. apply N.eqb_eq in H1, H2. subst. reflexivity.
Qed.

Lemma list_eqb_N a b : list_eqb N.eqb a b = true -> a = b.
Proof.
  revert b; induction a as [|x a IH]; intros [|y b]; cbn [list_eqb]; try discriminate; auto.
  intros H. apply andb_prop in H as [H1 H2]. apply N.eqb_eq in H1. subst. f_equal. auto.
Qed.

Lemma c_block_ok gl : codec_ok (c_block gl).
Proof.
  apply c_iso_ok; [auto 50 with codec|]. intros [d g gu h bl no nu ts mt txs tr td ph rr sz rd] H.
  cbn [b_difficulty b_gas_limit b_total_difficulty b_receipts_root b_size b_rest_default b_transactions] in H.
  repeat (apply andb_prop in H as [H ?]).
  repeat match goal with E : (_ =? _) = true |- _ => apply N.eqb_eq in E end.
  match goal with E : bytes_eqb _ _ = true |- _ => apply list_eqb_N in E end.
  destruct txs; [|discriminate]. subst. reflexivity.
Qed.
#[export] Hint Resolve c_tx_ok c_receipt_ok c_block_ok : codec.

(* ---------------- traces ---------------- *)
Lemma c_trace_body_ok cc : codec_ok cc -> codec_ok (c_trace_body cc).
Proof. intros H. apply c_iso_ok; [auto 40 with codec|]. intros [] _. reflexivity. Qed.

Lemma c_trace_fuel_ok f : codec_ok (c_trace_fuel f).
Proof.
  induction f; cbn [c_trace_fuel].
  - intros x pre rest H. discriminate H.
  - apply c_trace_body_ok, IHf.
Qed.

Lemma flat_map_ext_in {A B} (f g : A -> list B) l :
  (forall x, In x l -> f x = g x) -> flat_map f l = flat_map g l.
Proof.
  induction l as [|x l IH]; intros H; cbn [flat_map]; [reflexivity|].
  rewrite (H x (or_introl eq_refl)), IH; auto. intros y Hy. apply H. right. exact Hy.
Qed.

Lemma forallb_ext_in {A} (f g : A -> bool) l :
  (forall x, In x l -> f x = g x) -> forallb f l = forallb g l.
Proof.
  induction l as [|x l IH]; intros H; cbn [forallb]; [reflexivity|].
  rewrite (H x (or_introl eq_refl)), IH; auto. intros y Hy. apply H. right. exact Hy.
Qed.

Lemma list_max_In l x : In x l -> (x <= list_max l)%nat.
Proof.
  induction l as [|y l IH]; intros []; cbn [list_max].
  - subst. apply Nat.le_max_l.
  - etransitivity; [apply IH; assumption | apply Nat.le_max_r].
Qed.

Lemma depth_call t c : In c (t_calls t) -> (depth c < depth t)%nat.
Proof.
  destruct t as [ty fr to cs g gu i o v e rr]. cbn [t_calls depth]. intros H.
  apply Nat.lt_succ_r. apply list_max_In. apply in_map. exact H.
Qed.

(* with enough fuel the bounded codec is the structural one *)
Lemma trace_fuel_enc f : forall t, (depth t <= f)%nat ->
  enc (c_trace_fuel f) t = enc_trace t /\ wf (c_trace_fuel f) t = wf_trace t.
Proof.
  induction f; intros t Hd.
  - destruct t; cbn [depth] in Hd. lia.
  - assert (Hc : forall c, In c (t_calls t) ->
        enc (c_trace_fuel f) c = enc_trace c /\ wf (c_trace_fuel f) c = wf_trace c).
    { intros c Hc. apply IHf. pose proof (depth_call t c Hc). lia. }
    destruct t as [ty fr to cs g gu i o v e rr]. cbn [t_calls] in Hc. split.
    + change (enc (c_trace_fuel (S f)) (Trace ty fr to cs g gu i o v e rr)) with
        (enc c_string ty ++ enc c_addr fr ++ enc (c_opt c_addr) to
         ++ (be 4 (N.of_nat (length cs)) ++ flat_map (enc (c_trace_fuel f)) cs)
         ++ enc c_U256 g ++ enc c_U256 gu ++ enc c_bytes i ++ enc c_bytes o ++ enc c_U256 v
         ++ enc (c_opt c_string) e ++ enc (c_opt c_string) rr).
      cbn [enc_trace]. rewrite (flat_map_ext_in _ enc_trace cs) by (intros c Hin; apply Hc, Hin).
      reflexivity.
    + change (wf (c_trace_fuel (S f)) (Trace ty fr to cs g gu i o v e rr)) with
        (true && (wf c_string ty && (wf c_addr fr && (wf (c_opt c_addr) to
         && (((N.of_nat (length cs) <? 2 ^ 32) && forallb (wf (c_trace_fuel f)) cs)
         && (wf c_U256 g && (wf c_U256 gu && (wf c_bytes i && (wf c_bytes o && (wf c_U256 v
         && (wf (c_opt c_string) e && wf (c_opt c_string) rr))))))))))).
      cbn [wf_trace]. rewrite (forallb_ext_in _ wf_trace cs) by (intros c Hin; apply Hc, Hin).
      cbn [andb]. rewrite !andb_assoc. reflexivity.
Qed.

Lemma list_max_flat_len (cs : list trace) :
  (forall c, In c cs -> (depth c <= length (enc_trace c))%nat) ->
  (list_max (map depth cs) <= length (flat_map enc_trace cs))%nat.
Proof.
  induction cs as [|c cs IH]; intros H; cbn [map flat_map]; [cbn; lia|].
  change (list_max (depth c :: map depth cs)) with (Nat.max (depth c) (list_max (map depth cs))).
  rewrite app_length. pose proof (H c (or_introl eq_refl)).
  pose proof (IH (fun y Hy => H y (or_intror Hy))). lia.
Qed.

Lemma depth_le_enc f : forall t, (depth t <= f)%nat -> (depth t <= length (enc_trace t))%nat.
Proof.
  induction f; intros t Hd.
  - destruct t; cbn [depth] in Hd. lia.
  - assert (Hc : forall c, In c (t_calls t) -> (depth c <= length (enc_trace c))%nat).
    { intros c Hc. apply IHf. pose proof (depth_call t c Hc). lia. }
    destruct t as [ty fr to cs g gu i o v e rr]. cbn [t_calls] in Hc.
    cbn [depth enc_trace]. pose proof (list_max_flat_len cs Hc).
    change (enc c_string ty) with (be 4 (N.of_nat (length ty)) ++ flat_map (enc c_u8) ty).
    rewrite !app_length. rewrite be_length. lia.
Qed.

Lemma c_trace_ok : codec_ok c_trace.
Proof.
  intros t pre rest Hwf. change (wf c_trace t) with (wf_trace t) in Hwf.
  change (enc c_trace t) with (enc_trace t).
  change (dec c_trace (pre ++ enc_trace t ++ rest) (length pre)) with
    (dec (c_trace_fuel (S (length (pre ++ enc_trace t ++ rest)))) (pre ++ enc_trace t ++ rest) (length pre)).
  set (f := S (length (pre ++ enc_trace t ++ rest))).
  assert (Hd : (depth t <= f)%nat).
  { pose proof (depth_le_enc (depth t) t (le_n _)). unfold f. rewrite !app_length. lia. }
  destruct (trace_fuel_enc f t Hd) as [He Hw]. rewrite <- He.
  apply c_trace_fuel_ok. rewrite Hw. exact Hwf.
Qed.

(* ---------------- hex and raw blocks ---------------- *)
Lemma hex_digit_cases d : d < 16 -> hex_val (hex_digit d) = Some d /\ (hex_digit d =? 120) = false /\ hex_digit d < 128.
Proof.
  intros H.
  assert (E : In d [0;1;2;3;4;5;6;7;8;9;10;11;12;13;14;15]) by (cbn [In]; lia).
  cbn [In] in E. repeat (destruct E as [<-|E]; [repeat split; reflexivity|]). contradiction.
Qed.

Lemma byte_split b : b < 256 -> b / 16 < 16 /\ b mod 16 < 16 /\ b / 16 * 16 + b mod 16 = b.
Proof.
  intros H. pose proof (N.div_mod b 16 ltac:(lia)). pose proof (N.mod_lt b 16 ltac:(lia)).
  assert (b / 16 < 16) by (apply N.div_lt_upper_bound; lia). lia.
Qed.

Lemma hex_dec_enc l : bytes_ok l = true -> hex_dec (hex_enc l) = Some l.
Proof.
  intros H. apply bytes_ok_Forall in H. induction H as [|b l Hb Hl IH]; [reflexivity|].
  cbn [hex_enc flat_map app]. fold (hex_enc l). cbn [hex_dec].
  destruct (byte_split b Hb) as (H1 & H2 & H3).
  destruct (hex_digit_cases _ H1) as (E1 & _). destruct (hex_digit_cases _ H2) as (E2 & _).
  rewrite E1, E2, IH, H3. reflexivity.
Qed.

Lemma trim0x_hex_enc l : bytes_ok l = true -> trim0x (hex_enc l) = hex_enc l.
Proof.
  intros H. apply bytes_ok_Forall in H. destruct H as [|b l Hb Hl]; [reflexivity|].
  cbn [hex_enc flat_map app]. cbn [trim0x].
  destruct (byte_split b Hb) as (H1 & H2 & H3). destruct (hex_digit_cases _ H2) as (_ & E & _).
  rewrite E, andb_false_r. reflexivity.
Qed.

Lemma trim0x_hex0x l : bytes_ok l = true -> trim0x (hex0x l) = hex_enc l.
Proof.
  intros H. unfold hex0x. cbn [trim0x]. change (48 =? 48) with true. change (120 =? 120) with true.
  cbn [andb]. apply trim0x_hex_enc, H.
Qed.

Section RawBlockP.
  Variables BL RC : Type.
  Variable rlp_block : BL -> bytes.
  Variable unrlp_block : bytes -> option BL.
  Variable rlp_receipt : RC -> bytes.
  Variable unrlp_receipt : bytes -> option RC.
  Hypothesis rlp_block_bytes : forall b, bytes_ok (rlp_block b) = true.
  Hypothesis rlp_receipt_bytes : forall r, bytes_ok (rlp_receipt r) = true.
  Hypothesis rlp_block_rt : forall b, unrlp_block (rlp_block b) = Some b.
  Hypothesis rlp_receipt_rt : forall r, unrlp_receipt (rlp_receipt r) = Some r.

  Lemma parse_hex_rlp_ok {X} (rlp : X -> bytes) (unrlp : bytes -> option X) x :
    bytes_ok (rlp x) = true -> unrlp (rlp x) = Some x ->
    parse_hex_rlp unrlp (hex0x (rlp x)) = Ok x.
  Proof.
    intros Hb Hr. unfold parse_hex_rlp. rewrite trim0x_hex0x, hex_dec_enc, Hr by assumption.
    reflexivity.
  Qed.

  Lemma parse_all_ok rs :
    parse_all unrlp_receipt (map (fun r => hex0x (rlp_receipt r)) rs) = Ok rs.
  Proof.
    induction rs as [|r rs IH]; cbn [map parse_all]; [reflexivity|].
    rewrite (parse_hex_rlp_ok rlp_receipt) by auto. cbn [rbind]. rewrite IH. reflexivity.
  Qed.

  Notation crb := (c_rawblock BL RC rlp_block unrlp_block rlp_receipt unrlp_receipt).
  Definition rb_strings (rs : list RC) : list bytes := map (fun r => hex0x (rlp_receipt r)) rs.

  Lemma dec_rawblock_eq b o :
    dec crb b o =
    (do s <- dec c_string b o;
     do bl <- parse_hex_rlp unrlp_block (fst s);
     do ss <- dec (c_vec c_string) b (snd s);
     do rs' <- parse_all unrlp_receipt (fst ss);
     Ok ((bl, rs'), snd ss)).
  Proof. reflexivity. Qed.
  Lemma enc_rawblock_eq b rs :
    enc crb (b, rs) = enc c_string (hex0x (rlp_block b)) ++ enc (c_vec c_string) (rb_strings rs).
  Proof. reflexivity. Qed.
  Lemma wf_rawblock_eq b rs :
    wf crb (b, rs) = wf c_string (hex0x (rlp_block b)) && wf (c_vec c_string) (rb_strings rs).
  Proof. reflexivity. Qed.

  Lemma c_rawblock_ok : codec_ok crb.
  Proof.
    intros [b rs] pre rest Hwf. rewrite wf_rawblock_eq in Hwf. apply andb_prop in Hwf as [Hw1 Hw2].
    rewrite dec_rawblock_eq, enc_rawblock_eq.
    assert (Hstrs := parse_all_ok rs). fold (rb_strings rs) in Hstrs.
    generalize dependent (rb_strings rs). intros strs Hw2 Hstrs.
    rewrite <- app_assoc. rewrite c_string_ok by assumption. cbn [rbind fst snd].
    rewrite (parse_hex_rlp_ok rlp_block) by auto. cbn [rbind].
    assert (H := c_vec_ok c_string c_string_ok strs (pre ++ enc c_string (hex0x (rlp_block b))) rest Hw2).
    rewrite <- app_assoc, app_length in H. rewrite H.
    cbn [rbind fst snd]. rewrite Hstrs. cbn [rbind]. rewrite app_length.
    do 2 f_equal. lia.
  Qed.
End RawBlockP.

(* ---------------- order laws ---------------- *)
Lemma lexb_of_cmp a b x y : lcmp a b = (x ?= y) -> lexb a b = (x <? y).
Proof. intros H. unfold lexb. rewrite H. symmetry. apply cmp_ltb. Qed.

(* plain u64 keys (BlockDatabase) *)
Lemma order_u64_cmp a b : a < 2 ^ 64 -> b < 2 ^ 64 -> lcmp (enc c_u64 a) (enc c_u64 b) = (a ?= b).
Proof. intros Ha Hb. unfold c_u64. rewrite !enc_be. apply be_order; assumption. Qed.

Lemma enc_u64_length a : length (enc c_u64 a) = 8%nat.
Proof. unfold c_u64. rewrite enc_be. apply be_length. Qed.

(* UintED keys *)
Lemma order_uint_cmp bits limbs a b :
  a < limb_base ^ N.of_nat limbs -> b < limb_base ^ N.of_nat limbs ->
  lcmp (enc (c_uint bits limbs) a) (enc (c_uint bits limbs) b) = (a ?= b).
Proof.
  intros Ha Hb. rewrite !enc_uint_eq.
  rewrite (lcmp_flat_map (enc c_u64) 8 (fun x => x < limb_base)).
  - apply beB_order; [reflexivity|assumption|assumption].
  - intros x _. apply enc_u64_length.
  - intros x y Hx Hy. apply order_u64_cmp; assumption.
  - apply beB_digits. reflexivity.
  - apply beB_digits. reflexivity.
  - rewrite !beB_length. reflexivity.
Qed.

Lemma enc_uint_length bits limbs a : length (enc (c_uint bits limbs) a) = (8 * limbs)%nat.
Proof.
  rewrite enc_uint_eq. generalize (beB_length limb_base limbs a).
  generalize (beB limb_base limbs a) as l. intros l <-.
  induction l as [|x l IH]; cbn [flat_map length]; [reflexivity|].
  rewrite app_length, enc_u64_length, IH. lia.
Qed.

Lemma order_U64 a b : wf c_U64 a = true -> wf c_U64 b = true ->
  lexb (enc c_U64 a) (enc c_U64 b) = (a <? b).
Proof. intros Ha Hb. apply N.ltb_lt in Ha, Hb. apply lexb_of_cmp, order_uint_cmp; assumption. Qed.
Lemma order_U128 a b : wf c_U128 a = true -> wf c_U128 b = true ->
  lexb (enc c_U128 a) (enc c_U128 b) = (a <? b).
Proof. intros Ha Hb. apply N.ltb_lt in Ha, Hb. apply lexb_of_cmp, order_uint_cmp; assumption. Qed.
Lemma order_U256 a b : wf c_U256 a = true -> wf c_U256 b = true ->
  lexb (enc c_U256 a) (enc c_U256 b) = (a <? b).
Proof. intros Ha Hb. apply N.ltb_lt in Ha, Hb. apply lexb_of_cmp, order_uint_cmp; assumption. Qed.
Lemma order_U512 a b : wf c_U512 a = true -> wf c_U512 b = true ->
  lexb (enc c_U512 a) (enc c_U512 b) = (a <? b).
Proof. intros Ha Hb. apply N.ltb_lt in Ha, Hb. apply lexb_of_cmp, order_uint_cmp; assumption. Qed.
Lemma order_u64 a b : wf c_u64 a = true -> wf c_u64 b = true ->
  lexb (enc c_u64 a) (enc c_u64 b) = (a <? b).
Proof.
  unfold c_u64. rewrite !wf_be. intros Ha Hb. apply N.ltb_lt in Ha, Hb.
  apply lexb_of_cmp, order_u64_cmp; assumption.
Qed.

(* the two u64 encodings used for block-table keys agree (u64::encode on put, U64ED on delete/last_key) *)
Lemma enc_U64_u64 a : a < 2 ^ 64 -> enc c_U64 a = enc c_u64 a.
Proof.
  intros Ha. unfold c_U64. rewrite enc_uint_eq. cbn [beB flat_map].
  change (limb_base ^ N.of_nat 0) with 1. rewrite N.div_1_r, app_nil_r.
  rewrite N.mod_small by exact Ha. reflexivity.
Qed.

(* fixed-width byte keys: the encoding is the byte string itself, and for equal lengths the
   byte order is the order of the big-endian numbers *)
Lemma order_fixed n a b : lcmp (enc (c_fixed n) a) (enc (c_fixed n) b) = lcmp a b.
Proof. rewrite !enc_fixed. reflexivity. Qed.

Lemma order_fixed_numeric a b : bytes_ok a = true -> bytes_ok b = true -> length a = length b ->
  lcmp a b = (of_be a ?= of_be b).
Proof.
  intros Ha Hb Hl. apply bytes_ok_Forall in Ha, Hb.
  rewrite <- (beB_of_beB 256 a) at 1 by (try reflexivity; assumption).
  rewrite <- (beB_of_beB 256 b) at 1 by (try reflexivity; assumption).
  rewrite Hl. apply beB_order; [reflexivity| |apply of_beB_bound; [reflexivity|assumption]].
  rewrite <- Hl. apply of_beB_bound; [reflexivity|assumption].
Qed.

(* composite keys: a fixed-width first component *)
Lemma order_pair_cmp {A B} (ca : codec A) (cb : codec B) a1 b1 a2 b2 :
  length (enc ca a1) = length (enc ca a2) ->
  lcmp (enc (c_pair ca cb) (a1, b1)) (enc (c_pair ca cb) (a2, b2))
  = match lcmp (enc ca a1) (enc ca a2) with Eq => lcmp (enc cb b1) (enc cb b2) | c => c end.
Proof. intros H. apply lcmp_app. exact H. Qed.

Lemma wf_fixed_length n a : wf (c_fixed n) a = true -> length a = n.
Proof. intros H. apply andb_prop in H as [H _]. apply Nat.eqb_eq in H. exact H. Qed.

Lemma order_addr_nonce_cmp a1 n1 a2 n2 :
  wf c_addr_nonce (a1, n1) = true -> wf c_addr_nonce (a2, n2) = true ->
  lcmp (enc c_addr_nonce (a1, n1)) (enc c_addr_nonce (a2, n2))
  = match lcmp a1 a2 with Eq => n1 ?= n2 | c => c end.
Proof.
  intros H1 H2. apply andb_prop in H1 as [Ha1 Hn1]. apply andb_prop in H2 as [Ha2 Hn2].
  cbn [fst snd] in *. apply wf_fixed_length in Ha1, Ha2. apply N.ltb_lt in Hn1, Hn2.
  unfold c_addr_nonce. rewrite order_pair_cmp.
  - unfold c_addr, c_U64. rewrite !enc_fixed. rewrite order_uint_cmp by assumption. reflexivity.
  - unfold c_addr. rewrite !enc_fixed. congruence.
Qed.

Definition pair_lt (p q : bytes * N) : bool :=
  match lcmp (fst p) (fst q) with Lt => true | Eq => snd p <? snd q | Gt => false end.

Lemma order_addr_nonce p q : wf c_addr_nonce p = true -> wf c_addr_nonce q = true ->
  lexb (enc c_addr_nonce p) (enc c_addr_nonce q) = pair_lt p q.
Proof.
  destruct p as [a1 n1], q as [a2 n2]. intros H1 H2. unfold lexb, pair_lt.
  rewrite order_addr_nonce_cmp by assumption. cbn [fst snd].
  destruct (lcmp a1 a2); reflexivity.
Qed.

(* what a range scan [lo, hi) of a byte-ordered store returns *)
Definition in_range (k lo hi : bytes) : bool := negb (lexb k lo) && lexb k hi.

(* get_all_pending_txes_from(account): get_range((account, 0), (account, U64::MAX)) *)
Lemma pending_range a a' n :
  wf c_addr_nonce (a, 0) = true -> wf c_addr_nonce (a', n) = true ->
  in_range (enc c_addr_nonce (a', n)) (enc c_addr_nonce (a, 0)) (enc c_addr_nonce (a, 2 ^ 64 - 1)) = true
  <-> a' = a /\ n < 2 ^ 64 - 1.
Proof.
  intros Ha Hk.
  assert (Hhi : wf c_addr_nonce (a, 2 ^ 64 - 1) = true).
  { apply andb_prop in Ha as [Ha _]. cbn [fst snd] in *. apply andb_true_intro. split; [exact Ha|reflexivity]. }
  unfold in_range, lexb. rewrite !order_addr_nonce_cmp by assumption.
  rewrite (lcmp_antisym a a'). 
  destruct (lcmp a a') eqn:E; cbn [CompOpp negb andb].
  - apply lcmp_eq in E. subst a'. change (2 ^ 64 - 1) with 18446744073709551615.
    destruct (N.compare_spec n 0) as [H0|H0|H0];
      destruct (N.compare_spec n 18446744073709551615) as [H1|H1|H1]; cbn [negb andb];
      split; intros HH; try discriminate; try reflexivity; try (split; [reflexivity|lia]);
      try (destruct HH; lia).
  - split; [discriminate|]. intros [-> _]. rewrite lcmp_refl in E. discriminate.
  - split; [discriminate|]. intros [-> _]. rewrite lcmp_refl in E. discriminate.
Qed.

(* (block << 64) | idx *)
Lemma land_shift_low b i : i < 2 ^ 64 -> N.land (b * 2 ^ 64) i = 0.
Proof.
  intros Hi. apply N.bits_inj. intros m. rewrite N.land_spec, N.bits_0.
  destruct (N.lt_ge_cases m 64) as [L|G].
  - rewrite N.mul_pow2_bits_low by exact L. reflexivity.
  - replace i with (i mod 2 ^ 64) by (apply N.mod_small; exact Hi).
    rewrite N.mod_pow2_bits_high by exact G. apply andb_false_r.
Qed.

Lemma ni_key_add b i : i < 2 ^ 64 -> ni_key b i = b * 2 ^ 64 + i.
Proof.
  intros Hi. unfold ni_key. rewrite N.shiftl_mul_pow2.
  pose proof (land_shift_low b i Hi) as H.
  rewrite <- N.lxor_lor by exact H. symmetry. apply N.add_nocarry_lxor. exact H.
Qed.

Lemma ni_key_bound b i : b < 2 ^ 64 -> i < 2 ^ 64 -> ni_key b i < 2 ^ 128.
Proof.
  intros Hb Hi. rewrite ni_key_add by exact Hi. change (2 ^ 128) with (2 ^ 64 * 2 ^ 64).
  change (2^64) with 18446744073709551616 in *. nia.
Qed.

Lemma ni_key_cmp b1 i1 b2 i2 : i1 < 2 ^ 64 -> i2 < 2 ^ 64 ->
  (ni_key b1 i1 ?= ni_key b2 i2) = match b1 ?= b2 with Eq => i1 ?= i2 | c => c end.
Proof.
  intros H1 H2. rewrite !ni_key_add by assumption. change (2^64) with 18446744073709551616 in *.
  destruct (N.compare_spec b1 b2) as [E|L|G].
  - subst. destruct (N.compare_spec i1 i2);
      [apply N.compare_eq_iff | apply N.compare_lt_iff | apply N.compare_gt_iff]; lia.
  - apply N.compare_lt_iff. nia.
  - apply N.compare_gt_iff. nia.
Qed.

Lemma order_block_idx_cmp b1 i1 b2 i2 :
  b1 < 2 ^ 64 -> i1 < 2 ^ 64 -> b2 < 2 ^ 64 -> i2 < 2 ^ 64 ->
  lcmp (enc c_U128 (ni_key b1 i1)) (enc c_U128 (ni_key b2 i2))
  = match b1 ?= b2 with Eq => i1 ?= i2 | c => c end.
Proof.
  intros. unfold c_U128. rewrite order_uint_cmp by (apply ni_key_bound; assumption).
  apply ni_key_cmp; assumption.
Qed.

(* get_range(key(b,0), key(b+1,0)) returns exactly the entries of block b *)
Lemma block_range b b' i :
  b + 1 < 2 ^ 64 -> b' < 2 ^ 64 -> i < 2 ^ 64 ->
  in_range (enc c_U128 (ni_key b' i)) (enc c_U128 (ni_key b 0)) (enc c_U128 (ni_key (b + 1) 0)) = true
  <-> b' = b.
Proof.
  intros Hb Hb' Hi. assert (0 < 2 ^ 64) by reflexivity.
  unfold in_range, lexb. rewrite !order_block_idx_cmp by (try assumption; lia).
  destruct (N.compare_spec b' b) as [E|L|G]; cbn [negb andb].
  - subst. destruct (N.compare_spec i 0); cbn [negb andb]; try lia;
      destruct (N.compare_spec b (b + 1)); try lia; split; auto.
  - split; [discriminate|lia].
  - destruct (N.compare_spec b' (b + 1)) as [E'|L'|G']; cbn [negb andb].
    + destruct (N.compare_spec i 0); split; try discriminate; lia.
    + lia.
    + split; [discriminate|lia].
Qed.

(* length-prefixed strings do NOT sort like the strings: "b" > "aa" but its encoding is smaller *)
Lemma order_string_fails :
  exists a b, wf c_string a = true /\ wf c_string b = true /\
              lexb a b = true /\ lexb (enc c_string a) (enc c_string b) = false.
Proof. exists [97; 97], [98]. repeat split; reflexivity. Qed.

(* the last key of a byte-ordered map of u64 keys is the numeric maximum *)
Lemma last_key_is_max ks :
  forallb (wf c_u64) ks = true -> byte_sorted (map (enc c_u64) ks) = true ->
  forall k, In k ks -> k <= last ks 0.
Proof.
  induction ks as [|a ks IH]; intros Hw Hs k Hin; [destruct Hin|].
  cbn [forallb] in Hw. apply andb_prop in Hw as [Ha Hw].
  destruct ks as [|b ks'].
  - destruct Hin as [<-|[]]. cbn [last]. lia.
  - change (byte_sorted (map (enc c_u64) (a :: b :: ks'))) with
      (lexb (enc c_u64 a) (enc c_u64 b) && byte_sorted (map (enc c_u64) (b :: ks'))) in Hs.
    apply andb_prop in Hs as [Hab Hs].
    assert (Hb : wf c_u64 b = true) by (cbn [forallb] in Hw; apply andb_prop in Hw as [Hb _]; exact Hb).
    rewrite order_u64 in Hab by assumption. apply N.ltb_lt in Hab.
    change (last (a :: b :: ks') 0) with (last (b :: ks') 0).
    pose proof (IH Hw Hs b (or_introl eq_refl)).
    destruct Hin as [<-|Hin]; [lia|]. apply IH; assumption.
Qed.

(* (address, storage slot) keys are injective *)
Lemma of_be_inj a b : bytes_ok a = true -> bytes_ok b = true -> length a = length b ->
  of_be a = of_be b -> a = b.
Proof.
  intros Ha Hb Hl E. apply lcmp_eq. rewrite order_fixed_numeric by assumption.
  rewrite E. apply N.compare_refl.
Qed.

Lemma bytes_ok_app a b : bytes_ok (a ++ b) = bytes_ok a && bytes_ok b.
Proof. apply forallb_app. Qed.

Lemma app_eq_len {A} (a b c d : list A) : length a = length c -> a ++ b = c ++ d -> a = c /\ b = d.
Proof.
  revert c; induction a as [|x a IH]; intros [|y c] Hl E; try discriminate.
  - split; [reflexivity|exact E].
  - injection Hl as Hl. injection E as -> E. destruct (IH c Hl E) as [-> ->]. split; reflexivity.
Qed.

Lemma slot_key_bytes_ok a m : bytes_ok a = true -> bytes_ok (a ++ zeros 12 ++ be 32 m) = true.
Proof.
  intros H. rewrite !bytes_ok_app, H. unfold bytes_ok at 2. rewrite be_bytes_ok. reflexivity.
Qed.

Lemma slot_key_inj a1 m1 a2 m2 :
  wf c_addr a1 = true -> wf c_addr a2 = true -> m1 < 2 ^ 256 -> m2 < 2 ^ 256 ->
  slot_key a1 m1 = slot_key a2 m2 -> a1 = a2 /\ m1 = m2.
Proof.
  intros H1 H2 Hm1 Hm2 E. unfold slot_key in E.
  pose proof (wf_fixed_length _ _ H1) as L1. pose proof (wf_fixed_length _ _ H2) as L2.
  apply andb_prop in H1 as [_ B1]. apply andb_prop in H2 as [_ B2].
  change (bytes_ok a1 = true) in B1. change (bytes_ok a2 = true) in B2.
  apply of_be_inj in E.
  - apply app_eq_len in E; [|congruence]. destruct E as [-> E]. split; [reflexivity|].
    apply app_inv_head in E.
    rewrite <- (of_beB_beB 256 32 m1), <- (of_beB_beB 256 32 m2) by (try reflexivity; assumption).
    fold (be 32 m1). fold (be 32 m2). rewrite E. reflexivity.
  - apply slot_key_bytes_ok, B1.
  - apply slot_key_bytes_ok, B2.
  - rewrite !app_length, !be_length, L1, L2. reflexivity.
Qed.

Lemma slot_key_bound a m : wf c_addr a = true -> slot_key a m < 2 ^ 512.
Proof.
  intros H. pose proof (wf_fixed_length _ _ H) as L. apply andb_prop in H as [_ B].
  change (bytes_ok a = true) in B. unfold slot_key, of_be.
  pose proof (of_beB_bound 256 (a ++ zeros 12 ++ be 32 m) ltac:(reflexivity)
                (bytes_ok_Forall _ (slot_key_bytes_ok a m B))) as Hb.
  rewrite !app_length, be_length, L in Hb. exact Hb.
Qed.

