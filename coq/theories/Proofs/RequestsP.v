(* C09: proofs about Model/Requests.v. *)
From Coq Require Import Arith.
From Brc.Model Require Import Base Base64 Payload Logs ReadSlot Requests.
From Brc.Proofs Require Import PayloadP ReadSlotP.
Arguments N.add : simpl never.
Arguments N.sub : simpl never.
Arguments N.mul : simpl never.
Arguments N.div : simpl never.
Arguments N.modulo : simpl never.
Arguments N.leb : simpl never.
Arguments N.ltb : simpl never.
Arguments N.eqb : simpl never.
Arguments N.pow : simpl never.
Arguments N.of_nat : simpl never.
Arguments N.to_nat : simpl never.

Lemma U64MAX_val : U64MAX = 18446744073709551615. Proof. reflexivity. Qed.
Lemma TWO64_val : TWO64 = 18446744073709551616. Proof. reflexivity. Qed.
Global Opaque U64MAX TWO64.

Ltac nb :=
  repeat match goal with
  | H : (_ <=? _) = true |- _ => apply N.leb_le in H
  | H : (_ <=? _) = false |- _ => apply N.leb_gt in H
  | H : (_ <? _) = true |- _ => apply N.ltb_lt in H
  | H : (_ <? _) = false |- _ => apply N.ltb_ge in H
  | H : (_ =? _) = true |- _ => apply N.eqb_eq in H
  | H : (_ =? _) = false |- _ => apply N.eqb_neq in H
  end.

(* ---------------------------------------------------------------------------------- *)
(* machine integers                                                                   *)
(* ---------------------------------------------------------------------------------- *)

Lemma u64_add_wrapping_no_panic a b : u64_add Wrapping a b <> Panic.
Proof. unfold u64_add. destruct (a + b <=? U64MAX); discriminate. Qed.
Lemma u64_sub_wrapping_no_panic a b : u64_sub Wrapping a b <> Panic.
Proof. unfold u64_sub. destruct (b <=? a); discriminate. Qed.
Lemma u64_mul_wrapping_no_panic a b : u64_mul Wrapping a b <> Panic.
Proof. unfold u64_mul. destruct (a * b <=? U64MAX); discriminate. Qed.

Lemma u64_add_fits m a b : a + b <= U64MAX -> u64_add m a b = Ok (a + b).
Proof. intros H. unfold u64_add. apply N.leb_le in H. rewrite H. reflexivity. Qed.
Lemma u64_sub_fits m a b : b <= a -> u64_sub m a b = Ok (a - b).
Proof. intros H. unfold u64_sub. apply N.leb_le in H. rewrite H. reflexivity. Qed.
Lemma u64_mul_fits m a b : a * b <= U64MAX -> u64_mul m a b = Ok (a * b).
Proof. intros H. unfold u64_mul. apply N.leb_le in H. rewrite H. reflexivity. Qed.

Lemma u64_add_not_err m a b : u64_add m a b <> Err.
Proof. unfold u64_add. destruct (a + b <=? U64MAX), m; discriminate. Qed.
Lemma u64_sub_not_err m a b : u64_sub m a b <> Err.
Proof. unfold u64_sub. destruct (b <=? a), m; discriminate. Qed.

(* ---------------------------------------------------------------------------------- *)
(* strings                                                                            *)
(* ---------------------------------------------------------------------------------- *)

(* a well-formed string never starts with a continuation byte *)
Lemma utf8_head_not_cont b r : utf8_valid (b :: r) = true -> is_cont b = false.
Proof.
  cbn [utf8_valid]. unfold is_cont.
  destruct (b <? 128) eqn:E1; [intros _; nb; destruct (128 <=? b) eqn:E; [nb; lia | reflexivity]|].
  destruct ((194 <=? b) && (b <=? 223)) eqn:E2.
  { intros _. apply andb_prop in E2 as [A B]. nb. destruct (b <=? 191) eqn:E; [nb; lia|]. apply andb_false_r. }
  destruct ((224 <=? b) && (b <=? 239)) eqn:E3.
  { intros _. apply andb_prop in E3 as [A B]. nb. destruct (b <=? 191) eqn:E; [nb; lia|]. apply andb_false_r. }
  destruct ((240 <=? b) && (b <=? 244)) eqn:E4.
  { intros _. apply andb_prop in E4 as [A B]. nb. destruct (b <=? 191) eqn:E; [nb; lia|]. apply andb_false_r. }
  discriminate.
Qed.

Lemma utf8_tail_ascii b r : b < 128 -> utf8_valid (b :: r) = true -> utf8_valid r = true.
Proof. intros Hb. cbn [utf8_valid]. apply N.ltb_lt in Hb. rewrite Hb. trivial. Qed.

(* `&number[2..]` after starts_with("0x") *)
Lemma str_from_2_after_0x s :
  utf8_valid s = true -> starts_with s S_0x = true -> exists t, str_from s 2 = Ok t.
Proof.
  intros Hv Hs. unfold S_0x in Hs.
  destruct s as [|a [|b r]]; cbn [starts_with] in Hs; try discriminate.
  { rewrite andb_false_r in Hs. discriminate. }
  apply andb_prop in Hs as [Ha Hs]. apply andb_prop in Hs as [Hb _]. nb. subst a b.
  apply utf8_tail_ascii in Hv; [|lia]. apply utf8_tail_ascii in Hv; [|lia].
  unfold str_from. cbn [length Nat.ltb Nat.leb nth_error skipn].
  destruct r as [|c r']; [eexists; reflexivity|].
  rewrite (utf8_head_not_cont _ _ Hv). eexists; reflexivity.
Qed.

Theorem parse_block_number_no_panic latest next s :
  utf8_valid s = true -> latest <> Panic -> next <> Panic ->
  parse_block_number latest next s <> Panic.
Proof.
  intros Hv Hl Hn. unfold parse_block_number.
  destruct (beqb s S_latest || beqb s S_safe || beqb s S_finalized); [exact Hl|].
  destruct (beqb s S_pending); [exact Hn|].
  destruct (beqb s S_earliest); [discriminate|].
  destruct (starts_with s S_0x) eqn:E.
  - destruct (str_from_2_after_0x s Hv E) as [t Ht]. rewrite Ht. cbn [rbind].
    destruct (from_str_radix 16 t); discriminate.
  - destruct (from_str_radix 10 s); discriminate.
Qed.

(* the hypothesis is needed: the slice panics on a byte string that is not a String *)
Lemma parse_block_number_needs_utf8 : parse_block_number (Ok 0) (Ok 0) [48; 120; 128] = Panic.
Proof. reflexivity. Qed.

Theorem resolve_no_panic latest next json_b256 by_hash s :
  utf8_valid s = true -> latest <> Panic -> next <> Panic -> (forall h, by_hash h <> Panic) ->
  resolve_block_hash_or_number latest next json_b256 by_hash s <> Panic.
Proof.
  intros Hv Hl Hn Hb. unfold resolve_block_hash_or_number.
  pose proof (parse_block_number_no_panic latest next s Hv Hl Hn) as Hp.
  destruct (parse_block_number latest next s); try discriminate; [|contradiction].
  destruct (json_b256 s) as [h|]; [|discriminate].
  specialize (Hb h). destruct (by_hash h) as [[n|]| |]; try discriminate. contradiction.
Qed.

(* ---------------------------------------------------------------------------------- *)
(* ranges                                                                             *)
(* ---------------------------------------------------------------------------------- *)

Theorem get_logs_range_no_panic fx m latest from to :
  fx_logs fx = true -> get_logs_range fx m latest from to <> Panic.
Proof.
  intros F. unfold get_logs_range. rewrite F.
  match goal with |- context [5 <? ?d] => destruct (5 <? d) end; [discriminate|].
  match goal with |- context [?t =? U64MAX] => destruct (t =? U64MAX) end; discriminate.
Qed.

Theorem get_logs_range_wrapping_no_panic fx latest from to :
  get_logs_range fx Wrapping latest from to <> Panic.
Proof.
  destruct (fx_logs fx) eqn:F; [apply get_logs_range_no_panic; exact F|].
  unfold get_logs_range. rewrite F.
  match goal with |- context [u64_sub Wrapping ?t ?f] =>
    pose proof (u64_sub_wrapping_no_panic t f) as H1; pose proof (u64_sub_not_err Wrapping t f) as H1';
    destruct (u64_sub Wrapping t f) as [d| |]; try contradiction end.
  cbn [rbind]. destruct (5 <? d); [discriminate|].
  match goal with |- context [u64_add Wrapping ?t 1] =>
    pose proof (u64_add_wrapping_no_panic t 1) as H2; destruct (u64_add Wrapping t 1); try contradiction end;
  cbn [rbind]; discriminate.
Qed.

(* F10: a reversed range, and a range that ends at u64::MAX *)
Theorem get_logs_range_as_found_refuted :
  get_logs_range AS_FOUND Checked 7 (Some 1) (Some 0) = Panic /\
  get_logs_range AS_FOUND Checked 7 (Some U64MAX) (Some U64MAX) = Panic /\
  get_logs_range AS_FOUND Wrapping 7 (Some 1) (Some 0) = Err.
Proof. Transparent U64MAX TWO64. vm_compute. auto. Qed.
Global Opaque U64MAX TWO64.

Lemma opt_parse_no_panic latest next o :
  opt_valid o = true -> latest <> Panic -> next <> Panic -> opt_parse latest next o <> Panic.
Proof.
  intros Hv Hl Hn. destruct o as [s|]; [|discriminate]. cbn [opt_parse opt_valid] in *.
  pose proof (parse_block_number_no_panic latest next s Hv Hl Hn).
  destruct (parse_block_number latest next s); try discriminate. contradiction.
Qed.

Theorem eth_get_logs_front_no_panic fx m latest next from_s to_s :
  (fx_logs fx = true \/ m = Wrapping) ->
  opt_valid from_s = true -> opt_valid to_s = true -> latest <> Panic -> next <> Panic ->
  eth_get_logs_front fx m latest next from_s to_s <> Panic.
Proof.
  intros Hm Hf Ht Hl Hn. unfold eth_get_logs_front.
  pose proof (opt_parse_no_panic latest next from_s Hf Hl Hn).
  destruct (opt_parse latest next from_s) as [f| |]; try discriminate; [|contradiction]. cbn [rbind].
  pose proof (opt_parse_no_panic latest next to_s Ht Hl Hn).
  destruct (opt_parse latest next to_s) as [t| |]; try discriminate; [|contradiction]. cbn [rbind].
  destruct latest as [l| |]; try discriminate; [|contradiction]. cbn [rbind].
  destruct Hm as [F|M]; [apply get_logs_range_no_panic; exact F|subst m; apply get_logs_range_wrapping_no_panic].
Qed.

Theorem block_tx_count_range_no_panic fx m n :
  (fx_txcount fx = true \/ m = Wrapping) -> block_tx_count_range fx m n <> Panic.
Proof.
  intros H. unfold block_tx_count_range. destruct (fx_txcount fx) eqn:F.
  - destruct (n =? U64MAX); discriminate.
  - destruct H as [H|H]; [discriminate|]. subst m.
    pose proof (u64_add_wrapping_no_panic n 1) as H1. destruct (u64_add Wrapping n 1); cbn [rbind]; [discriminate|discriminate|exfalso; apply H1; reflexivity].
Qed.

Theorem block_tx_count_range_as_found_refuted : block_tx_count_range AS_FOUND Checked U64MAX = Panic.
Proof. Transparent U64MAX TWO64. vm_compute. reflexivity. Qed.
Global Opaque U64MAX TWO64.

Theorem generate_block_hash_no_panic fx m n :
  (fx_hash_wrap fx = true \/ m = Wrapping) -> generate_block_hash fx m n <> Panic.
Proof.
  intros H. unfold generate_block_hash. destruct (fx_hash_wrap fx) eqn:F; [discriminate|].
  destruct H as [H|H]; [discriminate|]. subst m. apply u64_add_wrapping_no_panic.
Qed.

Theorem initialise_front_no_panic {A} fx m hz height (rest : res A) :
  (fx_hash_wrap fx = true \/ m = Wrapping) -> rest <> Panic -> initialise_front fx m hz height rest <> Panic.
Proof.
  intros H Hr. unfold initialise_front. destruct hz; cbn [rbind]; [|exact Hr].
  pose proof (generate_block_hash_no_panic fx m height H) as H1.
  destruct (generate_block_hash fx m height); cbn [rbind]; [exact Hr|discriminate|exfalso; apply H1; reflexivity].
Qed.

Theorem initialise_front_as_found_refuted :
  initialise_front AS_FOUND Checked true U64MAX (@Err unit) = Panic.
Proof. Transparent U64MAX TWO64. vm_compute. reflexivity. Qed.
Global Opaque U64MAX TWO64.

(* ---------------------------------------------------------------------------------- *)
(* brc20_mine                                                                         *)
(* ---------------------------------------------------------------------------------- *)

Section MineP.
  Context {St : Type}.
  Variable fin : St -> N -> St * res unit.
  (* an invariant of the state the store keeps (e.g. "the engine is alive") *)
  Variable Inv : St -> Prop.

  Definition fin_no_panic : Prop := forall st n, Inv st -> snd (fin st n) <> Panic /\ Inv (fst (fin st n)).
  Definition fin_all_ok : Prop := forall st n, Inv st -> snd (fin st n) = Ok tt.

  (* the loop makes at most [k] calls, whatever happens *)
  Lemma mine_loop_calls_le m k s : ms_calls (mine_loop fin m k s) <= ms_calls s + k.
  Proof.
    unfold mine_loop. induction k as [|k IH] using N.peano_ind; [cbn; lia|].
    rewrite N.iter_succ. set (s' := N.iter k (mine_step fin m) s) in *.
    unfold mine_step. destruct (ms_res s') as [u| |]; [|lia|lia].
    destruct (fin (ms_st s') (ms_bn s')) as [st' r]. destruct r; [destruct (u64_add m (ms_bn s') 1)| |]; cbn [ms_calls]; lia.
  Qed.

  Definition start (st : St) (bn calls : N) : mstate :=
    {| ms_st := st; ms_bn := bn; ms_calls := calls; ms_res := Ok tt |}.

  (* no height overflow, the store does not panic: the loop does not panic; while it runs,
     block number and call count advance together *)
  Lemma mine_loop_inv m st bn calls k :
    fin_no_panic -> Inv st -> (m = Wrapping \/ bn + k <= U64MAX) ->
    let s' := mine_loop fin m k (start st bn calls) in
    Inv (ms_st s') /\ ms_res s' <> Panic /\
    (ms_res s' = Ok tt -> ms_calls s' = calls + k /\ (m = Wrapping \/ ms_bn s' = bn + k)) /\
    (fin_all_ok -> ms_res s' = Ok tt).
  Proof.
    intros Hnp Hi. unfold mine_loop. induction k as [|k IH] using N.peano_ind; intros Hb.
    { cbn. split; [exact Hi|]. split; [discriminate|]. split; [intros _; split; [lia|right; lia]|reflexivity]. }
    rewrite N.iter_succ.
    assert (Hb' : m = Wrapping \/ bn + k <= U64MAX) by (destruct Hb; [left; assumption|right; lia]).
    specialize (IH Hb'). cbn zeta in IH. set (s' := N.iter k (mine_step fin m) (start st bn calls)) in *.
    destruct IH as (I0 & I1 & I2 & I3).
    cbn zeta. unfold mine_step. destruct (ms_res s') as [[]| |] eqn:Es.
    - destruct (I2 eq_refl) as [Ic Ibn].
      destruct (Hnp (ms_st s') (ms_bn s') I0) as [Hf Hinv].
      destruct (fin (ms_st s') (ms_bn s')) as [st' r] eqn:Ef. cbn [snd fst] in Hf, Hinv.
      destruct r as [[]| |]; [|cbn [ms_res ms_calls ms_st]; split; [exact Hinv|]; split; [discriminate|split; [discriminate|]]|contradiction].
      + assert (Ha : exists b, u64_add m (ms_bn s') 1 = Ok b /\ (m = Wrapping \/ b = bn + N.succ k)).
        { destruct Hb as [Hw|Hfit].
          - subst m. pose proof (u64_add_wrapping_no_panic (ms_bn s') 1). pose proof (u64_add_not_err Wrapping (ms_bn s') 1).
            destruct (u64_add Wrapping (ms_bn s') 1) as [b| |]; [exists b; split; [reflexivity|left; reflexivity]|contradiction|contradiction].
          - destruct Ibn as [Hw|Hbn]; [subst m|].
            + pose proof (u64_add_wrapping_no_panic (ms_bn s') 1). pose proof (u64_add_not_err Wrapping (ms_bn s') 1).
              destruct (u64_add Wrapping (ms_bn s') 1) as [b| |]; [exists b; split; [reflexivity|left; reflexivity]|contradiction|contradiction].
            + exists (ms_bn s' + 1). split; [apply u64_add_fits; lia|right; lia]. }
        destruct Ha as (b & Ha & Hb2). rewrite Ha. cbn [ms_res ms_calls ms_st ms_bn].
        split; [exact Hinv|]. split; [discriminate|]. split; [intros _; split; [lia|exact Hb2]|reflexivity].
      + intros Hall. specialize (Hall (ms_st s') (ms_bn s') I0). rewrite Ef in Hall. cbn [snd] in Hall. discriminate.
    - rewrite Es. split; [exact I0|]. split; [discriminate|]. split; [discriminate|]. intros Hall. specialize (I3 Hall). discriminate.
    - contradiction.
  Qed.

  Theorem mine_blocks_no_panic fx m st open next gm count :
    fx_mine_zero fx = true -> fin_no_panic -> Inv st -> next <> Panic -> gm <> Panic ->
    (m = Wrapping \/ forall bn, next = Ok bn -> bn + count <= U64MAX) ->
    let r := mine_blocks fin fx m st open next gm count in
    ms_res r <> Panic /\ Inv (ms_st r).
  Proof.
    intros F Hnp Hi Hn Hg Hb. unfold mine_blocks, stop. destruct open; [split; [discriminate|exact Hi]|]. rewrite F. cbn [andb].
    destruct (count =? 0) eqn:Ec; [split; [discriminate|exact Hi]|]. nb.
    destruct next as [bn| |]; [|split; [discriminate|exact Hi]|contradiction].
    destruct gm as [[|]| |]; [| |split; [discriminate|exact Hi]|contradiction].
    - destruct (Hnp st 0 Hi) as [Hf Hinv]. destruct (fin st 0) as [st' r]. cbn [snd fst] in Hf, Hinv.
      destruct r as [[]| |]; [|split; [discriminate|exact Hinv]|contradiction].
      assert (Hb' : m = Wrapping \/ bn + count <= U64MAX) by (destruct Hb as [Hb|Hb]; [left; exact Hb|right; apply Hb; reflexivity]).
      rewrite (u64_sub_fits m count 1) by lia.
      assert (Ha : exists b, u64_add m bn 1 = Ok b /\ (m = Wrapping \/ b + (count - 1) <= U64MAX)).
      { destruct Hb' as [Hw|Hfit].
        - subst m. pose proof (u64_add_wrapping_no_panic bn 1). pose proof (u64_add_not_err Wrapping bn 1).
          destruct (u64_add Wrapping bn 1) as [b| |]; [exists b; split; [reflexivity|left; reflexivity]|contradiction|contradiction].
        - exists (bn + 1). split; [apply u64_add_fits; lia|right; lia]. }
      destruct Ha as (b & Ha & Hb2). rewrite Ha.
      destruct (mine_loop_inv m st' b 1 (count - 1) Hnp Hinv Hb2) as (I0 & I1 & _). split; assumption.
    - assert (Hb' : m = Wrapping \/ bn + count <= U64MAX) by (destruct Hb as [Hb|Hb]; [left; exact Hb|right; apply Hb; reflexivity]).
      destruct (mine_loop_inv m st bn 0 count Hnp Hi Hb') as (I0 & I1 & _). split; assumption.
  Qed.

  (* the number of finalise_block calls is at most block_count: the loop bound, no cap *)
  Theorem mine_blocks_calls_le fx m st open next gm count :
    fx_mine_zero fx = true -> ms_calls (mine_blocks fin fx m st open next gm count) <= count.
  Proof.
    intros F. unfold mine_blocks, stop. destruct open; [cbn; lia|]. rewrite F. cbn [andb].
    destruct (count =? 0) eqn:Ec; [cbn; lia|]. nb.
    destruct next as [bn| |]; [|cbn; lia|cbn; lia].
    destruct gm as [[|]| |]; [| |cbn; lia|cbn; lia].
    - destruct (fin st 0) as [st' r]. destruct r as [[]| |]; [|cbn [ms_calls]; lia|cbn [ms_calls]; lia].
      rewrite (u64_sub_fits m count 1) by lia.
      destruct (u64_add m bn 1) as [b| |]; [|cbn [ms_calls]; lia|cbn [ms_calls]; lia].
      pose proof (mine_loop_calls_le m (count - 1) {| ms_st := st'; ms_bn := b; ms_calls := 1; ms_res := Ok tt |}) as H.
      cbn [ms_calls] in H. lia.
    - pose proof (mine_loop_calls_le m count {| ms_st := st; ms_bn := bn; ms_calls := 0; ms_res := Ok tt |}) as H.
      cbn [ms_calls] in H. lia.
  Qed.

  (* ... and exactly block_count when every block can be made *)
  Theorem mine_blocks_steps fx m st bn gmb count :
    fx_mine_zero fx = true -> fin_no_panic -> fin_all_ok -> Inv st -> (m = Wrapping \/ bn + count <= U64MAX) ->
    let r := mine_blocks fin fx m st false (Ok bn) (Ok gmb) count in
    ms_res r = Ok tt /\ ms_calls r = count.
  Proof.
    intros F Hnp Hall Hi Hb. unfold mine_blocks, stop. rewrite F. cbn [andb].
    destruct (count =? 0) eqn:Ec; [nb; subst; cbn; split; reflexivity|]. nb.
    destruct gmb.
    - pose proof (Hall st 0 Hi) as Hf. destruct (Hnp st 0 Hi) as [_ Hinv].
      destruct (fin st 0) as [st' r]. cbn [snd fst] in Hf, Hinv. subst r.
      rewrite (u64_sub_fits m count 1) by lia.
      assert (Ha : exists b, u64_add m bn 1 = Ok b /\ (m = Wrapping \/ b + (count - 1) <= U64MAX)).
      { destruct Hb as [Hw|Hfit].
        - subst m. pose proof (u64_add_wrapping_no_panic bn 1). pose proof (u64_add_not_err Wrapping bn 1).
          destruct (u64_add Wrapping bn 1) as [b| |]; [exists b; split; [reflexivity|left; reflexivity]|contradiction|contradiction].
        - exists (bn + 1). split; [apply u64_add_fits; lia|right; lia]. }
      destruct Ha as (b & Ha & Hb2). rewrite Ha.
      destruct (mine_loop_inv m st' b 1 (count - 1) Hnp Hinv Hb2) as (_ & _ & I2 & I3).
      specialize (I3 Hall). destruct (I2 I3) as [Ic _]. unfold start in *. split; [exact I3|]. rewrite Ic. lia.
    - destruct (mine_loop_inv m st bn 0 count Hnp Hi Hb) as (_ & _ & I2 & I3).
      specialize (I3 Hall). destruct (I2 I3) as [Ic _]. unfold start in *. split; [exact I3|]. rewrite Ic. lia.
  Qed.
End MineP.

(* F9: brc20_mine(0) on an empty database, the tree as found *)
Theorem mine_blocks_as_found_refuted :
  let fin := fun (st : unit) (_ : N) => (st, Ok tt) in
  let r := mine_blocks fin AS_FOUND Checked tt false (Ok 0) (Ok true) 0 in
  ms_res r = Panic /\ ms_calls r = 1.
Proof. vm_compute. split; reflexivity. Qed.

Lemma wrap_0_minus_1 : u64_sub Wrapping 0 1 = Ok U64MAX.
Proof. Transparent U64MAX TWO64. vm_compute. reflexivity. Qed.
Lemma u64max_plus_1 : 1 + U64MAX = TWO64.
Proof. vm_compute. reflexivity. Qed.
Global Opaque U64MAX TWO64.

(* ... and without overflow checks: 2^64 blocks are mined *)
Theorem mine_blocks_as_found_wrapping_steps :
  let fin := fun (st : unit) (_ : N) => (st, Ok tt) in
  let r := mine_blocks fin AS_FOUND Wrapping tt false (Ok 0) (Ok true) 0 in
  ms_res r = Ok tt /\ ms_calls r = TWO64.
Proof.
  cbn zeta. unfold mine_blocks. cbn [fx_mine_zero AS_FOUND andb].
  assert (E2 : u64_add Wrapping 0 1 = Ok 1) by (apply u64_add_fits; rewrite U64MAX_val; lia).
  rewrite wrap_0_minus_1, E2.
  destruct (mine_loop_inv (fun (st : unit) (_ : N) => (st, Ok tt)) (fun _ => True) Wrapping tt 1 1 U64MAX) as (_ & _ & I2 & I3);
    [intros ? ? _; split; [discriminate|exact I]|exact I|left; reflexivity|].
  specialize (I3 (fun _ _ _ => eq_refl)). destruct (I2 I3) as [Ic _]. unfold start in *. split; [exact I3|].
  rewrite Ic. apply u64max_plus_1.
Qed.

(* ---------------------------------------------------------------------------------- *)
(* eth_estimateGas: the bisection terminates                                          *)
(* ---------------------------------------------------------------------------------- *)

Section BisectP.
  Context {St : Type}.
  Variable probe : St -> N -> St * res (option bool).
  Variable Inv : St -> Prop.

  Definition probe_no_panic : Prop := forall st g, Inv st -> snd (probe st g) <> Panic /\ Inv (fst (probe st g)).

  Lemma half_facts x : x = 2 * (x / 2) + x mod 2 /\ x mod 2 < 2.
  Proof. split; [apply N.div_mod; discriminate|apply N.mod_lt; discriminate]. Qed.

  Lemma bisect_S f fx m gpb st lo hi iters :
    bisect probe (S f) fx m gpb st lo hi iters =
    match bisect_guard fx m gpb lo hi with
    | Panic => Some (st, Panic)
    | Err => Some (st, Err)
    | Ok false => Some (st, Ok (hi, iters))
    | Ok true =>
        match bisect_mid fx m lo hi with
        | Panic => Some (st, Panic)
        | Err => Some (st, Err)
        | Ok mid =>
            let '(st', r) := probe st mid in
            match r with
            | Panic => Some (st', Panic)
            | Err => Some (st', Err)
            | Ok (Some true) => bisect probe f fx m gpb st' lo mid (iters + 1)
            | Ok _ =>
                match u64_add m mid 1 with
                | Ok l' => bisect probe f fx m gpb st' l' hi (iters + 1)
                | Err => Some (st', Err)
                | Panic => Some (st', Panic)
                end
            end
        end
    end.
  Proof. reflexivity. Qed.

  (* no overflow: the repaired form needs nothing but u64 operands; the form as found needs
     room for lower + GAS_PER_BYTE and lower + upper *)
  Definition bisect_room (fx : fixes) (gpb B : N) : Prop :=
    B <= U64MAX /\ (fx_bisect_sub fx = true \/ (B + gpb <= U64MAX /\ B + B <= U64MAX)).

  Lemma bisect_guard_val fx m gpb B lo hi : bisect_room fx gpb B -> lo <= B -> hi <= B ->
    bisect_guard fx m gpb lo hi = Ok (lo + gpb <? hi).
  Proof.
    intros [HB Hr] Hlo Hhi. unfold bisect_guard. destruct (fx_bisect_sub fx) eqn:F.
    - f_equal. destruct (lo + gpb <? hi) eqn:E; nb; [apply N.ltb_lt|apply N.ltb_ge]; lia.
    - destruct Hr as [Hr|[H1 H2]]; [discriminate|]. rewrite (u64_add_fits m lo gpb) by lia. reflexivity.
  Qed.

  Lemma bisect_mid_val fx m gpb B lo hi : bisect_room fx gpb B -> lo < hi -> hi <= B ->
    bisect_mid fx m lo hi = Ok ((lo + hi) / 2).
  Proof.
    intros [HB Hr] Hlt Hhi. unfold bisect_mid.
    destruct (half_facts (lo + hi)) as [Hs Hsm]. destruct (half_facts (hi - lo)) as [Hd Hdm].
    destruct (fx_bisect_sub fx) eqn:F.
    - rewrite (u64_sub_fits m hi lo) by lia. cbn [rbind].
      assert (E : lo + (hi - lo) / 2 = (lo + hi) / 2).
      { (* lo + hi = 2 lo + d *)
        assert (P : (lo + hi) mod 2 = (hi - lo) mod 2).
        { replace (lo + hi) with ((hi - lo) + lo * 2) by lia. apply N.mod_add. discriminate. }
        lia. }
      rewrite (u64_add_fits m lo ((hi - lo) / 2)) by lia. rewrite E. reflexivity.
    - destruct Hr as [Hr|[H1 H2]]; [discriminate|]. rewrite (u64_add_fits m lo hi) by lia. reflexivity.
  Qed.

  (* measure: upper - lower halves in every round *)
  Lemma bisect_fuel fx m gpb B : bisect_room fx gpb B ->
    forall fuel st lo hi iters, lo <= B -> hi <= B -> hi - lo < 2 ^ N.of_nat fuel ->
    exists st' r, bisect probe (S fuel) fx m gpb st lo hi iters = Some (st', r)
      /\ (forall g it, r = Ok (g, it) -> it <= iters + N.of_nat fuel /\ g <= B)
      /\ (probe_no_panic -> Inv st -> r <> Panic /\ Inv st').
  Proof.
    intros HR. pose proof HR as [HB _]. induction fuel as [|f IH]; intros st lo hi iters Hlo Hhi Hd.
    - change (2 ^ N.of_nat 0) with 1 in Hd. rewrite bisect_S.
      rewrite (bisect_guard_val fx m gpb B lo hi HR Hlo Hhi).
      destruct (lo + gpb <? hi) eqn:E; [nb; lia|].
      exists st, (Ok (hi, iters)). split; [reflexivity|]. split; [|intros _ Hi; split; [discriminate|exact Hi]].
      intros g it H. inversion H; subst. split; [cbn; lia|exact Hhi].
    - rewrite Nat2N.inj_succ, N.pow_succ_r' in Hd.
      rewrite bisect_S. rewrite (bisect_guard_val fx m gpb B lo hi HR Hlo Hhi).
      destruct (lo + gpb <? hi) eqn:E.
      + nb. rewrite (bisect_mid_val fx m gpb B lo hi HR) by lia.
        destruct (half_facts (lo + hi)) as [Hdm Hmod]. set (mid := (lo + hi) / 2) in *.
        destruct (probe st mid) as [st' r] eqn:Ep.
        assert (Hpr : probe_no_panic -> Inv st -> r <> Panic /\ Inv st').
        { intros Hnp Hi. specialize (Hnp st mid Hi). rewrite Ep in Hnp. exact Hnp. }
        destruct r as [[[|]|]| |].
        * destruct (IH st' lo mid (iters + 1)) as (s2 & r2 & E2 & B2 & P2); [lia|lia|lia|].
          exists s2, r2. split; [exact E2|]. split; [|intros Hnp Hi; apply (P2 Hnp); apply (Hpr Hnp Hi)].
          intros g it H. destruct (B2 g it H). rewrite Nat2N.inj_succ. split; lia.
        * rewrite (u64_add_fits m mid 1) by lia.
          destruct (IH st' (mid + 1) hi (iters + 1)) as (s2 & r2 & E2 & B2 & P2); [lia|lia|lia|].
          exists s2, r2. split; [exact E2|]. split; [|intros Hnp Hi; apply (P2 Hnp); apply (Hpr Hnp Hi)].
          intros g it H. destruct (B2 g it H). rewrite Nat2N.inj_succ. split; lia.
        * rewrite (u64_add_fits m mid 1) by lia.
          destruct (IH st' (mid + 1) hi (iters + 1)) as (s2 & r2 & E2 & B2 & P2); [lia|lia|lia|].
          exists s2, r2. split; [exact E2|]. split; [|intros Hnp Hi; apply (P2 Hnp); apply (Hpr Hnp Hi)].
          intros g it H. destruct (B2 g it H). rewrite Nat2N.inj_succ. split; lia.
        * exists st', Err. split; [reflexivity|]. split; [discriminate|]. intros Hnp Hi. split; [discriminate|apply (Hpr Hnp Hi)].
        * exists st', Panic. split; [reflexivity|]. split; [discriminate|]. intros Hnp Hi. destruct (Hpr Hnp Hi) as [X _]. exfalso; apply X; reflexivity.
      + exists st, (Ok (hi, iters)). split; [reflexivity|]. split; [|intros _ Hi; split; [discriminate|exact Hi]].
        intros g it H. inversion H; subst. split; [lia|exact Hhi].
  Qed.

  Lemma pow_2_64 : 2 ^ N.of_nat 64 = TWO64.
  Proof. Transparent TWO64. vm_compute. reflexivity. Qed.

  (* the loop of eth_estimateGas as the handler starts it: lower = 21000, upper = the
     configured call gas limit.  65 units of fuel = at most 64 rounds and the final test.
     The repaired form: every u64 limit; the form as found: limits up to 2^62. *)
  Theorem estimate_gas_terminates fx m gpb limit st :
    limit <= U64MAX -> (fx_bisect_sub fx = true \/ (limit <= 2 ^ 62 /\ gpb <= 2 ^ 62)) ->
    exists st' r, bisect probe 65 fx m gpb st 21000 limit 0 = Some (st', r)
      /\ (forall g it, r = Ok (g, it) -> it <= 64 /\ g <= N.max 21000 limit)
      /\ (probe_no_panic -> Inv st -> r <> Panic /\ Inv st').
  Proof.
    intros Hl Hg.
    assert (P62 : 2 ^ 62 = 4611686018427387904) by (vm_compute; reflexivity). rewrite P62 in *.
    destruct (bisect_fuel fx m gpb (N.max 21000 limit)) with (fuel := 64%nat) (st := st) (lo := 21000) (hi := limit) (iters := 0)
      as (s2 & r2 & E2 & B2 & P2).
    - split; [rewrite U64MAX_val in *; lia|]. destruct Hg as [Hg|[H1 H2]]; [left; exact Hg|right; rewrite U64MAX_val; lia].
    - lia.
    - lia.
    - rewrite pow_2_64, TWO64_val. rewrite U64MAX_val in Hl. lia.
    - exists s2, r2. split; [exact E2|]. split; [|exact P2].
      intros g it H. destruct (B2 g it H) as [A B]. change (N.of_nat 64) with 64 in A. split; lia.
  Qed.
End BisectP.
Global Opaque TWO64.

(* ---------------------------------------------------------------------------------- *)
(* the custom precompiles                                                             *)
(* ---------------------------------------------------------------------------------- *)

Lemma u8_add_fits m a b : a + b <= 255 -> u8_add m a b = Ok (a + b).
Proof. intros H. unfold u8_add. apply N.leb_le in H. rewrite H. reflexivity. Qed.

Lemma be_stripped_nonempty n : be_stripped n <> [].
Proof. unfold be_stripped. destruct (be_digits 8 n []); discriminate. Qed.

Lemma lock_script_head_no_panic m n : lock_script_head m n <> Panic.
Proof.
  unfold lock_script_head. destruct (n <=? 16) eqn:E.
  - nb. rewrite u8_add_fits; [cbn [rbind]; discriminate|].
    rewrite N.mod_small by lia. lia.
  - pose proof (be_stripped_nonempty n) as H. destruct (be_stripped n) as [|b r]; [contradiction|].
    destruct (128 <=? b); destruct r as [|? [|? [|? ?]]]; discriminate.
Qed.

Lemma lock_script_head_not_err m n : lock_script_head m n <> Err.
Proof.
  unfold lock_script_head. destruct (n <=? 16) eqn:E.
  - nb. rewrite u8_add_fits; [cbn [rbind]; discriminate|]. rewrite N.mod_small by lia. lia.
  - pose proof (be_stripped_nonempty n) as H. destruct (be_stripped n) as [|b r]; [contradiction|].
    destruct (128 <=? b); destruct r as [|? [|? [|? ?]]]; discriminate.
Qed.

Theorem build_lock_script_panics_iff fx m pk n :
  build_lock_script fx m pk n = Panic <-> fx_pk_len fx = false /\ len pk < 2.
Proof.
  unfold build_lock_script.
  pose proof (lock_script_head_no_panic m n). pose proof (lock_script_head_not_err m n).
  destruct (lock_script_head m n) as [h| |]; try contradiction. cbn [rbind].
  destruct (len pk <? 2) eqn:E; nb.
  - destruct (fx_pk_len fx); cbn [rbind]; split; try discriminate; try (intros [? ?]; discriminate); auto.
  - cbn [rbind]. destruct (4294967296 <=? len (skipn 2 pk)); (split; [discriminate|intros [_ ?]; lia]).
Qed.

(* the front end of getLockedPkscript, after any ABI-decode result and any answer of the
   taproot builder: a panic is exactly the short-pkscript slice of the tree as found *)
Theorem get_locked_pkscript_panics_iff fx m G gas dec taproot :
  get_locked_pkscript fx m G gas dec taproot = Panic <->
  fx_pk_len fx = false /\ G <= gas /\
  exists pk n, dec = Some (pk, n) /\ 1 <= n <= 65535 /\ len pk < 2.
Proof.
  unfold get_locked_pkscript. destruct (gas <? G) eqn:Eg; nb.
  { split; [discriminate|intros (_ & ? & _); lia]. }
  destruct dec as [[pk n]|]; [|split; [discriminate|intros (_ & _ & ? & ? & ? & _); discriminate]].
  destruct ((n =? 0) || (65535 <? n)) eqn:En.
  { split; [discriminate|]. intros (_ & _ & pk' & n' & E & Hn & _). inversion E; subst.
    apply orb_prop in En as [En|En]; nb; lia. }
  apply orb_false_elim in En as [E0 E1]. nb.
  pose proof (build_lock_script_panics_iff fx m pk (n mod TWO64)) as Hb.
  destruct (build_lock_script fx m pk (n mod TWO64)) as [sc| |].
  - split; [destruct (taproot sc); discriminate|]. intros (F & _ & pk' & n' & E & _ & Hl). inversion E; subst.
    destruct Hb as [_ Hb]. specialize (Hb (conj F Hl)). discriminate.
  - split; [discriminate|]. intros (F & _ & pk' & n' & E & _ & Hl). inversion E; subst.
    destruct Hb as [_ Hb]. specialize (Hb (conj F Hl)). discriminate.
  - destruct Hb as [Hb _]. destruct (Hb eq_refl) as [F Hl]. split; [|reflexivity].
    intros _. split; [exact F|]. split; [exact Eg|]. exists pk, n. split; [reflexivity|]. split; [lia|exact Hl].
Qed.

Theorem get_locked_pkscript_no_panic fx m G gas dec taproot :
  fx_pk_len fx = true -> get_locked_pkscript fx m G gas dec taproot <> Panic.
Proof. intros F H. apply get_locked_pkscript_panics_iff in H as [F' _]. congruence. Qed.

(* F8: a one-byte (or empty) pkscript *)
Theorem get_locked_pkscript_as_found_refuted :
  forall m G gas taproot, G <= gas ->
    get_locked_pkscript AS_FOUND m G gas (Some ([81], 1)) taproot = Panic /\
    get_locked_pkscript AS_FOUND m G gas (Some ([], 65535)) taproot = Panic.
Proof.
  intros m G gas taproot Hg. split; apply get_locked_pkscript_panics_iff; (split; [reflexivity|]); (split; [exact Hg|]).
  - exists [81], 1. split; [reflexivity|]. split; [lia|]. reflexivity.
  - exists [], 65535. split; [reflexivity|]. split; [lia|]. reflexivity.
Qed.

Section BtcP.
  Variable get_tx_bh : N -> option (btx * option N).
  Variable get_tx : N -> option btx.
  Variable height_of : N -> option N.
  Variable G : N.

  Theorem btc_tx_details_no_panic m gas blockh dec :
    (m = Wrapping \/ forall txid t bh, get_tx_bh txid = Some (t, bh) -> len (tx_ins t) * G <= U64MAX) ->
    btc_tx_details get_tx_bh get_tx height_of G m gas blockh dec <> Panic.
  Proof.
    intros H. unfold btc_tx_details. destruct (gas <? G); [discriminate|].
    destruct dec as [txid|]; [|discriminate].
    destruct (get_tx_bh txid) as [[t bh]|] eqn:Et; [|discriminate].
    assert (Hc : exists c, u64_mul m (len (tx_ins t)) G = Ok c).
    { destruct H as [H|H].
      - subst m. unfold u64_mul. destruct (len (tx_ins t) * G <=? U64MAX); eexists; reflexivity.
      - eexists. apply u64_mul_fits. apply (H txid t bh Et). }
    destruct Hc as [c Hc]. rewrite Hc. cbn [rbind].
    destruct (gas - G <? c); [discriminate|]. destruct bh as [h|]; [|discriminate].
    destruct (height_of h); [|discriminate]. destruct (blockh <? n); [discriminate|].
    destruct (details_vins get_tx (tx_ins t) [] []) as [e|[vo va]]; discriminate.
  Qed.

  Lemma sat_add_cases fx m a b :
    (fx_sat_checked fx = true \/ m = Wrapping) ->
    sat_add fx m a b = Ok None \/ exists s, sat_add fx m a b = Ok (Some s) /\ (fx_sat_checked fx = true -> s = a + b).
  Proof.
    intros H. unfold sat_add. destruct (fx_sat_checked fx) eqn:F.
    - destruct (a + b <=? U64MAX); [right; eexists; split; [reflexivity|reflexivity]|left; reflexivity].
    - destruct H as [H|H]; [discriminate|]. subst m. right. unfold u64_add.
      destruct (a + b <=? U64MAX); cbn [rbind]; eexists; (split; [reflexivity|discriminate]).
  Qed.

  Lemma sum_first_no_panic fx m : (fx_sat_checked fx = true \/ m = Wrapping) ->
    forall k outs acc, (k <= length outs)%nat ->
    sum_first fx m k outs acc = Ok None \/ exists s, sum_first fx m k outs acc = Ok (Some s).
  Proof.
    intros H. induction k as [|k IH]; intros outs acc Hk; [right; eexists; reflexivity|].
    destruct outs as [|[v sc] r]; [cbn in Hk; lia|]. cbn [sum_first].
    destruct (sat_add_cases fx m acc v H) as [E|(s & E & _)]; rewrite E; [left; reflexivity|].
    apply IH. cbn in Hk. lia.
  Qed.

  (* the vin loop: with exact sums (repaired code) the two subtractions at the end fit *)
  Lemma sat_vins_no_panic fx m : (fx_sat_checked fx = true \/ m = Wrapping) ->
    forall ins gas_left tv tvin, ins <> [] -> tvin <= tv ->
    sat_vins get_tx G fx m ins gas_left tv tvin <> Panic.
  Proof.
    intros H. induction ins as [|[[ptx pvout] isnull] rest IH]; intros gas_left tv tvin Hne Hle; [contradiction|].
    cbn [sat_vins]. destruct isnull; [discriminate|]. destruct (gas_left <? G); [discriminate|].
    destruct (get_tx ptx) as [p|]; [|discriminate].
    destruct (nth_N (tx_outs p) pvout) as [[cv sc]|]; [|discriminate].
    destruct (sat_add_cases fx m tvin cv H) as [E|(s & E & Hs)]; rewrite E; [discriminate|].
    destruct ((tv <=? s) || match rest with [] => true | _ :: _ => false end) eqn:Eb.
    - destruct (s <? tv) eqn:Es; [discriminate|]. nb.
      destruct m.
      + destruct H as [F|F]; [|discriminate]. specialize (Hs F). subst s.
        rewrite (u64_sub_fits Checked (tvin + cv) cv) by lia. cbn [rbind].
        replace (tvin + cv - cv) with tvin by lia.
        rewrite (u64_sub_fits Checked tv tvin) by lia. cbn [rbind]. discriminate.
      + pose proof (u64_sub_wrapping_no_panic s cv) as P1. pose proof (u64_sub_not_err Wrapping s cv) as P1'.
        destruct (u64_sub Wrapping s cv) as [a| |]; try contradiction. cbn [rbind].
        pose proof (u64_sub_wrapping_no_panic tv a) as P2. pose proof (u64_sub_not_err Wrapping tv a) as P2'.
        destruct (u64_sub Wrapping tv a) as [r| |]; try contradiction. cbn [rbind]. discriminate.
    - apply orb_false_elim in Eb as [E1 E2]. nb.
      apply IH; [destruct rest; [discriminate|discriminate]|].
      destruct (fx_sat_checked fx) eqn:F.
      + specialize (Hs eq_refl). lia.
      + (* wrapping sums: the bound is not needed for the absence of panics, but IH wants one *)
        lia.
  Qed.
End BtcP.

Section BtcP2.
  Variable get_tx_bh : N -> option (btx * option N).
  Variable get_tx : N -> option btx.
  Variable height_of : N -> option N.
  Variable G : N.

  Lemma nth_error_some_lt {A} (l : list A) k x : nth_error l k = Some x -> (k < length l)%nat.
  Proof. intros H. apply nth_error_Some. rewrite H. discriminate. Qed.

  Theorem last_sat_location_no_panic fx m gas blockh dec :
    (fx_sat_checked fx = true \/ m = Wrapping) ->
    last_sat_location get_tx_bh get_tx height_of G fx m gas blockh dec <> Panic.
  Proof.
    intros H. unfold last_sat_location. destruct dec as [[[txid vout_u] sat_u]|]; [|discriminate].
    destruct (gas <? G); [discriminate|].
    destruct (get_tx_bh txid) as [[t bh]|]; [|discriminate].
    destruct bh as [h|]; [|discriminate]. destruct (height_of h) as [bhgt|]; [|discriminate].
    destruct (blockh <? bhgt); [discriminate|]. destruct (is_coinbase t); [discriminate|].
    destruct (len (tx_ins t) =? 0) eqn:E0; [discriminate|].
    destruct (len (tx_outs t) <? vout_u mod TWO64); [discriminate|].
    destruct (nth_N (tx_outs t) (vout_u mod TWO64)) as [[value sc]|] eqn:En; [|discriminate].
    destruct (value <? sat_u mod TWO64); [discriminate|].
    unfold nth_N in En. destruct (len (tx_outs t) <=? vout_u mod TWO64); [discriminate|].
    apply nth_error_some_lt in En.
    destruct (sum_first_no_panic get_tx_bh get_tx height_of fx m H (N.to_nat (vout_u mod TWO64)) (tx_outs t) 0) as [E|[s E]]; [lia| |];
      rewrite E; [discriminate|].
    destruct (sat_add_cases fx m s (sat_u mod TWO64) H) as [E2|(tv & E2 & _)]; rewrite E2; [discriminate|].
    apply (sat_vins_no_panic get_tx_bh get_tx height_of G); [exact H| |lia].
    nb. unfold len in E0. destruct (tx_ins t); [contradiction E0; reflexivity|discriminate].
  Qed.
End BtcP2.

(* the sums of the tree as found, overflow checks on: outputs of u64::MAX and 5 sats,
   vout 1 / sat 5 *)
Theorem last_sat_location_as_found_refuted :
  let t := {| tx_ins := [(7, 0, false)]; tx_outs := [(U64MAX, 1); (5, 1)] |} in
  let p := {| tx_ins := [(8, 0, false)]; tx_outs := [(1000, 1)] |} in
  let get_tx_bh := fun k => if k =? 1 then Some (t, Some 0) else None in
  let get_tx := fun k => if k =? 7 then Some p else None in
  last_sat_location get_tx_bh get_tx (fun _ => Some 0) 400000 AS_FOUND Checked 20000000 100 (Some (1, 1, 5)) = Panic
  /\ last_sat_location get_tx_bh get_tx (fun _ => Some 0) 400000 REPAIRED Checked 20000000 100 (Some (1, 1, 5)) = Ok (PcErr E_SAT_OVERFLOW)
  /\ exists w, last_sat_location get_tx_bh get_tx (fun _ => Some 0) 400000 AS_FOUND Wrapping 20000000 100 (Some (1, 1, 5)) = Ok w.
Proof. Transparent U64MAX TWO64. vm_compute. split; [reflexivity|]. split; [reflexivity|]. eexists; reflexivity. Qed.
Global Opaque U64MAX TWO64.

(* BIP322_Verify: the library is an oracle that panics at most on the two shapes found *)
Lemma lib_shape_guarded ku a w : lib_panic_shape ku a w = true -> witness_guard ku a w = true.
Proof. unfold lib_panic_shape, witness_guard. destruct a, w as [|x [|k r]]; try discriminate; auto. Qed.

Theorem bip322_verify_no_panic fx G gas n dec addr_of wit_of ku lib_verify :
  fx_witness_guard fx = true ->
  (forall a msg w, lib_verify a msg w = Panic -> lib_panic_shape ku a w = true) ->
  bip322_verify fx G gas n dec addr_of wit_of ku lib_verify <> Panic.
Proof.
  intros F Hlib. unfold bip322_verify. destruct (gas <? G); [discriminate|]. destruct (32768 <? n); [discriminate|].
  destruct dec as [[[pk msg] sg]|]; [|discriminate]. destruct (addr_of pk) as [a|]; [|discriminate].
  destruct (wit_of sg) as [w|]; [|discriminate]. rewrite F. cbn [andb].
  destruct (witness_guard ku a w) eqn:Eg; [discriminate|].
  destruct (lib_verify a msg w) eqn:El; try discriminate.
  apply Hlib in El. apply lib_shape_guarded in El. congruence.
Qed.

(* the tree as found hands both shapes to the library *)
Theorem bip322_verify_as_found_refuted :
  forall ku lib_verify G gas, G <= gas ->
    (forall a msg w, lib_panic_shape ku a w = true -> lib_verify a msg w = Panic) ->
    bip322_verify AS_FOUND G gas 100 (Some (1, 2, 3)) (fun _ => Some AkP2tr) (fun _ => Some []) ku lib_verify = Panic
    /\ (forall k, ku k = true ->
        bip322_verify AS_FOUND G gas 100 (Some (1, 2, 3)) (fun _ => Some AkP2sh) (fun _ => Some [[48]; k]) ku lib_verify = Panic).
Proof.
  intros ku lv G gas Hg Hlib. unfold bip322_verify. apply N.ltb_ge in Hg. rewrite Hg.
  change (32768 <? 100) with false. cbn [fx_witness_guard AS_FOUND andb].
  split; [rewrite Hlib; reflexivity|]. intros k Hk. rewrite Hlib; [reflexivity|]. cbn. exact Hk.
Qed.

Theorem op_return_tx_id_no_panic G gas id : op_return_tx_id G gas id <> Panic.
Proof. unfold op_return_tx_id. destruct (gas <? G); discriminate. Qed.

(* ---------------------------------------------------------------------------------- *)
(* the engine stays alive                                                             *)
(* ---------------------------------------------------------------------------------- *)

Section HandlersP.
  Context {S J Out : Type}.
  Variable ej : J.
  Variable exec : S -> J -> N -> res (Out * J).
  Variable status : Out -> bool.
  Variable with_gas : N -> N -> N.
  Variable latest_of next_of : S -> res N.
  Variable genesis_missing : S -> res bool.
  Variable open_block : S -> bool.
  Variable read_by_number : S -> N -> res unit.
  Variable by_hash : S -> N -> res (option N).
  Variable json_b256 : list N -> option N.
  Variable finalise : S -> N -> res S.
  Variable commit_exec : S -> N -> res S.
  Variable bookkeeping : S -> N -> res S.
  Variable LIMIT GPB : N.

  (* the libraries behind the oracles do not panic (C09's partial part: sampled, not proved) *)
  Record world_ok : Prop := {
    w_exec : no_panic exec;
    w_latest : forall s, latest_of s <> Panic;
    w_next : forall s, next_of s <> Panic;
    w_genesis : forall s, genesis_missing s <> Panic;
    w_read : forall s n, read_by_number s n <> Panic;
    w_by_hash : forall s h, by_hash s h <> Panic;
    w_finalise : forall s n, finalise s n <> Panic;
    w_commit : forall s i, commit_exec s i <> Panic;
    w_book : forall s i, bookkeeping s i <> Panic;
    w_limit : LIMIT <= U64MAX
  }.

  Notation handle := (handle ej exec status with_gas latest_of next_of genesis_missing open_block
                             read_by_number by_hash json_b256 finalise commit_exec bookkeeping LIMIT GPB).
  Notation h_read := (h_read ej exec).
  Notation h_probe := (h_probe ej exec status with_gas).

  Lemma alive_inv (e : estate S) : alive e = true -> exists s, e = {| es_slot := Present s; es_poisoned := false |}.
  Proof. destruct e as [[s|] p]; cbn; [destruct p; [discriminate|]; intros _; exists s; reflexivity|discriminate]. Qed.

  Lemma read_contract_no_panic s i : no_panic exec -> snd (read_contract ej exec (Present s) i) <> Panic.
  Proof.
    intros H. unfold read_contract. specialize (H s ej i).
    destruct (exec s ej i) as [[o j]| |]; cbn [snd]; [discriminate|discriminate|contradiction].
  Qed.

  Lemma multi_no_panic s : no_panic exec -> forall calls j acc, snd (multi exec s j calls acc) <> Panic.
  Proof.
    intros H. induction calls as [|i r IH]; intros j acc; cbn [multi]; [discriminate|].
    specialize (H s j i). destruct (exec s j i) as [[o j']| |]; [apply IH|discriminate|contradiction].
  Qed.

  (* one read through the EVM on a live engine: no panic, the same live engine afterwards *)
  Lemma h_read_alive s i : no_panic exec ->
    let e := {| es_slot := Present s; es_poisoned := false |} in
    fst (h_read e i) = e /\ snd (h_read e i) <> Panic.
  Proof.
    intros H e. unfold Requests.h_read, write_section. cbn [es_poisoned es_slot e].
    pose proof (read_contract_pure ej exec s i H) as Hp. pose proof (read_contract_no_panic s i H) as Hn.
    destruct (read_contract ej exec (Present s) i) as [sl r]. cbn [fst snd] in *. subst sl.
    split; [|exact Hn]. destruct r; [reflexivity|reflexivity|contradiction].
  Qed.

  Lemma h_probe_alive s i g : no_panic exec ->
    let e := {| es_slot := Present s; es_poisoned := false |} in
    fst (h_probe e i g) = e /\ snd (h_probe e i g) <> Panic.
  Proof.
    intros H e. unfold Requests.h_probe. destruct (h_read_alive s (with_gas i g) H) as [A B]. fold e in A, B.
    destruct (h_read e (with_gas i g)) as [e' r]. cbn [fst snd] in *. split; [exact A|].
    destruct r; [discriminate|discriminate|contradiction].
  Qed.

  Definition live (e : estate S) : Prop := alive e = true.

  Lemma h_finalise_alive : (forall s n, finalise s n <> Panic) ->
    forall e n, live e -> snd (h_finalise finalise e n) <> Panic /\ live (fst (h_finalise finalise e n)).
  Proof.
    intros Hf e n He. destruct (alive_inv e He) as [s ->]. unfold h_finalise, write_section. cbn [es_poisoned es_slot].
    specialize (Hf s n). destruct (finalise s n) as [s'| |]; cbn [fst snd is_panic]; [split; [discriminate|reflexivity]|split; [discriminate|reflexivity]|contradiction].
  Qed.

  Lemma h_opt_block_no_panic e b : world_ok -> live e -> opt_valid b = true ->
    h_opt_block latest_of next_of e b <> Panic.
  Proof.
    intros W He Hv. destruct (alive_inv e He) as [s ->]. destruct b as [t|]; [|discriminate].
    cbn [h_opt_block opt_valid] in *. unfold h_parse, h_latest, h_next, read_section. cbn [es_slot db_read].
    pose proof (parse_block_number_no_panic (latest_of s) (next_of s) t Hv (w_latest W s) (w_next W s)) as Hp.
    destruct (parse_block_number (latest_of s) (next_of s) t); cbn [rbind]; [discriminate|discriminate|contradiction].
  Qed.

  (* preconditions that are about the request and the store it meets: the strings are Rust
     Strings; brc20_mine does not run the block number past u64::MAX (overflow checks on) *)
  Definition request_ok (m : ovf) (e : estate S) (r : request) : Prop :=
    request_wf r = true /\
    match r with
    | RMine count => m = Wrapping \/ forall s bn, es_slot e = Present s -> next_of s = Ok bn -> bn + count <= U64MAX
    | _ => True
    end.

  Theorem engine_alive_after_any_request fx m e r :
    fx_logs fx = true -> fx_txcount fx = true -> fx_mine_zero fx = true -> fx_hash_wrap fx = true ->
    fx_bisect_sub fx = true ->
    world_ok -> live e -> request_ok m e r ->
    snd (handle fx m e r) <> Panic /\ live (fst (handle fx m e r)).
  Proof.
    intros F1 F2 F3 F4 F5 W He [Hwf Hpre]. destruct (alive_inv e He) as [s Es].
    assert (Hl : h_latest latest_of e <> Panic) by (subst e; apply (w_latest W)).
    assert (Hn : h_next next_of e <> Panic) by (subst e; apply (w_next W)).
    destruct r; cbn [Requests.handle fst snd request_wf] in *.
    - (* RByNumber *)
      split; [|exact He]. unfold h_parse.
      pose proof (parse_block_number_no_panic _ _ tag Hwf Hl Hn) as Hp.
      destruct (parse_block_number (h_latest latest_of e) (h_next next_of e) tag); cbn [rbind]; [|discriminate|contradiction].
      subst e. apply (w_read W).
    - (* RTxCount *)
      split; [|exact He]. unfold h_parse.
      pose proof (parse_block_number_no_panic _ _ tag Hwf Hl Hn) as Hp.
      destruct (parse_block_number (h_latest latest_of e) (h_next next_of e) tag) as [n| |]; cbn [rbind]; [|discriminate|contradiction].
      pose proof (block_tx_count_range_no_panic fx m n (or_introl F2)) as Hr.
      destruct (block_tx_count_range fx m n) as [[[lo hi]|]| |]; cbn [rbind]; [|discriminate|discriminate|contradiction].
      subst e. apply (w_read W).
    - (* RGetLogs *)
      split; [|exact He]. apply andb_prop in Hwf as [Ha Hb].
      pose proof (eth_get_logs_front_no_panic fx m _ _ from to (or_introl F1) Ha Hb Hl Hn) as Hp.
      destruct (eth_get_logs_front fx m (h_latest latest_of e) (h_next next_of e) from to); cbn [rbind]; [|discriminate|contradiction].
      subst e. apply (w_read W).
    - (* RByHashOrNumber *)
      split; [|exact He].
      match goal with |- (do n <- ?R; _) <> Panic => assert (Hp : R <> Panic) end.
      { apply resolve_no_panic; [exact Hwf|exact Hl|exact Hn|]. intros h. subst e. apply (w_by_hash W). }
      match goal with |- (do n <- ?R; _) <> Panic => destruct R end; cbn [rbind]; [|discriminate|contradiction].
      subst e. apply (w_read W).
    - (* RMine *)
      pose proof (mine_blocks_no_panic (h_finalise finalise) live fx m e
                    (match es_slot e with Present s0 => open_block s0 | Taken => false end)
                    (h_next next_of e) (read_section e genesis_missing) count F3
                    (h_finalise_alive (w_finalise W)) He Hn) as Hm.
      apply Hm.
      + subst e. apply (w_genesis W).
      + destruct Hpre as [Hw|Hb]; [left; exact Hw|right]. intros bn Hbn. subst e. apply (Hb s bn eq_refl Hbn).
    - (* RInitialise *)
      split; [|exact He]. apply initialise_front_no_panic; [left; exact F4|]. subst e. apply (w_read W).
    - (* RCall *)
      pose proof (h_opt_block_no_panic e block W He Hwf) as Hb.
      destruct (h_opt_block latest_of next_of e block); cbn [fst snd]; [|split; [discriminate|exact He]|contradiction].
      subst e. destruct (h_read_alive s (with_gas i LIMIT) (w_exec W)) as [A B].
      destruct (h_read _ (with_gas i LIMIT)) as [e' o]. cbn [fst snd] in *. subst e'.
      split; [|exact He]. destruct o; cbn [rbind]; [discriminate|discriminate|contradiction].
    - (* RCallMany *)
      pose proof (h_opt_block_no_panic e block W He Hwf) as Hb.
      destruct (h_opt_block latest_of next_of e block); cbn [fst snd]; [|split; [discriminate|exact He]|contradiction].
      subst e. unfold write_section. cbn [es_poisoned es_slot].
      pose proof (read_contract_multi_pure ej exec s calls (w_exec W)) as Hp.
      pose proof (multi_no_panic s (w_exec W) calls ej []) as Hq.
      unfold read_contract_multi in *. destruct (multi exec s ej calls []) as [sl o]. cbn [fst snd] in *. subst sl.
      destruct o; cbn [rbind fst snd is_panic]; [split; [discriminate|reflexivity]|split; [discriminate|reflexivity]|contradiction].
    - (* REstimateGas *)
      pose proof (h_opt_block_no_panic e block W He Hwf) as Hb.
      destruct (h_opt_block latest_of next_of e block) eqn:Eb; cbn [fst snd]; [|split; [discriminate|exact He]|contradiction].
      subst e. destruct (h_read_alive s (with_gas i LIMIT) (w_exec W)) as [A B].
      destruct (h_read _ (with_gas i LIMIT)) as [e1 o]. cbn [fst snd] in A, B. subst e1.
      destruct o as [out| |]; [|split; [discriminate|exact He]|contradiction].
      destruct (negb (status out)); [split; [discriminate|exact He]|].
      destruct (estimate_gas_terminates (fun st g => h_probe st i g)
                  (fun st => st = {| es_slot := Present s; es_poisoned := false |}) fx m GPB LIMIT
                  {| es_slot := Present s; es_poisoned := false |} (w_limit W) (or_introl F5)) as (e2 & r2 & E2 & _ & P2).
      rewrite E2.
      assert (Hpn : probe_no_panic (fun st g => h_probe st i g) (fun st => st = {| es_slot := Present s; es_poisoned := false |})).
      { intros st g ->. destruct (h_probe_alive s i g (w_exec W)) as [X Y]. split; [exact Y|exact X]. }
      destruct (P2 Hpn eq_refl) as [R2 ->].
      destruct r2 as [[g it]| |]; [|split; [discriminate|exact He]|contradiction].
      destruct (h_read_alive s (with_gas i g) (w_exec W)) as [A3 B3].
      destruct (h_read _ (with_gas i g)) as [e3 o3]. cbn [fst snd] in A3, B3. subst e3.
      split; [|exact He]. destruct o3; cbn [rbind]; [|discriminate|contradiction].
      rewrite Eb. cbn [rbind]. discriminate.
    - (* RTx *)
      subst e. unfold write_section. cbn [es_poisoned es_slot].
      pose proof (w_commit W s i) as Hc. destruct (commit_exec s i) as [s'| |]; [|cbn; split; [discriminate|reflexivity]|contradiction].
      pose proof (w_book W s' i) as Hk. destruct (bookkeeping s' i); cbn; [split; [discriminate|reflexivity]|split; [discriminate|reflexivity]|contradiction].
  Qed.

  (* read requests leave the engine exactly as it was *)
  Theorem read_requests_leave_engine_unchanged fx m e r :
    fx_bisect_sub fx = true ->
    world_ok -> live e -> request_wf r = true ->
    match r with RMine _ | RTx _ => True | _ => fst (handle fx m e r) = e end.
  Proof.
    intros F5 W He Hwf. destruct (alive_inv e He) as [s Es].
    destruct r; cbn [Requests.handle fst snd request_wf] in *; try reflexivity; try exact I.
    - destruct (h_opt_block latest_of next_of e block); cbn [fst]; try reflexivity.
      subst e. destruct (h_read_alive s (with_gas i LIMIT) (w_exec W)) as [A _].
      destruct (h_read _ (with_gas i LIMIT)) as [e' o]. exact A.
    - destruct (h_opt_block latest_of next_of e block); cbn [fst]; try reflexivity.
      subst e. unfold write_section. cbn [es_poisoned es_slot].
      pose proof (read_contract_multi_pure ej exec s calls (w_exec W)) as Hp.
      pose proof (multi_no_panic s (w_exec W) calls ej []) as Hq.
      unfold read_contract_multi in *. destruct (multi exec s ej calls []) as [sl o]. cbn [fst snd] in *. subst sl.
      destruct o; cbn; [reflexivity|reflexivity|contradiction].
    - destruct (h_opt_block latest_of next_of e block) eqn:Eb; cbn [fst]; try reflexivity.
      subst e. destruct (h_read_alive s (with_gas i LIMIT) (w_exec W)) as [A B].
      destruct (h_read _ (with_gas i LIMIT)) as [e1 o]. cbn [fst snd] in A, B. subst e1.
      destruct o as [out| |]; [|reflexivity|contradiction].
      destruct (negb (status out)); [reflexivity|].
      destruct (estimate_gas_terminates (fun st g => h_probe st i g)
                  (fun st => st = {| es_slot := Present s; es_poisoned := false |}) fx m GPB LIMIT
                  {| es_slot := Present s; es_poisoned := false |} (w_limit W) (or_introl F5)) as (e2 & r2 & E2 & _ & P2).
      rewrite E2.
      assert (Hpn : probe_no_panic (fun st g => h_probe st i g) (fun st => st = {| es_slot := Present s; es_poisoned := false |})).
      { intros st g ->. destruct (h_probe_alive s i g (w_exec W)) as [X Y]. split; [exact Y|exact X]. }
      destruct (P2 Hpn eq_refl) as [R2 ->].
      destruct r2 as [[g it]| |]; [|reflexivity|contradiction].
      destruct (h_read_alive s (with_gas i g) (w_exec W)) as [A3 B3].
      destruct (h_read _ (with_gas i g)) as [e3 o3]. exact A3.
  Qed.

  (* a panic between take and swap wedges the engine: the slot stays empty and the lock is
     poisoned; after that every write section and every store read panics *)
  Lemma exec_panic_wedges s i :
    exec s ej i = Panic ->
    h_read {| es_slot := Present s; es_poisoned := false |} i = ({| es_slot := Taken; es_poisoned := true |}, Panic).
  Proof. intros H. unfold Requests.h_read, write_section, read_contract. cbn [es_poisoned es_slot]. rewrite H. reflexivity. Qed.

  Lemma wedged_write {A} (e : estate S) (body : @slot S -> @slot S * res A) :
    es_poisoned e = true -> write_section e body = (e, Panic).
  Proof. intros H. unfold write_section. rewrite H. reflexivity. Qed.

  Lemma wedged_read {A} (e : estate S) (f : S -> res A) : es_slot e = Taken -> read_section e f = Panic.
  Proof. intros H. unfold read_section. rewrite H. reflexivity. Qed.
End HandlersP.

(* ---------------------------------------------------------------------------------- *)
(* select_bytes (Model/Payload.v)                                                     *)
(* ---------------------------------------------------------------------------------- *)

Theorem select_bytes_no_panic zstd_d zstd_frame_size LIMIT v raw b64 :
  v_empty_panics v = false -> select_bytes zstd_d zstd_frame_size LIMIT v raw b64 <> Panic.
Proof.
  intros Hv. unfold select_bytes, b64_value. destruct raw as [r|], b64 as [[s|]|]; try discriminate.
  apply (decode_no_panic zstd_d zstd_frame_size LIMIT v s Hv).
Qed.

(* F7: base64_data = "" *)
Theorem select_bytes_as_written_refuted zstd_d zstd_frame_size LIMIT :
  select_bytes zstd_d zstd_frame_size LIMIT AS_WRITTEN None (Some (Some [])) = Panic.
Proof. reflexivity. Qed.
