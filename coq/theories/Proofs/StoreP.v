(* Proofs about L4 Store: along every well-formed trace the merged versioned table keeps
   representing the plain per-key "value as of block m" map, its clock never runs ahead of
   max_block_number on a clean boundary, hence every reorg the store accepts is inside the
   window of every key and restores exactly the values as of the target block. *)
From Brc.Model Require Import Base History Table BlockTable Store.
From Brc.Proofs Require Import HistoryP KvP TableP.
From Coq Require Import Sorting.Sorted.

Arguments N.add : simpl never.
Arguments N.sub : simpl never.
Arguments N.leb : simpl never.
Arguments N.ltb : simpl never.
Arguments N.eqb : simpl never.
Arguments N.max : simpl never.

Section StoreP.
  Variable W : N.

  Notation spec := (N -> option N).
  Notation TRepr := (@TRepr N W).
  Notation tspec := (@tspec N).

  Lemma Neqb_spec' : forall a b : N, (a =? b) = true <-> a = b.
  Proof. intros a b. apply N.eqb_eq. Qed.

  (* ---------- clocks may be advanced ---------- *)
  Lemma TRepr_clock_mono t cur sav clk sclk clk' sclk' :
    TRepr t (mkTSpec cur sav clk sclk) -> clk <= clk' -> sclk <= sclk' -> sclk' <= clk' ->
    TRepr t (mkTSpec cur sav clk' sclk').
  Proof.
    intros [Hc Hn Hd Hcd] H1 H2 H3. constructor; try assumption.
    intros k. specialize (Hc k). cbn [ts_cur ts_sav ts_clk ts_sclk] in *.
    destruct Hc as [(flp & Rp) Rd Rm Rc]. constructor.
    - exists flp. apply (Repr_mono W _ _ sclk); assumption.
    - assumption.
    - destruct (c_m (view t k)); [|assumption]. destruct Rm as (fl & R). exists fl.
      apply (Repr_mono W _ _ clk); assumption.
    - assumption.
  Qed.

  (* ---------- the functional part of the specification ---------- *)
  Definition fspec : Type := ((N -> spec) * (N -> spec))%type.
  Definition fs_init : fspec := (fun _ _ => None, fun _ _ => None).
  Definition fs_step (F : fspec) (o : sop) : fspec :=
    let '(cur, sav) := F in
    match o with
    | SV b k v => (upd cur k (s_set (cur k) b v), sav)
    | SCommit => (cur, cur)
    | SClear => (sav, sav)
    | SReorg n => let c := fun k => s_reorg (cur k) n in (c, c)
    | _ => (cur, sav)
    end.
  Definition fs_run (F : fspec) (ops : list sop) : fspec := fold_left fs_step ops F.

  (* ---------- the invariant ---------- *)
  Definition dstamp (st : wfst) : N :=
    match w_open st with
    | Some b => b
    | None => if w_dirty st then match w_h st with Some h => h + 1 | None => 0 end else 0
    end.
  Definition bound (st : wfst) : N := N.max (w_m st) (dstamp st).
  Definition maxrow (s : store) : N := match st_max s with Some x => x | None => 0 end.
  Definition hash_keys (s : store) : list N :=
    map fst (b_db (st_hash s)) ++ map fst (b_cache (st_hash s)).

  Record SInv (s : store) (F : fspec) (st : wfst) : Prop := {
    si_t : exists clk sclk, TRepr (st_t s) (mkTSpec (fst F) (snd F) clk sclk) /\
                            clk <= bound st /\ sclk <= w_m st;
    si_max : maxrow s = w_m st;
    si_lbn : forall x, st_lbn s = Some x -> x <= w_m st;
    si_keys : forall k, In k (hash_keys s) -> k <= bound st;
    si_dbkeys : forall k, In k (map fst (b_db (st_hash s))) -> k <= w_m st;
    si_h : forall h, w_h st = Some h -> h <= w_m st;
    si_hc : forall h, w_hc st = Some h -> h <= w_m st;
    si_open : forall b h, w_open st = Some b -> w_h st = Some h -> b = h + 1;
    si_clean : w_dirty st = false -> w_open st = None;
  }.

  Lemma SInv_init : SInv st_empty fs_init wf_init.
  Proof.
    constructor; cbn; try discriminate; try reflexivity; try (intros; contradiction).
    exists 0, 0. split; [apply (TRepr_init W)|]. split; cbn; lia.
  Qed.

  (* keys of block-table maps *)
  Lemma kv_last_key_in {A} (m : list (N * A)) k : kv_last_key m = Some k -> In k (map fst m).
  Proof.
    unfold kv_last_key. destruct m as [|e t] using rev_ind; [discriminate|].
    rewrite map_app. cbn [map]. rewrite last_last. cbn [option_map]. intros [= <-].
    rewrite map_app. apply in_or_app. right. left. reflexivity.
  Qed.

  Lemma keys_kv_put {A} (m : list (N * A)) k a x : In x (map fst (kv_put m k a)) -> x = k \/ In x (map fst m).
  Proof.
    induction m as [|[k0 a0] t IH]; cbn [kv_put map fst In].
    - intros [<-|[]]. left; reflexivity.
    - destruct (k <? k0); cbn [map fst In].
      + intros [<-|[<-|H]]; auto.
      + destruct (k =? k0); cbn [map fst In].
        * intros [<-|H]; auto.
        * intros [<-|H]; auto. destruct (IH H); auto.
  Qed.

  Lemma keys_filter {A} (m : list (N * A)) f x : In x (map fst (filter f m)) -> In x (map fst m).
  Proof.
    intros H. apply in_map_iff in H as (e & <- & He). apply filter_In in He as [He _].
    apply in_map. assumption.
  Qed.

  Lemma keys_b_commit_db (t : btable N) x :
    In x (map fst (b_db (b_commit t))) -> In x (map fst (b_db t)) \/ In x (map fst (b_cache t)).
  Proof.
    unfold b_commit. cbn [b_db]. generalize (b_db t) as d. induction (b_cache t) as [|e c IH]; intros d H.
    - left. exact H.
    - cbn [fold_left] in H. destruct (IH _ H) as [H1|H1].
      + destruct (keys_kv_put _ _ _ _ H1) as [->|H2]; [right; left; reflexivity|left; assumption].
      + right. right. assumption.
  Qed.

  Lemma next_height_bound s st F :
    SInv s F st -> w_dirty st = false -> next_height s - 1 <= w_m st.
  Proof.
    intros I Hd. unfold next_height.
    assert (Hb : bound st = w_m st).
    { unfold bound, dstamp. rewrite (si_clean _ _ _ I Hd), Hd. lia. }
    destruct (st_lbn s) as [x|] eqn:E.
    - pose proof (si_lbn _ _ _ I x E). lia.
    - destruct (b_last_key (st_hash s)) as [k|] eqn:Ek; [|lia].
      assert (Hin : In k (hash_keys s)).
      { unfold b_last_key, omax in Ek. unfold hash_keys.
        destruct (kv_last_key (b_db (st_hash s))) as [x|] eqn:E1;
          destruct (kv_last_key (b_cache (st_hash s))) as [y|] eqn:E2; try discriminate.
        - injection Ek as <-. apply in_or_app.
          destruct (N.max_spec x y) as [[_ ->]|[_ ->]];
            [right; apply kv_last_key_in; assumption|left; apply kv_last_key_in; assumption].
        - injection Ek as <-. apply in_or_app. left. apply kv_last_key_in; assumption.
        - injection Ek as <-. apply in_or_app. right. apply kv_last_key_in; assumption. }
      pose proof (si_keys _ _ _ I k Hin). lia.
  Qed.

  (* commit_changes on a clean boundary *)
  Lemma SInv_commit_core s F st t1 cur clk :
    SInv s F st -> w_dirty st = false ->
    TRepr t1 (mkTSpec cur cur clk clk) -> clk <= w_m st ->
    forall hsh blk raw lbn,
      (forall k, In k (map fst (b_db hsh) ++ map fst (b_cache hsh)) -> k <= w_m st) ->
      (forall x, lbn = Some x -> x <= w_m st) ->
      forall h' hc',
        (forall h, h' = Some h -> h <= w_m st) -> (forall h, hc' = Some h -> h <= w_m st) ->
      exists s', sto_commit W (mkStore t1 hsh blk raw (st_max s) lbn) = Ok s' /\
                 SInv s' (cur, cur) (mkWf h' (w_m st) hc' false None).
  Proof.
    intros I Hd TR Hclk hsh blk raw lbn Hkeys Hlbn h' hc' Hh' Hhc'.
    unfold sto_commit. cbn [st_t st_hash st_blk st_raw st_max st_lbn].
    set (s0 := mkStore t1 hsh blk raw (st_max s) lbn).
    assert (Hnext : next_height s0 - 1 <= w_m st).
    { unfold next_height, s0. cbn [st_lbn st_hash]. destruct lbn as [x|].
      - specialize (Hlbn x eq_refl). lia.
      - destruct (b_last_key hsh) as [k|] eqn:Ek; [|lia].
        assert (Hin : In k (map fst (b_db hsh) ++ map fst (b_cache hsh))).
        { unfold b_last_key, omax in Ek.
          destruct (kv_last_key (b_db hsh)) as [x|] eqn:E1;
            destruct (kv_last_key (b_cache hsh)) as [y|] eqn:E2; try discriminate.
          - injection Ek as <-. apply in_or_app.
            destruct (N.max_spec x y) as [[_ ->]|[_ ->]];
              [right; apply kv_last_key_in; assumption|left; apply kv_last_key_in; assumption].
          - injection Ek as <-. apply in_or_app. left. apply kv_last_key_in; assumption.
          - injection Ek as <-. apply in_or_app. right. apply kv_last_key_in; assumption. }
        specialize (Hkeys k Hin). lia. }
    destruct (TRepr_commit W t1 _ (next_height s0) TR) as (t2 & Ec & TR2).
    rewrite Ec. cbn [rbind]. eexists. split; [reflexivity|].
    cbn [ts_step ts_cur ts_sav ts_clk ts_sclk] in TR2.
    constructor; cbn [sto_clear st_t st_hash st_blk st_raw st_max st_lbn w_h w_m w_hc w_dirty w_open fst snd].
    - exists (N.max clk (next_height s0 - 1)), (N.max clk (next_height s0 - 1)).
      split; [|unfold bound, dstamp; cbn [w_open w_dirty w_m]; split; lia].
      apply (TRepr_clear W) in TR2. cbn [ts_step ts_cur ts_sav ts_clk ts_sclk] in TR2. exact TR2.
    - apply (si_max _ _ _ I).
    - discriminate.
    - intros k Hin. unfold hash_keys in Hin. cbn [st_hash b_clear b_db b_cache map app] in Hin.
      rewrite app_nil_r in Hin. unfold bound, dstamp. cbn [w_open w_dirty w_m].
      destruct (keys_b_commit_db hsh k Hin) as [H|H]; (enough (k <= w_m st) by lia);
        apply Hkeys; apply in_or_app; [left|right]; assumption.
    - intros k Hin. cbn [st_hash b_clear b_db] in Hin.
      destruct (keys_b_commit_db hsh k Hin) as [H|H];
        apply Hkeys; apply in_or_app; [left|right]; assumption.
    - assumption.
    - assumption.
    - discriminate.
    - reflexivity.
  Qed.

  (* one step *)
  Theorem SInv_step s F st o st' s' :
    SInv s F st -> wf_step W st o = Some st' -> sto_step W s o = Ok s' ->
    SInv s' (fs_step F o) st'.
  Proof.
    intros I Hwf Hs. destruct F as [cur sav].
    destruct (si_t _ _ _ I) as (clk & sclk & TR & Hclk & Hsclk). cbn [fst snd] in TR.
    destruct o as [stamp k v|which n v|n| | |n]; cbn [wf_step sto_step fs_step] in *.
    - (* SV *)
      destruct (stamp_ok_for st stamp) eqn:Hst; [|discriminate]. injection Hwf as <-.
      assert (Hstamp : stamp <= N.max (w_m st)
                         (match w_open st with Some b => b | None => match w_h st with Some h => h + 1 | None => 0 end end)).
      { unfold stamp_ok_for in Hst. destruct (w_h st) as [h|] eqn:Eh.
        - apply N.eqb_eq in Hst. subst stamp. destruct (w_open st) as [b|] eqn:Eo; [|lia].
          rewrite (si_open _ _ _ I b h Eo Eh). lia.
        - apply N.eqb_eq in Hst. subst stamp. lia. }
      assert (Hb' : bound (mkWf (w_h st) (w_m st) (w_hc st) true (w_open st)) =
                    N.max (w_m st) (match w_open st with Some b => b | None => match w_h st with Some h => h + 1 | None => 0 end end)).
      { reflexivity. }
      assert (Hbb : bound st <= bound (mkWf (w_h st) (w_m st) (w_hc st) true (w_open st))).
      { rewrite Hb'. unfold bound, dstamp. destruct (w_open st); [lia|]. destruct (w_dirty st); [lia|]. lia. }
      assert (G : forall t', (exists T', TRepr t' T' /\ ts_cur T' = upd cur k (s_set (cur k) stamp v) /\
                                ts_sav T' = sav /\ ts_clk T' = N.max clk stamp /\ ts_sclk T' = sclk) ->
                  SInv (mkStore t' (st_hash s) (st_blk s) (st_raw s) (st_max s) (st_lbn s))
                       (upd cur k (s_set (cur k) stamp v), sav)
                       (mkWf (w_h st) (w_m st) (w_hc st) true (w_open st))).
      { intros t' (T' & TR' & E1 & E2 & E3 & E4).
        constructor; cbn [st_t st_hash st_blk st_raw st_max st_lbn w_h w_m w_hc w_dirty w_open fst snd].
        - exists (N.max clk stamp), sclk. split; [|split; [rewrite Hb'|assumption]].
          + destruct T' as [c1 s1 k1 sk1]. cbn in E1, E2, E3, E4. subst. exact TR'.
          + pose proof Hbb. rewrite Hb' in H. lia.
        - apply (si_max _ _ _ I).
        - apply (si_lbn _ _ _ I).
        - intros x Hin. pose proof (si_keys _ _ _ I x Hin). lia.
        - apply (si_dbkeys _ _ _ I).
        - apply (si_h _ _ _ I).
        - apply (si_hc _ _ _ I).
        - apply (si_open _ _ _ I).
        - discriminate. }
      destruct v as [v|].
      + destruct (t_set N.eqb W (st_t s) stamp k v) as [t'| |] eqn:Et; cbn [rbind] in Hs; try discriminate.
        injection Hs as <-. apply G.
        eexists. split; [apply (TRepr_set N.eqb Neqb_spec' W _ _ _ _ _ _ TR Et)|]. cbn. auto.
      + destruct (t_unset W (st_t s) stamp k) as [t'| |] eqn:Et; cbn [rbind] in Hs; try discriminate.
        injection Hs as <-. apply G.
        eexists. split; [apply (TRepr_unset W _ _ _ _ _ TR Et)|]. cbn. auto.
    - (* SB *)
      destruct (row_ok_for st n) eqn:Hrow; [|discriminate]. injection Hwf as <-. injection Hs as <-.
      assert (Hb' : bound (mkWf (w_h st) (w_m st) (w_hc st) true (Some n)) = N.max (w_m st) n) by reflexivity.
      assert (Hbb : bound st <= N.max (w_m st) n).
      { unfold bound, dstamp. unfold row_ok_for in Hrow. destruct (w_h st) as [h|] eqn:Eh.
        - apply N.eqb_eq in Hrow. subst n. destruct (w_open st) as [b|] eqn:Eo.
          + rewrite (si_open _ _ _ I b h Eo Eh). lia.
          + destruct (w_dirty st); lia.
        - destruct (w_open st) as [b|] eqn:Eo.
          + apply N.eqb_eq in Hrow. subst n. lia.
          + destruct (w_dirty st); lia. }
      assert (Hopen : forall b h, Some n = Some b -> w_h st = Some h -> b = h + 1).
      { intros b h [= <-] Eh. unfold row_ok_for in Hrow. rewrite Eh in Hrow. apply N.eqb_eq in Hrow. assumption. }
      assert (Hkeys_other : forall x, In x (hash_keys s) -> x <= N.max (w_m st) n).
      { intros x Hin. pose proof (si_keys _ _ _ I x Hin). lia. }
      destruct which as [|p]; [|destruct p as [p|p|]];
        (constructor; cbn [st_t st_hash st_blk st_raw st_max st_lbn w_h w_m w_hc w_dirty w_open fst snd];
         [ exists clk, sclk; split; [exact TR|split; [rewrite Hb'; lia|assumption]]
         | apply (si_max _ _ _ I) | apply (si_lbn _ _ _ I) | | apply (si_dbkeys _ _ _ I) | apply (si_h _ _ _ I) | apply (si_hc _ _ _ I)
         | exact Hopen | discriminate ]);
        rewrite Hb'; try exact Hkeys_other.
      intros x Hin. unfold hash_keys in Hin. cbn [st_hash b_set b_db b_cache] in Hin.
      apply in_app_or in Hin as [Hin|Hin].
      + apply Hkeys_other. unfold hash_keys. apply in_or_app. left. assumption.
      + destruct (keys_kv_put _ _ _ _ Hin) as [->|H]; [lia|].
        apply Hkeys_other. unfold hash_keys. apply in_or_app. right. assumption.
    - (* SHash *)
      destruct (row_ok_for st n) eqn:Hrow; [|discriminate]. injection Hwf as <-. injection Hs as <-.
      assert (Hd : dstamp st <= n).
      { unfold dstamp. unfold row_ok_for in Hrow. destruct (w_h st) as [h|] eqn:Eh.
        - apply N.eqb_eq in Hrow. subst n. destruct (w_open st) as [b|] eqn:Eo.
          + rewrite (si_open _ _ _ I b h Eo Eh). lia.
          + destruct (w_dirty st); lia.
        - destruct (w_open st) as [b|] eqn:Eo.
          + apply N.eqb_eq in Hrow. subst n. lia.
          + destruct (w_dirty st); lia. }
      assert (Hb' : bound (mkWf (Some n) (N.max (w_m st) n) (w_hc st) false None) = N.max (w_m st) n).
      { unfold bound, dstamp. cbn [w_open w_dirty w_m]. lia. }
      constructor; cbn [st_t st_hash st_blk st_raw st_max st_lbn w_h w_m w_hc w_dirty w_open fst snd].
      + exists clk, sclk. split; [exact TR|]. rewrite Hb'. unfold bound in Hclk. split; lia.
      + unfold maxrow, omaxN. cbn [st_max]. pose proof (si_max _ _ _ I) as Hm. unfold maxrow in Hm.
        destruct (st_max s); subst; lia.
      + intros x Hx. destruct (st_lbn s) as [h0|] eqn:El.
        * pose proof (si_lbn _ _ _ I h0 El). destruct (h0 <? n); injection Hx as <-; lia.
        * injection Hx as <-. lia.
      + intros x Hin. rewrite Hb'. pose proof (si_keys _ _ _ I x Hin). unfold bound in H. lia.
      + intros x Hin. pose proof (si_dbkeys _ _ _ I x Hin). lia.
      + intros h [= <-]. lia.
      + intros h Hh. pose proof (si_hc _ _ _ I h Hh). lia.
      + discriminate.
      + reflexivity.
    - (* SCommit *)
      destruct (w_dirty st) eqn:Hd; [discriminate|]. injection Hwf as <-.
      assert (Hb : bound st = w_m st).
      { unfold bound, dstamp. rewrite (si_clean _ _ _ I Hd), Hd. lia. }
      (* commit of the versioned table first: cur becomes saved *)
      unfold sto_commit in Hs.
      destruct (TRepr_commit W _ _ (next_height s) TR) as (t2 & Ec & TR2).
      rewrite Ec in Hs. cbn [rbind] in Hs. injection Hs as <-.
      pose proof (next_height_bound s st (cur, sav) I Hd) as Hnext.
      cbn [ts_step ts_cur ts_sav ts_clk ts_sclk] in TR2.
      constructor; cbn [sto_clear st_t st_hash st_blk st_raw st_max st_lbn w_h w_m w_hc w_dirty w_open fst snd].
      + exists (N.max clk (next_height s - 1)), (N.max clk (next_height s - 1)).
        split; [|unfold bound, dstamp; cbn [w_open w_dirty w_m]; split; lia].
        apply (TRepr_clear W) in TR2. cbn [ts_step ts_cur ts_sav ts_clk ts_sclk] in TR2. exact TR2.
      + apply (si_max _ _ _ I).
      + discriminate.
      + intros k Hin. unfold hash_keys in Hin. cbn [st_hash b_clear b_db b_cache map app] in Hin.
        rewrite app_nil_r in Hin. unfold bound, dstamp. cbn [w_open w_dirty w_m].
        destruct (keys_b_commit_db _ k Hin) as [H|H];
          (enough (k <= w_m st) by lia); rewrite <- Hb; apply (si_keys _ _ _ I); unfold hash_keys;
          apply in_or_app; [left|right]; assumption.
      + intros k Hin. cbn [st_hash b_clear b_db] in Hin.
        destruct (keys_b_commit_db _ k Hin) as [H|H];
          rewrite <- Hb; apply (si_keys _ _ _ I); unfold hash_keys;
          apply in_or_app; [left|right]; assumption.
      + apply (si_h _ _ _ I).
      + apply (si_h _ _ _ I).
      + discriminate.
      + reflexivity.
    - (* SClear *)
      injection Hwf as <-. injection Hs as <-.
      constructor; cbn [sto_clear st_t st_hash st_blk st_raw st_max st_lbn w_h w_m w_hc w_dirty w_open fst snd].
      + exists sclk, sclk. split; [|unfold bound, dstamp; cbn [w_open w_dirty w_m]; split; lia].
        apply (TRepr_clear W) in TR. cbn [ts_step ts_cur ts_sav ts_clk ts_sclk] in TR. exact TR.
      + apply (si_max _ _ _ I).
      + discriminate.
      + intros k Hin. unfold hash_keys in Hin. cbn [st_hash b_clear b_db b_cache map app] in Hin.
        rewrite app_nil_r in Hin.
        unfold bound, dstamp. cbn [w_open w_dirty w_m].
        pose proof (si_dbkeys _ _ _ I k Hin). lia.
      + intros k Hin. cbn [st_hash b_clear b_db] in Hin. apply (si_dbkeys _ _ _ I k Hin).
      + apply (si_hc _ _ _ I).
      + apply (si_hc _ _ _ I).
      + discriminate.
      + reflexivity.
    - (* SReorg *)
      destruct (w_h st) as [h|] eqn:Eh; [|discriminate].
      destruct (negb (w_dirty st) && (n <=? h) && (w_m st <=? n + W)) eqn:Hg; [|discriminate].
      injection Hwf as <-.
      apply andb_prop in Hg as [Hg Hg3]. apply andb_prop in Hg as [Hg1 Hg2].
      apply negb_true_iff in Hg1. apply N.leb_le in Hg2. apply N.leb_le in Hg3.
      assert (Hb : bound st = w_m st).
      { unfold bound, dstamp. rewrite (si_clean _ _ _ I Hg1), Hg1. lia. }
      pose proof (si_h _ _ _ I h Eh) as Hhm.
      unfold sto_reorg in Hs. pose proof (si_max _ _ _ I) as Hm. unfold maxrow in Hm. rewrite Hm in Hs.
      destruct (N.ltb_spec (W + n) (w_m st)); [lia|].
      destruct (TRepr_reorg W _ _ n TR ltac:(cbn [ts_clk]; lia)) as (t1 & Er & TR1).
      rewrite Er in Hs. cbn [rbind] in Hs. cbn [ts_step ts_cur ts_sav ts_clk ts_sclk] in TR1.
      destruct (SInv_commit_core s (cur, sav) st t1 (fun k => s_reorg (cur k) n) (N.max clk (n - 1))
                  I Hg1 TR1 ltac:(lia) (b_reorg (st_hash s) n) (b_reorg (st_blk s) n) (b_reorg (st_raw s) n)
                  (st_lbn s)) with (h' := Some n) (hc' := Some n) as (s2 & Es2 & I2).
      + intros k Hin. rewrite <- Hb. apply (si_keys _ _ _ I). unfold hash_keys.
        cbn [b_reorg b_db b_cache] in Hin. apply in_app_or in Hin as [Hin|Hin]; apply in_or_app;
          [left|right]; apply (keys_filter _ _ _ Hin).
      + apply (si_lbn _ _ _ I).
      + intros x [= <-]. lia.
      + intros x [= <-]. lia.
      + rewrite Es2 in Hs. injection Hs as <-. exact I2.
  Qed.

  (* ---------- whole traces ---------- *)

  Theorem store_run_inv ops : forall s F st s' st',
    SInv s F st -> wf_run W st ops = Some st' -> sto_run W s ops = Ok s' ->
    SInv s' (fs_run F ops) st'.
  Proof.
    induction ops as [|o r IH]; intros s F st s' st' I Hwf Hrun.
    - cbn in Hwf, Hrun. injection Hwf as <-. injection Hrun as <-. exact I.
    - cbn [wf_run] in Hwf. cbn [sto_run] in Hrun.
      destruct (wf_step W st o) as [st1|] eqn:Ew; [|discriminate].
      destruct (sto_step W s o) as [s1| |] eqn:Es; cbn [rbind] in Hrun; try discriminate.
      unfold fs_run. cbn [fold_left].
      apply (IH s1 (fs_step F o) st1 s' st' (SInv_step s F st o st1 s1 I Ew Es) Hwf Hrun).
  Qed.

  (* A reorg (resp. commit) that the protocol allows never panics and is never refused by
     the store's own depth guard. *)
  Theorem store_reorg_ok s F st n st' :
    SInv s F st -> wf_step W st (SReorg n) = Some st' -> exists s', sto_step W s (SReorg n) = Ok s'.
  Proof.
    intros I Hwf. destruct F as [cur sav].
    destruct (si_t _ _ _ I) as (clk & sclk & TR & Hclk & Hsclk). cbn [fst snd] in TR.
    cbn [wf_step sto_step] in *.
    destruct (w_h st) as [h|] eqn:Eh; [|discriminate].
    destruct (negb (w_dirty st) && (n <=? h) && (w_m st <=? n + W)) eqn:Hg; [|discriminate].
    apply andb_prop in Hg as [Hg Hg3]. apply andb_prop in Hg as [Hg1 Hg2].
    apply negb_true_iff in Hg1. apply N.leb_le in Hg2. apply N.leb_le in Hg3.
    assert (Hb : bound st = w_m st).
    { unfold bound, dstamp. rewrite (si_clean _ _ _ I Hg1), Hg1. lia. }
    pose proof (si_h _ _ _ I h Eh) as Hhm.
    unfold sto_reorg. pose proof (si_max _ _ _ I) as Hm. unfold maxrow in Hm. rewrite Hm.
    destruct (N.ltb_spec (W + n) (w_m st)); [lia|].
    destruct (TRepr_reorg W _ _ n TR ltac:(cbn [ts_clk]; lia)) as (t1 & Er & TR1).
    rewrite Er. cbn [rbind]. cbn [ts_step ts_cur ts_sav ts_clk ts_sclk] in TR1.
    destruct (SInv_commit_core s (cur, sav) st t1 (fun k => s_reorg (cur k) n) (N.max clk (n - 1))
                I Hg1 TR1 ltac:(lia) (b_reorg (st_hash s) n) (b_reorg (st_blk s) n) (b_reorg (st_raw s) n)
                (st_lbn s)) with (h' := Some n) (hc' := Some n) as (s2 & Es2 & I2).
    - intros k Hin. rewrite <- Hb. apply (si_keys _ _ _ I). unfold hash_keys.
      cbn [b_reorg b_db b_cache] in Hin. apply in_app_or in Hin as [Hin|Hin]; apply in_or_app;
        [left|right]; apply (keys_filter _ _ _ Hin).
    - apply (si_lbn _ _ _ I).
    - intros x [= <-]. lia.
    - intros x [= <-]. lia.
    - exists s2. exact Es2.
  Qed.

  Theorem store_commit_ok s F st st' :
    SInv s F st -> wf_step W st SCommit = Some st' -> exists s', sto_step W s SCommit = Ok s'.
  Proof.
    intros I Hwf. destruct F as [cur sav].
    destruct (si_t _ _ _ I) as (clk & sclk & TR & _). cbn [fst snd] in TR.
    cbn [sto_step]. unfold sto_commit.
    destruct (TRepr_commit W _ _ (next_height s) TR) as (t2 & Ec & _). rewrite Ec. cbn [rbind].
    eexists. reflexivity.
  Qed.

  (* Point reads on a clean boundary return the functional specification's current value
     (for any block number at or above max_block_number). *)
  Theorem store_point_read s F st k m :
    SInv s F st -> bound st <= m -> t_latest (st_t s) k = Ok (fst F k m).
  Proof.
    intros I Hm. destruct (si_t _ _ _ I) as (clk & sclk & TR & Hclk & _).
    apply (TRepr_latest W _ _ k m TR). cbn [ts_clk]. lia.
  Qed.

  (* After an accepted reorg to n every point read returns the value the key had as of the
     end of block n in the state before. *)
  Theorem store_reorg_restores s F st n st' s' k :
    SInv s F st -> wf_step W st (SReorg n) = Some st' -> sto_step W s (SReorg n) = Ok s' ->
    t_latest (st_t s') k = Ok (fst F k n).
  Proof.
    intros I Hwf Hs. pose proof (SInv_step s F st _ st' s' I Hwf Hs) as I'.
    assert (Hm : w_m st' = w_m st /\ bound st' = w_m st).
    { cbn [wf_step] in Hwf. destruct (w_h st); [|discriminate].
      destruct (negb (w_dirty st) && _ && _); [|discriminate]. injection Hwf as <-.
      unfold bound, dstamp. cbn. split; [reflexivity|lia]. }
    destruct Hm as [Hm1 Hm2].
    rewrite (store_point_read s' _ st' k (N.max (w_m st) n) I' ltac:(lia)).
    destruct F as [cur sav]. cbn [fs_step fst]. unfold s_reorg. f_equal. f_equal. lia.
  Qed.

  (* ---------- "as if the orphaned blocks had never been submitted" ---------- *)

  Definition wstep (S : spec) (w : N * option N) : spec := s_set S (fst w) (snd w).

  Theorem reorg_is_filter (ws : list (N * option N)) n : forall S0 S0',
    (forall m, S0 (N.min m n) = S0' m) ->
    forall m, fold_left wstep ws S0 (N.min m n)
              = fold_left wstep (filter (fun w => fst w <=? n) ws) S0' m.
  Proof.
    induction ws as [|[b v] t IH]; intros S0 S0' H0 m; cbn [fold_left filter fst]; [apply H0|].
    destruct (N.leb_spec b n) as [Hle|Hgt]; cbn [fold_left].
    - apply IH. intros m'. unfold wstep, s_set. cbn [fst snd].
      destruct (N.leb_spec b (N.min m' n)), (N.leb_spec b m'); try lia; [reflexivity|apply H0].
    - apply IH. intros m'. unfold wstep, s_set. cbn [fst snd].
      destruct (N.leb_spec b (N.min m' n)); [lia|apply H0].
  Qed.

  (* ---------- the engine's guard ---------- *)

  Theorem engine_guard_spec waiting s n :
    engine_reorg_guard W waiting s n = RvDo <->
    waiting = 0 /\ n < latest_height s /\ latest_height s - n <= W.
  Proof.
    unfold engine_reorg_guard. destruct (N.eqb_spec waiting 0) as [->|Hw]; cbn [negb].
    - destruct (N.ltb_spec (latest_height s) n).
      + split; [discriminate|]. intros (_ & H1 & _). lia.
      + destruct (N.ltb_spec W (latest_height s - n)).
        * split; [discriminate|]. intros (_ & _ & H2). lia.
        * destruct (N.eqb_spec n (latest_height s)).
          -- split; [discriminate|]. intros (_ & H1 & _). lia.
          -- split; [intros _; repeat split; lia|reflexivity].
    - split; [discriminate|]. intros (H0 & _). contradiction.
  Qed.

  (* The acceptance clause of the property: no block under construction, n not above the
     height, at most W below the highest block ever finalised => not refused (no-op at the
     height itself). *)
  Theorem engine_guard_accepts s n h m :
    latest_height s = h -> h <= m -> n <= h -> m <= n + W ->
    engine_reorg_guard W 0 s n <> RvRefused.
  Proof.
    intros Hh Hhm Hn Hm. unfold engine_reorg_guard. cbn [N.eqb negb]. rewrite Hh.
    destruct (N.ltb_spec h n); [lia|]. destruct (N.ltb_spec W (h - n)); [lia|].
    destruct (n =? h); discriminate.
  Qed.

  (* ---------- commit points are unobservable (C03) ---------- *)

  Definition is_commit (o : sop) : bool := match o with SCommit => true | _ => false end.
  Definition is_clear (o : sop) : bool := match o with SClear => true | _ => false end.

  (* The current values never depend on where commits were placed, as long as nothing is
     discarded: erasing the commits from a trace without clears leaves [fst] of the
     functional specification unchanged. *)
  Theorem commit_placement_irrelevant ops : forall F F',
    (forall k m, fst F k m = fst F' k m) ->
    forallb (fun o => negb (is_clear o)) ops = true ->
    forall k m, fst (fs_run F ops) k m
                = fst (fs_run F' (filter (fun o => negb (is_commit o)) ops)) k m.
  Proof.
    induction ops as [|o r IH]; intros F F' HF Hnc k m; [apply HF|].
    cbn [forallb] in Hnc. apply andb_prop in Hnc as [Hc Hr].
    unfold fs_run in *. cbn [fold_left filter].
    destruct F as [cur sav], F' as [cur' sav']. cbn [fst] in HF.
    destruct o as [b k0 v|w n v|n| | |n]; cbn [is_commit negb fold_left fs_step] in *; try discriminate.
    - apply IH; [|assumption]. intros k1 m1. cbn [fst]. unfold upd.
      destruct (k0 =? k1); [|apply HF]. unfold s_set. destruct (b <=? m1); [reflexivity|apply HF].
    - apply IH; [|assumption]. intros k1 m1. cbn [fst]. apply HF.
    - apply IH; [|assumption]. intros k1 m1. cbn [fst]. apply HF.
    - apply IH; [|assumption]. intros k1 m1. cbn [fst]. apply HF.
    - apply IH; [|assumption]. intros k1 m1. cbn [fst]. unfold s_reorg. apply HF.
  Qed.

  (* A commit changes no point read, no range scan and no block row. *)
  Theorem commit_unobservable s F st st' s' :
    SInv s F st -> wf_step W st SCommit = Some st' -> sto_step W s SCommit = Ok s' ->
    (forall k, t_latest (st_t s') k = t_latest (st_t s) k) /\
    (forall lo hi, t_get_range (st_t s') lo hi = t_get_range (st_t s) lo hi).
  Proof.
    intros I Hwf Hs. pose proof (SInv_step s F st _ st' s' I Hwf Hs) as I'.
    assert (Hd : w_dirty st = false).
    { cbn [wf_step] in Hwf. destruct (w_dirty st); [discriminate|reflexivity]. }
    assert (Hb : bound st = w_m st).
    { unfold bound, dstamp. rewrite (si_clean _ _ _ I Hd), Hd. lia. }
    assert (Hb' : bound st' = w_m st).
    { cbn [wf_step] in Hwf. rewrite Hd in Hwf. injection Hwf as <-. unfold bound, dstamp. cbn. lia. }
    assert (Hl : forall k, t_latest (st_t s') k = t_latest (st_t s) k).
    { intros k. rewrite (store_point_read s' _ st' k (w_m st) I' ltac:(lia)).
      rewrite (store_point_read s _ st k (w_m st) I ltac:(lia)).
      destruct F as [cur sav]. reflexivity. }
    split; [exact Hl|]. intros lo hi.
    destruct (si_t _ _ _ I) as (c1 & c2 & TR & _). destruct (si_t _ _ _ I') as (c1' & c2' & TR' & _).
    apply (get_range_determined_by_latest W _ _ _ _ lo hi TR' TR).
    intros k. unfold latest_or_none. rewrite Hl. reflexivity.
  Qed.

  (* clearCaches / a restart without commit: exactly the state of the last commit. *)
  Theorem clear_is_last_commit s F st st' s' k m :
    SInv s F st -> wf_step W st SClear = Some st' -> sto_step W s SClear = Ok s' ->
    w_m st <= m -> t_latest (st_t s') k = Ok (snd F k m).
  Proof.
    intros I Hwf Hs Hm. pose proof (SInv_step s F st _ st' s' I Hwf Hs) as I'.
    assert (Hb' : bound st' = w_m st).
    { cbn [wf_step] in Hwf. injection Hwf as <-. unfold bound, dstamp. cbn. lia. }
    rewrite (store_point_read s' _ st' k m I' ltac:(lia)). destruct F as [cur sav]. reflexivity.
  Qed.
End StoreP.
