(* What an ACCEPTED C18 correspondence case means: the tags of the logs the real eth_getLogs
   returned are exactly the tags of the matching logs of the recorded rows, in chain order
   (and the range is at most 5 blocks wide); a refusal by the implementation is a refusal by
   the model. *)
From Brc.Model Require Import Base Logs Tie18.
From Brc.Proofs Require Import LogsP.

Lemma list_eqb_N_true : forall a b : list N, list_eqb N.eqb a b = true -> a = b.
Proof.
  induction a as [|x a IH]; destruct b as [|y b]; cbn [list_eqb]; try discriminate; try reflexivity.
  intros H. apply andb_prop in H. destruct H as [H1 H2]. apply N.eqb_eq in H1.
  rewrite H1, (IH _ H2). reflexivity.
Qed.

Theorem check18_accepts c tags :
  Forall (fun e => e_idx e < 2 ^ 64) (c18_rows c) ->
  check18 c = true -> c18_got c = Some tags ->
  let f := match c18_from c with Some x => x | None => c18_latest c end in
  let t := match c18_to c with Some x => x | None => f end in
  tags = map l_tag (filter (log_matches (c18_addr c) (c18_topics c)) (chain_logs f t (c18_rows c)))
  /\ t - f <= 5.
Proof.
  intros Hrows Hc Hg. unfold check18 in Hc. rewrite Hg in Hc.
  destruct (get_logs (c18_latest c) (c18_from c) (c18_to c) (c18_addr c) (c18_topics c) (c18_rows c))
    as [ls| |] eqn:E; try discriminate.
  apply list_eqb_N_true in Hc.
  destruct (get_logs_eq_spec _ _ _ _ _ _ _ Hrows E) as [Hr Hw].
  cbv zeta. split; [|exact Hw]. rewrite <- Hc, Hr. reflexivity.
Qed.

Theorem check18_refusal c :
  check18 c = true -> c18_got c = None ->
  get_logs (c18_latest c) (c18_from c) (c18_to c) (c18_addr c) (c18_topics c) (c18_rows c) = Err.
Proof.
  intros Hc Hg. unfold check18 in Hc. rewrite Hg in Hc.
  destruct (get_logs _ _ _ _ _ _) as [ls| |]; try discriminate. reflexivity.
Qed.
