(* C07 across reorgs: the snapshot-stack ledger equals the plain run of the surviving
   operations, so every ledger theorem holds of histories with reorgs, read over what
   survives. *)
From Brc.Model Require Import Base Ledger LedgerChain.
From Brc.Proofs Require Import LedgerP.
From Coq Require Import Lia Arith PeanoNat.

Section LedgerChainP.
  Variable H_addr : list N -> addr.
  Variable lower : list N -> ticker.
  Variable INDEXER CTL : addr.

  Notation grun := (g_run H_addr lower INDEXER CTL).
  Notation g0 := (g_init INDEXER).
  Notation c_step := (c_step H_addr lower INDEXER CTL).
  Notation c_run := (c_run H_addr lower INDEXER CTL).

  Lemma grun_app st a b : grun st (a ++ b) = grun (grun st a) b.
  Proof. unfold g_run, l_run. rewrite map_app, fold_left_app. reflexivity. Qed.

  Definition top (l : list ledger) : ledger := hd g0 l.
  Fixpoint snaps_of (blks : list (list op)) : list ledger :=
    match blks with
    | [] => [g0]
    | b :: r => grun (top (snaps_of r)) b :: snaps_of r
    end.

  Lemma snaps_of_length blks : length (snaps_of blks) = S (length blks).
  Proof. induction blks as [|b r IH]; cbn [snaps_of length]; [reflexivity|rewrite IH; reflexivity]. Qed.

  Lemma top_snaps_of blks : top (snaps_of blks) = grun g0 (concat (rev blks)).
  Proof.
    induction blks as [|b r IH]; [reflexivity|].
    cbn [snaps_of top hd rev]. fold (top (snaps_of r)). rewrite IH.
    rewrite concat_app, grun_app. cbn [concat]. rewrite app_nil_r. reflexivity.
  Qed.

  Lemma skipn_snaps_of (d : nat) : forall blks,
    (d <= length blks)%nat -> skipn d (snaps_of blks) = snaps_of (skipn d blks).
  Proof.
    induction d as [|d IH]; intros blks Hd; [reflexivity|].
    destruct blks as [|b r]; cbn [length] in Hd; [lia|].
    cbn [snaps_of skipn]. apply IH. lia.
  Qed.

  (* the stack holds exactly the ledgers of the surviving blocks; the current ledger is the
     newest of them advanced by the pending operations *)
  Definition Rel (c : cstate) (s : sstate) : Prop :=
    snd c = snaps_of (snd s) /\ fst c = grun (top (snaps_of (snd s))) (fst s).

  Lemma Rel_step c s i : Rel c s -> Rel (c_step c i) (s_step s i).
  Proof.
    intros [Hs Hc]. destruct c as [cur snaps], s as [pend blks]. cbn [fst snd] in *. subst snaps cur.
    destruct i as [o| |d]; unfold Rel; cbn [LedgerChain.c_step s_step fst snd].
    - split; [reflexivity|]. rewrite grun_app. reflexivity.
    - split; [reflexivity|]. cbn [snaps_of top hd]. reflexivity.
    - destruct (Nat.leb_spec d (length blks)) as [Hd|Hd].
      + rewrite (skipn_snaps_of d blks Hd).
        destruct (snaps_of (skipn d blks)) as [|st rest] eqn:E.
        { pose proof (snaps_of_length (skipn d blks)) as Hl. rewrite E in Hl. discriminate. }
        cbn [fst snd]. split; [symmetry; exact E|]. rewrite E. reflexivity.
      + rewrite skipn_all2; [|rewrite snaps_of_length; lia].
        split; reflexivity.
  Qed.

  Lemma Rel_run is : forall c s, Rel c s -> Rel (fold_left c_step is c) (fold_left s_step is s).
  Proof.
    induction is as [|i r IH]; intros c s R; [exact R|].
    cbn [fold_left]. apply IH. apply Rel_step. exact R.
  Qed.

  Theorem ledger_after_reorgs is :
    fst (c_run is) = grun g0 (surviving is).
  Proof.
    assert (R0 : Rel (c_init INDEXER) ([], [])) by (split; reflexivity).
    destruct (Rel_run is _ _ R0) as [_ Hc]. unfold LedgerChain.c_run, surviving, surviving_of.
    rewrite Hc, top_snaps_of, <- grun_app. reflexivity.
  Qed.

  (* an accepted reorg that removes d >= 1 blocks leaves the ledger that stood at the end of
     the block rolled back to, whatever was done since *)
  Theorem reorg_restores_snapshot c d st rest :
    skipn d (snd c) = st :: rest -> c_step c (KReorg d) = (st, st :: rest).
  Proof. intros E. cbn [LedgerChain.c_step]. rewrite E. reflexivity. Qed.

  (* the accounting identities, read over the operations that survive the reorgs *)
  Theorem accounting_across_reorgs is p t :
    Forall (user_ok INDEXER CTL) (surviving is) -> H_addr p <> 0 ->
    let a := H_addr p in
    let tr := g_trace H_addr lower INDEXER CTL g0 (surviving is) in
    glue_balance H_addr lower (fst (c_run is)) p t
    + nsum (map (op_wd_from H_addr lower (lower t) a) tr) + nsum (map (op_sent (lower t) a) tr)
    = nsum (map (op_dep_to H_addr lower (lower t) a) tr) + nsum (map (op_recv (lower t) a) tr).
  Proof.
    intros Hu Ha. cbv zeta. rewrite ledger_after_reorgs, glue_balance_is_balance.
    exact (proj1 (g_accounting H_addr lower INDEXER CTL (surviving is) _
                               (g_inv_init INDEXER CTL) Hu (lower t)) (H_addr p) Ha).
  Qed.

  Theorem supply_across_reorgs is t :
    Forall (user_ok INDEXER CTL) (surviving is) ->
    let tr := g_trace H_addr lower INDEXER CTL g0 (surviving is) in
    match supply (fst (c_run is)) t with Some s => s | None => 0 end + nsum (map (op_wd lower t) tr)
    = nsum (map (op_dep lower t) tr).
  Proof.
    intros Hu. cbv zeta. rewrite ledger_after_reorgs.
    exact (proj2 (g_accounting H_addr lower INDEXER CTL (surviving is) _ (g_inv_init INDEXER CTL) Hu t)).
  Qed.

  (* and the structural invariant (supply = sum of balances, no wrap) after any history with
     reorgs *)
  Theorem supply_is_sum_across_reorgs is t s :
    supply (fst (c_run is)) t = Some s ->
    let st := fst (c_run is) in
    NoDup (holders st t) /\ s = nsum (map (balance st t) (holders st t)) /\ s < 2 ^ 256.
  Proof.
    cbv zeta. rewrite ledger_after_reorgs. intros Hs.
    destruct (supply_is_sum_wf _ t s (l_run_wf CTL _ _ (led_wf_init INDEXER)) Hs) as (H1 & H2 & H3 & _).
    repeat split; assumption.
  Qed.
End LedgerChainP.
