(* Proofs about the bridge ledger model (Model/Ledger.v), property C07. *)
From Brc.Model Require Import Base Ledger.
Arguments N.add : simpl never.
Arguments N.sub : simpl never.
Arguments N.mul : simpl never.
Arguments N.pow : simpl never.
Arguments N.modulo : simpl never.
Arguments N.ltb : simpl never.
Arguments N.leb : simpl never.
Arguments N.eqb : simpl never.
Opaque U256_MOD.

Lemma U256_pos : 0 < U256_MOD.
Proof. Transparent U256_MOD. unfold U256_MOD. Opaque U256_MOD. apply N.neq_0_lt_0. apply N.pow_nonzero. discriminate. Qed.

Ltac neq_cases :=
  repeat match goal with
  | |- context [?a =? ?b] => let E := fresh "E" in destruct (N.eqb_spec a b) as [E|E]; try subst
  | H : context [?a =? ?b] |- _ => let E := fresh "E" in destruct (N.eqb_spec a b) as [E|E]; try subst
  end.

(* ---------------------------------------------------------------- uint256 arithmetic *)

Lemma checked_add_ok a b s : checked_add a b = Ok s -> s = a + b /\ a + b < U256_MOD.
Proof.
  unfold checked_add. destruct (N.ltb_spec (a + b) U256_MOD) as [Hl|Hl]; intro H; inversion H; auto.
Qed.

Lemma wrap_add_small a b : a + b < U256_MOD -> wrap_add a b = a + b.
Proof. intros. unfold wrap_add. apply N.mod_small. assumption. Qed.

Lemma wrap_sub_small a b : b <= a -> a < U256_MOD -> wrap_sub a b = a - b.
Proof.
  intros Hb Ha. unfold wrap_sub. pose proof U256_pos.
  rewrite (N.mod_small b) by lia.
  replace (a + U256_MOD - b) with ((a - b) + 1 * U256_MOD) by lia.
  rewrite N.mod_add by lia. apply N.mod_small. lia.
Qed.

(* ---------------------------------------------------------------- mapping(address => uint) *)

Lemma aget_aset_same m k v : aget (aset m k v) k = v.
Proof.
  induction m as [|[k' v'] r IH]; cbn [aset aget].
  - rewrite N.eqb_refl. reflexivity.
  - destruct (N.eqb_spec k' k); cbn [aget].
    + rewrite N.eqb_refl. reflexivity.
    + destruct (N.eqb_spec k' k); [contradiction|]. exact IH.
Qed.

Lemma aget_aset_other m k k' v : k' <> k -> aget (aset m k v) k' = aget m k'.
Proof.
  intro Hne. induction m as [|[k0 v0] r IH]; cbn [aset aget].
  - destruct (N.eqb_spec k k'); [congruence|reflexivity].
  - destruct (N.eqb_spec k0 k); cbn [aget].
    + subst. destruct (N.eqb_spec k k'); [congruence|reflexivity].
    + destruct (N.eqb_spec k0 k'); [reflexivity|exact IH].
Qed.

Lemma asum_aset m k v : asum (aset m k v) + aget m k = asum m + v.
Proof.
  induction m as [|[k' v'] r IH]; cbn [aset aget asum].
  - lia.
  - destruct (N.eqb_spec k' k); cbn [asum]; lia.
Qed.

Lemma aget_le_asum m k : aget m k <= asum m.
Proof.
  induction m as [|[k' v'] r IH]; cbn [aget asum]; [lia|].
  destruct (N.eqb_spec k' k); lia.
Qed.

Lemma aget_plus_le_asum m k k' : k <> k' -> aget m k + aget m k' <= asum m.
Proof.
  intro Hne. induction m as [|[k0 v0] r IH]; cbn [aget asum]; [lia|].
  pose proof (aget_le_asum r k). pose proof (aget_le_asum r k').
  destruct (N.eqb_spec k0 k); destruct (N.eqb_spec k0 k'); subst; try congruence; lia.
Qed.

Lemma aset_keys m k v x : In x (map fst (aset m k v)) <-> x = k \/ In x (map fst m).
Proof.
  induction m as [|[k' v'] r IH]; cbn [aset map fst In].
  - intuition.
  - destruct (N.eqb_spec k' k); cbn [map fst In].
    + subst. intuition.
    + rewrite IH. intuition.
Qed.

Lemma aset_nodup m k v : NoDup (map fst m) -> NoDup (map fst (aset m k v)).
Proof.
  induction m as [|[k' v'] r IH]; cbn [aset map fst]; intro H.
  - constructor; [intros []|constructor].
  - inversion H as [|? ? Hn Hr]; subst.
    destruct (N.eqb_spec k' k); cbn [map fst].
    + subst. constructor; assumption.
    + constructor; [|apply IH; assumption].
      rewrite aset_keys. intros [->|Hin]; [congruence|contradiction].
Qed.

Lemma aget_notin m k : ~ In k (map fst m) -> aget m k = 0.
Proof.
  induction m as [|[k' v'] r IH]; cbn [aget map fst In]; intro H; [reflexivity|].
  destruct (N.eqb_spec k' k); [subst; exfalso; apply H; left; reflexivity|].
  apply IH. intro; apply H; right; assumption.
Qed.

Lemma asum_map_aget m : NoDup (map fst m) -> asum m = nsum (map (aget m) (map fst m)).
Proof.
  induction m as [|[k v] r IH]; cbn [asum map fst nsum fold_right]; intro H; [reflexivity|].
  inversion H as [|? ? Hn Hr]; subst. cbn [aget]. rewrite N.eqb_refl.
  f_equal. rewrite (IH Hr). unfold nsum. f_equal.
  apply map_ext_in. intros a Ha. cbn [aget].
  destruct (N.eqb_spec k a); [subst; contradiction|reflexivity].
Qed.

(* ---------------------------------------------------------------- mapping(bytes => BRC20) *)

Lemma list_eqb_N_eq (a b : list N) : list_eqb N.eqb a b = true <-> a = b.
Proof.
  revert b. induction a as [|x a IH]; destruct b as [|y b]; cbn [list_eqb]; try (split; [discriminate|discriminate]).
  - split; reflexivity.
  - rewrite andb_true_iff, N.eqb_eq, IH. split; [intros [-> ->]; reflexivity|intro H; inversion H; auto].
Qed.

Lemma ticker_eqb_spec a b : reflect (a = b) (ticker_eqb a b).
Proof.
  unfold ticker_eqb. destruct (list_eqb N.eqb a b) eqn:E; constructor.
  - apply list_eqb_N_eq; assumption.
  - intro H. apply list_eqb_N_eq in H. congruence.
Qed.

Lemma ticker_eqb_refl a : ticker_eqb a a = true.
Proof. destruct (ticker_eqb_spec a a); congruence. Qed.

Lemma tget_tset_same m t k : tget (tset m t k) t = Some k.
Proof.
  induction m as [|[t' k'] r IH]; cbn [tset tget].
  - rewrite ticker_eqb_refl. reflexivity.
  - destruct (ticker_eqb_spec t' t); cbn [tget].
    + rewrite ticker_eqb_refl. reflexivity.
    + destruct (ticker_eqb_spec t' t); [contradiction|exact IH].
Qed.

Lemma tget_tset_other m t t' k : t' <> t -> tget (tset m t k) t' = tget m t'.
Proof.
  intro Hne. induction m as [|[t0 k0] r IH]; cbn [tset tget].
  - destruct (ticker_eqb_spec t t'); [congruence|reflexivity].
  - destruct (ticker_eqb_spec t0 t); cbn [tget].
    + subst. destruct (ticker_eqb_spec t t'); [congruence|reflexivity].
    + destruct (ticker_eqb_spec t0 t'); [reflexivity|exact IH].
Qed.

Lemma tset_tset m t k k' : tset (tset m t k) t k' = tset m t k'.
Proof.
  induction m as [|[t0 k0] r IH]; cbn [tset].
  - rewrite ticker_eqb_refl. reflexivity.
  - destruct (ticker_eqb_spec t0 t); cbn [tset].
    + rewrite ticker_eqb_refl. reflexivity.
    + destruct (ticker_eqb_spec t0 t); [contradiction|]. rewrite IH. reflexivity.
Qed.

Lemma tset_keys m t k x : In x (map fst (tset m t k)) <-> x = t \/ In x (map fst m).
Proof.
  induction m as [|[t0 k0] r IH]; cbn [tset map fst In].
  - intuition.
  - destruct (ticker_eqb_spec t0 t); cbn [map fst In].
    + subst. intuition.
    + rewrite IH. intuition.
Qed.

Lemma tget_none_notin m t : tget m t = None <-> ~ In t (map fst m).
Proof.
  induction m as [|[t0 k0] r IH]; cbn [tget map fst In].
  - intuition.
  - destruct (ticker_eqb_spec t0 t).
    + subst. split; [discriminate|intro H; exfalso; apply H; left; reflexivity].
    + rewrite IH. intuition.
Qed.

(* ---------------------------------------------------------------- one token *)

(* the money of a token is consistent: distinct holders, supply = sum of balances, no wrap *)
Definition tok_wf (k : token) : Prop :=
  NoDup (map fst (t_bal k)) /\ t_supply k = asum (t_bal k) /\ t_supply k < U256_MOD.

Definition same_money (k k1 : token) : Prop :=
  t_bal k1 = t_bal k /\ t_supply k1 = t_supply k /\ t_owner k1 = t_owner k.

Lemma same_money_refl k : same_money k k.
Proof. repeat split. Qed.

Lemma same_money_wf k k1 : same_money k k1 -> tok_wf k -> tok_wf k1.
Proof. intros (Hb & Hs & _) (H1 & H2 & H3). unfold tok_wf. rewrite Hb, Hs. auto. Qed.

Lemma tk_approve_money k o s v k' : tk_approve k o s v = Ok k' -> same_money k k'.
Proof.
  unfold tk_approve. destruct (o =? 0); [discriminate|]. destruct (s =? 0); [discriminate|].
  intro H; inversion H; subst. repeat split.
Qed.

Lemma tk_spend_money k o s v k' : tk_spend_allowance k o s v = Ok k' -> same_money k k'.
Proof.
  unfold tk_spend_allowance.
  destruct (tk_allowance k o s <? MAX_U256).
  - destruct (tk_allowance k o s <? v); [discriminate|]. apply tk_approve_money.
  - intro H; inversion H; subst. apply same_money_refl.
Qed.

Ltac tkc := cbn [t_bal t_supply t_owner t_allow tk_set_supply tk_set_bal tk_set_allow tk_set_owner] in *.
Ltac split6 := split; [|split; [|split; [|split; [|split]]]].

(* effect of _update on a consistent token *)
Lemma tk_update_effect k from to v k' :
  tok_wf k -> tk_update k from to v = Ok k' ->
  tok_wf k' /\
  t_owner k' = t_owner k /\ t_allow k' = t_allow k /\
  (forall a, a <> 0 ->
     aget (t_bal k') a + (if from =? a then v else 0) = aget (t_bal k) a + (if to =? a then v else 0)) /\
  t_supply k' + (if to =? 0 then v else 0) = t_supply k + (if from =? 0 then v else 0) /\
  (from <> 0 -> v <= aget (t_bal k) from).
Proof.
  intros (Hnd & Hsum & Hlt) H. unfold tk_update in H.
  destruct (N.eqb_spec from 0) as [Ef|Ef].
  - (* mint side *)
    subst from. destruct (checked_add (t_supply k) v) as [s| |] eqn:Ec; cbn [rbind] in H; try discriminate.
    apply checked_add_ok in Ec. destruct Ec as [-> Hs].
    destruct (N.eqb_spec to 0) as [Et|Et]; inversion H; subst k'; clear H;
      cbn [tk_set_supply tk_set_bal t_owner t_supply t_bal t_allow].
    + subst to. rewrite wrap_sub_small by lia.
      split6; tkc; [|reflexivity|reflexivity| | |].
      * unfold tok_wf; tkc. split; [assumption|split; lia].
      * intros a Ha. destruct (N.eqb_spec 0 a); [congruence|lia].
      * lia.
      * congruence.
    + pose proof (aget_le_asum (t_bal k) to).
      rewrite wrap_add_small by lia.
      pose proof (asum_aset (t_bal k) to (aget (t_bal k) to + v)).
      split6; tkc; [|reflexivity|reflexivity| | |].
      * unfold tok_wf; tkc. split; [apply aset_nodup; assumption|split; lia].
      * intros a Ha. destruct (N.eqb_spec 0 a); [congruence|].
        destruct (N.eqb_spec to a).
        -- subst. rewrite aget_aset_same. lia.
        -- rewrite aget_aset_other by congruence. lia.
      * lia.
      * congruence.
  - destruct (N.ltb_spec (aget (t_bal k) from) v) as [Hl|Hl]; cbn [rbind] in H; [discriminate|].
    pose proof (aget_le_asum (t_bal k) from) as Hle.
    rewrite wrap_sub_small in H by lia.
    cbn [tk_set_bal t_supply t_bal] in H.
    pose proof (asum_aset (t_bal k) from (aget (t_bal k) from - v)) as Hs1.
    destruct (N.eqb_spec to 0) as [Et|Et]; inversion H; subst k'; clear H;
      cbn [tk_set_supply tk_set_bal t_owner t_supply t_bal t_allow].
    + (* burn *)
      subst to. rewrite wrap_sub_small by lia.
      split6; tkc; [|reflexivity|reflexivity| | |].
      * unfold tok_wf; tkc. split; [apply aset_nodup; assumption|split; lia].
      * intros a Ha. destruct (N.eqb_spec 0 a); [congruence|].
        destruct (N.eqb_spec from a).
        -- subst. rewrite aget_aset_same. lia.
        -- rewrite aget_aset_other by congruence. lia.
      * lia.
      * intros _. lia.
    + (* transfer *)
      set (b1 := aset (t_bal k) from (aget (t_bal k) from - v)) in *.
      assert (Hto : aget b1 to + v < U256_MOD).
      { pose proof (aget_le_asum b1 to). lia. }
      rewrite wrap_add_small by assumption.
      pose proof (asum_aset b1 to (aget b1 to + v)) as Hs2.
      split6; tkc; [|reflexivity|reflexivity| | |].
      * unfold tok_wf; tkc.
        split; [apply aset_nodup; apply aset_nodup; assumption|split; lia].
      * intros a Ha.
        destruct (N.eqb_spec to a) as [Eta|Eta].
        -- subst a. rewrite aget_aset_same.
           destruct (N.eqb_spec from to) as [Eft|Eft].
           ++ subst to. unfold b1. rewrite aget_aset_same. lia.
           ++ unfold b1. rewrite aget_aset_other by congruence. lia.
        -- rewrite aget_aset_other by congruence.
           destruct (N.eqb_spec from a) as [Efa|Efa].
           ++ subst a. unfold b1. rewrite aget_aset_same. lia.
           ++ unfold b1. rewrite aget_aset_other by congruence. lia.
      * lia.
      * intros _. lia.
Qed.

(* ---------------------------------------------------------------- one token call *)

(* the movement a token function performs for msg.sender [s] *)
Definition tk_move (s : addr) (f : tfn) : option (addr * addr * N) :=
  match f with
  | TTransfer to v => Some (s, to, v)
  | TTransferFrom from to v => Some (from, to, v)
  | TTransferFromO _ from to v => Some (from, to, v)
  | TMint a v => Some (0, a, v)
  | TBurn a v => Some (a, 0, v)
  | _ => None
  end.

(* functions without onlyOwner *)
Definition tfn_plain (f : tfn) : bool :=
  match f with
  | TTransfer _ _ | TApprove _ _ | TTransferFrom _ _ _ => true
  | _ => false
  end.
(* functions that can change the supply or the owner *)
Definition tfn_priv (f : tfn) : bool :=
  match f with
  | TMint _ _ | TBurn _ _ | TRenounce | TTransferOwnership _ => true
  | _ => false
  end.

Lemma tk_only_owner_ok s k u : tk_only_owner s k = Ok u -> t_owner k = s.
Proof. unfold tk_only_owner. destruct (N.eqb_spec (t_owner k) s); [auto|discriminate]. Qed.

Lemma tk_transfer_ok k from to v k' :
  tk_transfer k from to v = Ok k' -> from <> 0 /\ to <> 0 /\ tk_update k from to v = Ok k'.
Proof.
  unfold tk_transfer. destruct (N.eqb_spec from 0); [discriminate|].
  destruct (N.eqb_spec to 0); [discriminate|]. auto.
Qed.

Ltac bind_ok H :=
  match type of H with
  | rbind ?r _ = Ok _ => let x := fresh "x" in let E := fresh "E" in
      destruct r as [x| |] eqn:E; cbn [rbind] in H; [|discriminate H|discriminate H]
  end.

Lemma tk_call_spec s k f k' :
  tk_call s k f = Ok k' ->
  (tfn_plain f = false -> t_owner k = s) /\
  match tk_move s f with
  | Some (from, to, v) =>
      exists k1, same_money k k1 /\ tk_update k1 from to v = Ok k' /\
                 (from <> 0 \/ to <> 0) /\ (tfn_priv f = false -> from <> 0 /\ to <> 0)
  | None => t_bal k' = t_bal k /\ t_supply k' = t_supply k /\ (tfn_priv f = false -> t_owner k' = t_owner k)
  end.
Proof.
  destruct f; cbn [tk_call tk_move tfn_plain tfn_priv]; intro H.
  - (* transfer *) apply tk_transfer_ok in H. destruct H as (Hf & Ht & H).
    split; [discriminate|]. exists k. split; [apply same_money_refl|]. auto.
  - (* approve *) apply tk_approve_money in H. destruct H as (Hb & Hs & Ho). split; [discriminate|auto].
  - (* transferFrom *) bind_ok H. apply tk_spend_money in E. apply tk_transfer_ok in H.
    destruct H as (Hf & Ht & H). split; [discriminate|]. exists x. auto.
  - (* approve onlyOwner *) bind_ok H. apply tk_only_owner_ok in E.
    apply tk_approve_money in H. destruct H as (Hb & Hs & Ho). split; auto.
  - (* transferFrom onlyOwner *) bind_ok H. apply tk_only_owner_ok in E. bind_ok H.
    apply tk_spend_money in E0. apply tk_transfer_ok in H. destruct H as (Hf & Ht & H).
    split; [auto|]. exists x0. auto.
  - (* mint *) bind_ok H. apply tk_only_owner_ok in E. unfold tk_mint in H.
    destruct (N.eqb_spec account 0); [discriminate|]. split; [auto|].
    exists k. split; [apply same_money_refl|]. split; [assumption|]. split; [auto|discriminate].
  - (* burn *) bind_ok H. apply tk_only_owner_ok in E. unfold tk_burn in H.
    destruct (N.eqb_spec account 0); [discriminate|]. split; [auto|].
    exists k. split; [apply same_money_refl|]. split; [assumption|]. split; [auto|discriminate].
  - (* renounce *) bind_ok H. apply tk_only_owner_ok in E. inversion H; subst. split; [auto|].
    cbn. repeat split; discriminate.
  - (* transferOwnership *) bind_ok H. apply tk_only_owner_ok in E.
    destruct (newOwner =? 0); [discriminate|]. inversion H; subst. split; [auto|].
    cbn. repeat split; discriminate.
  - discriminate.
Qed.

Definition tk_in (s : addr) (f : tfn) (a : addr) : N :=
  match tk_move s f with Some (_, to, v) => if to =? a then v else 0 | None => 0 end.
Definition tk_out (s : addr) (f : tfn) (a : addr) : N :=
  match tk_move s f with Some (from, _, v) => if from =? a then v else 0 | None => 0 end.

Lemma tk_call_effect s k f k' :
  tok_wf k -> tk_call s k f = Ok k' ->
  tok_wf k' /\
  (forall a, a <> 0 -> aget (t_bal k') a + tk_out s f a = aget (t_bal k) a + tk_in s f a) /\
  t_supply k' + tk_in s f 0 = t_supply k + tk_out s f 0 /\
  (tfn_priv f = false -> t_supply k' = t_supply k /\ t_owner k' = t_owner k) /\
  (tfn_plain f = false -> t_owner k = s) /\
  (forall from to v, tk_move s f = Some (from, to, v) -> from <> 0 -> v <= aget (t_bal k) from).
Proof.
  intros Hwf H. apply tk_call_spec in H. destruct H as (Hpl & H).
  unfold tk_in, tk_out. destruct (tk_move s f) as [[[from to] v]|].
  - destruct H as (k1 & Hm & Hu & Hnz & Hpr).
    pose proof (same_money_wf _ _ Hm Hwf) as Hwf1.
    destruct (tk_update_effect _ _ _ _ _ Hwf1 Hu) as (Hwf' & Ho & Ha & Hfl & Hsu & Hle).
    destruct Hm as (Hb & Hs & Hoo). rewrite Hb, Hs, Hoo in *.
    split6; auto.
    + intro Hp. destruct (Hpr Hp) as (Hf & Ht).
      destruct (N.eqb_spec to 0); [contradiction|]. destruct (N.eqb_spec from 0); [contradiction|].
      split; [lia|assumption].
    + intros from0 to0 v0 E. inversion E; subst. assumption.
  - destruct H as (Hb & Hs & Ho). rewrite Hb, Hs.
    split6; auto.
    + destruct Hwf as (H1 & H2 & H3). unfold tok_wf. rewrite Hb, Hs. auto.
    + discriminate.
Qed.

(* ---------------------------------------------------------------- the controller *)

Section Ctl.
  Variable CTL : addr.

  (* which token function a message call ends up executing, and with which msg.sender *)
  Definition call_route (c : call) : option (ticker * addr * tfn) :=
    match c with
    | CallCtl s (CTransfer t to v) => Some (t, CTL, TTransferFrom s to v)
    | CallCtl s (CApprove t sp v) => Some (t, CTL, TApproveO s sp v)
    | CallCtl s (CTransferFrom t from to v) => Some (t, CTL, TTransferFromO s from to v)
    | CallCtl _ (CMint t to v) => Some (t, CTL, TMint to v)
    | CallCtl _ (CBurn t from v) => Some (t, CTL, TBurn from v)
    | CallCtl _ _ => None
    | CallTok s t f => Some (t, s, f)
    end.

  Lemma call_move_route c :
    call_move c = match call_route c with
                  | Some (t, s, f) => match tk_move s f with
                                      | Some (from, to, v) => Some (t, from, to, v)
                                      | None => None
                                      end
                  | None => None
                  end.
  Proof. destruct c as [s f|s t f]; destruct f; reflexivity. Qed.

  Definition tok_empty : token := {| t_owner := CTL; t_supply := 0; t_bal := []; t_allow := [] |}.

  Lemma tok_empty_wf : tok_wf tok_empty.
  Proof.
    unfold tok_wf, tok_empty; cbn. split; [constructor|]. split; [reflexivity|apply U256_pos].
  Qed.

  Definition is_ctl_priv (c : call) : bool :=
    match c with
    | CallCtl _ (CMint _ _ _) | CallCtl _ (CBurn _ _ _) | CallCtl _ CRenounce
    | CallCtl _ (CTransferOwnership _) => true
    | _ => false
    end.
  Definition is_ctl (c : call) : bool := match c with CallCtl _ _ => true | _ => false end.

  Lemma l_only_owner_ok s st u : l_only_owner s st = Ok u -> l_owner st = s.
  Proof. unfold l_only_owner. destruct (N.eqb_spec (l_owner st) s); [auto|discriminate]. Qed.

  Lemma l_tok_call_ok st t f st' :
    l_tok_call CTL st t f = Ok st' ->
    exists k k', tget (l_toks st) t = Some k /\ tk_call CTL k f = Ok k' /\
                 st' = l_set_toks st (tset (l_toks st) t k').
  Proof.
    unfold l_tok_call. destruct (tget (l_toks st) t) as [k|]; [|discriminate].
    intro H. bind_ok H. inversion H; subst. eauto.
  Qed.

  (* every successful call is: (maybe create the empty token) then run one token function *)
  Lemma l_call_route st c st' :
    l_call CTL st c = Ok st' ->
    (is_ctl_priv c = true -> l_owner st = c_sender c) /\
    match call_route c with
    | None => l_toks st' = l_toks st
    | Some (t, s, f) =>
        exists k k',
          (tget (l_toks st) t = Some k \/
           (tget (l_toks st) t = None /\ k = tok_empty /\ (exists s0 to v, c = CallCtl s0 (CMint t to v)))) /\
          tk_call s k f = Ok k' /\
          l_toks st' = tset (l_toks st) t k' /\ l_owner st' = l_owner st /\
          (s = CTL /\ is_ctl c = true \/ s = c_sender c /\ is_ctl c = false)
    end.
  Proof.
    destruct c as [s f|s t f]; cbn [l_call call_route is_ctl_priv c_sender is_ctl].
    - destruct f; cbn [l_ctl_call]; intro H.
      + apply l_tok_call_ok in H. destruct H as (k & k' & Hg & Hc & ->). split; [discriminate|].
        exists k, k'. cbn. auto 7.
      + apply l_tok_call_ok in H. destruct H as (k & k' & Hg & Hc & ->). split; [discriminate|].
        exists k, k'. cbn. auto 7.
      + apply l_tok_call_ok in H. destruct H as (k & k' & Hg & Hc & ->). split; [discriminate|].
        exists k, k'. cbn. auto 7.
      + (* mint *)
        bind_ok H. apply l_only_owner_ok in E. split; [auto|].
        destruct (tget (l_toks st) t) as [k0|] eqn:Eg.
        * cbn [rbind] in H. apply l_tok_call_ok in H. destruct H as (k & k' & Hg & Hc & ->).
          exists k, k'. cbn. rewrite Eg in Hg. inversion Hg; subst. auto 7.
        * unfold tk_new in H. destruct (N.eqb_spec CTL 0); [discriminate|]. cbn [rbind] in H.
          apply l_tok_call_ok in H. destruct H as (k & k' & Hg & Hc & ->).
          cbn [l_set_toks l_toks l_owner] in *. rewrite tget_tset_same in Hg. inversion Hg; subst k.
          exists tok_empty, k'. rewrite tset_tset. split; [right; split; [reflexivity|split; [reflexivity|eauto]]|].
          unfold tok_empty. auto 7.
      + bind_ok H. apply l_only_owner_ok in E. split; [auto|].
        apply l_tok_call_ok in H. destruct H as (k & k' & Hg & Hc & ->).
        exists k, k'. cbn. auto 7.
      + bind_ok H. apply l_only_owner_ok in E. inversion H; subst. split; auto.
      + bind_ok H. apply l_only_owner_ok in E. destruct (newOwner =? 0); [discriminate|].
        inversion H; subst. split; auto.
      + discriminate.
    - intro H. split; [discriminate|].
      destruct (tget (l_toks st) t) as [k|] eqn:Eg; [|discriminate].
      bind_ok H. inversion H; subst. exists k, x. cbn. auto 7.
  Qed.

  (* all tokens consistent *)
  Definition led_wf (st : ledger) : Prop := forall t k, tget (l_toks st) t = Some k -> tok_wf k.

  Lemma led_wf_init d : led_wf (l_init d).
  Proof. intros t k H. discriminate H. Qed.

  Definition supplyN (st : ledger) (t : ticker) : N :=
    match supply st t with Some s => s | None => 0 end.

  Definition c_in (c : call) (t : ticker) (a : addr) : N :=
    match call_move c with Some (t', _, to, v) => if ticker_eqb t' t && (to =? a) then v else 0 | None => 0 end.
  Definition c_out (c : call) (t : ticker) (a : addr) : N :=
    match call_move c with Some (t', from, _, v) => if ticker_eqb t' t && (from =? a) then v else 0 | None => 0 end.

  (* effect of one successful call on balances and supplies *)
  Lemma l_call_effect st c st' :
    led_wf st -> l_call CTL st c = Ok st' ->
    led_wf st' /\
    (forall t a, a <> 0 -> balance st' t a + c_out c t a = balance st t a + c_in c t a) /\
    (forall t, supplyN st' t + c_in c t 0 = supplyN st t + c_out c t 0) /\
    (forall t from to v, call_move c = Some (t, from, to, v) ->
       (from <> 0 \/ to <> 0) /\ (from <> 0 -> v <= balance st t from)).
  Proof.
    intros Hwf H. apply l_call_route in H. destruct H as (_ & H).
    unfold c_in, c_out. rewrite call_move_route.
    destruct (call_route c) as [[[t s] f]|].
    - destruct H as (k & k' & Hk & Hc & Ht & Ho & _).
      assert (Hwk : tok_wf k).
      { destruct Hk as [Hk|(_ & -> & _)]; [eapply Hwf; eassumption|apply tok_empty_wf]. }
      assert (Hbal : forall a, aget (t_bal k) a = balance st t a).
      { intro a. unfold balance. destruct Hk as [->|(-> & -> & _)]; reflexivity. }
      assert (Hsup : t_supply k = supplyN st t).
      { unfold supplyN, supply. destruct Hk as [->|(-> & -> & _)]; reflexivity. }
      destruct (tk_call_effect _ _ _ _ Hwk Hc) as (Hwk' & Hfl & Hsu & _ & _ & Hle).
      unfold tk_in, tk_out in *.
      split; [|split; [|split]].
      + intros t0 k0. rewrite Ht. destruct (ticker_eqb_spec t0 t) as [->|Hne].
        * rewrite tget_tset_same. intro E; inversion E; subst; assumption.
        * rewrite tget_tset_other by assumption. apply Hwf.
      + intros t0 a Ha. unfold balance. rewrite Ht.
        destruct (ticker_eqb_spec t t0) as [<-|Hne].
        * rewrite tget_tset_same. specialize (Hfl a Ha). rewrite Hbal in Hfl. unfold balance in Hfl.
          destruct (tk_move s f) as [[[from to] v]|]; [|exact Hfl].
          rewrite ticker_eqb_refl. cbn [andb]. exact Hfl.
        * rewrite tget_tset_other by congruence.
          destruct (tk_move s f) as [[[from to] v]|]; [|reflexivity].
          destruct (ticker_eqb_spec t t0); [contradiction|]. reflexivity.
      + intros t0. unfold supplyN, supply. rewrite Ht.
        destruct (ticker_eqb_spec t t0) as [<-|Hne].
        * rewrite tget_tset_same. rewrite Hsup in Hsu. unfold supplyN, supply in Hsu.
          destruct (tk_move s f) as [[[from to] v]|]; [|exact Hsu].
          rewrite ticker_eqb_refl. cbn [andb]. exact Hsu.
        * rewrite tget_tset_other by congruence.
          destruct (tk_move s f) as [[[from to] v]|]; [|reflexivity].
          destruct (ticker_eqb_spec t t0); [contradiction|]. reflexivity.
      + intros t0 from to v E.
        pose proof (tk_call_spec _ _ _ _ Hc) as (_ & Hsp).
        destruct (tk_move s f) as [[[from1 to1] v1]|]; [|discriminate].
        inversion E; subst. destruct Hsp as (k1 & _ & _ & Hnz & _).
        split; [assumption|]. intro Hf. rewrite <- Hbal. eapply Hle; [reflexivity|assumption].
    - split; [|split; [|split]].
      + intros t k. rewrite H. apply Hwf.
      + intros t a _. unfold balance. rewrite H. reflexivity.
      + intros t. unfold supplyN, supply. rewrite H. reflexivity.
      + discriminate.
  Qed.
End Ctl.

(* ---------------------------------------------------------------- no Rust-style panic *)

Ltac np_tac :=
  repeat (cbn [rbind];
          match goal with
          | |- (if ?b then _ else _) <> Panic => destruct b
          | |- rbind ?r _ <> Panic => let E := fresh "E" in destruct r eqn:E
          | |- Ok _ <> Panic => discriminate
          | |- Err <> Panic => discriminate
          | |- match ?x with _ => _ end <> Panic => destruct x
          end).

Lemma tk_update_np k f t v : tk_update k f t v <> Panic.
Proof.
  unfold tk_update, checked_add.
  destruct (f =? 0); cbn [rbind].
  - destruct (t_supply k + v <? U256_MOD); cbn [rbind]; [|discriminate]. destruct (t =? 0); discriminate.
  - destruct (aget (t_bal k) f <? v); cbn [rbind]; [discriminate|]. destruct (t =? 0); discriminate.
Qed.

Lemma tk_transfer_np k f t v : tk_transfer k f t v <> Panic.
Proof. unfold tk_transfer. destruct (f =? 0); [discriminate|]. destruct (t =? 0); [discriminate|]. apply tk_update_np. Qed.

Lemma tk_approve_np k o s v : tk_approve k o s v <> Panic.
Proof. unfold tk_approve. destruct (o =? 0); [discriminate|]. destruct (s =? 0); discriminate. Qed.

Lemma tk_spend_np k o s v : tk_spend_allowance k o s v <> Panic.
Proof.
  unfold tk_spend_allowance. destruct (_ <? MAX_U256); [|discriminate].
  destruct (_ <? v); [discriminate|]. apply tk_approve_np.
Qed.

Lemma tk_call_np s k f : tk_call s k f <> Panic.
Proof.
  destruct f; cbn [tk_call]; unfold tk_only_owner, tk_mint, tk_burn;
    try apply tk_transfer_np; try apply tk_approve_np; try discriminate.
  - pose proof (tk_spend_np k from s value). destruct (tk_spend_allowance k from s value); cbn [rbind];
      [apply tk_transfer_np|discriminate|contradiction].
  - destruct (t_owner k =? s); cbn [rbind]; [apply tk_approve_np|discriminate].
  - destruct (t_owner k =? s); cbn [rbind]; [|discriminate].
    pose proof (tk_spend_np k from spender value). destruct (tk_spend_allowance k from spender value); cbn [rbind];
      [apply tk_transfer_np|discriminate|contradiction].
  - destruct (t_owner k =? s); cbn [rbind]; [|discriminate]. destruct (account =? 0); [discriminate|apply tk_update_np].
  - destruct (t_owner k =? s); cbn [rbind]; [|discriminate]. destruct (account =? 0); [discriminate|apply tk_update_np].
  - destruct (t_owner k =? s); cbn [rbind]; discriminate.
  - destruct (t_owner k =? s); cbn [rbind]; [|discriminate]. destruct (newOwner =? 0); discriminate.
Qed.

Lemma l_tok_call_np CTL st t f : l_tok_call CTL st t f <> Panic.
Proof.
  unfold l_tok_call. destruct (tget (l_toks st) t); [|discriminate].
  pose proof (tk_call_np CTL t0 f). destruct (tk_call CTL t0 f); cbn [rbind]; [discriminate|discriminate|contradiction].
Qed.

Lemma l_call_np CTL st c : l_call CTL st c <> Panic.
Proof.
  destruct c as [s f|s t f]; cbn [l_call].
  - destruct f; cbn [l_ctl_call]; unfold l_only_owner; try apply l_tok_call_np; try discriminate.
    + destruct (l_owner st =? s); cbn [rbind]; [|discriminate].
      destruct (tget (l_toks st) t); cbn [rbind]; [apply l_tok_call_np|].
      unfold tk_new. destruct (CTL =? 0); cbn [rbind]; [discriminate|apply l_tok_call_np].
    + destruct (l_owner st =? s); cbn [rbind]; [apply l_tok_call_np|discriminate].
    + destruct (l_owner st =? s); cbn [rbind]; discriminate.
    + destruct (l_owner st =? s); cbn [rbind]; [|discriminate]. destruct (newOwner =? 0); discriminate.
  - destruct (tget (l_toks st) t); [|discriminate].
    pose proof (tk_call_np s t0 f). destruct (tk_call s t0 f); cbn [rbind]; [discriminate|discriminate|contradiction].
Qed.

(* ---------------------------------------------------------------- histories of calls *)

Section Hist.
  Variable CTL : addr.

  Lemma l_apply_wf st c : led_wf st -> led_wf (l_apply CTL st c).
  Proof.
    intro Hwf. unfold l_apply. destruct (l_call CTL st c) eqn:E; try assumption.
    apply (l_call_effect CTL st c a Hwf E).
  Qed.

  Lemma l_run_wf cs : forall st, led_wf st -> led_wf (l_run CTL st cs).
  Proof.
    induction cs as [|c r IH]; intros st Hwf; [exact Hwf|].
    unfold l_run. cbn [fold_left]. apply IH. apply l_apply_wf. assumption.
  Qed.

  (* supply_is_sum, in terms of what can be observed *)
  Lemma supply_is_sum_wf st t s :
    led_wf st -> supply st t = Some s ->
    NoDup (holders st t) /\
    s = nsum (map (balance st t) (holders st t)) /\
    s < U256_MOD /\
    (forall a, ~ In a (holders st t) -> balance st t a = 0) /\
    (forall a, balance st t a <= s).
  Proof.
    unfold supply, holders, balance. intros Hwf H.
    destruct (tget (l_toks st) t) as [k|] eqn:E; [|discriminate]. inversion H; subst s.
    destruct (Hwf _ _ E) as (Hnd & Hs & Hlt).
    split; [assumption|]. split; [rewrite Hs; apply asum_map_aget; assumption|].
    split; [assumption|]. split; [intros a Ha; apply aget_notin; assumption|].
    intro a. rewrite Hs. apply aget_le_asum.
  Qed.

  Lemma mv_in_split t a c : c_in c t a = mv_in t a true c + mv_in t a false c.
  Proof.
    unfold c_in, mv_in. destruct (call_move c) as [[[[t' from] to] v]|]; [|reflexivity].
    destruct (ticker_eqb t' t); cbn [andb]; [|reflexivity].
    destruct (to =? a); cbn [andb]; [|reflexivity].
    destruct (from =? 0); cbn [Bool.eqb]; lia.
  Qed.

  Lemma mv_out_split t a c : c_out c t a = mv_out t a true c + mv_out t a false c.
  Proof.
    unfold c_out, mv_out. destruct (call_move c) as [[[[t' from] to] v]|]; [|reflexivity].
    destruct (ticker_eqb t' t); cbn [andb]; [|reflexivity].
    destruct (from =? a); cbn [andb]; [|reflexivity].
    destruct (to =? 0); cbn [Bool.eqb]; lia.
  Qed.

  Lemma l_run_cons st c r : l_run CTL st (c :: r) = l_run CTL (l_apply CTL st c) r.
  Proof. reflexivity. Qed.

  (* ledger_accounting over any history of calls from any consistent state *)
  Lemma accounting cs : forall st t a,
    led_wf st -> a <> 0 ->
    let tr := l_trace CTL st cs in
    balance (l_run CTL st cs) t a + withdrawn t a tr + sent t a tr
    = balance st t a + deposited t a tr + received t a tr.
  Proof.
    induction cs as [|c r IH]; intros st t a Hwf Ha; cbn zeta.
    - cbn. unfold withdrawn, sent, deposited, received. cbn. lia.
    - rewrite l_run_cons. cbn [l_trace]. unfold l_apply.
      destruct (l_call CTL st c) as [st'| |] eqn:E.
      + destruct (l_call_effect CTL st c st' Hwf E) as (Hwf' & Hfl & _ & _).
        specialize (IH st' t a Hwf' Ha). cbn zeta in IH.
        specialize (Hfl t a Ha). rewrite mv_in_split, mv_out_split in Hfl.
        unfold withdrawn, sent, deposited, received in *. cbn [map nsum fold_right] in *.
        unfold nsum in *. lia.
      + apply IH; assumption.
      + apply IH; assumption.
  Qed.

  Lemma supply_accounting cs : forall st t,
    led_wf st ->
    let tr := l_trace CTL st cs in
    supplyN (l_run CTL st cs) t + nsum (map (mv_burnt t) tr)
    = supplyN st t + nsum (map (mv_minted t) tr).
  Proof.
    induction cs as [|c r IH]; intros st t Hwf; cbn zeta.
    - cbn. lia.
    - rewrite l_run_cons. cbn [l_trace]. unfold l_apply.
      destruct (l_call CTL st c) as [st'| |] eqn:E.
      + destruct (l_call_effect CTL st c st' Hwf E) as (Hwf' & _ & Hsu & Hmv).
        specialize (IH st' t Hwf'). cbn zeta in IH. specialize (Hsu t).
        assert (Hb : c_in c t 0 = mv_burnt t c /\ c_out c t 0 = mv_minted t c).
        { unfold c_in, c_out, mv_burnt, mv_minted.
          destruct (call_move c) as [[[[t' from] to] v]|] eqn:Em; [|auto].
          destruct (Hmv _ _ _ _ eq_refl) as (Hnz & _).
          destruct (ticker_eqb t' t); cbn [andb]; [|auto].
          destruct (N.eqb_spec from 0); destruct (N.eqb_spec to 0); cbn [andb negb]; auto.
          subst. destruct Hnz; congruence. }
        destruct Hb as (Hb1 & Hb2). rewrite Hb1, Hb2 in Hsu.
        cbn [map nsum fold_right] in *. unfold nsum in *. lia.
      + apply IH; assumption.
      + apply IH; assumption.
  Qed.

  (* insufficient_fails_unchanged *)
  Lemma insufficient_fails st c t from to v :
    led_wf st -> call_move c = Some (t, from, to, v) -> from <> 0 ->
    balance st t from < v ->
    l_call CTL st c = Err /\ l_apply CTL st c = st.
  Proof.
    intros Hwf Hm Hf Hlt. unfold l_apply.
    destruct (l_call CTL st c) as [st'| |] eqn:E; [|auto|exfalso; eapply l_call_np; eassumption].
    exfalso. destruct (l_call_effect CTL st c st' Hwf E) as (_ & _ & _ & Hmv).
    destruct (Hmv _ _ _ _ Hm) as (_ & Hle). specialize (Hle Hf). lia.
  Qed.
End Hist.

(* ---------------------------------------------------------------- who can move the supply *)

Lemma tk_update_owner k f t v k' :
  tk_update k f t v = Ok k' -> t_owner k' = t_owner k.
Proof.
  unfold tk_update, checked_add. intro H.
  destruct (f =? 0).
  - destruct (t_supply k + v <? U256_MOD); cbn [rbind] in H; [|discriminate].
    destruct (t =? 0); inversion H; reflexivity.
  - destruct (aget (t_bal k) f <? v); cbn [rbind] in H; [discriminate|].
    destruct (t =? 0); inversion H; reflexivity.
Qed.

Lemma tk_update_plain k f t v k' :
  tk_update k f t v = Ok k' -> f <> 0 -> t <> 0 -> t_supply k' = t_supply k.
Proof.
  unfold tk_update. intros H Hf Ht.
  destruct (N.eqb_spec f 0); [contradiction|].
  destruct (aget (t_bal k) f <? v); cbn [rbind] in H; [discriminate|].
  destruct (N.eqb_spec t 0); [contradiction|]. inversion H; reflexivity.
Qed.

Lemma tk_call_nonpriv s k f k' :
  tk_call s k f = Ok k' -> tfn_priv f = false -> t_supply k' = t_supply k /\ t_owner k' = t_owner k.
Proof.
  intros H Hp. apply tk_call_spec in H. destruct H as (_ & H).
  destruct (tk_move s f) as [[[from to] v]|].
  - destruct H as (k1 & (Hb & Hs & Ho) & Hu & _ & Hnz). destruct (Hnz Hp) as (Hf & Ht).
    rewrite <- Hs, <- Ho. split; [eapply tk_update_plain; eassumption|eapply tk_update_owner; eassumption].
  - destruct H as (_ & Hs & Ho). auto.
Qed.

Lemma tk_call_move_owner s k f k' :
  tk_call s k f = Ok k' -> tk_move s f <> None -> t_owner k' = t_owner k.
Proof.
  intros H Hm. apply tk_call_spec in H. destruct H as (_ & H).
  destruct (tk_move s f) as [[[from to] v]|]; [|congruence].
  destruct H as (k1 & (Hb & Hs & Ho) & Hu & _). rewrite <- Ho. eapply tk_update_owner; eassumption.
Qed.

Lemma tfn_plain_not_priv f : tfn_plain f = true -> tfn_priv f = false.
Proof. destruct f; cbn; congruence. Qed.

Section Owner.
  Variable INDEXER CTL : addr.

  (* the controller belongs to the indexer address, every token to the controller *)
  Definition owners_ok (st : ledger) : Prop :=
    l_owner st = INDEXER /\ forall t k, tget (l_toks st) t = Some k -> t_owner k = CTL.

  Lemma owners_ok_init : owners_ok (l_init INDEXER).
  Proof. split; [reflexivity|]. intros t k H; discriminate H. Qed.

  (* a successful call from anyone but the two owners: a plain token function on an
     existing token *)
  Lemma user_call_route st c st' :
    owners_ok st -> c_sender c <> INDEXER -> c_sender c <> CTL ->
    l_call CTL st c = Ok st' ->
    exists t s f k k',
      call_route CTL c = Some (t, s, f) /\ tfn_priv f = false /\
      tget (l_toks st) t = Some k /\ tk_call s k f = Ok k' /\
      l_toks st' = tset (l_toks st) t k' /\ l_owner st' = l_owner st.
  Proof.
    intros (Ho & Hto) Hni Hnc H. pose proof H as H0. apply l_call_route in H. destruct H as (Hpriv & H).
    destruct c as [s0 cf|s0 t0 f0]; cbn [c_sender] in *.
    - destruct cf; cbn [call_route is_ctl_priv] in *;
        try (exfalso; apply Hni; symmetry; rewrite <- Ho; apply Hpriv; reflexivity);
        try discriminate H0.
      + destruct H as (k & k' & Hk & Hc & Ht & Hoo & _).
        destruct Hk as [Hk|(_ & _ & s1 & to1 & v1 & Hm)]; [|discriminate Hm].
        exists t, CTL, (TTransferFrom s0 to value), k, k'. cbn. auto 8.
      + destruct H as (k & k' & Hk & Hc & Ht & Hoo & _).
        destruct Hk as [Hk|(_ & _ & s1 & to1 & v1 & Hm)]; [|discriminate Hm].
        exists t, CTL, (TApproveO s0 spender value), k, k'. cbn. auto 8.
      + destruct H as (k & k' & Hk & Hc & Ht & Hoo & _).
        destruct Hk as [Hk|(_ & _ & s1 & to1 & v1 & Hm)]; [|discriminate Hm].
        exists t, CTL, (TTransferFromO s0 from to value), k, k'. cbn. auto 8.
    - cbn [call_route] in H. destruct H as (k & k' & Hk & Hc & Ht & Hoo & _).
      destruct Hk as [Hk|(_ & _ & s1 & to1 & v1 & Hm)]; [|discriminate Hm].
      exists t0, s0, f0, k, k'.
      assert (Hpl : tfn_plain f0 = true).
      { destruct (tfn_plain f0) eqn:Ep; [reflexivity|]. exfalso.
        pose proof (tk_call_spec _ _ _ _ Hc) as (Hown & _). specialize (Hown Ep).
        rewrite (Hto _ _ Hk) in Hown. congruence. }
      split; [reflexivity|]. split; [apply tfn_plain_not_priv; assumption|]. auto.
  Qed.

  Lemma user_call_keeps_supply st c st' :
    owners_ok st -> c_sender c <> INDEXER -> c_sender c <> CTL ->
    l_call CTL st c = Ok st' ->
    (forall t, supply st' t = supply st t) /\ owners_ok st' /\
    (forall t from to v, call_move c = Some (t, from, to, v) -> from <> 0 /\ to <> 0).
  Proof.
    intros Hok Hni Hnc H.
    destruct (user_call_route _ _ _ Hok Hni Hnc H) as (t & s & f & k & k' & Hr & Hp & Hk & Hc & Ht & Hoo).
    destruct Hok as (Ho & Hto).
    destruct (tk_call_nonpriv _ _ _ _ Hc Hp) as (Hs & Hw).
    split; [|split].
    - intro t0. unfold supply. rewrite Ht. destruct (ticker_eqb_spec t0 t) as [->|Hne].
      + rewrite tget_tset_same, Hk, Hs. reflexivity.
      + rewrite tget_tset_other by assumption. reflexivity.
    - split; [congruence|]. intros t0 k0. rewrite Ht. destruct (ticker_eqb_spec t0 t) as [->|Hne].
      + rewrite tget_tset_same. intro E; inversion E; subst. rewrite Hw. eapply Hto; eassumption.
      + rewrite tget_tset_other by assumption. apply Hto.
    - intros t0 from to v Hm. rewrite (call_move_route CTL), Hr in Hm.
      pose proof (tk_call_spec _ _ _ _ Hc) as (_ & Hsp).
      destruct (tk_move s f) as [[[from1 to1] v1]|]; [|discriminate].
      inversion Hm; subst. destruct Hsp as (k1 & _ & _ & _ & Hnz). apply Hnz; assumption.
  Qed.

  (* the bridge's own calls keep the owners *)
  Lemma bridge_call_keeps_owners st c st' :
    owners_ok st ->
    (exists t a v, c = CallCtl INDEXER (CMint t a v) \/ c = CallCtl INDEXER (CBurn t a v)) ->
    l_call CTL st c = Ok st' -> owners_ok st'.
  Proof.
    intros (Ho & Hto) (t & a & v & Hc) H. apply l_call_route in H. destruct H as (_ & H).
    assert (Hr : exists f, call_route CTL c = Some (t, CTL, f) /\ tk_move CTL f <> None).
    { destruct Hc as [->| ->]; cbn; eexists; (split; [reflexivity|cbn; discriminate]). }
    destruct Hr as (f & Hr & Hm). rewrite Hr in H.
    destruct H as (k & k' & Hk & Hcall & Ht & Hoo & _).
    pose proof (tk_call_move_owner _ _ _ _ Hcall Hm) as Hw.
    split; [congruence|]. intros t0 k0. rewrite Ht. destruct (ticker_eqb_spec t0 t) as [->|Hne].
    - rewrite tget_tset_same. intro E; inversion E; subst. rewrite Hw.
      destruct Hk as [Hk|(_ & -> & _)]; [eapply Hto; eassumption|reflexivity].
    - rewrite tget_tset_other by assumption. apply Hto.
  Qed.
End Owner.

(* ---------------------------------------------------------------- the glue *)

Section GlueP.
  Variable H_addr : list N -> addr.
  Variable lower : list N -> ticker.
  Variable INDEXER CTL : addr.

  Notation opc := (op_call H_addr lower INDEXER).
  Notation grun := (g_run H_addr lower INDEXER CTL).
  Notation gtrace := (g_trace H_addr lower INDEXER CTL).

  (* user_sender_not_indexer (and not the controller): the sender of a message call that
     does not come from the bridge itself is a pkscript-derived, signature-recovered or
     created-contract address *)
  Definition user_ok (o : op) : Prop :=
    match o with OUser c => c_sender c <> INDEXER /\ c_sender c <> CTL | _ => True end.

  Definition g_inv (st : ledger) : Prop := led_wf st /\ owners_ok INDEXER CTL st.

  Lemma g_inv_init : g_inv (g_init INDEXER).
  Proof. split; [apply led_wf_init|apply owners_ok_init]. Qed.

  Lemma g_step_inv st o st' :
    g_inv st -> user_ok o -> l_call CTL st (opc o) = Ok st' -> g_inv st'.
  Proof.
    intros (Hwf & Hok) Hu H. split.
    - apply (l_call_effect CTL st _ st' Hwf H).
    - destruct o as [p t v|p t v|c]; cbn [op_call] in H.
      + eapply bridge_call_keeps_owners; [exact Hok| |exact H]. unfold deposit_call. eauto.
      + eapply bridge_call_keeps_owners; [exact Hok| |exact H]. unfold withdraw_call. eauto.
      + destruct Hu as (H1 & H2). apply (user_call_keeps_supply INDEXER CTL st c st' Hok H1 H2 H).
  Qed.

  Lemma g_apply_inv st o : g_inv st -> user_ok o -> g_inv (l_apply CTL st (opc o)).
  Proof.
    intros Hi Hu. unfold l_apply. destruct (l_call CTL st (opc o)) eqn:E; try assumption.
    eapply g_step_inv; eassumption.
  Qed.

  Lemma g_run_cons st o r : grun st (o :: r) = grun (l_apply CTL st (opc o)) r.
  Proof. reflexivity. Qed.

  Lemma g_run_inv os : forall st, g_inv st -> Forall user_ok os -> g_inv (grun st os).
  Proof.
    induction os as [|o r IH]; intros st Hi Hu; [exact Hi|].
    inversion Hu; subst. rewrite g_run_cons. apply IH; [apply g_apply_inv|]; assumption.
  Qed.

  Lemma g_run_app st os o : grun st (os ++ [o]) = l_apply CTL (grun st os) (opc o).
  Proof. unfold g_run, l_run. rewrite map_app, fold_left_app. reflexivity. Qed.

  (* only_owner_moves_supply *)
  Lemma user_op_keeps_supply os o :
    Forall user_ok os -> user_ok o -> is_user o = true ->
    forall t, supply (grun (g_init INDEXER) (os ++ [o])) t = supply (grun (g_init INDEXER) os) t.
  Proof.
    intros Hos Ho Hu t. rewrite g_run_app.
    pose proof (g_run_inv os _ g_inv_init Hos) as (Hwf & Hok).
    destruct o as [| |c]; try discriminate. cbn [op_call]. unfold l_apply.
    destruct (l_call CTL (grun (g_init INDEXER) os) c) eqn:E; try reflexivity.
    destruct Ho as (H1 & H2).
    apply (user_call_keeps_supply INDEXER CTL _ c a Hok H1 H2 E).
  Qed.

  Lemma ticker_eqb_sym a b : ticker_eqb a b = ticker_eqb b a.
  Proof. destruct (ticker_eqb_spec a b); destruct (ticker_eqb_spec b a); congruence. Qed.

  (* what one successful op moves, in the op's own terms *)
  Lemma g_step_sums st o st' :
    g_inv st -> user_ok o -> l_call CTL st (opc o) = Ok st' ->
    forall t,
      (forall a, a <> 0 ->
         c_in (opc o) t a = op_dep_to H_addr lower t a o + op_recv t a o /\
         c_out (opc o) t a = op_wd_from H_addr lower t a o + op_sent t a o) /\
      c_out (opc o) t 0 = op_dep lower t o /\ c_in (opc o) t 0 = op_wd lower t o.
  Proof.
    intros (Hwf & Hok) Hu H t.
    destruct (l_call_effect CTL st _ st' Hwf H) as (_ & _ & _ & Hmv).
    destruct o as [p t' v|p t' v|c]; cbn [op_call] in *;
      unfold c_in, c_out, op_dep_to, op_wd_from, op_recv, op_sent, op_dep, op_wd, mv_in, mv_out.
    - unfold deposit_call in *. cbn [call_move] in *.
      destruct (Hmv _ _ _ _ eq_refl) as (Hnz & _).
      assert (Hto : H_addr p <> 0) by (destruct Hnz; congruence).
      split; [|split].
      + intros a Ha. destruct (ticker_eqb (lower t') t); cbn [andb]; [|lia].
        destruct (N.eqb_spec 0 a); [congruence|]. split; lia.
      + destruct (ticker_eqb (lower t') t); reflexivity.
      + destruct (N.eqb_spec (H_addr p) 0); [contradiction|]. rewrite andb_false_r. reflexivity.
    - unfold withdraw_call in *. cbn [call_move] in *.
      destruct (Hmv _ _ _ _ eq_refl) as (Hnz & _).
      assert (Hfrom : H_addr p <> 0) by (destruct Hnz; congruence).
      split; [|split].
      + intros a Ha. destruct (ticker_eqb (lower t') t); cbn [andb]; [|lia].
        destruct (N.eqb_spec 0 a); [congruence|]. split; lia.
      + destruct (N.eqb_spec (H_addr p) 0); [contradiction|]. rewrite andb_false_r. reflexivity.
      + destruct (ticker_eqb (lower t') t); reflexivity.
    - destruct Hu as (H1 & H2).
      destruct (user_call_keeps_supply INDEXER CTL st c st' Hok H1 H2 H) as (_ & _ & Hnz).
      destruct (call_move c) as [[[[t0 from] to] v]|]; [|repeat split; reflexivity].
      destruct (Hnz _ _ _ _ eq_refl) as (Hf & Ht).
      destruct (N.eqb_spec from 0); [contradiction|]. destruct (N.eqb_spec to 0); [contradiction|].
      cbn [Bool.eqb].
      split; [|split].
      + intros a Ha. split.
        * destruct (ticker_eqb t0 t); destruct (to =? a); cbn [andb]; lia.
        * destruct (ticker_eqb t0 t); destruct (from =? a); cbn [andb]; lia.
      + rewrite andb_false_r. reflexivity.
      + rewrite andb_false_r. reflexivity.
  Qed.

  (* ledger_accounting for pkscripts, and the supply, over any history of ops *)
  Lemma g_accounting os : forall st,
    g_inv st -> Forall user_ok os ->
    forall t,
    let tr := gtrace st os in
    (forall a, a <> 0 ->
       balance (grun st os) t a
       + nsum (map (op_wd_from H_addr lower t a) tr) + nsum (map (op_sent t a) tr)
       = balance st t a
         + nsum (map (op_dep_to H_addr lower t a) tr) + nsum (map (op_recv t a) tr)) /\
    supplyN (grun st os) t + nsum (map (op_wd lower t) tr)
    = supplyN st t + nsum (map (op_dep lower t) tr).
  Proof.
    induction os as [|o r IH]; intros st Hi Hu t; cbn zeta.
    - cbn. split; [intros; lia|lia].
    - inversion Hu as [|? ? Ho Hr]; subst. rewrite g_run_cons. cbn [g_trace]. unfold l_apply.
      destruct (l_call CTL st (opc o)) as [st'| |] eqn:E; try (apply IH; assumption).
      pose proof (g_step_inv _ _ _ Hi Ho E) as Hi'.
      destruct (IH st' Hi' Hr t) as (IHa & IHs). cbn zeta in IHa, IHs.
      destruct (g_step_sums _ _ _ Hi Ho E t) as (Ha & Hd & Hw).
      destruct Hi as (Hwf & _).
      destruct (l_call_effect CTL st _ st' Hwf E) as (_ & Hfl & Hsu & _).
      cbn [map nsum fold_right]. unfold nsum in *. split.
      + intros a Hne. specialize (IHa a Hne). specialize (Hfl t a Hne).
        destruct (Ha a Hne) as (Hin & Hout). lia.
      + specialize (Hsu t). lia.
  Qed.
End GlueP.

(* ---------------------------------------------------------------- tickers: only the lower-casing counts *)

Section CaseP.
  Variable H_addr : list N -> addr.
  Variable lower : list N -> ticker.
  Variable INDEXER CTL : addr.

  Lemma glue_balance_is_balance st p t :
    glue_balance H_addr lower st p t = balance st (lower t) (H_addr p).
  Proof.
    unfold glue_balance, balance, l_query. destruct (tget (l_toks st) (lower t)); reflexivity.
  Qed.

  Lemma case_insensitive_calls t1 t2 :
    lower t1 = lower t2 ->
    (forall p v, deposit_call H_addr lower INDEXER p t1 v = deposit_call H_addr lower INDEXER p t2 v) /\
    (forall p v, withdraw_call H_addr lower INDEXER p t1 v = withdraw_call H_addr lower INDEXER p t2 v) /\
    (forall st p, glue_balance H_addr lower st p t1 = glue_balance H_addr lower st p t2).
  Proof.
    intro E. unfold deposit_call, withdraw_call, glue_balance. rewrite E. repeat split.
  Qed.

  Lemma deposit_then_balance st st' p t1 t2 v :
    led_wf st -> lower t1 = lower t2 ->
    l_call CTL st (deposit_call H_addr lower INDEXER p t1 v) = Ok st' ->
    glue_balance H_addr lower st' p t2 = glue_balance H_addr lower st p t2 + v.
  Proof.
    intros Hwf E H. rewrite !glue_balance_is_balance, <- E.
    destruct (l_call_effect CTL st _ st' Hwf H) as (_ & Hfl & _ & Hmv).
    unfold deposit_call in *. cbn [call_move] in Hmv.
    destruct (Hmv _ _ _ _ eq_refl) as (Hnz & _).
    assert (Hto : H_addr p <> 0) by (destruct Hnz; congruence).
    specialize (Hfl (lower t1) (H_addr p) Hto). unfold c_in, c_out in Hfl. cbn [call_move] in Hfl.
    rewrite ticker_eqb_refl, N.eqb_refl in Hfl. cbn [andb] in Hfl.
    destruct (N.eqb_spec 0 (H_addr p)); [congruence|]. lia.
  Qed.
End CaseP.

(* ---------------------------------------------------------------- a finding: controller.transfer *)

(* BRC20_Controller.transfer calls the 3-argument transferFrom of the token, in which the
   spender is msg.sender = the controller; so it spends the allowance the holder gave to the
   controller's own address, and fails without one (the 4-argument overload with
   spender = owner, for which allowance() answers type(uint256).max, was clearly intended). *)
Lemma controller_transfer_needs_allowance CTL st t k s to v :
  tget (l_toks st) t = Some k -> s <> CTL ->
  alget (t_allow k) s CTL < v -> alget (t_allow k) s CTL < MAX_U256 ->
  l_call CTL st (CallCtl s (CTransfer t to v)) = Err.
Proof.
  intros Hk Hs Hlt Hmax. cbn [l_call l_ctl_call]. unfold l_tok_call. rewrite Hk.
  cbn [tk_call]. unfold tk_spend_allowance, tk_allowance.
  destruct (N.eqb_spec CTL s); [congruence|].
  destruct (N.ltb_spec (alget (t_allow k) s CTL) MAX_U256); [|lia].
  destruct (N.ltb_spec (alget (t_allow k) s CTL) v); [|lia]. reflexivity.
Qed.
