(* What an ACCEPTED correspondence case means (C07).  The checker [Tie07.l_check] replays a
   recorded engine history (transactions with their receipt statuses, reads with the engine's
   answers, block boundaries, reorgs) and returns [None] when every item agrees with the
   model.  This file proves that its state bookkeeping IS the snapshot-stack ledger of
   Model/LedgerChain.v: if the checker accepts a history followed by a brc20_balance read,
   the answer the ENGINE gave to that read is the model's balance after [c_run] of the
   history's operations - the quantity the across-reorgs theorems of Props/C07.v speak about.
   So each accepted case instantiates those theorems with the engine's own answers. *)
From Brc.Model Require Import Base Ledger LedgerChain Tie07.
From Brc.Proofs Require Import LedgerP LedgerChainP.

Section Tie07P.
  Variable INDEXER CTL : addr.
  Variable addrs : list N.

  Notation kitem := LedgerChain.item.
  Notation titem := Tie07.item.

  (* the state-changing content of a recorded item *)
  Definition k_of (it : titem) : list kitem :=
    match it with
    | ICall c _ => [KOp (OUser c)]
    | IDeposit a t v _ => [KOp (ODeposit [a] t v)]
    | IWithdraw a t v _ => [KOp (OWithdraw [a] t v)]
    | IBalance _ _ _ | IQuery _ _ | ITickerAddr _ _ => []
    | IBlock => [KBlock]
    | IReorg d => [KReorg (N.to_nat d)]
    end.
  Definition kitems (its : list titem) : list kitem := flat_map k_of its.

  Notation kstep := (c_step H_tie lower_bytes INDEXER CTL).
  Notation check := (l_check INDEXER CTL addrs).

  Lemma tx_step_some st c ok st' : tx_step CTL st c ok = Some st' -> st' = l_apply CTL st c.
  Proof.
    unfold tx_step. destruct (call_ok c && Bool.eqb (is_ok (l_call CTL st c)) ok); [|discriminate].
    intros H. injection H as <-. reflexivity.
  Qed.

  Theorem accepted_case_reads_the_chain_ledger its : forall cur snaps i a t ans,
    check cur snaps (its ++ [IBalance a t ans]) i = None ->
    ans = glue_balance H_tie lower_bytes (fst (fold_left kstep (kitems its) (cur, snaps))) [a] t.
  Proof.
    induction its as [|it r IH]; intros cur snaps i a t ans Hc.
    - cbn [app l_check] in Hc. cbn [kitems flat_map fold_left fst].
      destruct (N.eqb_spec (glue_balance H_tie lower_bytes cur [a] t) ans) as [E|E]; [symmetry; exact E|discriminate].
    - cbn [app] in Hc. unfold kitems. cbn [flat_map]. rewrite fold_left_app. fold (kitems r).
      destruct it as [c ok|a0 t0 v ok|a0 t0 v ok|a0 t0 ans0|q ans0|t0 ans0| |d];
        cbn [l_check] in Hc; cbn [k_of fold_left LedgerChain.c_step fst snd op_call].
      + destruct (tx_step CTL cur c ok) as [st'|] eqn:E; [|discriminate].
        rewrite <- (tx_step_some _ _ _ _ E). exact (IH _ _ _ _ _ _ Hc).
      + destruct (bytes_ok t0); [|discriminate].
        destruct (tx_step CTL cur (dep_call INDEXER a0 t0 v) ok) as [st'|] eqn:E; [|discriminate].
        apply tx_step_some in E. unfold dep_call in E. rewrite <- E. exact (IH _ _ _ _ _ _ Hc).
      + destruct (bytes_ok t0); [|discriminate].
        destruct (tx_step CTL cur (wd_call INDEXER a0 t0 v) ok) as [st'|] eqn:E; [|discriminate].
        apply tx_step_some in E. unfold wd_call in E. rewrite <- E. exact (IH _ _ _ _ _ _ Hc).
      + destruct (glue_balance H_tie lower_bytes cur [a0] t0 =? ans0); [|discriminate]. exact (IH _ _ _ _ _ _ Hc).
      + destruct (res_opt_eqb (l_query cur q) ans0); [|discriminate]. exact (IH _ _ _ _ _ _ Hc).
      + destruct (ticker_addr addrs cur t0 =? ans0); [|discriminate]. exact (IH _ _ _ _ _ _ Hc).
      + exact (IH _ _ _ _ _ _ Hc).
      + destruct (skipn (N.to_nat d) snaps) as [|st rest]; [discriminate|]. exact (IH _ _ _ _ _ _ Hc).
  Qed.

  (* a case accepted as a whole is accepted up to every read inside it *)
  Lemma accepted_prefix l1 : forall cur snaps i l2,
    check cur snaps (l1 ++ l2) i = None -> check cur snaps l1 i = None.
  Proof.
    induction l1 as [|it r IH]; intros cur snaps i l2 Hc; [reflexivity|].
    cbn [app] in Hc.
    destruct it as [c ok|a0 t0 v ok|a0 t0 v ok|a0 t0 ans0|q ans0|t0 ans0| |d];
      cbn [l_check] in Hc |- *.
    - destruct (tx_step CTL cur c ok); [exact (IH _ _ _ _ Hc)|discriminate].
    - destruct (bytes_ok t0); [|discriminate].
      destruct (tx_step CTL cur (dep_call INDEXER a0 t0 v) ok); [exact (IH _ _ _ _ Hc)|discriminate].
    - destruct (bytes_ok t0); [|discriminate].
      destruct (tx_step CTL cur (wd_call INDEXER a0 t0 v) ok); [exact (IH _ _ _ _ Hc)|discriminate].
    - destruct (glue_balance H_tie lower_bytes cur [a0] t0 =? ans0); [exact (IH _ _ _ _ Hc)|discriminate].
    - destruct (res_opt_eqb (l_query cur q) ans0); [exact (IH _ _ _ _ Hc)|discriminate].
    - destruct (ticker_addr addrs cur t0 =? ans0); [exact (IH _ _ _ _ Hc)|discriminate].
    - exact (IH _ _ _ _ Hc).
    - destruct (skipn (N.to_nat d) snaps) as [|st rest]; [discriminate|exact (IH _ _ _ _ Hc)].
  Qed.

  (* for a whole case (it starts right after brc20_initialise) *)
  Theorem accepted_case_reads_c_run its a t ans :
    check (g_init INDEXER) [g_init INDEXER] (its ++ [IBalance a t ans]) 0 = None ->
    ans = glue_balance H_tie lower_bytes (fst (c_run H_tie lower_bytes INDEXER CTL (kitems its))) [a] t.
  Proof. exact (accepted_case_reads_the_chain_ledger its _ _ 0 a t ans). Qed.

  (* every brc20_balance answer anywhere inside an accepted case *)
  Theorem accepted_case_every_balance_read its a t ans rest :
    check (g_init INDEXER) [g_init INDEXER] (its ++ IBalance a t ans :: rest) 0 = None ->
    ans = glue_balance H_tie lower_bytes (fst (c_run H_tie lower_bytes INDEXER CTL (kitems its))) [a] t.
  Proof.
    intros Hc. apply accepted_case_reads_c_run.
    apply (accepted_prefix (its ++ [IBalance a t ans]) _ _ 0 rest).
    rewrite <- app_assoc. exact Hc.
  Qed.
End Tie07P.
