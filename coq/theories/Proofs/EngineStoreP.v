(* The engine protocol guarantees the hypothesis of the store theorems: every history of
   engine calls, whatever the oracles answer and whatever keys / values are written, issues a
   store trace that satisfies [wf_run]. *)
From Brc.Model Require Import Base Table Store Engine EngineStore.
From Brc.Proofs Require Import EngineP.

Arguments N.add : simpl never.
Arguments N.sub : simpl never.
Arguments N.leb : simpl never.
Arguments N.ltb : simpl never.
Arguments N.eqb : simpl never.
Arguments N.max : simpl never.

Section EngineStoreP.
  Variables W FN FB IDX : N.
  Notation e_step := (e_step W FN FB IDX).
  Notation wf_run := (wf_run W).
  Notation wf_step := (wf_step W).

  (* the block number the next write must carry *)
  Definition nextb (st : wfst) : N := match w_h st with Some h => h + 1 | None => 0 end.

  Lemma wf_run_app st t1 t2 :
    wf_run st (t1 ++ t2) = match wf_run st t1 with Some st1 => wf_run st1 t2 | None => None end.
  Proof.
    revert st. induction t1 as [|o t1 IH]; intros st; cbn [app Store.wf_run]; [reflexivity|].
    destruct (wf_step st o); [apply IH|reflexivity].
  Qed.

  Definition dirtied (st : wfst) : wfst := mkWf (w_h st) (w_m st) (w_hc st) true (w_open st).

  Lemma wf_svs st tr :
    all_sv_at (nextb st) tr ->
    wf_run st tr = Some (match tr with [] => st | _ => dirtied st end).
  Proof.
    intros Hall.
    assert (G : forall tr st0, w_h st0 = w_h st -> all_sv_at (nextb st) tr ->
                wf_run st0 tr = Some (match tr with [] => st0 | _ => dirtied st0 end)).
    { clear tr Hall. induction tr as [|o tr IH]; intros st0 Hh Hall; [reflexivity|].
      inversion Hall as [|? ? (k & v & ->) Hall']; subst. cbn [Store.wf_run Store.wf_step].
      assert (Hok : stamp_ok_for st0 (nextb st) = true).
      { unfold stamp_ok_for, nextb. rewrite Hh. destruct (w_h st); apply N.eqb_refl. }
      rewrite Hok. rewrite (IH (mkWf (w_h st0) (w_m st0) (w_hc st0) true (w_open st0)) Hh Hall').
      destruct tr; reflexivity. }
    apply G; [reflexivity|assumption].
  Qed.

  Lemma wf_fin st n tr :
    w_open st = None -> n = nextb st -> fin_trace n tr ->
    wf_run st tr = Some (mkWf (Some n) (N.max (w_m st) n) (w_hc st) false None).
  Proof.
    intros Hopen Hn (b1 & b2 & us & b0 & k & v & Hus & ->).
    cbn [app Store.wf_run Store.wf_step].
    assert (Hrow : row_ok_for st n = true).
    { unfold row_ok_for. rewrite Hopen. unfold nextb in Hn. destruct (w_h st); subst; [apply N.eqb_refl|reflexivity]. }
    rewrite Hrow.
    set (st1 := mkWf (w_h st) (w_m st) (w_hc st) true (Some n)).
    assert (Hrow1 : row_ok_for st1 n = true).
    { unfold row_ok_for, st1. cbn. unfold nextb in Hn. destruct (w_h st); subst; apply N.eqb_refl. }
    rewrite Hrow1. fold st1.
    change (mkWf (w_h st1) (w_m st1) (w_hc st1) true (Some n)) with st1.
    rewrite wf_run_app.
    assert (Hn1 : n = nextb st1) by (unfold nextb, st1; cbn; exact Hn).
    rewrite Hn1 in Hus. rewrite (wf_svs st1 us Hus).
    assert (Hd : (match us with [] => st1 | _ => dirtied st1 end) = st1) by (destruct us; reflexivity).
    rewrite Hd. cbn [Store.wf_run Store.wf_step]. rewrite Hrow1.
    change (mkWf (w_h st1) (w_m st1) (w_hc st1) true (Some n)) with st1.
    assert (Hst : stamp_ok_for st1 n = true).
    { unfold stamp_ok_for, st1. cbn. unfold nextb in Hn. destruct (w_h st); subst; apply N.eqb_refl. }
    rewrite Hst. cbn [w_h w_m w_hc w_dirty w_open st1].
    assert (Hrow2 : row_ok_for (mkWf (w_h st) (w_m st) (w_hc st) true (Some n)) n = true) by exact Hrow1.
    rewrite Hrow2. reflexivity.
  Qed.

  (* ---------- engine state vs protocol state ---------- *)

  Record Rel (g : eng) (st : wfst) : Prop := {
    rl_h : w_h st = g_h g;
    rl_m : w_m st = g_maxb g;
    rl_open : w_open st = None;
    rl_dirty : w_dirty st = true -> g_wait g <> 0 \/ g_dirty g = true;
    rl_blocks : forall h k, g_h g = Some h -> k <= h -> block_exists g k = true;
    rl_first : g_h g = None -> g_blocks g = [];
    rl_le : forall h, g_h g = Some h -> h <= g_maxb g;
  }.

  Lemma Rel_init : Rel g_init wf_init.
  Proof. constructor; cbn; try discriminate; try reflexivity. Qed.

  Lemma next_h_nextb g st : Rel g st -> next_h g = nextb st.
  Proof.
    intros R. unfold next_h, height, nextb. rewrite (rl_h _ _ R). destruct (g_h g) as [h|] eqn:E.
    - destruct (N.eqb_spec h 0) as [->|Hne]; [|reflexivity].
      rewrite (rl_blocks _ _ R 0 0 E ltac:(lia)). reflexivity.
    - rewrite N.eqb_refl. unfold block_exists. rewrite (rl_first _ _ R E). reflexivity.
  Qed.

  Lemma block_exists_cons g n h k :
    block_exists (mkEng (Some n) (N.max (g_maxb g) n) 0 0 0 ((n, h) :: g_blocks g) (g_nonce g)
                        (filter (fun p => n <? snd p + FB) (g_pool g)) false (g_log g)) k
    = (n =? k) || block_exists g k.
  Proof. reflexivity. Qed.

  (* finalise at the next height keeps the relation *)
  Lemma Rel_finalise g st ts h cnt g' :
    Rel g st -> finalise FB g ts h (next_h g) cnt = Some g' ->
    Rel g' (mkWf (Some (next_h g)) (N.max (w_m st) (next_h g)) (w_hc st) false None).
  Proof.
    intros R Hf. unfold finalise in Hf. destruct (validate_next g cnt h (next_h g) ts); [|discriminate].
    injection Hf as <-. pose proof (next_h_nextb g st R) as Hn.
    constructor; cbn [w_h w_m w_open w_dirty g_h g_maxb g_wait g_dirty g_blocks].
    - reflexivity.
    - rewrite (rl_m _ _ R). reflexivity.
    - reflexivity.
    - discriminate.
    - intros h0 k [= <-] Hk. rewrite block_exists_cons.
      destruct (N.eqb_spec (next_h g) k); [reflexivity|]. cbn [orb].
      unfold nextb in Hn. rewrite (rl_h _ _ R) in Hn. destruct (g_h g) as [hh|] eqn:E.
      + apply (rl_blocks _ _ R hh k E). lia.
      + lia.
    - discriminate.
    - intros h0 [= <-]. lia.
  Qed.

  Definition clear_params_ok (st : wfst) (c : call) : Prop :=
    match c with
    | CClear hc blocks _ _ =>
        hc = w_hc st /\
        (forall h k, hc = Some h -> k <= h -> existsb (fun b => fst b =? k) blocks = true) /\
        (hc = None -> blocks = []) /\ (forall h, hc = Some h -> h <= w_m st)
    | _ => True
    end.

  (* One call: if it is rejected it issues nothing; if it is accepted, any trace of the shape
     [emits] allows is well-formed from the current protocol state, and the relation holds
     again afterwards. *)
  Theorem call_trace_wf g st c tr :
    Rel g st -> clear_params_ok st c ->
    (snd (e_step g c) = ORejected -> tr = []) ->
    (snd (e_step g c) <> ORejected -> emits W FN g c tr) ->
    exists st', wf_run st tr = Some st' /\ Rel (fst (e_step g c)) st'.
  Proof.
    intros R Hcp Hrej Hacc.
    destruct (snd (e_step g c)) as [|receipts|] eqn:Eo.
    - (* rejected *)
      rewrite (Hrej eq_refl). exists st. split; [reflexivity|].
      rewrite (reject_no_effect W FN FB IDX g c Eo). exact R.
    - (* accepted *)
      specialize (Hacc ltac:(discriminate)). pose proof (next_h_nextb g st R) as Hn.
      destruct c as [a idx ts h v|d idx ts h vs|ts h cnt|cnt ts|h ts hg| |hc bl nn pl|n nn pl|];
        cbn [emits] in Hacc; cbn [Engine.e_step] in *.
      + (* CTx *)
        rewrite Hn in Hacc. rewrite (wf_svs st tr Hacc). eexists. split; [reflexivity|].
        destruct (exec_tx g a (nonce_of g a) idx ts (resolve_hash h (next_h g)) (next_h g) v) as [g1|] eqn:He; [|discriminate].
        destruct (exec_tx_fields _ _ _ _ _ _ _ _ _ He) as (_ & Hw & _ & _ & Hb & Hh & _ & Hm & _).
        cbn [fst]. destruct R as [R1 R2 R3 R4 R5 R6 R7].
        constructor; destruct tr; cbn [dirtied w_h w_m w_open w_dirty]; try congruence;
          try (intros; left; lia);
          try (intros h0 k0 E Hk; unfold block_exists; rewrite Hb; apply (R5 h0 k0); congruence);
          try (intros E; rewrite Hb; apply R6; congruence);
          try (intros h0 E; rewrite Hm; apply R7; congruence).
      + (* CRaw *)
        destruct d as [| |a n]; cbn [fst snd] in *.
        * discriminate.
        * subst tr. exists st. split; [reflexivity|exact R].
        * destruct (N.eqb_spec n (nonce_of g a)) as [Hnn|Hnn]; cbn [orb] in Hacc.
          -- (* executed *)
             rewrite Hn in Hacc. rewrite (wf_svs st tr Hacc). eexists. split; [reflexivity|].
             destruct (exec_tx g a n idx ts (resolve_hash h (next_h g)) (next_h g) (hd true vs)) as [g1|] eqn:He; [|discriminate].
             destruct (exec_tx_fields _ _ _ _ _ _ _ _ _ He) as (_ & Hw1 & _ & _ & Hb1 & Hh1 & _ & Hm1 & _).
             pose proof (validate_after_exec _ _ _ _ _ _ _ _ _ He) as Hv.
             destruct (drain_ok FB (S (length (g_pool g1))) g1 a (nonce_of g a + 1) (idx + 1) ts
                         (resolve_hash h (next_h g)) (next_h g) (tl vs) 1 Hv) as (g' & k' & Hd & Hk & Hw & Hb & Hh & Hm).
             rewrite Hd. cbn [fst]. destruct R as [R1 R2 R3 R4 R5 R6 R7].
             constructor; destruct tr; cbn [dirtied w_h w_m w_open w_dirty]; try congruence;
               try (intros; left; lia);
               try (intros h0 k0 E Hk0; unfold block_exists; rewrite Hb, Hb1; apply (R5 h0 k0); congruence);
               try (intros E; rewrite Hb, Hb1; apply R6; congruence);
               try (intros h0 E; rewrite Hm, Hm1; apply R7; congruence).
          -- destruct ((nonce_of g a <? n) && (n <? nonce_of g a + FN)) eqn:Hpark.
             ++ (* parked *)
                rewrite Hn in Hacc. rewrite (wf_svs st tr Hacc). eexists. split; [reflexivity|].
                cbn [fst]. destruct R as [R1 R2 R3 R4 R5 R6 R7].
                constructor; destruct tr; cbn [dirtied w_h w_m w_open w_dirty g_h g_maxb g_wait g_dirty g_blocks];
                  try assumption; try (intros; right; reflexivity).
             ++ (* ignored *)
                subst tr. exists st. split; [reflexivity|exact R].
      + (* CFinalise *)
        destruct (finalise FB g ts (resolve_hash h (next_h g)) (next_h g) cnt) as [g1|] eqn:Hf; [|discriminate].
        rewrite (wf_fin st (next_h g) tr (rl_open _ _ R) Hn Hacc). eexists. split; [reflexivity|].
        apply (Rel_finalise g st _ _ _ _ R Hf).
      + (* CMine *)
        destruct (negb (g_wait g =? 0) || g_dirty g) eqn:Hopen; [discriminate|].
        destruct (mine FB (N.to_nat cnt) g (next_h g) ts) as [g1|] eqn:Hmi; [|discriminate].
        cbn [fst].
        assert (G : forall f g0 st0 tr0 g1', Rel g0 st0 -> mine_trace f (next_h g0) tr0 ->
                    mine FB f g0 (next_h g0) ts = Some g1' ->
                    exists st', wf_run st0 tr0 = Some st' /\ Rel g1' st').
        { clear. induction f as [|f IH]; intros g0 st0 tr0 g1' R0 Hm0 Hmine.
          - inversion Hm0; subst. cbn in Hmine. injection Hmine as <-. exists st0. split; [reflexivity|exact R0].
          - inversion Hm0 as [|? ? t1 t2 Hf Hrest]; subst. cbn [mine] in Hmine.
            destruct (finalise FB g0 ts (gen_hash (next_h g0)) (next_h g0) 0) as [g2|] eqn:Hfin; [|discriminate].
            pose proof (Rel_finalise g0 st0 _ _ _ _ R0 Hfin) as R2.
            rewrite wf_run_app, (wf_fin st0 (next_h g0) t1 (rl_open _ _ R0) (next_h_nextb g0 st0 R0) Hf).
            assert (Hnext : next_h g2 = next_h g0 + 1).
            { rewrite (next_h_nextb g2 _ R2). reflexivity. }
            rewrite <- Hnext in Hrest, Hmine.
            apply (IH g2 _ t2 g1' R2 Hrest Hmine). }
        apply (G (N.to_nat cnt) g st tr g1 R Hacc Hmi).
      + (* CInit *)
        destruct (find (fun b => fst b =? hg) (g_blocks g)) as [b|] eqn:Hfind.
        * (* genesis exists: nothing happens *)
          assert (Hbe : block_exists g hg = true).
          { unfold block_exists. apply existsb_exists. apply find_some in Hfind. exists b. exact Hfind. }
          rewrite Hbe in Hacc. subst tr. destruct (snd b =? resolve_hash h hg); [|discriminate].
          exists st. split; [reflexivity|exact R].
        * assert (Hbe : block_exists g hg = false).
          { unfold block_exists. apply Bool.not_true_is_false. intros E. apply existsb_exists in E as (x & Hx & Hxe).
            pose proof (find_none _ _ Hfind x Hx) as Hfn. cbn beta in Hfn. rewrite Hxe in Hfn. discriminate. }
          rewrite Hbe in Hacc. destruct Hacc as (t1 & t2 & Ht1 & Ht2 & ->).
          destruct (negb (hg =? next_h g) || negb (nonce_of g IDX =? 0)) eqn:Hguard; [discriminate|].
          apply Bool.orb_false_elim in Hguard as [Hg1 _]. apply Bool.negb_false_iff in Hg1. apply N.eqb_eq in Hg1. subst hg.
          destruct (exec_tx g IDX (nonce_of g IDX) 0 ts (resolve_hash h (next_h g)) (next_h g) true) as [g1|] eqn:He; [|discriminate].
          destruct (finalise FB g1 ts (resolve_hash h (next_h g)) (next_h g) 1) as [g2|] eqn:Hf; [|discriminate].
          cbn [fst].
          destruct (exec_tx_fields _ _ _ _ _ _ _ _ _ He) as (_ & Hw & _ & _ & Hb & Hh & _ & Hm & _).
          rewrite wf_run_app. rewrite Hn in Ht1. rewrite (wf_svs st t1 Ht1).
          set (st1 := match t1 with [] => st | _ => dirtied st end).
          assert (R1 : Rel g1 st1).
          { destruct R as [R1 R2 R3 R4 R5 R6 R7]. subst st1.
            constructor; destruct t1; cbn [dirtied w_h w_m w_open w_dirty]; try congruence;
              try (intros; left; lia);
              try (intros h0 k0 E Hk; unfold block_exists; rewrite Hb; apply (R5 h0 k0); congruence);
              try (intros E; rewrite Hb; apply R6; congruence);
              try (intros h0 E; rewrite Hm; apply R7; congruence). }
          assert (Hnext1 : next_h g1 = next_h g).
          { rewrite (next_h_nextb g1 st1 R1), Hn. unfold nextb. subst st1. destruct t1; reflexivity. }
          rewrite <- Hnext1 in Ht2, Hf.
          rewrite (wf_fin st1 (next_h g1) t2 (rl_open _ _ R1) (next_h_nextb g1 st1 R1) Ht2).
          eexists. split; [reflexivity|]. apply (Rel_finalise g1 st1 _ _ _ _ R1 Hf).
      + (* CCommit *)
        destruct (negb (g_wait g =? 0) || g_dirty g) eqn:Hopen; [discriminate|]. subst tr.
        cbn [Store.wf_run Store.wf_step].
        assert (Hd : w_dirty st = false).
        { destruct (w_dirty st) eqn:E; [|reflexivity]. exfalso.
          apply Bool.orb_false_elim in Hopen as [H1 H2]. apply Bool.negb_false_iff in H1. apply N.eqb_eq in H1.
          destruct (rl_dirty _ _ R E); congruence. }
        rewrite Hd. eexists. split; [reflexivity|]. cbn [fst].
        destruct R as [R1 R2 R3 R4 R5 R6 R7]. constructor; cbn; auto. discriminate.
      + (* CClear *)
        subst tr. cbn [Store.wf_run Store.wf_step fst]. eexists. split; [reflexivity|].
        destruct Hcp as (Hhc & Hbl & Hnone & Hle).
        constructor; cbn [w_h w_m w_open w_dirty g_h g_maxb g_wait g_dirty g_blocks].
        * congruence.
        * apply (rl_m _ _ R).
        * reflexivity.
        * discriminate.
        * intros h0 k0 E Hk. unfold block_exists. cbn [g_blocks]. apply (Hbl h0 k0 E Hk).
        * exact Hnone.
        * intros h0 E. rewrite <- (rl_m _ _ R). apply (Hle h0 E).
      + (* CReorg *)
        destruct (negb (g_wait g =? 0) || g_dirty g) eqn:Hopen; [discriminate|].
        destruct (height g <? n) eqn:H1; [discriminate|].
        destruct (W <? height g - n) eqn:H2; [discriminate|].
        destruct (N.eqb_spec n (height g)) as [Heq|Hne].
        * subst tr. exists st. split; [reflexivity|exact R].
        * destruct (W + n <? g_maxb g) eqn:H3; [discriminate|]. subst tr.
          apply N.ltb_ge in H1, H2, H3.
          cbn [Store.wf_run Store.wf_step].
          assert (Hd : w_dirty st = false).
          { destruct (w_dirty st) eqn:E; [|reflexivity]. exfalso.
            apply Bool.orb_false_elim in Hopen as [Ha Hb]. apply Bool.negb_false_iff in Ha. apply N.eqb_eq in Ha.
            destruct (rl_dirty _ _ R E); congruence. }
          unfold height in *. rewrite (rl_h _ _ R). destruct (g_h g) as [hh|] eqn:Eh.
          -- rewrite Hd, (rl_m _ _ R). cbn [negb andb].
             destruct (N.leb_spec n hh); [|lia]. destruct (N.leb_spec (g_maxb g) (n + W)); [|lia]. cbn [andb].
             eexists. split; [reflexivity|]. cbn [fst].
             constructor; cbn [w_h w_m w_open w_dirty g_h g_maxb g_wait g_dirty g_blocks].
             ++ reflexivity.
             ++ reflexivity.
             ++ reflexivity.
             ++ discriminate.
             ++ intros h0 k0 [= <-] Hk. unfold block_exists. cbn [g_blocks].
                pose proof (rl_blocks _ _ R hh k0 Eh ltac:(lia)) as Hex. unfold block_exists in Hex.
                apply existsb_exists in Hex as (x & Hx & Hxe). apply existsb_exists. exists x. split; [|exact Hxe].
                apply filter_In. split; [exact Hx|]. apply N.eqb_eq in Hxe. apply N.leb_le. lia.
             ++ discriminate.
             ++ intros h0 [= <-]. pose proof (rl_le _ _ R hh Eh). lia.
          -- (* no block yet: height 0, n <> 0 is impossible with n <= 0 *)
             lia.
      + (* CBadParams *) discriminate.
    - (* the model never answers OPanic *)
      exfalso. clear -Eo.
      destruct c as [a idx ts h v|d idx ts h vs|ts h cnt|cnt ts|h ts hg| |hc bl nn pl|n nn pl|]; cbn [Engine.e_step] in Eo.
      + destruct (exec_tx _ _ _ _ _ _ _ _); discriminate.
      + destruct d as [| |a n]; try discriminate.
        destruct (n =? nonce_of g a).
        * destruct (exec_tx _ _ _ _ _ _ _ _); [|discriminate]. destruct (drain _ _ _ _ _ _ _ _ _ _ _) as [[? ?]|]; discriminate.
        * destruct (_ && _); discriminate.
      + destruct (finalise _ _ _ _ _ _); discriminate.
      + destruct (_ || _); [discriminate|]. destruct (mine _ _ _ _ _); discriminate.
      + destruct (find _ _).
        * destruct (_ =? _); discriminate.
        * destruct (_ || _); [discriminate|]. destruct (exec_tx _ _ _ _ _ _ _ _); [|discriminate].
          destruct (finalise _ _ _ _ _ _); discriminate.
      + destruct (_ || _); discriminate.
      + discriminate.
      + destruct (_ || _); [discriminate|]. destruct (_ <? _); [discriminate|]. destruct (_ <? _); [discriminate|].
        destruct (_ =? _); [discriminate|]. destruct (_ <? _); discriminate.
      + discriminate.
  Qed.

  (* ---------- whole histories ---------- *)

  Definition st_after (st : wfst) (tr : list sop) : wfst :=
    match wf_run st tr with Some s => s | None => st end.

  (* every call of the history issues a trace of the allowed shape (nothing if rejected) *)
  Fixpoint allowed (g : eng) (st : wfst) (h : list (call * list sop)) : Prop :=
    match h with
    | [] => True
    | (c, tr) :: r =>
        clear_params_ok st c /\
        (snd (e_step g c) = ORejected -> tr = []) /\
        (snd (e_step g c) <> ORejected -> emits W FN g c tr) /\
        allowed (fst (e_step g c)) (st_after st tr) r
    end.

  Theorem engine_history_wf h : forall g st,
    Rel g st -> allowed g st h ->
    exists st', wf_run st (concat (map snd h)) = Some st'.
  Proof.
    induction h as [|[c tr] r IH]; intros g st R Hall.
    - exists st. reflexivity.
    - cbn [allowed] in Hall. destruct Hall as (Hcp & Hrej & Hacc & Hrest).
      destruct (call_trace_wf g st c tr R Hcp Hrej Hacc) as (st1 & Hrun & R1).
      cbn [map snd concat]. rewrite wf_run_app, Hrun.
      unfold st_after in Hrest. rewrite Hrun in Hrest.
      apply (IH _ _ R1 Hrest).
  Qed.
End EngineStoreP.
