From Brc.Model Require Import Base Chain.
Arguments N.add : simpl never.
Arguments N.leb : simpl never.
Arguments N.ltb : simpl never.
Arguments N.eqb : simpl never.

Fixpoint sum_logs (txs : list txrec) : N :=
  match txs with [] => 0 | r :: t => x_nlogs r + sum_logs t end.

Lemma txs_coherent_cons a t idx gas logidx number bhash :
  txs_coherent (a :: t) idx gas logidx number bhash =
  (x_idx a =? idx) && (x_block a =? number) && (x_bhash a =? bhash)
  && (x_logstart a =? logidx) && (x_cum a =? checked_add_or_old gas (x_gas a))
  && txs_coherent t (idx + 1) (x_cum a) (logidx + x_nlogs a) number bhash.
Proof. reflexivity. Qed.

Lemma txs_coherent_app l : forall l2 idx gas logidx number bhash,
  txs_coherent (l ++ l2) idx gas logidx number bhash =
  txs_coherent l idx gas logidx number bhash &&
  txs_coherent l2 (idx + N.of_nat (length l)) (last_cum l gas) (logidx + sum_logs l) number bhash.
Proof.
  induction l as [|a l IH]; intros l2 idx gas logidx number bhash.
  - cbn [app length sum_logs last_cum N.of_nat txs_coherent andb]. rewrite !N.add_0_r. reflexivity.
  - cbn [app length sum_logs last_cum]. rewrite !txs_coherent_cons, IH.
    rewrite Nat2N.inj_succ.
    replace (idx + 1 + N.of_nat (length l)) with (idx + N.succ (N.of_nat (length l))) by lia.
    replace (logidx + x_nlogs a + sum_logs l) with (logidx + (x_nlogs a + sum_logs l)) by lia.
    rewrite !andb_assoc. reflexivity.
Qed.

Lemma last_cum_app l r d : last_cum (l ++ [r]) d = x_cum r.
Proof. revert d. induction l as [|a l IH]; intros d; cbn [app last_cum]; [reflexivity|apply IH]. Qed.

Lemma sum_logs_app l r : sum_logs (l ++ [r]) = sum_logs l + x_nlogs r.
Proof. induction l as [|a l IH]; cbn [app sum_logs]; [lia|rewrite IH; lia]. Qed.

(* the open block is coherent at every moment *)
Record OpenInv (o : openblk) (number bhash : N) : Prop := {
  oi_txs : txs_coherent (rev (o_txs o)) 0 0 0 number bhash = true;
  oi_wait : o_wait o = N.of_nat (length (o_txs o));
  oi_gas : o_gas o = last_cum (rev (o_txs o)) 0;
  oi_log : o_log o = sum_logs (rev (o_txs o));
}.

Lemma OpenInv_init number bhash : OpenInv open_init number bhash.
Proof. constructor; reflexivity. Qed.

Lemma OpenInv_add c number bhash hash gas nlogs :
  OpenInv (c_open c) number bhash -> OpenInv (c_open (add_tx c number bhash hash gas nlogs)) number bhash.
Proof.
  intros [Ht Hw Hg Hl]. unfold add_tx. cbn [c_open o_txs o_wait o_gas o_log rev].
  constructor; cbn [o_txs o_wait o_gas o_log rev].
  - rewrite txs_coherent_app, Ht. cbn [andb txs_coherent x_idx x_block x_bhash x_logstart x_cum x_gas].
    rewrite rev_length, <- Hw, <- Hg, <- Hl. rewrite !N.add_0_l, !N.eqb_refl. reflexivity.
  - cbn [length]. rewrite Nat2N.inj_succ, Hw. lia.
  - rewrite last_cum_app. reflexivity.
  - rewrite sum_logs_app. cbn [x_nlogs]. rewrite Hl. reflexivity.
Qed.

(* C06: a finalised block is coherent: indexes 0..n-1 in order, matching block number and
   hash, contiguous log indexes, cumulative gas = the running (saturating-at-overflow) sum,
   block gas used = the last cumulative gas *)
Theorem finalise_block_coherent c number bhash :
  OpenInv (c_open c) number bhash ->
  match c_blocks (finalise c number bhash) with
  | b :: _ => block_coherent b = true /\ b_number b = number /\ b_hash b = bhash
  | [] => False
  end.
Proof.
  intros [Ht Hw Hg Hl]. unfold finalise. cbn [c_blocks]. unfold block_coherent.
  cbn [b_txs b_number b_hash b_gas]. rewrite Ht, Hg, N.eqb_refl. repeat split.
Qed.

Theorem run_block_coherent c number bhash txs :
  c_open c = open_init ->
  match c_blocks (run_block c number bhash txs) with
  | b :: _ => block_coherent b = true /\ b_number b = number /\ b_hash b = bhash /\
              length (b_txs b) = length txs
  | [] => False
  end.
Proof.
  intros Ho. unfold run_block.
  assert (G : forall txs c0, OpenInv (c_open c0) number bhash ->
            let c1 := fold_left (fun c t => add_tx c number bhash (fst (fst t)) (snd (fst t)) (snd t)) txs c0 in
            OpenInv (c_open c1) number bhash /\
            length (o_txs (c_open c1)) = (length txs + length (o_txs (c_open c0)))%nat).
  { clear. induction txs as [|t txs IH]; intros c0 I; cbn [fold_left].
    - split; [assumption|reflexivity].
    - destruct (IH _ (OpenInv_add c0 number bhash (fst (fst t)) (snd (fst t)) (snd t) I)) as [I' Hlen]. split; [assumption|].
      rewrite Hlen. cbn [add_tx c_open o_txs length]. lia. }
  destruct (G txs c ltac:(rewrite Ho; apply OpenInv_init)) as [I Hlen].
  pose proof (finalise_block_coherent _ number bhash I) as H.
  cbn [finalise c_blocks] in *. destruct H as (H1 & H2 & H3). repeat split; try assumption.
  cbn [b_txs]. rewrite rev_length, Hlen, Ho. cbn. lia.
Qed.

(* lookups point at each other, provided hashes are fresh *)
Definition LookupInv (c : chain) : Prop :=
  forall b i h, lookup_bi c b i = Some h ->
                exists r, lookup_hash c h = Some r /\ x_block r = b /\ x_idx r = i /\ x_hash r = h.

Lemma LookupInv_init : LookupInv chain_init.
Proof. intros b i h H. discriminate. Qed.

Theorem LookupInv_add c number bhash hash gas nlogs :
  LookupInv c -> lookup_hash c hash = None ->
  LookupInv (add_tx c number bhash hash gas nlogs).
Proof.
  intros I Hfresh b i h Hl.
  assert (Hbi : lookup_bi (add_tx c number bhash hash gas nlogs) b i =
                if (number =? b) && (o_wait (c_open c) =? i) then Some hash else lookup_bi c b i).
  { unfold lookup_bi, add_tx. cbn [c_by_bi find fst snd]. destruct ((number =? b) && (o_wait (c_open c) =? i)); reflexivity. }
  assert (Hh : forall x, lookup_hash (add_tx c number bhash hash gas nlogs) x =
                if hash =? x then Some (mkTx hash number bhash (o_wait (c_open c)) gas
                                             (checked_add_or_old (o_gas (c_open c)) gas) (o_log (c_open c)) nlogs)
                else lookup_hash c x).
  { intros x. unfold lookup_hash, add_tx. cbn [c_by_hash find fst snd]. destruct (hash =? x); reflexivity. }
  rewrite Hbi in Hl. rewrite Hh.
  destruct ((number =? b) && (o_wait (c_open c) =? i)) eqn:E.
  - injection Hl as <-. rewrite N.eqb_refl. apply andb_prop in E as [E1 E2].
    apply N.eqb_eq in E1, E2. eexists. split; [reflexivity|]. cbn. auto.
  - destruct (I b i h Hl) as (r & Hr & Hb & Hi & Hhh).
    destruct (N.eqb_spec hash h) as [Heq|Hne].
    + rewrite <- Heq in Hr. rewrite Hr in Hfresh. discriminate.
    + exists r. auto.
Qed.

(* without freshness the cross references break: the same hash twice in one block *)
Theorem lookups_refuted_without_fresh_hashes :
  exists c, ~ LookupInv c /\
    c = add_tx (add_tx chain_init 1 77 5 21000 0) 1 77 5 21000 0.
Proof.
  eexists. split; [|reflexivity]. intros I. specialize (I 1 0 5 eq_refl).
  destruct I as (r & Hr & _ & Hi & _). cbn in Hr. injection Hr as <-. cbn in Hi. discriminate.
Qed.
