(* Proofs about Model/Payload.v.  zstd stays an oracle: the facts assumed about it are the
   named hypotheses [zstd_roundtrip_hyp] (explicit premises of the theorems that use them). *)
From Coq Require Import ZArith.
From Brc.Model Require Import Base Base64 Nada Payload.
From Brc.Proofs Require Import Base64P NadaP.
Ltac Zify.zify_post_hook ::= Z.to_euclidean_division_equations.

Arguments N.add : simpl never.
Arguments N.sub : simpl never.
Arguments N.mul : simpl never.
Arguments N.div : simpl never.
Arguments N.modulo : simpl never.
Arguments N.ltb : simpl never.
Arguments N.leb : simpl never.
Arguments N.eqb : simpl never.
Arguments N.odd : simpl never.

Lemma Ok_inj {A} (a b : A) : Ok a = Ok b -> a = b.
Proof. intros H. now inversion H. Qed.

(* ---- split_once / padding ---- *)
Lemma split_once_none c s : ~ In c s -> split_once c s = None.
Proof.
  induction s as [|x r IH]; intros H; cbn [split_once]; [reflexivity|].
  destruct (N.eqb_spec x c) as [E|NE]; [exfalso; apply H; left; assumption|].
  rewrite IH; [reflexivity|]. intros I. apply H. right. assumption.
Qed.

Lemma strip_padding_no_eq s : ~ In EQ_SIGN s -> strip_padding s = s.
Proof. intros H. unfold strip_padding. now rewrite split_once_none. Qed.

(* whatever follows the first '=' is ignored, whether or not s already contains one *)
Lemma strip_padding_app s t : strip_padding (s ++ EQ_SIGN :: t) = strip_padding s.
Proof.
  unfold strip_padding. induction s as [|x r IH]; cbn [app split_once].
  - rewrite N.eqb_refl. reflexivity.
  - destruct (x =? EQ_SIGN); [reflexivity|].
    destruct (split_once EQ_SIGN (r ++ EQ_SIGN :: t)) as [[a b]|];
    destruct (split_once EQ_SIGN r) as [[a' b']|]; congruence.
Qed.

Lemma strip_padding_nil_iff s : strip_padding s = [] <-> s = [] \/ exists t, s = EQ_SIGN :: t.
Proof.
  unfold strip_padding. destruct s as [|x r]; cbn [split_once].
  - split; auto.
  - destruct (N.eqb_spec x EQ_SIGN) as [E|NE].
    + split; [intros _; right; exists r; now subst|reflexivity].
    + split.
      * destruct (split_once EQ_SIGN r) as [[a b]|]; discriminate.
      * intros [H|[t H]]; [discriminate|]. inversion H. contradiction.
Qed.

(* ---- hex ---- *)
Lemma hex_val_chr v : v < 16 -> hex_val (hex_chr v) = Some v.
Proof.
  intros H.
  assert (S : forallb (fun v => opt_eqb N.eqb (hex_val (hex_chr v)) (Some v)) (map N.of_nat (seq 0 16)) = true)
    by (vm_compute; reflexivity).
  rewrite forallb_forall in S.
  assert (I : In v (map N.of_nat (seq 0 16))).
  { rewrite <- (N2Nat.id v). apply in_map, in_seq. lia. }
  specialize (S v I). destruct (hex_val (hex_chr v)); cbn [opt_eqb] in S; try discriminate.
  apply N.eqb_eq in S. now subst.
Qed.

Lemma hex_pairs_encode x : bytes x -> hex_pairs (hex_encode x) = Some x.
Proof.
  induction x as [|b r IH]; intros B; [reflexivity|].
  inversion B as [|? ? Hb Hr]; subst. unfold byte in Hb.
  cbn [hex_encode hex_pairs]. rewrite !hex_val_chr by lia. rewrite (IH Hr).
  f_equal. f_equal. lia.
Qed.

Lemma len_hex_encode x : len (hex_encode x) = 2 * len x.
Proof.
  induction x as [|b r IH]; [reflexivity|]. cbn [hex_encode]. rewrite !len_cons, IH. lia.
Qed.

Theorem hex_roundtrip : forall x, bytes x -> raw_value (raw_from_bytes x) = Some x.
Proof.
  intros x B. unfold raw_value, raw_from_bytes, hex_decode.
  rewrite !len_cons, len_hex_encode.
  replace (N.odd (2 * len x + 1 + 1)) with false.
  2:{ symmetry. replace (2 * len x + 1 + 1) with (2 * (len x + 1)) by lia.
      rewrite N.odd_mul, N.odd_2. reflexivity. }
  apply hex_pairs_encode, B.
Qed.

Section DecodeP.
  Variable zstd_d : list N -> N -> option (list N).
  Variable zstd_frame_size : list N -> option (option N).
  Variable LIMIT : N.

  Notation dispatch := (dispatch zstd_d zstd_frame_size LIMIT).
  Notation decode_payload := (decode_payload zstd_d zstd_frame_size LIMIT).
  Notation b64_value := (b64_value zstd_d zstd_frame_size LIMIT).
  Notation select_bytes := (select_bytes zstd_d zstd_frame_size LIMIT).



  (* ---- padding ---- *)
  Theorem b64_padding_irrelevant : forall v s t,
    decode_payload v (s ++ EQ_SIGN :: t) = decode_payload v s.
  Proof. intros. unfold Payload.decode_payload. now rewrite strip_padding_app. Qed.

  Corollary b64_padding_irrelevant_k : forall v s k,
    decode_payload v (s ++ repeat EQ_SIGN k) = decode_payload v s.
  Proof.
    intros v s [|k]; cbn [repeat]; [now rewrite app_nil_r|apply b64_padding_irrelevant].
  Qed.

  (* ---- a packed byte string reaches the dispatch unchanged ---- *)
  Lemma decode_of_encoded v d : bytes d -> decode_payload v (b64_encode d) = dispatch v d.
  Proof.
    intros B. unfold Payload.decode_payload.
    rewrite strip_padding_no_eq by (apply b64_encode_no_eq, B).
    now rewrite b64_roundtrip.
  Qed.

  (* ---- the three branches, for every variant: the exact bound each supports ---- *)
  Definition raw_guarded (v : variant) (x : list N) : N :=
    if v_raw_counts_prefix v then len x + 1 else len x.

  Lemma raw_branch v x :
    dispatch v (0 :: x) = Ok (if LIMIT <? raw_guarded v x then None else Some x).
  Proof.
    unfold Payload.dispatch, raw_guarded. rewrite N.eqb_refl, len_cons.
    destruct (v_raw_counts_prefix v); destruct (LIMIT <? _); reflexivity.
  Qed.

  Lemma nada_branch_accepts v x ne :
    nada_encode x = Ok ne -> x = [] \/ len x < LIMIT + v_nada_slack v ->
    dispatch v (1 :: ne) = Ok (Some x).
  Proof.
    intros E H. unfold Payload.dispatch.
    replace (1 =? 0) with false by reflexivity. rewrite N.eqb_refl.
    destruct (nada_roundtrip x) as (ne' & E' & D). rewrite E in E'. inversion E'; subst ne'.
    assert (A : nada_decode_with_limit ne (LIMIT + v_nada_slack v) = Ok x).
    { apply nada_decode_with_limit_spec. split; [exact D|].
      destruct H as [H|H]; [left|right; exact H].
      subst x. rewrite nada_encode_nil in E. now inversion E. }
    now rewrite A.
  Qed.

  Lemma nada_branch_rejects v x ne :
    nada_encode x = Ok ne -> x <> [] -> LIMIT + v_nada_slack v <= len x ->
    dispatch v (1 :: ne) = Ok None.
  Proof.
    intros E NE H. unfold Payload.dispatch.
    replace (1 =? 0) with false by reflexivity. rewrite N.eqb_refl.
    destruct (nada_roundtrip x) as (ne' & E' & D). rewrite E in E'. inversion E'; subst ne'.
    rewrite (nada_decode_with_limit_err ne _ x D); [reflexivity| |exact H].
    intros ->. cbn in D. inversion D. congruence.
  Qed.



  (* ... and what goes wrong at the limit (each for EVERY such payload, EVERY oracle) *)
  Theorem as_written_raw_rejects_limit : forall x,
    bytes x -> len x = LIMIT -> decode_payload AS_WRITTEN (b64_encode (0 :: x)) = Ok None.
  Proof.
    intros x B L. rewrite decode_of_encoded by (constructor; [unfold byte; lia|exact B]).
    rewrite raw_branch. unfold raw_guarded. cbn [v_raw_counts_prefix AS_WRITTEN].
    replace (LIMIT <? len x + 1) with true by (symmetry; apply N.ltb_lt; lia). reflexivity.
  Qed.

  Theorem as_written_nada_rejects_limit : forall x ne,
    bytes x -> x <> [] -> len x = LIMIT -> nada_encode x = Ok ne ->
    decode_payload AS_WRITTEN (b64_encode (1 :: ne)) = Ok None.
  Proof.
    intros x ne B NE L E.
    rewrite decode_of_encoded
      by (constructor; [unfold byte; lia|exact (nada_encode_bytes x ne B E)]).
    apply (nada_branch_rejects AS_WRITTEN x ne E NE). cbn. lia.
  Qed.





  (* ---- bounded: for every string, every oracle ---- *)
  Theorem decode_bounded : forall v s y,
    v_nada_slack v <= 1 -> decode_payload v s = Ok (Some y) -> len y <= LIMIT.
  Proof.
    intros v s y SL. unfold Payload.decode_payload.
    destruct (b64_decode (strip_padding s)) as [d|]; [|discriminate].
    unfold Payload.dispatch. destruct d as [|p body].
    { destruct (v_empty_panics v); discriminate. }
    destruct (p =? 0).
    { destruct (N.ltb_spec LIMIT (if v_raw_counts_prefix v then len (p :: body) else len body)) as [LT|GE];
        [discriminate|].
      intros H; inversion H; subst; clear H.
      destruct (v_raw_counts_prefix v); [rewrite len_cons in GE|]; lia. }
    destruct (p =? 1).
    { destruct (nada_decode_with_limit body (LIMIT + v_nada_slack v)) as [o| |] eqn:E; try discriminate.
      intros H; inversion H; subst; clear H.
      apply nada_decode_with_limit_spec in E. destruct E as [D [E|E]]; [|lia].
      subst body. cbn in D. inversion D. cbn. lia. }
    destruct (p =? 2); [|discriminate].
    assert (Z : @Ok (option (list N)) (decode_zstd_into_bytes zstd_d LIMIT body) = Ok (Some y) -> len y <= LIMIT).
    { unfold decode_zstd_into_bytes.
      destruct (zstd_d body LIMIT) as [o|]; [|discriminate].
      destruct (N.ltb_spec LIMIT (len o)) as [LT|GE]; [discriminate|].
      intros HH; inversion HH; subst. assumption. }
    destruct (zstd_frame_size body) as [[size|]|]; [|exact Z|discriminate].
    destruct (LIMIT <? size); [discriminate|exact Z].
  Qed.

  (* ---- unknown prefixes ---- *)
  Theorem unknown_prefix_none : forall v p body, 2 < p -> dispatch v (p :: body) = Ok None.
  Proof.
    intros v p body H. unfold Payload.dispatch.
    replace (p =? 0) with false by (symmetry; apply N.eqb_neq; lia).
    replace (p =? 1) with false by (symmetry; apply N.eqb_neq; lia).
    replace (p =? 2) with false by (symmetry; apply N.eqb_neq; lia).
    reflexivity.
  Qed.

  Corollary unknown_prefix_none_str : forall v p body,
    bytes (p :: body) -> 2 < p -> decode_payload v (b64_encode (p :: body)) = Ok None.
  Proof. intros. rewrite decode_of_encoded by assumption. now apply unknown_prefix_none. Qed.

  (* ---- panics ---- *)
  Theorem decode_no_panic : forall v s, v_empty_panics v = false -> decode_payload v s <> Panic.
  Proof.
    intros v s HV. unfold Payload.decode_payload.
    destruct (b64_decode (strip_padding s)) as [d|]; [|discriminate].
    unfold Payload.dispatch. destruct d as [|p body]; [rewrite HV; discriminate|].
    destruct (p =? 0). { destruct (LIMIT <? _); discriminate. }
    destruct (p =? 1).
    { destruct (nada_decode_with_limit body (LIMIT + v_nada_slack v)) eqn:E; try discriminate.
      now apply nada_decode_with_limit_no_panic in E. }
    destruct (p =? 2); [|discriminate].
    destruct (zstd_frame_size body) as [[size|]|]; try discriminate.
    destruct (LIMIT <? size); discriminate.
  Qed.

  (* the code as written panics exactly on the strings whose part before the first '=' is
     empty: "" and "=..." *)
  Theorem as_written_panics_iff : forall s,
    decode_payload AS_WRITTEN s = Panic <-> s = [] \/ exists t, s = EQ_SIGN :: t.
  Proof.
    intros s. rewrite <- strip_padding_nil_iff. unfold Payload.decode_payload. split.
    - destruct (b64_decode (strip_padding s)) as [d|] eqn:E; [|discriminate].
      destruct d as [|p body].
      + intros _. apply b64_decode_canonical in E. destruct E as [_ E]. now rewrite <- E.
      + unfold Payload.dispatch.
        destruct (p =? 0). { destruct (LIMIT <? _); discriminate. }
        destruct (p =? 1).
        { destruct (nada_decode_with_limit body (LIMIT + v_nada_slack AS_WRITTEN)) eqn:E'; try discriminate.
          now apply nada_decode_with_limit_no_panic in E'. }
        destruct (p =? 2); [|discriminate].
        destruct (zstd_frame_size body) as [[size|]|]; try discriminate.
        destruct (LIMIT <? size); discriminate.
    - intros E. rewrite E. reflexivity.
  Qed.

  (* ---- hex field vs base64 field ---- *)
  Theorem hex_base64_equivalent : forall v h b,
    b64_value v b = Ok (raw_value h) ->
    select_bytes v (Some h) None = select_bytes v None (Some b).
  Proof. intros v h b H. unfold Payload.select_bytes. now rewrite H. Qed.

  Theorem select_bytes_both_or_neither : forall v h b,
    select_bytes v (Some h) (Some b) = Err /\ select_bytes v None None = Err.
  Proof. intros. split; reflexivity. Qed.


End DecodeP.

Section EncodeP.
  Variable zstd_c : list N -> N -> option (list N).
  Variable zstd_d : list N -> N -> option (list N).
  Variable zstd_frame_size : list N -> option (option N).
  Variable LIMIT : N.

  Notation from_bytes := (from_bytes zstd_c LIMIT).
  Notation dispatch := (dispatch zstd_d zstd_frame_size LIMIT).
  Notation decode_payload := (decode_payload zstd_d zstd_frame_size LIMIT).
  Notation select_bytes := (select_bytes zstd_d zstd_frame_size LIMIT).
  Notation decode_of_encoded := (decode_of_encoded zstd_d zstd_frame_size LIMIT).
  Notation raw_branch := (raw_branch zstd_d zstd_frame_size LIMIT).
  Notation nada_branch_accepts := (nada_branch_accepts zstd_d zstd_frame_size LIMIT).

  (* What is assumed of zstd where a theorem says so: a frame produced by compress (into a
     buffer of any capacity) is a byte string, announces either no content size or the true
     one, and decompresses to the input in every buffer that is large enough. *)
  Definition zstd_roundtrip_hyp : Prop :=
    forall x cap z, bytes x -> zstd_c x cap = Some z ->
      bytes z
      /\ (zstd_frame_size z = Some None \/ zstd_frame_size z = Some (Some (len x)))
      /\ (forall cap', len x <= cap' -> zstd_d z cap' = Some x).

  Lemma zstd_branch v x cap z :
    zstd_roundtrip_hyp -> bytes x -> zstd_c x cap = Some z -> len x <= LIMIT ->
    dispatch v (2 :: z) = Ok (Some x).
  Proof.
    intros Hz B E L. destruct (Hz x cap z B E) as (_ & F & D).
    unfold Payload.dispatch, decode_zstd_into_bytes.
    replace (2 =? 0) with false by reflexivity. replace (2 =? 1) with false by reflexivity.
    rewrite N.eqb_refl, (D LIMIT L).
    assert (NL : LIMIT <? len x = false) by (apply N.ltb_ge; lia).
    destruct F as [F|F]; rewrite F, ?NL; reflexivity.
  Qed.

  (* ---- round trip through the published encoder ---- *)
  Definition raw_ok (v : variant) (x : list N) : Prop := raw_guarded v x <= LIMIT.
  Definition nada_ok (v : variant) (x : list N) : Prop := x = [] \/ len x < LIMIT + v_nada_slack v.

  Lemma roundtrip_generic v x e :
    zstd_roundtrip_hyp -> 2 * LIMIT < USIZE_MAX -> bytes x -> len x <= LIMIT ->
    raw_ok v x -> nada_ok v x ->
    from_bytes v x = Ok e -> decode_payload v e = Ok (Some x).
  Proof.
    intros Hz Hmax B L RO NO. unfold Payload.from_bytes.
    destruct (nada_encode x) as [ne| |] eqn:EN; cbn [rbind]; try discriminate.
    pose proof (nada_encode_bytes x ne B EN) as Bne.
    pose proof (nada_encode_len x ne EN) as Lne.
    destruct (zstd_c x LIMIT) as [z|] eqn:EZ.
    - cbn [rbind].
      destruct ((len x <? len ne) && (len x <? len z))%bool.
      + intros H; apply Ok_inj in H; subst e.
        rewrite decode_of_encoded by (constructor; [unfold byte; lia|exact B]).
        rewrite raw_branch. unfold raw_ok in RO.
        replace (LIMIT <? raw_guarded v x) with false by (symmetry; apply N.ltb_ge; lia).
        reflexivity.
      + destruct (len ne <? len z).
        * intros H; apply Ok_inj in H; subst e.
          rewrite decode_of_encoded by (constructor; [unfold byte; lia|exact Bne]).
          now apply nada_branch_accepts.
        * intros H; apply Ok_inj in H; subst e.
          destruct (Hz x LIMIT z B EZ) as (Bz & _).
          rewrite decode_of_encoded by (constructor; [unfold byte; lia|exact Bz]).
          eapply zstd_branch; eauto.
    - destruct (v_zstd_fail_is_err v); cbn [rbind]; [discriminate|].
      destruct ((len x <? len ne) && (len x <? USIZE_MAX))%bool.
      + intros H; apply Ok_inj in H; subst e.
        rewrite decode_of_encoded by (constructor; [unfold byte; lia|exact B]).
        rewrite raw_branch. unfold raw_ok in RO.
        replace (LIMIT <? raw_guarded v x) with false by (symmetry; apply N.ltb_ge; lia).
        reflexivity.
      + replace (len ne <? USIZE_MAX) with true by (symmetry; apply N.ltb_lt; lia).
        intros H; apply Ok_inj in H; subst e.
        rewrite decode_of_encoded by (constructor; [unfold byte; lia|exact Bne]).
        now apply nada_branch_accepts.
  Qed.

  Lemma from_bytes_fixed_total x : exists e, from_bytes FIXED x = Ok e.
  Proof.
    unfold Payload.from_bytes. destruct (nada_roundtrip x) as (ne & E & _). rewrite E. cbn [rbind].
    destruct (zstd_c x LIMIT); cbn [rbind v_zstd_fail_is_err FIXED]; eexists; reflexivity.
  Qed.

  (* full strength, for the code with the proposed fixes *)
  Theorem payload_roundtrip_fixed : forall x,
    zstd_roundtrip_hyp -> 2 * LIMIT < USIZE_MAX -> bytes x -> len x <= LIMIT ->
    exists e, from_bytes FIXED x = Ok e /\ decode_payload FIXED e = Ok (Some x).
  Proof.
    intros x Hz Hmax B L. destruct (from_bytes_fixed_total x) as (e & E). exists e. split; [exact E|].
    apply (roundtrip_generic FIXED x e Hz Hmax B L); [| |exact E].
    - unfold raw_ok, raw_guarded. cbn. exact L.
    - right. cbn. lia.
  Qed.

  (* the code as written: only strictly below the limit, and only when the encoder answers *)
  Theorem payload_roundtrip_as_written_partial : forall x e,
    zstd_roundtrip_hyp -> 2 * LIMIT < USIZE_MAX -> bytes x -> len x < LIMIT ->
    from_bytes AS_WRITTEN x = Ok e -> decode_payload AS_WRITTEN e = Ok (Some x).
  Proof.
    intros x e Hz Hmax B L E.
    apply (roundtrip_generic AS_WRITTEN x e Hz Hmax B ltac:(lia)); [| |exact E].
    - unfold raw_ok, raw_guarded. cbn. lia.
    - right. cbn. lia.
  Qed.


  Theorem as_written_encoder_fails : forall x,
    zstd_c x LIMIT = None -> from_bytes AS_WRITTEN x = Err.
  Proof using zstd_c LIMIT.
    intros x E. unfold Payload.from_bytes. destruct (nada_roundtrip x) as (ne & EN & _).
    rewrite EN, E. reflexivity.
  Qed.

  (* the raw branch is never taken by the as-written encoder for a payload of LIMIT bytes or
     more when zstd respects its buffer: so its off-by-one shows only with another packer *)
  Theorem as_written_encoder_limit_not_raw : forall x e,
    (forall z, zstd_c x LIMIT = Some z -> len z <= LIMIT) -> LIMIT <= len x ->
    from_bytes AS_WRITTEN x = Ok e ->
    exists d, e = b64_encode d /\ (exists t, d = 1 :: t \/ d = 2 :: t).
  Proof using zstd_c LIMIT.
    clear zstd_d zstd_frame_size.
    intros x e Hcap L. unfold Payload.from_bytes.
    destruct (nada_encode x) as [ne| |]; cbn [rbind]; try discriminate.
    destruct (zstd_c x LIMIT) as [z|] eqn:EZ; cbn [rbind v_zstd_fail_is_err AS_WRITTEN]; [|discriminate].
    specialize (Hcap z eq_refl).
    replace (len x <? len z) with false by (symmetry; apply N.ltb_ge; lia).
    rewrite andb_false_r.
    destruct (len ne <? len z); intros H; apply Ok_inj in H; subst e;
      eexists; (split; [reflexivity|]); eexists; [left|right]; reflexivity.
  Qed.

  Theorem hex_base64_equivalent_encoded : forall x,
    zstd_roundtrip_hyp -> 2 * LIMIT < USIZE_MAX -> bytes x -> len x <= LIMIT ->
    exists e, from_bytes FIXED x = Ok e
      /\ select_bytes FIXED (Some (raw_from_bytes x)) None = Ok (Some x)
      /\ select_bytes FIXED None (Some (Some e)) = Ok (Some x).
  Proof.
    intros x Hz Hmax B L. destruct (payload_roundtrip_fixed x Hz Hmax B L) as (e & E & D).
    exists e. split; [exact E|]. unfold Payload.select_bytes, Payload.b64_value.
    rewrite hex_roundtrip by exact B. now rewrite D.
  Qed.
End EncodeP.

(* ---- the round trip through the as-written encoder is false at the limit: a witness.
   The oracle is a toy codec that satisfies everything assumed of zstd (it stores the input
   behind a marker byte, and shortens three leading zero bytes by nothing); with it the
   encoder picks nada for  x = 00 00 00 01 01 .. 01  of exactly LIMIT bytes (nada: LIMIT-1
   bytes, "zstd": LIMIT bytes, raw: LIMIT), and the decoder refuses the result.  The real
   zstd behaves the same way on the 1 MiB payloads the harness generates (docs/C15_notes.md). *)
Definition toy_c (x : list N) (cap : N) : option (list N) :=
  let z := match x with 0 :: 0 :: 0 :: r => 1 :: 1 :: 1 :: r | _ => 0 :: x end in
  if len z <=? cap then Some z else None.
Definition toy_d (z : list N) (cap : N) : option (list N) :=
  match (match z with 0 :: y => Some y | 1 :: 1 :: 1 :: r => Some (0 :: 0 :: 0 :: r) | _ => None end) with
  | Some y => if len y <=? cap then Some y else None
  | None => None
  end.
Definition toy_f (z : list N) : option (option N) := Some None.

Lemma toy_ok : zstd_roundtrip_hyp toy_c toy_d toy_f.
Proof.
  intros x cap z B E. unfold toy_c in E.
  assert (P : forall (y : list N) c, len y <= c -> (if len y <=? c then Some y else None) = Some y).
  { intros y c H. apply N.leb_le in H. now rewrite H. }
  split; [|split; [left; reflexivity|]].
  - match type of E with (if ?c then _ else _) = _ => destruct c end; [|discriminate]. inversion E; subst; clear E.
    assert (B0 : bytes (0 :: x)) by (constructor; [unfold byte; lia|exact B]).
    destruct x as [|[|a] [|[|b] [|[|c] r]]]; try exact B0.
    inversion B as [|? ? _ B1]; inversion B1 as [|? ? _ B2]; inversion B2 as [|? ? _ B3]; subst.
    repeat (constructor; [unfold byte; lia|]). exact B3.
  - intros cap' L. match type of E with (if ?c then _ else _) = _ => destruct c end; [|discriminate]. inversion E; subst; clear E.
    destruct x as [|[|a] [|[|b] [|[|c] r]]]; unfold toy_d; cbn beta iota; apply P; exact L.
Qed.

Lemma enc_run_app l1 : forall e l2, enc_run e (l1 ++ l2) = (do e' <- enc_run e l1; enc_run e' l2).
Proof.
  induction l1 as [|a l1 IH]; intros e l2; cbn [enc_run app rbind]; [reflexivity|].
  destruct (enc_feed e a); cbn [rbind]; auto.
Qed.

Lemma enc_run_ones m : forall out,
  enc_run {| e_zero := 0; e_ff := 0; e_out := out |} (repeat 1 m)
  = Ok {| e_zero := 0; e_ff := 0; e_out := out ++ repeat 1 m |}.
Proof.
  induction m as [|m IH]; intros out; cbn [repeat enc_run].
  - now rewrite app_nil_r.
  - unfold enc_feed at 1. replace (1 =? 0) with false by reflexivity.
    replace (1 =? 255) with false by reflexivity.
    unfold enc_flush, flush_zeroes, flush_ff. cbn [e_zero e_ff e_out].
    rewrite N.eqb_refl. cbn [rbind e_zero e_ff e_out]. rewrite IH, <- app_assoc. reflexivity.
Qed.

Theorem payload_roundtrip_as_written_refuted : forall LIMIT, 4 <= LIMIT ->
  exists zc zd zf, zstd_roundtrip_hyp zc zd zf /\
  exists x e, bytes x /\ len x = LIMIT /\ from_bytes zc LIMIT AS_WRITTEN x = Ok e
              /\ decode_payload zd zf LIMIT AS_WRITTEN e = Ok None.
Proof.
  intros LIMIT H4. exists toy_c, toy_d, toy_f. split; [exact toy_ok|].
  set (m := N.to_nat (LIMIT - 4)).
  set (x := [0; 0; 0; 1] ++ repeat 1 m).
  set (ne := [255; 3; 1] ++ repeat 1 m).
  assert (Lx : len x = LIMIT).
  { unfold x, len. rewrite app_length, repeat_length. cbn [length]. unfold m. lia. }
  assert (Lne : len ne + 1 = LIMIT).
  { unfold ne, len. rewrite app_length, repeat_length. cbn [length]. unfold m. lia. }
  assert (Bx : bytes x).
  { unfold x. apply Forall_app. split; [repeat constructor|].
    apply Forall_forall. intros y Hy. apply repeat_spec in Hy. subst y. reflexivity. }
  assert (EN : nada_encode x = Ok ne).
  { unfold nada_encode, x. rewrite enc_run_app.
    change (enc_run enc_new [0; 0; 0; 1]) with (Ok {| e_zero := 0; e_ff := 0; e_out := [255; 3; 1] |}).
    cbn [rbind]. rewrite enc_run_ones. cbn [rbind]. reflexivity. }
  exists x, (b64_encode (1 :: ne)). split; [exact Bx|]. split; [exact Lx|]. split.
  - unfold from_bytes. rewrite EN. cbn [rbind].
    assert (EZ : toy_c x LIMIT = Some (1 :: 1 :: 1 :: 1 :: repeat 1 m)).
    { unfold toy_c, x. cbn [app].
      replace (len (1 :: 1 :: 1 :: 1 :: repeat 1 m) <=? LIMIT) with true; [reflexivity|].
      symmetry. apply N.leb_le. rewrite !len_cons. unfold len. rewrite repeat_length. unfold m. lia. }
    rewrite EZ. cbn [rbind].
    assert (Lz : len (1 :: 1 :: 1 :: 1 :: repeat 1 m) = LIMIT).
    { rewrite !len_cons. unfold len. rewrite repeat_length. unfold m. lia. }
    rewrite Lz, Lx.
    replace (LIMIT <? len ne) with false by (symmetry; apply N.ltb_ge; lia).
    replace (len ne <? LIMIT) with true by (symmetry; apply N.ltb_lt; lia).
    reflexivity.
  - apply (as_written_nada_rejects_limit toy_d toy_f LIMIT x ne Bx); [|exact Lx|exact EN].
    unfold x. discriminate.
Qed.
