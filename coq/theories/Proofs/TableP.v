(* Proofs about L3 Table: every key of a BlockCachedDatabase is an independent "cell"
   (latest row, persisted history row, cache entry); the table refines a plain map from keys
   to "value as of block m" functions, with a saved copy taken at every commit. *)
From Brc.Model Require Import Base History Table.
From Brc.Proofs Require Import HistoryP KvP.
From Coq Require Import Sorting.Sorted.

Arguments N.add : simpl never.
Arguments N.leb : simpl never.
Arguments N.ltb : simpl never.
Arguments N.eqb : simpl never.

Section TableP.
  Context {V : Type}.
  Variable veq : V -> V -> bool.
  Hypothesis veq_spec : forall a b, veq a b = true <-> a = b.
  Variable W : N.

  Notation hist := (list (N * option V)).
  Notation spec := (N -> option V).
  Notation table := (@table V).
  Notation Repr := (@Repr V W).

  (* ---------- cells ---------- *)

  Definition cell : Type := (option V * option hist * option hist)%type.
  Definition c_d (c : cell) := fst (fst c).
  Definition c_p (c : cell) := snd (fst c).
  Definition c_m (c : cell) := snd c.

  Definition view (t : table) (k : N) : cell :=
    (kv_get (t_db t) k, kv_get (t_cdb t) k, kv_get (t_cache t) k).

  Definition effp (c : cell) : hist :=
    match c_p c with Some h => h | None => h_new (c_d c) end.
  Definition c_retrieve (c : cell) : hist :=
    match c_m c with Some h => h | None => effp c end.

  Lemma retrieve_view t k : t_retrieve t k = c_retrieve (view t k).
  Proof. reflexivity. Qed.

  Lemma view_with_cache t k h k' :
    view (t_with_cache t k h) k' =
      if k =? k' then (c_d (view t k'), c_p (view t k'), Some h) else view t k'.
  Proof.
    unfold view, t_with_cache. cbn [t_db t_cdb t_cache]. rewrite kv_get_hm_insert.
    destruct (k =? k'); reflexivity.
  Qed.

  (* ---------- Repr helpers ---------- *)

  Lemma option_eq_dec (a b : option V) : {a = b} + {a <> b}.
  Proof.
    destruct a as [x|], b as [y|]; try (right; discriminate); [|left; reflexivity].
    destruct (veq x y) eqn:E.
    - left. apply veq_spec in E. subst. reflexivity.
    - right. intros [= ->]. assert (veq y y = true) by (apply veq_spec; reflexivity). congruence.
  Qed.

  Lemma Repr_ext h S S' c fl : Repr h S c fl -> (forall m, S m = S' m) -> Repr h S' c fl.
  Proof.
    intros [Rs Rh Rf Rl Rla Rt] E. constructor; try assumption.
    intros m Hm. rewrite <- E. apply Rl; assumption.
  Qed.

  Lemma Repr_mono h S c c' fl : Repr h S c fl -> c <= c' -> Repr h S c' fl.
  Proof.
    intros [Rs Rh Rf Rl Rla Rt] Hc. constructor; try assumption.
    - destruct Rf as [->|Rf]; [left; reflexivity|right; lia].
    - intros e He. specialize (Rla e He). lia.
  Qed.

  Lemma Repr_floor_le_clock h S c fl : Repr h S c fl -> fl <= c.
  Proof. intros R. destruct (r_floor _ _ _ _ _ R); lia. Qed.

  (* a history that is_old at b can be replaced by a fresh one seeded with its latest value *)
  Lemma Repr_old_reseed h S c fl b l :
    Repr h S c fl -> h_is_old W h b = true -> h_latest h = Ok l ->
    exists fl', Repr (h_new l) S (N.max c (b - 1)) fl'.
  Proof.
    intros R Hold Hl.
    unfold h_is_old, last_key in Hold. unfold h_latest in Hl.
    destruct (last_entry h) as [[lk lv]|] eqn:Hle; [|discriminate].
    cbn [option_map fst] in Hold. injection Hl as <-.
    apply N.ltb_lt in Hold.
    pose proof (r_last _ _ _ _ _ R _ Hle) as Hlkc. cbn [fst] in Hlkc.
    exists (N.max fl lk). unfold h_new. constructor.
    - constructor; constructor.
    - exists 0. split; [reflexivity|lia].
    - destruct (r_floor _ _ _ _ _ R) as [->|Hf].
      + destruct (N.eq_dec lk 0) as [->|Hne]; [left; lia|right; lia].
      + right. lia.
    - intros m Hm. cbn [lookup]. destruct (N.leb_spec 0 m); [|lia].
      rewrite <- (r_look _ _ _ _ _ R m ltac:(lia)).
      symmetry. apply (lookup_last_ge h lk lv m (r_sorted _ _ _ _ _ R) Hle). lia.
    - intros e [= <-]. cbn [fst]. lia.
    - intros e lk0 _ [].
  Qed.

  (* ---------- the cell invariant ---------- *)

  Record CellRepr (c : cell) (S Sv : spec) (clk sclk : N) : Prop := {
    cr_p : exists flp, Repr (effp c) Sv sclk flp;
    cr_d : h_latest (effp c) = Ok (c_d c);
    cr_m : match c_m c with
           | Some h => exists fl, Repr h S clk fl
           | None => forall m, S m = Sv m
           end;
    cr_clk : sclk <= clk;
  }.

  Lemma CellRepr_eff c S Sv clk sclk :
    CellRepr c S Sv clk sclk -> exists fl, Repr (c_retrieve c) S clk fl.
  Proof.
    intros [(flp & Rp) _ Hm Hc]. unfold c_retrieve. destruct (c_m c) as [h|]; [exact Hm|].
    exists flp. apply (Repr_mono _ _ sclk); [|assumption].
    apply (Repr_ext _ Sv); [assumption|]. intros m; symmetry; apply Hm.
  Qed.

  Lemma CellRepr_mono c S Sv clk sclk clk' :
    CellRepr c S Sv clk sclk -> clk <= clk' -> CellRepr c S Sv clk' sclk.
  Proof.
    intros [Rp Rd Rm Rc] Hle. constructor; try assumption; [|lia].
    destruct (c_m c) as [h|]; [|assumption].
    destruct Rm as (fl & R). exists fl. apply (Repr_mono _ _ clk); assumption.
  Qed.

  Lemma CellRepr_latest c S Sv clk sclk m :
    CellRepr c S Sv clk sclk -> clk <= m ->
    (match c_m c with Some h => h_latest h | None => Ok (c_d c) end) = Ok (S m).
  Proof.
    intros [(flp & Rp) Rd Rm Rc] Hm. destruct (c_m c) as [h|].
    - destruct Rm as (fl & R). apply (Repr_latest W h S clk fl m R Hm).
      pose proof (Repr_floor_le_clock _ _ _ _ R). lia.
    - rewrite <- Rd. rewrite Rm. apply (Repr_latest W _ Sv sclk flp m Rp); [lia|].
      pose proof (Repr_floor_le_clock _ _ _ _ Rp). lia.
  Qed.

  (* writes *)
  Definition c_write (c : cell) (h : hist) : cell := (c_d c, c_p c, Some h).

  Lemma CellRepr_set c S Sv clk sclk b v h' :
    CellRepr c S Sv clk sclk -> h_set veq W (c_retrieve c) b v = Ok h' ->
    CellRepr (c_write c h') (s_set S b (Some v)) Sv (N.max clk b) sclk.
  Proof.
    intros CR Hs. destruct (CellRepr_eff _ _ _ _ _ CR) as (fl & R).
    destruct (Repr_set veq veq_spec W _ _ _ _ _ _ _ R Hs) as (fl' & R' & _).
    destruct CR as [Rp Rd Rm Rc]. constructor; cbn [c_write c_m c_d c_p effp fst snd].
    - exact Rp.
    - exact Rd.
    - exists fl'. exact R'.
    - lia.
  Qed.

  Lemma CellRepr_unset c S Sv clk sclk b h' :
    CellRepr c S Sv clk sclk -> h_unset W (c_retrieve c) b = Ok h' ->
    CellRepr (c_write c h') (s_set S b None) Sv (N.max clk b) sclk.
  Proof.
    intros CR Hs. destruct (CellRepr_eff _ _ _ _ _ CR) as (fl & R).
    destruct (Repr_unset W _ _ _ _ _ _ R Hs) as (fl' & R' & _).
    destruct CR as [Rp Rd Rm Rc]. constructor; cbn [c_write c_m c_d c_p effp fst snd].
    - exact Rp.
    - exact Rd.
    - exists fl'. exact R'.
    - lia.
  Qed.

  (* commit(b) on one cell *)
  Definition c_commit (b : N) (c : cell) : res cell :=
    match c_m c with
    | None => Ok c
    | Some h =>
        do l <- h_latest h;
        Ok (l, if h_is_old W h b then None else Some h, None)
    end.

  Lemma CellRepr_commit c S Sv clk sclk b :
    CellRepr c S Sv clk sclk ->
    exists c', c_commit b c = Ok c' /\
               CellRepr c' S S (N.max clk (b - 1)) (N.max clk (b - 1)).
  Proof.
    intros CR. pose proof CR as [(flp & Rp) Rd Rm Rc]. unfold c_commit.
    destruct c as [[d p] m]. cbn [c_m c_d c_p fst snd] in *. destruct m as [h|].
    - destruct Rm as (fl & R).
      pose proof (Repr_latest W h S clk fl (N.max clk fl) R ltac:(lia) ltac:(lia)) as Hl.
      rewrite Hl. cbn [rbind]. eexists. split; [reflexivity|].
      constructor; cbn [c_m c_d c_p effp fst snd].
      + destruct (h_is_old W h b) eqn:Hold.
        * apply (Repr_old_reseed h S clk fl b _ R Hold Hl).
        * exists fl. apply (Repr_mono _ _ clk); [assumption|lia].
      + destruct (h_is_old W h b); [reflexivity|assumption].
      + reflexivity.
      + lia.
    - eexists. split; [reflexivity|].
      constructor; cbn [c_m c_d c_p effp fst snd].
      + exists flp. apply (Repr_mono _ _ sclk); [|lia].
        apply (Repr_ext _ Sv); [assumption|]. intros x; symmetry; apply Rm.
      + assumption.
      + reflexivity.
      + lia.
  Qed.

  Lemma CellRepr_clear c S Sv clk sclk :
    CellRepr c S Sv clk sclk -> CellRepr (c_d c, c_p c, None) Sv Sv sclk sclk.
  Proof.
    intros [Rp Rd Rm Rc]. constructor; cbn [c_m c_d c_p effp fst snd]; try assumption; [reflexivity|lia].
  Qed.

  (* reorg(n) on one cell: untouched if it has neither a persisted nor a cached history *)
  Definition c_touched (c : cell) : bool :=
    match c_p c, c_m c with None, None => false | _, _ => true end.

  Definition c_reorg (n : N) (c : cell) : res cell :=
    if c_touched c then
      do h <- h_reorg (c_retrieve c) n; c_commit n (c_write c h)
    else Ok c.

  Lemma CellRepr_reorg c S Sv clk sclk n :
    CellRepr c S Sv clk sclk -> clk <= n + W ->
    exists c', c_reorg n c = Ok c' /\
               CellRepr c' (s_reorg S n) (s_reorg S n) (N.max clk (n - 1)) (N.max clk (n - 1)).
  Proof.
    intros CR Hwin. destruct (CellRepr_eff _ _ _ _ _ CR) as (fl & R).
    pose proof (window_above_floor W _ _ _ _ _ R Hwin) as Hfl.
    destruct (Repr_reorg W _ _ _ _ n R Hfl) as (h' & Hr & R' & _).
    unfold c_reorg. destruct (c_touched c) eqn:Ht.
    - rewrite Hr. cbn [rbind].
      assert (CR' : CellRepr (c_write c h') (s_reorg S n) Sv clk sclk).
      { destruct CR as [Rp Rd Rm Rc]. constructor; cbn [c_write c_m c_d c_p effp fst snd]; try assumption.
        exists fl. assumption. }
      apply (CellRepr_commit _ _ _ _ _ n CR').
    - eexists. split; [reflexivity|].
      destruct c as [[d p] m]. unfold c_touched in Ht. cbn [c_p c_m fst snd] in Ht.
      destruct p; [discriminate|]. destruct m; [discriminate|].
      unfold c_retrieve, effp in *. cbn [c_m c_p c_d fst snd] in *.
      assert (Hh' : h' = h_new d).
      { unfold h_reorg, h_new in Hr. cbn [filter fst] in Hr.
        destruct (N.leb_spec 0 n); [|lia]. injection Hr as <-. reflexivity. }
      subst h'.
      pose proof CR as [_ Rd _ _]. cbn [c_m c_d c_p effp fst snd] in Rd.
      constructor; cbn [c_m c_d c_p effp fst snd].
      + exists fl. apply (Repr_mono _ _ clk); [assumption|lia].
      + assumption.
      + reflexivity.
      + lia.
  Qed.

  (* ---------- lifting to the table ---------- *)

  Record tspec : Type := mkTSpec {
    ts_cur : N -> spec;
    ts_sav : N -> spec;
    ts_clk : N;
    ts_sclk : N;
  }.

  Definition ts_init : tspec := mkTSpec (fun _ _ => None) (fun _ _ => None) 0 0.

  Definition upd (f : N -> spec) (k : N) (s : spec) : N -> spec :=
    fun k' => if k =? k' then s else f k'.

  Definition ts_step (T : tspec) (o : @top V) : tspec :=
    match o with
    | TSet b k v => mkTSpec (upd (ts_cur T) k (s_set (ts_cur T k) b (Some v))) (ts_sav T)
                            (N.max (ts_clk T) b) (ts_sclk T)
    | TUnset b k => mkTSpec (upd (ts_cur T) k (s_set (ts_cur T k) b None)) (ts_sav T)
                            (N.max (ts_clk T) b) (ts_sclk T)
    | TCommit b => let c := N.max (ts_clk T) (b - 1) in mkTSpec (ts_cur T) (ts_cur T) c c
    | TClear => mkTSpec (ts_sav T) (ts_sav T) (ts_sclk T) (ts_sclk T)
    | TReorg n => let c := N.max (ts_clk T) (n - 1) in
                  let cur := fun k => s_reorg (ts_cur T k) n in mkTSpec cur cur c c
    end.

  Record TRepr (t : table) (T : tspec) : Prop := {
    tr_cells : forall k, CellRepr (view t k) (ts_cur T k) (ts_sav T k) (ts_clk T) (ts_sclk T);
    tr_nodup : NoDup (map fst (t_cache t));
    tr_db_sorted : ksorted (t_db t);
    tr_cdb_sorted : ksorted (t_cdb t);
  }.

  Lemma TRepr_init : TRepr t_empty ts_init.
  Proof.
    constructor; cbn [t_empty t_cache t_db t_cdb map]; try constructor; cbn.
    - exists 0. apply (Repr_new W None).
    - reflexivity.
    - reflexivity.
    - lia.
  Qed.

  (* commit_entries, key by key *)
  Lemma commit_entries_view b (es : list (N * hist)) :
    NoDup (map fst es) ->
    forall d c d' c',
      commit_entries W b (d, c) es = Ok (d', c') ->
      forall k,
        match kv_get es k with
        | None => kv_get d' k = kv_get d k /\ kv_get c' k = kv_get c k
        | Some h => exists l, h_latest h = Ok l /\ kv_get d' k = l /\
                              kv_get c' k = if h_is_old W h b then None else Some h
        end.
  Proof.
    induction es as [|[k0 h0] t IH]; intros Hnd d c d' c' Hc k.
    - cbn in Hc. injection Hc as <- <-. cbn [kv_get]. split; reflexivity.
    - cbn [map fst] in Hnd. inversion Hnd as [|? ? Hnot Hnd']; subst.
      cbn [commit_entries commit_entry] in Hc.
      destruct (h_latest h0) as [l0| |] eqn:Hl0; cbn [rbind] in Hc; try discriminate.
      set (c1 := if h_is_old W h0 b then kv_del c k0 else kv_put c k0 h0) in *.
      set (d1 := match l0 with Some v => kv_put d k0 v | None => kv_del d k0 end).
      assert (Hc1 : commit_entries W b (d1, c1) t = Ok (d', c')).
      { subst d1. destruct l0; exact Hc. }
      specialize (IH Hnd' d1 c1 d' c' Hc1 k).
      cbn [kv_get]. destruct (N.eqb_spec k0 k) as [->|Hne].
      + assert (Hk : kv_get t k = None).
        { destruct (kv_get t k) eqn:E; [|reflexivity]. exfalso. apply Hnot.
          apply kv_get_in_keys. congruence. }
        rewrite Hk in IH. destruct IH as [IHd IHc].
        exists l0. split; [assumption|]. split.
        * rewrite IHd. subst d1. destruct l0; [rewrite kv_get_put|rewrite kv_get_del]; rewrite N.eqb_refl; reflexivity.
        * rewrite IHc. subst c1. destruct (h_is_old W h0 b); [rewrite kv_get_del|rewrite kv_get_put]; rewrite N.eqb_refl; reflexivity.
      + assert (Hd1 : kv_get d1 k = kv_get d k).
        { subst d1. destruct l0; [rewrite kv_get_put|rewrite kv_get_del];
            destruct (N.eqb_spec k0 k); congruence. }
        assert (Hc1' : kv_get c1 k = kv_get c k).
        { subst c1. destruct (h_is_old W h0 b); [rewrite kv_get_del|rewrite kv_get_put];
            destruct (N.eqb_spec k0 k); congruence. }
        destruct (kv_get t k); [|rewrite <- Hd1, <- Hc1'; exact IH]. exact IH.
  Qed.

  Lemma commit_entries_ok b (es : list (N * hist)) :
    (forall k h, In (k, h) es -> h <> []) ->
    forall dc, exists dc', commit_entries W b dc es = Ok dc'.
  Proof.
    induction es as [|[k0 h0] t IH]; intros Hne dc; [eexists; reflexivity|].
    destruct dc as [d c]. cbn [commit_entries commit_entry].
    assert (Hl : exists l, h_latest h0 = Ok l).
    { unfold h_latest. destruct (last_entry h0) as [[a x]|] eqn:E; [eexists; reflexivity|].
      apply last_entry_nil_iff in E. exfalso. apply (Hne k0 h0); [left; reflexivity|assumption]. }
    destruct Hl as (l & ->). cbn [rbind].
    destruct l; apply IH; intros k h Hin; apply (Hne k h); right; assumption.
  Qed.

  Lemma commit_entries_sorted b (es : list (N * hist)) :
    forall d c d' c', ksorted d -> ksorted c -> commit_entries W b (d, c) es = Ok (d', c') ->
                      ksorted d' /\ ksorted c'.
  Proof.
    induction es as [|[k0 h0] t IH]; intros d c d' c' Hd Hc Hce.
    - cbn in Hce. injection Hce as <- <-. split; assumption.
    - cbn [commit_entries commit_entry] in Hce.
      destruct (h_latest h0) as [l0| |]; cbn [rbind] in Hce; try discriminate.
      destruct l0; apply IH in Hce; try assumption;
        try (apply ksorted_put; assumption); try (apply ksorted_del; assumption);
        destruct (h_is_old W h0 b); try (apply ksorted_put; assumption); try (apply ksorted_del; assumption).
  Qed.

  Lemma view_commit t b t' :
    NoDup (map fst (t_cache t)) -> t_commit W t b = Ok t' ->
    (forall k, c_commit b (view t k) = Ok (view t' k)) /\ t_cache t' = [].
  Proof.
    intros Hnd Hc. unfold t_commit in Hc.
    destruct (commit_entries W b (t_db t, t_cdb t) (t_cache t)) as [[d' c']| |] eqn:E; cbn [rbind] in Hc; try discriminate.
    injection Hc as <-. cbn [fst snd]. split; [|reflexivity].
    intros k. pose proof (commit_entries_view b _ Hnd _ _ _ _ E k) as Hk.
    unfold view, c_commit. cbn [t_db t_cdb t_cache c_m c_d c_p fst snd kv_get].
    destruct (kv_get (t_cache t) k) as [h|].
    - destruct Hk as (l & Hl & Hd & Hcc). rewrite Hl. cbn [rbind]. rewrite Hd, Hcc. reflexivity.
    - destruct Hk as [-> ->]. reflexivity.
  Qed.

  (* the cells guarantee commit cannot panic *)
  Lemma TRepr_cache_nonempty t T k h : TRepr t T -> In (k, h) (t_cache t) -> h <> [].
  Proof.
    intros TR Hin. pose proof (tr_cells _ _ TR k) as CR.
    pose proof (kv_get_nodup_in _ _ _ (tr_nodup _ _ TR) Hin) as Hget.
    destruct CR as [_ _ Rm _]. unfold view, c_m in Rm. cbn [snd] in Rm. rewrite Hget in Rm.
    destruct Rm as (fl & R). apply (Repr_nonempty W _ _ _ _ R).
  Qed.

  Lemma TRepr_commit t T b :
    TRepr t T -> exists t', t_commit W t b = Ok t' /\ TRepr t' (ts_step T (TCommit b)).
  Proof.
    intros TR.
    destruct (commit_entries_ok b (t_cache t) (fun k h => TRepr_cache_nonempty t T k h TR) (t_db t, t_cdb t)) as ([d' c'] & E).
    assert (Hc : t_commit W t b = Ok (mkTable d' c' [])).
    { unfold t_commit. rewrite E. reflexivity. }
    eexists. split; [exact Hc|].
    destruct (view_commit t b _ (tr_nodup _ _ TR) Hc) as [Hv _].
    destruct (commit_entries_sorted b _ _ _ _ _ (tr_db_sorted _ _ TR) (tr_cdb_sorted _ _ TR) E) as [Hsd Hsc].
    constructor; cbn [t_cache t_db t_cdb ts_step ts_cur ts_sav ts_clk ts_sclk map]; try assumption; [|constructor].
    intros k. destruct (CellRepr_commit _ _ _ _ _ b (tr_cells _ _ TR k)) as (c1 & Hc1 & CR1).
    rewrite (Hv k) in Hc1. injection Hc1 as <-. exact CR1.
  Qed.

  Lemma TRepr_clear t T : TRepr t T -> TRepr (t_clear t) (ts_step T TClear).
  Proof.
    intros TR. constructor; cbn [t_clear t_cache t_db t_cdb ts_step ts_cur ts_sav ts_clk ts_sclk map];
      try apply TR; [|constructor].
    intros k. apply (CellRepr_clear _ _ _ _ _ (tr_cells _ _ TR k)).
  Qed.

  Lemma TRepr_with_cache_other t k h k' : k <> k' -> view (t_with_cache t k h) k' = view t k'.
  Proof. intros Hne. rewrite view_with_cache. destruct (N.eqb_spec k k'); [congruence|reflexivity]. Qed.

  Lemma TRepr_set t T b k v t' :
    TRepr t T -> t_set veq W t b k v = Ok t' -> TRepr t' (ts_step T (TSet b k v)).
  Proof.
    intros TR Hs. unfold t_set in Hs. rewrite retrieve_view in Hs.
    destruct (h_set veq W (c_retrieve (view t k)) b v) as [h'| |] eqn:Hh; cbn [rbind] in Hs; try discriminate.
    injection Hs as <-.
    constructor; cbn [ts_step ts_cur ts_sav ts_clk ts_sclk t_with_cache t_cache t_db t_cdb];
      try apply TR; [|apply nodup_hm_insert; apply TR].
    intros k'. rewrite view_with_cache. unfold upd. destruct (N.eqb_spec k k') as [<-|Hne].
    - apply (CellRepr_set _ _ _ _ _ b v h' (tr_cells _ _ TR k) Hh).
    - apply (CellRepr_mono _ _ _ (ts_clk T)); [apply TR|lia].
  Qed.

  Lemma TRepr_unset t T b k t' :
    TRepr t T -> t_unset W t b k = Ok t' -> TRepr t' (ts_step T (TUnset b k)).
  Proof.
    intros TR Hs. unfold t_unset in Hs. rewrite retrieve_view in Hs.
    destruct (h_unset W (c_retrieve (view t k)) b) as [h'| |] eqn:Hh; cbn [rbind] in Hs; try discriminate.
    injection Hs as <-.
    constructor; cbn [ts_step ts_cur ts_sav ts_clk ts_sclk t_with_cache t_cache t_db t_cdb];
      try apply TR; [|apply nodup_hm_insert; apply TR].
    intros k'. rewrite view_with_cache. unfold upd. destruct (N.eqb_spec k k') as [<-|Hne].
    - apply (CellRepr_unset _ _ _ _ _ b h' (tr_cells _ _ TR k) Hh).
    - apply (CellRepr_mono _ _ _ (ts_clk T)); [apply TR|lia].
  Qed.

  (* reads *)
  Theorem TRepr_latest t T k m :
    TRepr t T -> ts_clk T <= m -> t_latest t k = Ok (ts_cur T k m).
  Proof.
    intros TR Hm. pose proof (CellRepr_latest _ _ _ _ _ m (tr_cells _ _ TR k) Hm) as H.
    unfold t_latest. unfold view, c_m, c_d in H. cbn [fst snd] in H.
    destruct (kv_get (t_cache t) k); exact H.
  Qed.

  (* ---------- reorg ---------- *)

  Lemma h_reorg_idem (h h0 : hist) n : h_reorg h n = Ok h0 -> h_reorg h0 n = Ok h0.
  Proof.
    unfold h_reorg. destruct (filter (fun e : N * option V => fst e <=? n) h) as [|a l] eqn:E; [discriminate|].
    intros [= <-]. rewrite <- E.
    assert (Hid : filter (fun e : N * option V => fst e <=? n) (filter (fun e : N * option V => fst e <=? n) h)
                  = filter (fun e : N * option V => fst e <=? n) h).
    { clear. induction h as [|x t IH]; [reflexivity|]. cbn [filter].
      destruct (fst x <=? n) eqn:Ex; [|exact IH]. cbn [filter]. rewrite Ex. f_equal. exact IH. }
    rewrite Hid, E. reflexivity.
  Qed.

  Definition memb (k : N) (ks : list N) : bool := existsb (N.eqb k) ks.

  Lemma reorg_keys_view n ks : forall t t',
    reorg_keys t n ks = Ok t' ->
    t_db t' = t_db t /\ t_cdb t' = t_cdb t /\
    (NoDup (map fst (t_cache t)) -> NoDup (map fst (t_cache t'))) /\
    forall k, if memb k ks
              then exists h', h_reorg (c_retrieve (view t k)) n = Ok h' /\
                              view t' k = c_write (view t k) h'
              else view t' k = view t k.
  Proof.
    induction ks as [|k0 r IH]; intros t t' Hr.
    - cbn in Hr. injection Hr as <-. repeat split; auto.
    - cbn [reorg_keys] in Hr. rewrite retrieve_view in Hr.
      destruct (h_reorg (c_retrieve (view t k0)) n) as [h0| |] eqn:Hh0; cbn [rbind] in Hr; try discriminate.
      destruct (IH _ _ Hr) as (Hd & Hc & Hnd & Hv).
      cbn [t_with_cache t_db t_cdb t_cache] in Hd, Hc, Hnd.
      split; [assumption|]. split; [assumption|]. split.
      { intros H. apply Hnd. apply nodup_hm_insert. assumption. }
      intros k. specialize (Hv k). cbn [memb existsb].
      destruct (N.eqb_spec k k0) as [->|Hne]; cbn [orb].
      + (* k = k0 *)
        assert (Hv1 : view (t_with_cache t k0 h0) k0 = c_write (view t k0) h0).
        { rewrite view_with_cache, N.eqb_refl. reflexivity. }
        exists h0. split; [assumption|].
        fold (memb k0 r) in Hv. destruct (memb k0 r).
        * destruct Hv as (h' & Hh' & Hv). rewrite Hv1 in Hh', Hv.
          unfold c_retrieve, c_write in Hh'. cbn [c_m snd] in Hh'.
          rewrite (h_reorg_idem _ _ _ Hh0) in Hh'. injection Hh' as <-.
          rewrite Hv. reflexivity.
        * rewrite Hv. exact Hv1.
      + assert (Hv1 : view (t_with_cache t k0 h0) k = view t k).
        { apply TRepr_with_cache_other. congruence. }
        fold (memb k r) in Hv |- *. destruct (memb k r).
        * destruct Hv as (h' & Hh' & Hv). rewrite Hv1 in Hh', Hv. exists h'. split; assumption.
        * rewrite Hv. exact Hv1.
  Qed.

  Lemma reorg_keys_ok n ks : forall t,
    (forall k, exists h', h_reorg (c_retrieve (view t k)) n = Ok h') ->
    exists t', reorg_keys t n ks = Ok t'.
  Proof.
    induction ks as [|k0 r IH]; intros t Hall; [eexists; reflexivity|].
    cbn [reorg_keys]. rewrite retrieve_view. destruct (Hall k0) as (h0 & Hh0). rewrite Hh0. cbn [rbind].
    apply IH. intros k. rewrite view_with_cache. destruct (N.eqb_spec k0 k) as [<-|Hne].
    - exists h0. unfold c_retrieve. cbn [c_m snd]. apply (h_reorg_idem _ _ _ Hh0).
    - apply Hall.
  Qed.

  Lemma memb_touched t k :
    memb k (map fst (t_cdb t) ++ map fst (t_cache t)) = c_touched (view t k).
  Proof.
    unfold memb, c_touched, view, c_p, c_m. cbn [fst snd].
    rewrite existsb_app.
    assert (G : forall (A : Type) (m : list (N * A)), existsb (N.eqb k) (map fst m)
                = match kv_get m k with Some _ => true | None => false end).
    { intros A m. induction m as [|[k1 a1] m IH]; [reflexivity|]. cbn [map fst existsb kv_get].
      rewrite N.eqb_sym. destruct (k1 =? k); cbn [orb]; [reflexivity|exact IH]. }
    rewrite !G. destruct (kv_get (t_cdb t) k), (kv_get (t_cache t) k); reflexivity.
  Qed.

  Lemma view_reorg t n t' :
    NoDup (map fst (t_cache t)) -> t_reorg W t n = Ok t' ->
    (forall k, c_reorg n (view t k) = Ok (view t' k)) /\ t_cache t' = [].
  Proof.
    intros Hnd Hr. unfold t_reorg in Hr.
    destruct (reorg_keys t n _) as [t1| |] eqn:E1; cbn [rbind] in Hr; try discriminate.
    destruct (t_commit W t1 n) as [t2| |] eqn:E2; cbn [rbind] in Hr; try discriminate.
    injection Hr as <-.
    destruct (reorg_keys_view n _ _ _ E1) as (Hd & Hc & Hnd1 & Hv1).
    destruct (view_commit t1 n t2 (Hnd1 Hnd) E2) as [Hv2 Hcache].
    split; [|reflexivity].
    intros k. specialize (Hv1 k). rewrite memb_touched in Hv1. unfold c_reorg.
    assert (Hclear : view (t_clear t2) k = view t2 k).
    { unfold view, t_clear. cbn [t_db t_cdb t_cache]. rewrite Hcache. reflexivity. }
    rewrite Hclear. destruct (c_touched (view t k)) eqn:Ht.
    - destruct Hv1 as (h' & Hh' & Hv1). rewrite Hh'. cbn [rbind]. rewrite <- Hv1. apply Hv2.
    - rewrite <- Hv1. rewrite <- (Hv2 k). unfold c_commit.
      unfold c_touched in Ht. rewrite Hv1. destruct (c_p (view t k)); [discriminate|].
      destruct (c_m (view t k)); [discriminate|reflexivity].
  Qed.

  Lemma TRepr_reorg t T n :
    TRepr t T -> ts_clk T <= n + W ->
    exists t', t_reorg W t n = Ok t' /\ TRepr t' (ts_step T (TReorg n)).
  Proof.
    intros TR Hwin.
    assert (Hall : forall k, exists h', h_reorg (c_retrieve (view t k)) n = Ok h').
    { intros k. destruct (CellRepr_eff _ _ _ _ _ (tr_cells _ _ TR k)) as (fl & R).
      pose proof (window_above_floor W _ _ _ _ _ R Hwin) as Hfl.
      destruct (Repr_reorg W _ _ _ _ n R Hfl) as (h' & Hr & _). exists h'. exact Hr. }
    destruct (reorg_keys_ok n (map fst (t_cdb t) ++ map fst (t_cache t)) t Hall) as (t1 & E1).
    destruct (reorg_keys_view n _ _ _ E1) as (Hd & Hc & Hnd1 & Hv1).
    pose proof (Hnd1 (tr_nodup _ _ TR)) as Hnd1'.
    (* commit on t1 cannot panic: its cache entries are non-empty *)
    assert (Hne : forall k h, In (k, h) (t_cache t1) -> h <> []).
    { intros k h Hin. pose proof (kv_get_nodup_in _ _ _ Hnd1' Hin) as Hget.
      specialize (Hv1 k). destruct (memb k _).
      - destruct Hv1 as (h' & Hh' & Hv1).
        assert (h = h').
        { unfold view, c_write in Hv1. cbn [c_d c_p fst snd] in Hv1. rewrite Hget in Hv1. congruence. }
        subst h'. unfold h_reorg in Hh'. destruct (filter _ _); [discriminate|]. injection Hh' as <-. discriminate.
      - assert (Hget0 : kv_get (t_cache t) k = Some h).
        { unfold view in Hv1. rewrite Hget in Hv1. congruence. }
        apply (TRepr_cache_nonempty t T k h TR). apply kv_get_in. assumption. }
    destruct (commit_entries_ok n (t_cache t1) Hne (t_db t1, t_cdb t1)) as ([d' c'] & E).
    assert (E2 : t_commit W t1 n = Ok (mkTable d' c' [])).
    { unfold t_commit. rewrite E. reflexivity. }
    assert (Hr : t_reorg W t n = Ok (t_clear (mkTable d' c' []))).
    { unfold t_reorg. rewrite E1. cbn [rbind]. rewrite E2. reflexivity. }
    eexists. split; [exact Hr|].
    destruct (view_reorg t n _ (tr_nodup _ _ TR) Hr) as [Hv _].
    rewrite Hd, Hc in E.
    destruct (commit_entries_sorted n _ _ _ _ _ (tr_db_sorted _ _ TR) (tr_cdb_sorted _ _ TR) E) as [Hsd Hsc].
    constructor; cbn [t_clear t_cache t_db t_cdb ts_step ts_cur ts_sav ts_clk ts_sclk map]; try assumption; [|constructor].
    intros k. destruct (CellRepr_reorg _ _ _ _ _ n (tr_cells _ _ TR k) Hwin) as (c1 & Hc1 & CR1).
    rewrite (Hv k) in Hc1. injection Hc1 as <-. exact CR1.
  Qed.

  (* ---------- one step, a whole run ---------- *)

  Definition op_in_window (T : tspec) (o : @top V) : Prop :=
    match o with TReorg n => ts_clk T <= n + W | _ => True end.

  Theorem table_step_refines t T o t' :
    TRepr t T -> op_in_window T o -> t_step veq W t o = Ok t' -> TRepr t' (ts_step T o).
  Proof.
    intros TR Hw Hs. destruct o as [b k v|b k|b| |n]; cbn [t_step] in Hs.
    - apply (TRepr_set _ _ _ _ _ _ TR Hs).
    - apply (TRepr_unset _ _ _ _ _ TR Hs).
    - destruct (TRepr_commit t T b TR) as (t2 & E & TR2). rewrite E in Hs. injection Hs as <-. exact TR2.
    - injection Hs as <-. apply TRepr_clear. exact TR.
    - destruct (TRepr_reorg t T n TR Hw) as (t2 & E & TR2). rewrite E in Hs. injection Hs as <-. exact TR2.
  Qed.

  (* commit, clear and a rollback inside the window never panic *)
  Theorem table_step_no_panic t T o :
    TRepr t T -> op_in_window T o ->
    match o with TSet _ _ _ | TUnset _ _ => True | _ => t_step veq W t o <> Panic end.
  Proof.
    intros TR Hw. destruct o as [b k v|b k|b| |n]; cbn [t_step]; try exact I.
    - destruct (TRepr_commit t T b TR) as (t2 & E & _). rewrite E. discriminate.
    - discriminate.
    - destruct (TRepr_reorg t T n TR Hw) as (t2 & E & _). rewrite E. discriminate.
  Qed.

  Fixpoint run_in_window (T : tspec) (ops : list (@top V)) : Prop :=
    match ops with
    | [] => True
    | o :: r => op_in_window T o /\ run_in_window (ts_step T o) r
    end.

  Theorem table_run_refines ops : forall t T t',
    TRepr t T -> run_in_window T ops -> t_run veq W t ops = Ok t' ->
    TRepr t' (fold_left ts_step ops T).
  Proof.
    induction ops as [|o r IH]; intros t T t' TR Hw Hr.
    - cbn in Hr. injection Hr as <-. exact TR.
    - cbn [t_run] in Hr. destruct (t_step veq W t o) as [t1| |] eqn:Hs; cbn [rbind] in Hr; try discriminate.
      destruct Hw as [Hw1 Hw2]. cbn [fold_left].
      apply (IH t1 _ t' (table_step_refines _ _ _ _ TR Hw1 Hs) Hw2 Hr).
  Qed.

  (* ---------- range scans ---------- *)

  Definition latest_or_none (t : table) (k : N) : option V :=
    match t_latest t k with Ok v => v | _ => None end.

  Lemma overlay_spec lo hi (es : list (N * hist)) : forall acc,
    NoDup (map fst es) -> (forall k h, In (k, h) es -> h <> []) -> ksorted acc ->
    exists l, overlay acc es lo hi = Ok l /\ ksorted l /\
      forall k, kv_get l k =
        match kv_get es k with
        | Some h => if in_range lo hi k then match h_latest h with Ok v => v | _ => None end else kv_get acc k
        | None => kv_get acc k
        end.
  Proof.
    induction es as [|[k0 h0] r IH]; intros acc Hnd Hne Hs.
    - exists acc. repeat split; auto.
    - cbn [map fst] in Hnd. inversion Hnd as [|? ? Hnot Hnd']; subst.
      assert (Hne' : forall k h, In (k, h) r -> h <> []) by (intros k h Hin; apply (Hne k h); right; assumption).
      assert (Hk0 : kv_get r k0 = None).
      { destruct (kv_get r k0) eqn:E; [|reflexivity]. exfalso. apply Hnot. apply kv_get_in_keys. congruence. }
      cbn [overlay]. destruct (in_range lo hi k0) eqn:Hin.
      + assert (Hl : exists l0, h_latest h0 = Ok l0).
        { unfold h_latest. destruct (last_entry h0) as [[a x]|] eqn:E; [eexists; reflexivity|].
          apply last_entry_nil_iff in E. exfalso. apply (Hne k0 h0); [left; reflexivity|assumption]. }
        destruct Hl as (l0 & Hl0). rewrite Hl0. cbn [rbind].
        set (acc1 := match l0 with Some v => kv_put acc k0 v | None => kv_del acc k0 end).
        assert (Hs1 : ksorted acc1) by (subst acc1; destruct l0; [apply ksorted_put|apply ksorted_del]; assumption).
        destruct (IH acc1 Hnd' Hne' Hs1) as (l & Hov & Hsl & Hget).
        exists l. split; [subst acc1; destruct l0; exact Hov|]. split; [assumption|].
        intros k. rewrite Hget. cbn [kv_get]. destruct (N.eqb_spec k0 k) as [<-|Hne0].
        * rewrite Hk0, Hin, Hl0. subst acc1. destruct l0; [rewrite kv_get_put|rewrite kv_get_del]; rewrite N.eqb_refl; reflexivity.
        * assert (Ha : kv_get acc1 k = kv_get acc k).
          { subst acc1. destruct l0; [rewrite kv_get_put|rewrite kv_get_del]; destruct (N.eqb_spec k0 k); congruence. }
          rewrite Ha. reflexivity.
      + destruct (IH acc Hnd' Hne' Hs) as (l & Hov & Hsl & Hget).
        exists l. split; [assumption|]. split; [assumption|].
        intros k. rewrite Hget. cbn [kv_get]. destruct (N.eqb_spec k0 k) as [<-|Hne0].
        * rewrite Hk0, Hin. reflexivity.
        * reflexivity.
  Qed.

  Lemma kv_get_filter_range lo hi (m : list (N * V)) k :
    kv_get (filter (fun e => in_range lo hi (fst e)) m) k = if in_range lo hi k then kv_get m k else None.
  Proof.
    induction m as [|[k0 a0] t IH]; cbn [filter kv_get fst].
    - destruct (in_range lo hi k); reflexivity.
    - destruct (in_range lo hi k0) eqn:E0; cbn [kv_get].
      + destruct (N.eqb_spec k0 k) as [<-|Hne]; [rewrite E0; reflexivity|exact IH].
      + rewrite IH. destruct (N.eqb_spec k0 k) as [<-|Hne]; [rewrite E0; reflexivity|reflexivity].
  Qed.

  (* get_range is complete, exact and in key order: it is THE sorted list whose lookups are
     "latest(k) if k is in [lo, hi)" *)
  Theorem get_range_spec t T lo hi :
    TRepr t T ->
    exists l, t_get_range t lo hi = Ok l /\ ksorted l /\
      forall k, kv_get l k = if in_range lo hi k then latest_or_none t k else None.
  Proof.
    intros TR. unfold t_get_range.
    destruct (overlay_spec lo hi (t_cache t) (filter (fun e => in_range lo hi (fst e)) (t_db t))
                (tr_nodup _ _ TR) (fun k h => TRepr_cache_nonempty t T k h TR)
                (ksorted_filter _ _ (tr_db_sorted _ _ TR))) as (l & Hov & Hs & Hget).
    exists l. split; [assumption|]. split; [assumption|].
    intros k. rewrite Hget, kv_get_filter_range. unfold latest_or_none, t_latest.
    destruct (kv_get (t_cache t) k) as [h|]; destruct (in_range lo hi k); reflexivity.
  Qed.

  (* Hence two states that answer every point read alike answer every range scan alike:
     the HashMap order of the cache, and whether entries are cached or committed, are
     unobservable. *)
  Theorem get_range_determined_by_latest t1 T1 t2 T2 lo hi :
    TRepr t1 T1 -> TRepr t2 T2 ->
    (forall k, latest_or_none t1 k = latest_or_none t2 k) ->
    t_get_range t1 lo hi = t_get_range t2 lo hi.
  Proof.
    intros TR1 TR2 Heq.
    destruct (get_range_spec t1 T1 lo hi TR1) as (l1 & -> & Hs1 & Hg1).
    destruct (get_range_spec t2 T2 lo hi TR2) as (l2 & -> & Hs2 & Hg2).
    f_equal. apply ksorted_ext; try assumption.
    intros k. rewrite Hg1, Hg2, Heq. reflexivity.
  Qed.

  (* ---------- HashMap iteration order is unobservable (C02) ---------- *)

  Lemma kv_get_perm {A} (m1 m2 : list (N * A)) k :
    NoDup (map fst m1) -> Permutation.Permutation m1 m2 -> kv_get m1 k = kv_get m2 k.
  Proof.
    intros Hnd Hp.
    assert (Hnd2 : NoDup (map fst m2)).
    { apply (Permutation.Permutation_NoDup (Permutation.Permutation_map fst Hp) Hnd). }
    destruct (kv_get m1 k) as [a|] eqn:E1.
    - apply kv_get_in in E1. symmetry. apply kv_get_nodup_in; [assumption|].
      apply (Permutation.Permutation_in _ Hp E1).
    - destruct (kv_get m2 k) as [a|] eqn:E2; [|reflexivity].
      apply kv_get_in in E2. apply (Permutation.Permutation_in _ (Permutation.Permutation_sym Hp)) in E2.
      rewrite (kv_get_nodup_in _ _ _ Hnd E2) in E1. discriminate.
  Qed.

  Theorem cache_order_unobservable t1 t2 T lo hi :
    TRepr t1 T -> t_db t2 = t_db t1 -> t_cdb t2 = t_cdb t1 ->
    Permutation.Permutation (t_cache t1) (t_cache t2) ->
    TRepr t2 T /\
    (forall k, t_latest t2 k = t_latest t1 k) /\
    t_get_range t2 lo hi = t_get_range t1 lo hi.
  Proof.
    intros TR Hd Hc Hp.
    assert (Hview : forall k, view t2 k = view t1 k).
    { intros k. unfold view. rewrite Hd, Hc. rewrite (kv_get_perm _ _ k (tr_nodup _ _ TR) Hp). reflexivity. }
    assert (TR2 : TRepr t2 T).
    { constructor.
      - intros k. rewrite Hview. apply TR.
      - apply (Permutation.Permutation_NoDup (Permutation.Permutation_map fst Hp) (tr_nodup _ _ TR)).
      - rewrite Hd. apply TR.
      - rewrite Hc. apply TR. }
    assert (Hl : forall k, t_latest t2 k = t_latest t1 k).
    { intros k. unfold t_latest. rewrite Hd. rewrite (kv_get_perm _ _ k (tr_nodup _ _ TR) Hp). reflexivity. }
    split; [exact TR2|]. split; [exact Hl|].
    apply (get_range_determined_by_latest _ _ _ _ lo hi TR2 TR).
    intros k. unfold latest_or_none. rewrite Hl. reflexivity.
  Qed.

  (* ---------- a crash in the middle of commit(b) (C04) ----------
     commit writes two rows per cache entry: a history that is kept is written BEFORE the
     latest row; a history that is dropped (is_old) is deleted AFTER the latest row.  A crash
     leaves each key in one of three persistent states; the in-memory cache is gone. *)

  Definition crash_none (c : cell) : cell := (c_d c, c_p c, None).
  Definition crash_mid (b : N) (c : cell) : res cell :=
    match c_m c with
    | Some h =>
        if h_is_old W h b
        then do l <- h_latest h; Ok (l, c_p c, None)          (* latest row written, old history row still there *)
        else Ok (c_d c, Some h, None)                          (* history row written, latest row stale *)
    | None => Ok (c_d c, c_p c, None)
    end.
  Definition crash_both (b : N) (c : cell) : res cell := c_commit b c.

  Lemma c_reorg_ignores_d n d1 d2 (hp : hist) :
    c_reorg n (d1, Some hp, None) = c_reorg n (d2, Some hp, None).
  Proof.
    unfold c_reorg, c_touched, c_retrieve, effp, c_write, c_commit. cbn [c_p c_m c_d fst snd].
    destruct (h_reorg hp n) as [h'| |]; reflexivity.
  Qed.

  (* [cd]: the height that was durable before the commit started; writes made since are
     stamped above it, so the current and the saved specification agree up to [cd]. *)
  Theorem crash_in_commit_recovers c S Sv clk sclk b cd n :
    CellRepr c S Sv clk sclk ->
    (forall m, m <= cd -> S m = Sv m) ->
    n <= cd -> N.max clk (b - 1) <= n + W ->
    forall K, (K = crash_none c \/ crash_mid b c = Ok K \/ crash_both b c = Ok K) ->
    exists c' clk', c_reorg n K = Ok c' /\
                    CellRepr c' (s_reorg S n) (s_reorg S n) clk' clk'.
  Proof.
    intros CR Hagree Hn Hwin K HK.
    assert (Hext : forall m, s_reorg Sv n m = s_reorg S n m).
    { intros m. unfold s_reorg. symmetry. apply Hagree. lia. }
    assert (G0 : exists c' clk', c_reorg n (crash_none c) = Ok c' /\
                                 CellRepr c' (s_reorg S n) (s_reorg S n) clk' clk').
    { pose proof (CellRepr_clear _ _ _ _ _ CR) as CR0.
      assert (Hw : sclk <= n + W) by (pose proof (cr_clk _ _ _ _ _ CR); lia).
      destruct (CellRepr_reorg _ _ _ _ _ n CR0 Hw) as (c' & Hc' & CR').
      exists c', (N.max sclk (n - 1)). split; [exact Hc'|].
      destruct CR' as [(flp & Rp) Rd Rm Rc]. constructor; try assumption.
      - exists flp. apply (Repr_ext _ (s_reorg Sv n)); assumption.
      - destruct (c_m c'); [|reflexivity]. destruct Rm as (fl & R). exists fl.
        apply (Repr_ext _ (s_reorg Sv n)); assumption. }
    assert (G2 : forall K2, crash_both b c = Ok K2 ->
                 exists c' clk', c_reorg n K2 = Ok c' /\ CellRepr c' (s_reorg S n) (s_reorg S n) clk' clk').
    { intros K2 HK2. destruct (CellRepr_commit _ _ _ _ _ b CR) as (c2 & Hc2 & CR2).
      unfold crash_both in HK2. rewrite Hc2 in HK2. injection HK2 as <-.
      destruct (CellRepr_reorg _ _ _ _ _ n CR2 Hwin) as (c' & Hc' & CR').
      exists c', (N.max (N.max clk (b - 1)) (n - 1)). split; assumption. }
    destruct HK as [->|[HK|HK]]; [exact G0| |exact (G2 K HK)].
    unfold crash_mid in HK. destruct c as [[d p] m]. cbn [c_m c_d c_p fst snd] in *.
    destruct m as [h|]; [|injection HK as <-; exact G0].
    destruct (h_is_old W h b) eqn:Hold.
    - (* latest row written, the old history row (if any) still there *)
      destruct (h_latest h) as [l| |] eqn:Hl; cbn [rbind] in HK; try discriminate. injection HK as <-.
      destruct p as [hp|].
      + (* reloaded from the old history row: as if nothing had been written *)
        rewrite (c_reorg_ignores_d n l d hp). exact G0.
      + (* no history row: this IS the fully committed state *)
        apply G2. unfold crash_both, c_commit. cbn [c_m c_d c_p fst snd]. rewrite Hl, Hold. reflexivity.
    - (* history row written, latest row stale: the reorg reloads the history row *)
      injection HK as <-.
      destruct (h_latest h) as [l| |] eqn:Hl.
      + rewrite (c_reorg_ignores_d n d l h). apply G2.
        unfold crash_both, c_commit. cbn [c_m c_d c_p fst snd]. rewrite Hl, Hold. reflexivity.
      + destruct (CellRepr_commit _ _ _ _ _ b CR) as (c2 & Hc2 & _).
        unfold c_commit in Hc2. cbn [c_m c_d c_p fst snd] in Hc2. rewrite Hl in Hc2. discriminate.
      + destruct (CellRepr_commit _ _ _ _ _ b CR) as (c2 & Hc2 & _).
        unfold c_commit in Hc2. cbn [c_m c_d c_p fst snd] in Hc2. rewrite Hl in Hc2. discriminate.
  Qed.

  (* The order matters: had the dropped history row been deleted BEFORE the latest row was
     written (as the code did before the repair), the state in between, with no history row and
     a stale latest row, is beyond recovery: the reorg does not touch the key. *)
  Theorem crash_delete_first_unrecoverable n (d : option V) :
    c_reorg n (d, None, None) = Ok (d, None, None).
  Proof. reflexivity. Qed.
End TableP.
