(* Proofs about the gas allowance and the estimate bisection (C16). *)
From Brc.Model Require Import Base Gas.

Arguments N.add : simpl never.
Arguments N.mul : simpl never.
Arguments N.div : simpl never.
Arguments N.modulo : simpl never.
Arguments N.pow : simpl never.
Arguments N.leb : simpl never.
Arguments N.ltb : simpl never.
Arguments N.eqb : simpl never.
Arguments N.min : simpl never.

Lemma u64max_eq : u64max = 2 ^ 64 - 1.
Proof. reflexivity. Qed.

Lemma add64_fits c a b : a + b <= u64max -> add64 c a b = Ok (a + b).
Proof. intros H. unfold add64. destruct (N.leb_spec (a + b) u64max); [reflexivity|lia]. Qed.

Section GasP.
  Variable GPB : N.
  Hypothesis GPB_pos : 0 < GPB.

  Notation gas_limit := (gas_limit GPB).
  Notation byte_len := (byte_len GPB).
  Notation ceil_div := (ceil_div GPB).
  Notation regas := (regas GPB).

  Lemma gas_limit_def len : gas_limit len = N.min (len * GPB) (2 ^ 64 - 1).
  Proof. reflexivity. Qed.

  Lemma gas_limit_le_u64 len : gas_limit len <= u64max.
  Proof. unfold Gas.gas_limit. lia. Qed.

  Lemma gas_limit_exact len : len * GPB <= u64max -> gas_limit len = len * GPB.
  Proof. intros. unfold Gas.gas_limit. lia. Qed.

  Lemma gas_limit_saturated len : u64max <= len * GPB -> gas_limit len = u64max.
  Proof. intros. unfold Gas.gas_limit. lia. Qed.

  Lemma gas_limit_mono a b : a <= b -> gas_limit a <= gas_limit b.
  Proof.
    intros. unfold Gas.gas_limit. assert (a * GPB <= b * GPB) by (apply N.mul_le_mono_r; lia). lia.
  Qed.

  (* deposits, withdrawals and the genesis deployment pass u64::MAX as the length *)
  Lemma gas_limit_max : gas_limit u64max = u64max.
  Proof.
    apply gas_limit_saturated. assert (u64max * 1 <= u64max * GPB) by (apply N.mul_le_mono_l; lia). lia.
  Qed.

  (* get_inscription_byte_len (get_gas_limit n) *)
  Lemma byte_len_inverse len :
    (len * GPB <= u64max -> byte_len (gas_limit len) = len) /\
    (u64max < len * GPB -> byte_len (gas_limit len) = u64max / GPB /\ u64max / GPB < len).
  Proof.
    split; intros H.
    - rewrite gas_limit_exact by lia. unfold Gas.byte_len. apply N.div_mul. lia.
    - rewrite gas_limit_saturated by lia. unfold Gas.byte_len. split; [reflexivity|].
      apply N.div_lt_upper_bound; [lia|]. lia.
  Qed.

  (* a parked transaction is re-executed with at most its original allowance, and loses less
     than one byte's worth (only when the original was saturated) *)
  Lemma regas_le len : regas (gas_limit len) <= gas_limit len.
  Proof.
    unfold Gas.regas, Gas.byte_len.
    pose proof (N.mul_div_le (gas_limit len) GPB ltac:(lia)).
    unfold Gas.gas_limit at 1. lia.
  Qed.

  Lemma regas_exact len : len * GPB <= u64max -> regas (gas_limit len) = gas_limit len.
  Proof.
    intros H. unfold Gas.regas. destruct (byte_len_inverse len) as [E _]. rewrite (E H). reflexivity.
  Qed.

  Lemma regas_close len : gas_limit len < regas (gas_limit len) + GPB.
  Proof.
    unfold Gas.regas, Gas.byte_len.
    generalize (gas_limit_le_u64 len). generalize (gas_limit len). intros g Hg.
    pose proof (N.div_mod g GPB ltac:(lia)) as Hd.
    pose proof (N.mod_upper_bound g GPB ltac:(lia)) as Hm.
    pose proof (N.mul_div_le g GPB ltac:(lia)) as Hle.
    rewrite gas_limit_exact by lia. lia.
  Qed.

  Lemma regas_idem64 g : g <= u64max -> regas (regas g) = regas g.
  Proof.
    intros Hg. unfold Gas.regas. set (n := byte_len g).
    assert (Hn : n * GPB <= u64max).
    { unfold n, Gas.byte_len. pose proof (N.mul_div_le g GPB ltac:(lia)). lia. }
    destruct (byte_len_inverse n) as [E _]. rewrite (E Hn). reflexivity.
  Qed.

  (* rounding an estimate up to whole bytes gives at least the estimate *)
  Lemma ceil_covers e : e <= u64max -> e <= gas_limit (ceil_div e).
  Proof.
    intros He. unfold Gas.gas_limit, Gas.ceil_div.
    pose proof (N.div_mod (e + GPB - 1) GPB ltac:(lia)) as Hd.
    pose proof (N.mod_upper_bound (e + GPB - 1) GPB ltac:(lia)) as Hm.
    assert (e <= (e + GPB - 1) / GPB * GPB) by lia. lia.
  Qed.

  (* and wastes less than one byte *)
  Lemma ceil_tight e : ceil_div e * GPB < e + GPB.
  Proof.
    unfold Gas.ceil_div.
    pose proof (N.mul_div_le (e + GPB - 1) GPB ltac:(lia)). lia.
  Qed.

  (* ------------------------------------------------------------------------------------ *)
  (* Arithmetic stays inside u64: with the subtraction form of the loop whenever the bounds are
     u64 values; with the addition form only when twice the bound and bound + GPB fit. *)
  Definition fits (B : N) : Prop := B + B <= u64max /\ B + GPB <= u64max.
  Definition arith_ok (safe : bool) (B : N) : Prop := if safe then B <= u64max else fits B.

  Lemma arith_ok_u64 safe B : arith_ok safe B -> B <= u64max.
  Proof. destruct safe; cbn; [trivial|]. intros [H _]. lia. Qed.

  Lemma guard_exact safe checks B lo hi : arith_ok safe B -> lo <= B -> hi <= B ->
    loop_guard GPB safe checks lo hi = Ok (lo + GPB <? hi).
  Proof.
    intros HB Hlo Hhi. unfold loop_guard. destruct safe; cbn in HB.
    - f_equal. destruct (N.ltb_spec GPB (hi - lo)), (N.ltb_spec (lo + GPB) hi); try reflexivity; lia.
    - destruct HB as [H1 H2]. rewrite add64_fits by lia. reflexivity.
  Qed.

  Lemma mid_exact safe checks B lo hi : arith_ok safe B -> lo <= hi -> hi <= B ->
    midpoint safe checks lo hi = Ok ((lo + hi) / 2).
  Proof.
    intros HB Hlo Hhi. unfold midpoint. destruct safe; cbn in HB.
    - f_equal. replace (lo + hi) with ((hi - lo) + lo * 2) by lia. rewrite N.div_add by lia. lia.
    - destruct HB as [H1 H2]. rewrite add64_fits by lia. reflexivity.
  Qed.

  Lemma div2_le a : a / 2 <= a.
  Proof. apply N.div_le_upper_bound; lia. Qed.

  Lemma mid_bounds lo hi : lo < hi -> lo <= (lo + hi) / 2 /\ (lo + hi) / 2 < hi.
  Proof.
    intros H. split.
    - apply N.div_le_lower_bound; lia.
    - apply N.div_lt_upper_bound; lia.
  Qed.

  Section EstimateP.
    Context {Out : Type}.
    Variable safe : bool.
    Variable checks : bool.
    Variable cap : N.
    Variable run : N -> option (bool * Out).

    Notation succ := (succ run).
    Notation bisect := (bisect GPB safe checks run).
    Notation estimate := (estimate GPB safe checks cap run).

    Lemma bisect_S f lo hi :
      bisect (S f) lo hi =
      match loop_guard GPB safe checks lo hi with
      | Ok true =>
          match midpoint safe checks lo hi with
          | Ok mid =>
              if succ mid then bisect f lo mid
              else match add64 checks mid 1 with
                   | Ok l => bisect f l hi
                   | Err => Some Err
                   | Panic => Some Panic
                   end
          | Err => Some Err
          | Panic => Some Panic
          end
      | Ok false => Some (Ok hi)
      | Err => Some Err
      | Panic => Some Panic
      end.
    Proof. reflexivity. Qed.

    (* one iteration, with exact arithmetic *)
    Lemma bisect_step B f lo hi : arith_ok safe B -> lo <= B -> hi <= B ->
      bisect (S f) lo hi =
      if lo + GPB <? hi then
        (if succ ((lo + hi) / 2) then bisect f lo ((lo + hi) / 2) else bisect f ((lo + hi) / 2 + 1) hi)
      else Some (Ok hi).
    Proof.
      intros HB Hlo Hhi. rewrite bisect_S, (guard_exact safe checks B) by assumption.
      destruct (N.ltb_spec (lo + GPB) hi) as [Hlt|]; [|reflexivity].
      rewrite (mid_exact safe checks B) by (try assumption; lia).
      destruct (Gas.succ run ((lo + hi) / 2)); [reflexivity|].
      destruct (mid_bounds lo hi ltac:(lia)) as [_ Hm]. pose proof (arith_ok_u64 _ _ HB).
      rewrite add64_fits by lia. reflexivity.
    Qed.

    (* Termination: the width hi - lo at least halves per iteration and the loop stops at
       width <= GPB (>= 1), so a width below 2^(f+1) needs at most f iterations. *)
    Lemma bisect_terminates_gen B : arith_ok safe B ->
      forall f lo hi, lo <= B -> hi <= B -> hi - lo < 2 ^ (N.of_nat f + 1) ->
        exists r, bisect (S f) lo hi = Some r.
    Proof.
      intros HB. induction f as [|f IH]; intros lo hi Hlo Hhi Hw.
      - rewrite (bisect_step B) by assumption.
        change (2 ^ (N.of_nat 0 + 1)) with 2 in Hw.
        destruct (N.ltb_spec (lo + GPB) hi); [lia|]. eauto.
      - rewrite (bisect_step B) by assumption.
        destruct (N.ltb_spec (lo + GPB) hi) as [Hlt|]; [|eauto].
        assert (Hlh : lo < hi) by lia.
        destruct (mid_bounds lo hi Hlh) as [Hm1 Hm2].
        assert (Hpow : 2 ^ (N.of_nat (S f) + 1) = 2 * 2 ^ (N.of_nat f + 1)).
        { rewrite Nat2N.inj_succ. rewrite <- N.add_1_r. rewrite <- N.pow_succ_r'. f_equal. lia. }
        rewrite Hpow in Hw.
        remember (2 ^ (N.of_nat f + 1)) as P eqn:EP. clear EP Hpow.
        assert (Hup : (lo + hi) / 2 < lo + P) by (apply N.div_lt_upper_bound; lia).
        assert (Hdn : hi < (lo + hi) / 2 + 1 + P).
        { destruct (N.le_gt_cases P hi); [|lia].
          assert (hi - P <= (lo + hi) / 2) by (apply N.div_le_lower_bound; lia). lia. }
        destruct (Gas.succ run ((lo + hi) / 2)).
        + apply IH; lia.
        + apply IH; lia.
    Qed.

    Lemma bisection_terminates_from lo hi B :
      arith_ok safe B -> lo <= B -> hi <= B -> exists r, bisect 64 lo hi = Some r.
    Proof.
      intros HB Hlo Hhi. apply (bisect_terminates_gen B HB 63%nat lo hi Hlo Hhi).
      pose proof (arith_ok_u64 _ _ HB) as HB'. change (2 ^ (N.of_nat 63 + 1)) with 18446744073709551616.
      unfold u64max in HB'. lia.
    Qed.

    (* The loop invariant: the upper end succeeds. *)
    Lemma bisect_succeeding :
      forall f lo hi e, succ hi = true -> bisect f lo hi = Some (Ok e) -> succ e = true.
    Proof.
      induction f as [|f IH]; intros lo hi e Hs H; [discriminate|].
      rewrite bisect_S in H.
      destruct (loop_guard GPB safe checks lo hi) as [[|]| |]; try discriminate.
      - destruct (midpoint safe checks lo hi) as [mid| |]; try discriminate.
        destruct (Gas.succ run mid) eqn:Em.
        + exact (IH _ _ _ Em H).
        + destruct (add64 checks mid 1) as [l| |]; try discriminate. exact (IH _ _ _ Hs H).
      - injection H as <-. exact Hs.
    Qed.

    (* The result lies between the bounds and within GPB of a point that is the initial lower
       bound or just above a failed run: the estimate is not minimal, it is within one
       byte's worth of gas of a failing limit. *)
    Lemma bisect_range B : arith_ok safe B ->
      forall f lo hi e, lo <= hi -> hi <= B -> bisect f lo hi = Some (Ok e) ->
        lo <= e <= hi /\ exists l, lo <= l /\ e <= l + GPB /\ (l = lo \/ (0 < l /\ succ (l - 1) = false)).
    Proof.
      intros HB. induction f as [|f IH]; intros lo hi e Hlh Hhi H; [discriminate|].
      rewrite (bisect_step B) in H by (try assumption; lia).
      destruct (N.ltb_spec (lo + GPB) hi) as [Hlt|Hge].
      - assert (Hl : lo < hi) by lia. destruct (mid_bounds lo hi Hl) as [Hm1 Hm2].
        destruct (Gas.succ run ((lo + hi) / 2)) eqn:Em.
        + destruct (IH lo ((lo + hi) / 2) e ltac:(lia) ltac:(lia) H) as [Hr (l & Hl1 & Hl2 & Hl3)].
          split; [lia|]. exists l. auto.
        + destruct (IH ((lo + hi) / 2 + 1) hi e ltac:(lia) ltac:(lia) H) as [Hr (l & Hl1 & Hl2 & Hl3)].
          split; [lia|]. exists l. split; [lia|]. split; [exact Hl2|].
          destruct Hl3 as [->|Hl3]; [|right; exact Hl3].
          right. split; [lia|]. replace ((lo + hi) / 2 + 1 - 1) with ((lo + hi) / 2) by lia. exact Em.
      - injection H as <-. split; [lia|]. exists lo. split; [lia|]. split; [lia|]. left; reflexivity.
    Qed.

    (* eth_estimateGas as a whole *)
    Lemma estimate_terminates : arith_ok safe (N.max cap 21000) -> exists r, estimate 64 = Some r.
    Proof.
      intros HB. unfold Gas.estimate. destruct (Gas.succ run cap); [|eauto].
      destruct (bisection_terminates_from 21000 cap (N.max cap 21000) HB ltac:(lia) ltac:(lia)) as [r ->].
      destruct r as [e| |]; eauto. destruct (Gas.succ run e); eauto.
    Qed.

    Lemma estimate_succeeds f e : estimate f = Some (Ok e) -> succ e = true.
    Proof.
      unfold Gas.estimate. destruct (Gas.succ run cap) eqn:Ec; [|discriminate].
      destruct (bisect f 21000 cap) as [[x| |]|] eqn:Eb; try discriminate.
      destruct (Gas.succ run x) eqn:Ex; [|discriminate]. intros [= <-]. exact Ex.
    Qed.

    Lemma estimate_le_cap f e : arith_ok safe cap -> 21000 <= cap -> estimate f = Some (Ok e) -> 21000 <= e <= cap.
    Proof.
      intros HB Hc. unfold Gas.estimate. destruct (Gas.succ run cap); [|discriminate].
      destruct (bisect f 21000 cap) as [[x| |]|] eqn:Eb; try discriminate.
      destruct (Gas.succ run x); [|discriminate]. intros [= <-].
      destruct (bisect_range cap HB f 21000 cap x Hc ltac:(lia) Eb) as [Hr _]. exact Hr.
    Qed.

    (* a cap below 21000 + GPB: no iteration, the estimate is the cap itself *)
    Lemma estimate_small_cap f : cap <= 21000 + GPB -> 21000 + GPB + 21000 + GPB <= u64max -> succ cap = true ->
      estimate (S f) = Some (Ok cap).
    Proof.
      intros Hc Hf Hs. unfold Gas.estimate. rewrite Hs.
      assert (HB : arith_ok safe (21000 + GPB)) by (destruct safe; cbn; [lia|split; lia]).
      rewrite (bisect_step (21000 + GPB)) by (try assumption; lia).
      destruct (N.ltb_spec (21000 + GPB) cap); [lia|]. rewrite Hs. reflexivity.
    Qed.

    (* The property: the estimate, rounded up to whole inscription bytes, is an allowance
       under which the same call succeeds with the same output, for gas-monotone programs. *)
    Definition gas_monotone : Prop :=
      forall g g' o, run g = Some (true, o) -> g <= g' -> run g' = Some (true, o).

    Lemma estimate_sufficient f e :
      gas_monotone -> e <= u64max -> estimate f = Some (Ok e) ->
      exists o, run e = Some (true, o) /\ run (gas_limit (ceil_div e)) = Some (true, o) /\ e <= gas_limit (ceil_div e).
    Proof.
      intros Hm He H. pose proof (estimate_succeeds f e H) as Hs. unfold Gas.succ in Hs.
      destruct (run e) as [[[|] o]|] eqn:Er; try discriminate.
      exists o. split; [reflexivity|]. pose proof (ceil_covers e He) as Hc.
      split; [|exact Hc]. exact (Hm _ _ _ Er Hc).
    Qed.
  End EstimateP.

  (* ------------------------------------------------------------------------------------ *)
  (* eth_estimateGasMany: termination of the per-position loop and "the returned vector was
     confirmed by a final run of the whole batch".                                          *)
  Section EstimateManyP.
    Variable safe : bool.
    Variable checks : bool.
    Variable cap : N.
    Variable runm : list N -> option (list bool).

    Notation bisect_m := (bisect_m GPB safe checks runm).
    Notation estimate_many := (estimate_many GPB safe checks cap runm).

    Lemma bisect_m_step B f i gs lo hi : arith_ok safe B -> lo <= B -> hi <= B ->
      bisect_m (S f) i gs lo hi =
      if lo + GPB <? hi then
        (if succm runm i (set_nth gs i ((lo + hi) / 2)) then bisect_m f i (set_nth gs i ((lo + hi) / 2)) lo ((lo + hi) / 2)
         else bisect_m f i (set_nth gs i ((lo + hi) / 2)) ((lo + hi) / 2 + 1) hi)
      else Some (Ok (set_nth gs i hi)).
    Proof.
      intros HB Hlo Hhi. cbn [Gas.bisect_m]. rewrite (guard_exact safe checks B) by assumption.
      destruct (N.ltb_spec (lo + GPB) hi) as [Hlt|]; [|reflexivity].
      rewrite (mid_exact safe checks B) by (try assumption; lia).
      destruct (succm runm i (set_nth gs i ((lo + hi) / 2))); [reflexivity|].
      destruct (mid_bounds lo hi ltac:(lia)) as [_ Hm]. pose proof (arith_ok_u64 _ _ HB).
      rewrite add64_fits by lia. reflexivity.
    Qed.

    Lemma bisect_m_terminates B : arith_ok safe B ->
      forall f i gs lo hi, lo <= B -> hi <= B -> hi - lo < 2 ^ (N.of_nat f + 1) ->
        exists r, bisect_m (S f) i gs lo hi = Some r.
    Proof.
      intros HB. induction f as [|f IH]; intros i gs lo hi Hlo Hhi Hw.
      - rewrite (bisect_m_step B) by assumption.
        change (2 ^ (N.of_nat 0 + 1)) with 2 in Hw.
        destruct (N.ltb_spec (lo + GPB) hi); [lia|]. eauto.
      - rewrite (bisect_m_step B) by assumption.
        destruct (N.ltb_spec (lo + GPB) hi) as [Hlt|]; [|eauto].
        assert (Hlh : lo < hi) by lia.
        destruct (mid_bounds lo hi Hlh) as [Hm1 Hm2].
        assert (Hpow : 2 ^ (N.of_nat (S f) + 1) = 2 * 2 ^ (N.of_nat f + 1)).
        { rewrite Nat2N.inj_succ. rewrite <- N.add_1_r. rewrite <- N.pow_succ_r'. f_equal. lia. }
        rewrite Hpow in Hw.
        remember (2 ^ (N.of_nat f + 1)) as P eqn:EP. clear EP Hpow.
        assert (Hup : (lo + hi) / 2 < lo + P) by (apply N.div_lt_upper_bound; lia).
        assert (Hdn : hi < (lo + hi) / 2 + 1 + P).
        { destruct (N.le_gt_cases P hi); [|lia].
          assert (hi - P <= (lo + hi) / 2) by (apply N.div_le_lower_bound; lia). lia. }
        destruct (succm runm i (set_nth gs i ((lo + hi) / 2))).
        + apply IH; lia.
        + apply IH; lia.
    Qed.

    Lemma each_pos_terminates : arith_ok safe (N.max cap 21000) ->
      forall n i gs, exists r, each_pos GPB safe checks cap runm 64 n i gs = Some r.
    Proof.
      intros HB. induction n as [|n IH]; intros i gs; cbn [Gas.each_pos]; [eauto|].
      destruct (bisect_m_terminates _ HB 63%nat i gs 21000 cap ltac:(lia) ltac:(lia)) as [r Hr].
      { pose proof (arith_ok_u64 _ _ HB) as HB'. change (2 ^ (N.of_nat 63 + 1)) with 18446744073709551616.
        unfold u64max in HB'. lia. }
      change (S 63) with 64%nat in Hr. rewrite Hr. destruct r as [gs'| |]; eauto.
    Qed.

    Lemma estimate_many_terminates n : arith_ok safe (N.max cap 21000) -> exists r, estimate_many 64 n = Some r.
    Proof.
      intros HB. unfold Gas.estimate_many. destruct (all_true (runm (repeat cap n))); [|eauto].
      destruct (each_pos_terminates HB n 0%nat (repeat cap n)) as [r ->].
      destruct r as [gs| |]; eauto. destruct (all_true (runm gs)); eauto.
    Qed.

    Lemma estimate_many_confirmed f n gs :
      estimate_many f n = Some (Ok gs) -> exists sts, runm gs = Some sts /\ forallb (fun b => b) sts = true.
    Proof.
      unfold Gas.estimate_many. destruct (all_true (runm (repeat cap n))); [|discriminate].
      destruct (each_pos GPB safe checks cap runm f n 0 (repeat cap n)) as [[x| |]|]; try discriminate.
      destruct (all_true (runm x)) eqn:E; [|discriminate]. intros [= <-].
      unfold all_true in E. destruct (runm x) as [sts|]; [|discriminate]. eauto.
    Qed.
  End EstimateManyP.
End GasP.
