From Coq Require Import Arith.
From Brc.Model Require Import Base Logs.
Arguments N.add : simpl never.
Arguments N.mul : simpl never.
Arguments N.leb : simpl never.
Arguments N.ltb : simpl never.
Arguments N.eqb : simpl never.
Arguments N.pow : simpl never.

Lemma key_range_iff (f t : N) (e : entry) :
  e_idx e < 2 ^ 64 ->
  ((f * 2 ^ 64 <=? e_key e) && (e_key e <? (t + 1) * 2 ^ 64)) = ((f <=? e_blk e) && (e_blk e <=? t)).
Proof.
  intros Hi. unfold e_key.
  assert (H64 : 0 < 2 ^ 64) by (apply N.neq_0_lt_0; apply N.pow_nonzero; discriminate).
  destruct (N.leb_spec f (e_blk e)) as [Hf|Hf], (N.leb_spec (e_blk e) t) as [Ht|Ht];
    destruct (N.leb_spec (f * 2 ^ 64) (e_blk e * 2 ^ 64 + e_idx e)) as [H1|H1];
    destruct (N.ltb_spec (e_blk e * 2 ^ 64 + e_idx e) ((t + 1) * 2 ^ 64)) as [H2|H2];
    cbn [andb]; try reflexivity; exfalso; nia.
Qed.

Lemma flat_map_filter {A B} (g : A -> list B) (p : B -> bool) (l : list A) :
  flat_map (fun a => filter p (g a)) l = filter p (flat_map g l).
Proof.
  induction l as [|a l IH]; [reflexivity|]. cbn [flat_map]. rewrite filter_app, IH. reflexivity.
Qed.

(* eth_getLogs = the matching logs of the blocks from..to, in chain order, each once *)
Theorem get_logs_eq_spec latest from to addr topics rows r :
  Forall (fun e => e_idx e < 2 ^ 64) rows ->
  get_logs latest from to addr topics rows = Ok r ->
  let f := match from with Some x => x | None => latest end in
  let t := match to with Some x => x | None => f end in
  r = filter (log_matches addr topics) (chain_logs f t rows) /\ t - f <= 5.
Proof.
  intros Hrows. unfold get_logs.
  set (f := match from with Some x => x | None => latest end).
  set (t := match to with Some x => x | None => f end).
  destruct (N.ltb_spec 5 (t - f)); [discriminate|].
  destruct (t =? U64MAX); [discriminate|]. intros [= <-]. cbn zeta. split; [|assumption].
  unfold chain_logs. rewrite <- flat_map_filter. f_equal.
  induction rows as [|e rows IH]; [reflexivity|]. inversion Hrows; subst.
  cbn [filter]. rewrite (key_range_iff f t e) by assumption. rewrite IH by assumption. reflexivity.
Qed.

Theorem get_logs_too_wide_refused latest from to addr topics rows :
  let f := match from with Some x => x | None => latest end in
  let t := match to with Some x => x | None => f end in
  5 < t - f -> get_logs latest from to addr topics rows = Err.
Proof.
  cbn zeta. intros H. unfold get_logs. apply N.ltb_lt in H. rewrite H. reflexivity.
Qed.

Theorem get_logs_never_panics latest from to addr topics rows :
  get_logs latest from to addr topics rows <> Panic.
Proof. unfold get_logs. destruct (5 <? _); [discriminate|]. destruct (_ =? U64MAX); discriminate. Qed.

(* a reversed range is served as the empty range *)
Theorem get_logs_reversed_empty latest f t addr topics rows :
  Forall (fun e => e_idx e < 2 ^ 64) rows -> t < f -> t <> U64MAX ->
  get_logs latest (Some f) (Some t) addr topics rows = Ok [].
Proof.
  intros Hrows Hlt Hmax. unfold get_logs.
  destruct (N.ltb_spec 5 (t - f)); [lia|]. destruct (N.eqb_spec t U64MAX); [contradiction|].
  f_equal. induction rows as [|e rows IH]; [reflexivity|]. inversion Hrows; subst.
  cbn [filter]. rewrite (key_range_iff f t e) by assumption.
  destruct (N.leb_spec f (e_blk e)), (N.leb_spec (e_blk e) t); cbn [andb]; try (apply IH; assumption). lia.
Qed.

(* filter semantics, position by position *)
Theorem topics_ok_spec fs : forall idx l,
  topics_ok fs idx l = true <->
  forall i f, nth_error fs i = Some f -> topic_pos_ok f (idx + i) l = true.
Proof.
  induction fs as [|f0 r IH]; intros idx l; cbn [topics_ok].
  - split; [intros _ i f H; destruct i; discriminate|reflexivity].
  - rewrite andb_true_iff, IH. split.
    + intros [H0 Hr] i f Hi. destruct i as [|i]; cbn [nth_error] in Hi.
      * injection Hi as <-. rewrite Nat.add_0_r. exact H0.
      * rewrite <- plus_n_Sm. apply (Hr i f Hi).
    + intros H. split.
      * specialize (H 0%nat f0 eq_refl). rewrite Nat.add_0_r in H. exact H.
      * intros i f Hi. specialize (H (S i) f Hi). rewrite <- plus_n_Sm in H. exact H.
Qed.

Theorem wildcard_and_alternatives l idx :
  topic_pos_ok (TSingle None) idx l = true /\
  (forall ts, topic_pos_ok (TVec ts) idx l = true <->
              exists x, nth_error (l_topics l) idx = Some x /\ In (Some x) ts) /\
  (forall t, topic_pos_ok (TSingle (Some t)) idx l = true <-> nth_error (l_topics l) idx = Some t).
Proof.
  split; [reflexivity|]. split.
  - intros ts. cbn [topic_pos_ok]. destruct (nth_error (l_topics l) idx) as [x|].
    + rewrite existsb_exists. split.
      * intros ([t|] & Hin & Ht); [|discriminate]. apply N.eqb_eq in Ht. subst t. exists x. auto.
      * intros (x' & [= <-] & Hin). exists (Some x). split; [assumption|apply N.eqb_refl].
    + split; [discriminate|]. intros (x & H & _). discriminate.
  - intros t. cbn [topic_pos_ok]. destruct (nth_error (l_topics l) idx) as [x|].
    + rewrite N.eqb_eq. split; [intros ->; reflexivity|intros [= ->]; reflexivity].
    + split; discriminate.
Qed.
