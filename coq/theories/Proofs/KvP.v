(* Lemmas about the association-list maps of Model/Table.v. *)
From Brc.Model Require Import Base History Table.
From Coq Require Import Sorting.Sorted Sorting.Permutation.

Arguments N.add : simpl never.
Arguments N.leb : simpl never.
Arguments N.ltb : simpl never.
Arguments N.eqb : simpl never.

Section KvP.
  Context {A : Type}.
  Notation kv := (list (N * A)).

  Lemma kv_get_put (m : kv) k a k' :
    kv_get (kv_put m k a) k' = if k =? k' then Some a else kv_get m k'.
  Proof.
    induction m as [|[k0 a0] t IH]; cbn [kv_put kv_get].
    - destruct (N.eqb_spec k k'); reflexivity.
    - destruct (N.ltb_spec k k0) as [Hlt|Hge]; cbn [kv_get].
      + destruct (N.eqb_spec k k'); reflexivity.
      + destruct (N.eqb_spec k k0) as [->|Hne]; cbn [kv_get].
        * destruct (N.eqb_spec k0 k'); reflexivity.
        * rewrite IH. destruct (N.eqb_spec k0 k') as [->|Hne']; [|reflexivity].
          destruct (N.eqb_spec k k'); [congruence|reflexivity].
  Qed.

  Lemma kv_get_del (m : kv) k k' :
    kv_get (kv_del m k) k' = if k =? k' then None else kv_get m k'.
  Proof.
    induction m as [|[k0 a0] t IH]; cbn [kv_del kv_get].
    - destruct (k =? k'); reflexivity.
    - destruct (N.eqb_spec k0 k) as [->|Hne]; cbn [kv_get].
      + rewrite IH. destruct (N.eqb_spec k k'); reflexivity.
      + rewrite IH. destruct (N.eqb_spec k0 k') as [->|Hne'].
        * destruct (N.eqb_spec k k'); [congruence|reflexivity].
        * reflexivity.
  Qed.

  Lemma hm_mem_get (m : kv) k : hm_mem m k = match kv_get m k with Some _ => true | None => false end.
  Proof.
    induction m as [|[k0 a0] t IH]; cbn [hm_mem kv_get]; [reflexivity|].
    destruct (k0 =? k); cbn [orb]; [reflexivity|exact IH].
  Qed.

  Lemma kv_get_replace (m : kv) k a k' :
    kv_get (hm_replace m k a) k' =
      if k =? k' then match kv_get m k with Some _ => Some a | None => None end else kv_get m k'.
  Proof.
    induction m as [|[k0 a0] t IH]; cbn [hm_replace kv_get].
    - destruct (k =? k'); reflexivity.
    - destruct (N.eqb_spec k0 k) as [->|Hne]; cbn [kv_get].
      + destruct (N.eqb_spec k k'); reflexivity.
      + rewrite IH. destruct (N.eqb_spec k0 k') as [->|Hne'].
        * destruct (N.eqb_spec k k'); [congruence|reflexivity].
        * reflexivity.
  Qed.

  Lemma kv_get_hm_insert (m : kv) k a k' :
    kv_get (hm_insert m k a) k' = if k =? k' then Some a else kv_get m k'.
  Proof.
    unfold hm_insert. rewrite hm_mem_get.
    destruct (kv_get m k) eqn:E.
    - rewrite kv_get_replace, E. reflexivity.
    - cbn [kv_get]. reflexivity.
  Qed.

  Lemma keys_replace (m : kv) k a : map fst (hm_replace m k a) = map fst m.
  Proof.
    induction m as [|[k0 a0] t IH]; cbn [hm_replace map]; [reflexivity|].
    destruct (k0 =? k); cbn [map fst]; [reflexivity|f_equal; exact IH].
  Qed.

  Lemma kv_get_in_keys (m : kv) k : kv_get m k <> None <-> In k (map fst m).
  Proof.
    induction m as [|[k0 a0] t IH]; cbn [kv_get map fst In].
    - split; [congruence|intros []].
    - destruct (N.eqb_spec k0 k) as [->|Hne].
      + split; [auto|discriminate].
      + rewrite IH. split; [auto|]. intros [H|H]; [congruence|assumption].
  Qed.

  Lemma nodup_hm_insert (m : kv) k a : NoDup (map fst m) -> NoDup (map fst (hm_insert m k a)).
  Proof.
    intros Hnd. unfold hm_insert. rewrite hm_mem_get.
    destruct (kv_get m k) eqn:E.
    - rewrite keys_replace. assumption.
    - cbn [map fst]. constructor; [|assumption].
      intros Hin. apply kv_get_in_keys in Hin. congruence.
  Qed.

  Lemma kv_get_in (m : kv) k a : kv_get m k = Some a -> In (k, a) m.
  Proof.
    induction m as [|[k0 a0] t IH]; cbn [kv_get]; [discriminate|].
    destruct (N.eqb_spec k0 k) as [->|Hne].
    - intros [= ->]. left; reflexivity.
    - intros H. right. apply IH; assumption.
  Qed.

  Lemma kv_get_nodup_in (m : kv) k a : NoDup (map fst m) -> In (k, a) m -> kv_get m k = Some a.
  Proof.
    induction m as [|[k0 a0] t IH]; cbn [map fst]; intros Hnd Hin; [destruct Hin|].
    inversion Hnd as [|? ? Hnot Hnd']; subst. cbn [kv_get].
    destruct Hin as [[= -> ->]|Hin].
    - rewrite N.eqb_refl. reflexivity.
    - destruct (N.eqb_spec k0 k) as [->|Hne].
      + exfalso. apply Hnot. apply (in_map fst) in Hin. exact Hin.
      + apply IH; assumption.
  Qed.

  (* ---------- ordered maps (RocksDB) ---------- *)

  Definition ksorted (m : kv) : Prop := StronglySorted (fun a b : N * A => fst a < fst b) m.

  Lemma ksorted_put (m : kv) k a : ksorted m -> ksorted (kv_put m k a).
  Proof.
    induction m as [|[k0 a0] t IH]; intros Hs; cbn [kv_put].
    - constructor; constructor.
    - inversion Hs as [|? ? Hst Hf]; subst.
      destruct (N.ltb_spec k k0) as [Hlt|Hge].
      + constructor; [assumption|]. constructor; [cbn [fst]; assumption|].
        rewrite Forall_forall in *. intros x Hx. specialize (Hf x Hx). cbn [fst] in *. lia.
      + destruct (N.eqb_spec k k0) as [->|Hne].
        * constructor; assumption.
        * constructor; [apply IH; assumption|].
          rewrite Forall_forall in *. intros x Hx.
          assert (Hk : fst x = k \/ In x t).
          { clear -Hx. induction t as [|[k1 a1] t IHt]; cbn [kv_put] in Hx.
            - destruct Hx as [<-|[]]. left; reflexivity.
            - destruct (k <? k1).
              + destruct Hx as [<-|Hx]; [left; reflexivity|right; assumption].
              + destruct (k =? k1).
                * destruct Hx as [<-|Hx]; [left; reflexivity|right; right; assumption].
                * destruct Hx as [<-|Hx]; [right; left; reflexivity|].
                  destruct (IHt Hx); [left; assumption|right; right; assumption]. }
          destruct Hk as [->|Hin]; cbn [fst]; [lia|]. apply (Hf x Hin).
  Qed.

  Lemma ksorted_del (m : kv) k : ksorted m -> ksorted (kv_del m k).
  Proof.
    induction m as [|[k0 a0] t IH]; intros Hs; cbn [kv_del]; [constructor|].
    inversion Hs as [|? ? Hst Hf]; subst.
    destruct (k0 =? k); [apply IH; assumption|].
    constructor; [apply IH; assumption|].
    rewrite Forall_forall in *. intros x Hx. apply Hf.
    clear -Hx. induction t as [|[k1 a1] t IHt]; cbn [kv_del] in Hx; [destruct Hx|].
    destruct (k1 =? k); [right; apply IHt; assumption|].
    destruct Hx as [<-|Hx]; [left; reflexivity|right; apply IHt; assumption].
  Qed.

  Lemma ksorted_filter (m : kv) f : ksorted m -> ksorted (filter f m).
  Proof.
    induction m as [|e t IH]; intros Hs; cbn [filter]; [constructor|].
    inversion Hs as [|? ? Hst Hf]; subst.
    destruct (f e); [|apply IH; assumption].
    constructor; [apply IH; assumption|].
    rewrite Forall_forall in *. intros x Hx. apply filter_In in Hx as [Hx _]. apply Hf; assumption.
  Qed.

  Lemma ksorted_nodup (m : kv) : ksorted m -> NoDup (map fst m).
  Proof.
    induction m as [|e t IH]; intros Hs; cbn [map]; [constructor|].
    inversion Hs as [|? ? Hst Hf]; subst. constructor; [|apply IH; assumption].
    intros Hin. apply in_map_iff in Hin as (x & Hx & Hxin).
    rewrite Forall_forall in Hf. specialize (Hf x Hxin). lia.
  Qed.

  (* Two sorted maps with the same lookups are equal. *)
  Lemma ksorted_ext (m1 m2 : kv) :
    ksorted m1 -> ksorted m2 -> (forall k, kv_get m1 k = kv_get m2 k) -> m1 = m2.
  Proof.
    revert m2. induction m1 as [|[k1 a1] t1 IH]; intros m2 Hs1 Hs2 Hext.
    - destruct m2 as [|[k2 a2] t2]; [reflexivity|].
      specialize (Hext k2). cbn [kv_get] in Hext. rewrite N.eqb_refl in Hext. discriminate.
    - destruct m2 as [|[k2 a2] t2].
      + specialize (Hext k1). cbn [kv_get] in Hext. rewrite N.eqb_refl in Hext. discriminate.
      + inversion Hs1 as [|? ? Hst1 Hf1]; subst. inversion Hs2 as [|? ? Hst2 Hf2]; subst.
        rewrite Forall_forall in Hf1, Hf2.
        assert (Hnone1 : forall k, k < k1 -> kv_get ((k1, a1) :: t1) k = None).
        { intros k Hk. destruct (kv_get ((k1, a1) :: t1) k) eqn:E; [|reflexivity].
          apply kv_get_in in E. destruct E as [[= -> ->]|E]; [lia|].
          specialize (Hf1 _ E). cbn [fst] in Hf1. lia. }
        assert (Hnone2 : forall k, k < k2 -> kv_get ((k2, a2) :: t2) k = None).
        { intros k Hk. destruct (kv_get ((k2, a2) :: t2) k) eqn:E; [|reflexivity].
          apply kv_get_in in E. destruct E as [[= -> ->]|E]; [lia|].
          specialize (Hf2 _ E). cbn [fst] in Hf2. lia. }
        assert (k1 = k2).
        { destruct (N.lt_trichotomy k1 k2) as [Hlt|[Heq|Hgt]]; [|assumption|].
          - pose proof (Hext k1) as E. rewrite (Hnone2 k1 Hlt) in E. cbn [kv_get] in E.
            rewrite N.eqb_refl in E. discriminate.
          - pose proof (Hext k2) as E. rewrite (Hnone1 k2 Hgt) in E. cbn [kv_get] in E.
            rewrite N.eqb_refl in E. discriminate. }
        subst k2.
        pose proof (Hext k1) as E. cbn [kv_get] in E. rewrite N.eqb_refl in E. injection E as ->.
        f_equal. apply IH; [assumption|assumption|].
        intros k. specialize (Hext k). cbn [kv_get] in Hext.
        destruct (N.eqb_spec k1 k) as [Heq|Hne]; [|assumption]. subst k.
        transitivity (@None A).
        * destruct (kv_get t1 k1) eqn:E; [|reflexivity]. apply kv_get_in in E. specialize (Hf1 _ E). cbn [fst] in Hf1. lia.
        * destruct (kv_get t2 k1) eqn:E; [|reflexivity]. apply kv_get_in in E. specialize (Hf2 _ E). cbn [fst] in Hf2. lia.
  Qed.
End KvP.
