From Brc.Model Require Import Base ReadSlot.

Section ReadSlotP.
  Context {S J Out : Type}.
  Variable empty_journal : J.
  Variable exec : S -> J -> N -> res (Out * J).

  Definition no_panic : Prop := forall s j i, exec s j i <> Panic.

  Theorem read_contract_pure s i :
    no_panic -> fst (read_contract empty_journal exec (Present s) i) = Present s.
  Proof.
    intros Hnp. unfold read_contract. destruct (exec s empty_journal i) as [[o j]| |] eqn:E; try reflexivity.
    exfalso. apply (Hnp _ _ _ E).
  Qed.

  Lemma multi_pure s : forall calls j acc,
    no_panic -> fst (multi exec s j calls acc) = Present s.
  Proof.
    induction calls as [|i r IH]; intros j acc Hnp; cbn [multi]; [reflexivity|].
    destruct (exec s j i) as [[o j']| |] eqn:E; try reflexivity.
    - apply IH; assumption.
    - exfalso. apply (Hnp _ _ _ E).
  Qed.

  (* every prefix length, every error index: the store is back in its slot, unchanged *)
  Theorem read_contract_multi_pure s calls :
    no_panic -> fst (read_contract_multi empty_journal exec (Present s) calls) = Present s.
  Proof. intros Hnp. apply multi_pure; assumption. Qed.

  Theorem estimate_gas_pure s runs :
    no_panic -> many_reads empty_journal exec (Present s) runs = Present s.
  Proof.
    intros Hnp. induction runs as [|i r IH]; cbn [many_reads]; [reflexivity|].
    rewrite (read_contract_pure s i Hnp). exact IH.
  Qed.

  (* and the only way to leave the slot empty is a panic inside the oracle *)
  Theorem slot_taken_only_by_panic s i :
    fst (read_contract empty_journal exec (Present s) i) = Taken -> exec s empty_journal i = Panic.
  Proof.
    unfold read_contract. destruct (exec s empty_journal i) as [[o j]| |]; cbn; try discriminate. reflexivity.
  Qed.

  (* ---------- whole histories (C10) ---------- *)
  Context {WOut : Type}.
  Variable wr : S -> N -> S * WOut.

  Notation serve := (serve empty_journal exec wr).
  Notation history := (history empty_journal exec wr).

  Lemma serve_read_pure s r :
    no_panic -> is_write r = false -> fst (serve (Present s) r) = Present s.
  Proof.
    intros Hnp Hr. destruct r as [w|i|calls|runs]; cbn [is_write] in Hr; try discriminate; cbn [serve].
    - pose proof (read_contract_pure s i Hnp) as H.
      destruct (read_contract empty_journal exec (Present s) i) as [sl o]. exact H.
    - pose proof (read_contract_multi_pure s calls Hnp) as H.
      destruct (read_contract_multi empty_journal exec (Present s) calls) as [sl o]. exact H.
    - cbn [fst]. apply estimate_gas_pure. exact Hnp.
  Qed.

  Lemma serve_read_not_write_ans sl r : is_write r = false -> is_write_ans (snd (serve sl r)) = false.
  Proof.
    intros Hr. destruct r as [w|i|calls|runs]; cbn [is_write] in Hr; try discriminate; cbn [serve].
    - destruct (read_contract empty_journal exec sl i); reflexivity.
    - destruct (read_contract_multi empty_journal exec sl calls); reflexivity.
    - reflexivity.
  Qed.

  Lemma serve_write_is_write_ans sl r : is_write r = true -> is_write_ans (snd (serve sl r)) = true.
  Proof.
    intros Hr. destruct r as [w|i|calls|runs]; cbn [is_write] in Hr; try discriminate; cbn [serve].
    destruct sl as [s|]; [destruct (wr s w)|]; reflexivity.
  Qed.

  (* The history with arbitrary read requests interleaved leaves the same store, and gives
     the same answers to the write calls, as the history without them. *)
  Theorem reads_erasable rs : forall s,
    no_panic ->
    fst (history (Present s) rs) = fst (history (Present s) (filter is_write rs)) /\
    filter is_write_ans (snd (history (Present s) rs)) = snd (history (Present s) (filter is_write rs)).
  Proof.
    induction rs as [|r rest IH]; intros s Hnp; [split; reflexivity|].
    cbn [filter]. destruct (is_write r) eqn:Hr.
    - (* a write: both histories perform it on the same store *)
      cbn [ReadSlot.history]. pose proof (serve_write_is_write_ans (Present s) r Hr) as Ha.
      destruct r as [w|i|calls|runs]; cbn [is_write] in Hr; try discriminate.
      cbn [serve] in *. destruct (wr s w) as [s' o].
      destruct (IH s' Hnp) as [IH1 IH2].
      destruct (history (Present s') rest) as [sl2 az].
      destruct (history (Present s') (filter is_write rest)) as [sl2' az'].
      cbn [fst snd filter is_write_ans] in *. split; [exact IH1|]. rewrite IH2. reflexivity.
    - (* a read: the store is back in its slot; its answer is dropped *)
      cbn [ReadSlot.history].
      pose proof (serve_read_pure s r Hnp Hr) as Hs.
      pose proof (serve_read_not_write_ans (Present s) r Hr) as Ha.
      destruct (serve (Present s) r) as [sl1 a]. cbn [fst snd] in Hs, Ha. subst sl1.
      destruct (IH s Hnp) as [IH1 IH2].
      destruct (history (Present s) rest) as [sl2 az]. cbn [fst snd filter] in *.
      rewrite Ha. split; assumption.
  Qed.

  (* ... and no request of any history ever finds the slot empty: nothing wedges *)
  Theorem history_slot_present rs : forall s,
    no_panic -> exists s', fst (history (Present s) rs) = Present s'.
  Proof.
    induction rs as [|r rest IH]; intros s Hnp; [exists s; reflexivity|].
    cbn [ReadSlot.history].
    assert (H1 : exists s1, fst (serve (Present s) r) = Present s1).
    { destruct (is_write r) eqn:Hr.
      - destruct r as [w|i|calls|runs]; cbn [is_write] in Hr; try discriminate.
        cbn [serve]. destruct (wr s w) as [s' o]. exists s'. reflexivity.
      - exists s. apply serve_read_pure; assumption. }
    destruct H1 as [s1 H1]. destruct (serve (Present s) r) as [sl1 a]. cbn [fst] in H1. subst sl1.
    destruct (IH s1 Hnp) as [s' Hs']. destruct (history (Present s1) rest) as [sl2 az].
    exists s'. exact Hs'.
  Qed.

  (* the answer to a read request is a function of the store the preceding WRITES built:
     serving a read after a history equals serving it after the read-free history *)
  Theorem read_answer_independent_of_other_reads rs r s :
    no_panic ->
    snd (serve (fst (history (Present s) rs)) r)
    = snd (serve (fst (history (Present s) (filter is_write rs))) r).
  Proof. intros Hnp. rewrite (proj1 (reads_erasable rs s Hnp)). reflexivity. Qed.
End ReadSlotP.
