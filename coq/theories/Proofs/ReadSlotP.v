From Brc.Model Require Import Base ReadSlot.

Section ReadSlotP.
  Context {S J Out : Type}.
  Variable empty_journal : J.
  Variable exec : S -> J -> N -> res (Out * J).

  Definition no_panic : Prop := forall s j i, exec s j i <> Panic.

  Theorem read_contract_pure s i :
    no_panic -> fst (read_contract empty_journal exec (Present s) i) = Present s.
  Proof.
    intros Hnp. unfold read_contract. destruct (exec s empty_journal i) as [[o j]| |] eqn:E; try reflexivity.
    exfalso. apply (Hnp _ _ _ E).
  Qed.

  Lemma multi_pure s : forall calls j acc,
    no_panic -> fst (multi exec s j calls acc) = Present s.
  Proof.
    induction calls as [|i r IH]; intros j acc Hnp; cbn [multi]; [reflexivity|].
    destruct (exec s j i) as [[o j']| |] eqn:E; try reflexivity.
    - apply IH; assumption.
    - exfalso. apply (Hnp _ _ _ E).
  Qed.

  (* every prefix length, every error index: the store is back in its slot, unchanged *)
  Theorem read_contract_multi_pure s calls :
    no_panic -> fst (read_contract_multi empty_journal exec (Present s) calls) = Present s.
  Proof. intros Hnp. apply multi_pure; assumption. Qed.

  Theorem estimate_gas_pure s runs :
    no_panic -> many_reads empty_journal exec (Present s) runs = Present s.
  Proof.
    intros Hnp. induction runs as [|i r IH]; cbn [many_reads]; [reflexivity|].
    rewrite (read_contract_pure s i Hnp). exact IH.
  Qed.

  (* and the only way to leave the slot empty is a panic inside the oracle *)
  Theorem slot_taken_only_by_panic s i :
    fst (read_contract empty_journal exec (Present s) i) = Taken -> exec s empty_journal i = Panic.
  Proof.
    unfold read_contract. destruct (exec s empty_journal i) as [[o j]| |]; cbn; try discriminate. reflexivity.
  Qed.
End ReadSlotP.
